import McpModel.Order.Props
import McpModel.Order.Monitor
/-
Engine `order` — property theorems for C03 across a fan-out (one sender, several receiving peers).

C03: "… once a notifying method has returned, any notification or call the same goroutine sends afterwards
is observed by the peer after it."  For a notifying method that addresses SEVERAL sessions
(`Client.AddRoots`/`RemoveRoots`, `Server.ResourceUpdated`) this must hold for every addressed peer.

All theorems quantify over ALL addressings `t : Topo` (which pair a message travels on, which messages are
the per-session copies of which fan-out), ALL classifications `kind` and ALL label lists of the family
model `fstep` (Fan.lean).
-/
set_option linter.unusedSimpArgs false
set_option linter.unusedVariables false
namespace Order

/-! ### runs -/

theorem run_eq_runG (kind : Nat → Kind) (s : State) (ls : List Label) : run kind s ls = runG (step kind) s ls := by
  induction ls generalizing s with
  | nil => rfl
  | cons l ls ih => simp only [run, runG]; cases step kind s l <;> simp [ih]

theorem runE_eq_runG (s : State) (ls : List Label) : runE s ls = runG stepE s ls := by
  induction ls generalizing s with
  | nil => rfl
  | cons l ls ih => simp only [runE, runG]; cases stepE s l <;> simp [ih]

theorem frun_cons_some {σ : State → Label → Option State} {t : Topo} {S S' : FState} {l : FLabel} {ls : List FLabel}
    (h : frun σ t S (l :: ls) = some S') : ∃ M, fstep σ t S l = some M ∧ frun σ t M ls = some S' := by
  simp only [frun] at h
  cases hm : fstep σ t S l with
  | none => simp [hm] at h
  | some M => exact ⟨M, rfl, by simpa [hm] using h⟩

theorem frun_append (σ : State → Label → Option State) (t : Topo) (S : FState) (a b : List FLabel) :
    frun σ t S (a ++ b) = (frun σ t S a).bind fun M => frun σ t M b := by
  induction a generalizing S with
  | nil => simp [frun]
  | cons l ls ih =>
    simp only [List.cons_append, frun]
    cases fstep σ t S l with
    | none => simp
    | some S1 => simp [ih]

theorem frun_append_some {σ : State → Label → Option State} {t : Topo} {S S' : FState} {a b : List FLabel}
    (h : frun σ t S (a ++ b) = some S') : ∃ M, frun σ t S a = some M ∧ frun σ t M b = some S' := by
  induction a generalizing S with
  | nil => exact ⟨S, rfl, h⟩
  | cons l ls ih =>
    obtain ⟨M, h1, h2⟩ := frun_cons_some (by simpa using h)
    obtain ⟨M2, h3, h4⟩ := ih h2
    exact ⟨M2, by simp [frun, h1, h3], h4⟩

/-! ### the fan-out discipline does not touch the pairs -/

@[simp] theorem setPeer_peers (S : FState) (p : Nat) (s : State) (q : Nat) :
    (S.setPeer p s).peers q = if q = p then s else S.peers q := rfl
@[simp] theorem setPeer_todo (S : FState) (p : Nat) (s : State) : (S.setPeer p s).todo = S.todo := rfl
@[simp] theorem setPeer_cur (S : FState) (p : Nat) (s : State) : (S.setPeer p s).cur = S.cur := rfl
@[simp] theorem setPeer_called (S : FState) (p : Nat) (s : State) : (S.setPeer p s).called = S.called := rfl
@[simp] theorem setPeer_freturned (S : FState) (p : Nat) (s : State) : (S.setPeer p s).freturned = S.freturned := rfl
@[simp] theorem setPeer_failed (S : FState) (p : Nat) (s : State) : (S.setPeer p s).failed = S.failed := rfl
@[simp] theorem setTodo_peers (S : FState) (g : Nat) (l : List Nat) : (S.setTodo g l).peers = S.peers := rfl
@[simp] theorem setTodo_todo (S : FState) (g : Nat) (l : List Nat) (h : Nat) :
    (S.setTodo g l).todo h = if h = g then l else S.todo h := rfl
@[simp] theorem setTodo_cur (S : FState) (g : Nat) (l : List Nat) : (S.setTodo g l).cur = S.cur := rfl
@[simp] theorem setTodo_called (S : FState) (g : Nat) (l : List Nat) : (S.setTodo g l).called = S.called := rfl
@[simp] theorem setTodo_freturned (S : FState) (g : Nat) (l : List Nat) : (S.setTodo g l).freturned = S.freturned := rfl
@[simp] theorem setTodo_failed (S : FState) (g : Nat) (l : List Nat) : (S.setTodo g l).failed = S.failed := rfl
@[simp] theorem setCur_peers (S : FState) (g : Nat) (c : Option Nat) : (S.setCur g c).peers = S.peers := rfl
@[simp] theorem setCur_todo (S : FState) (g : Nat) (c : Option Nat) : (S.setCur g c).todo = S.todo := rfl
@[simp] theorem setCur_cur (S : FState) (g : Nat) (c : Option Nat) (h : Nat) :
    (S.setCur g c).cur h = if h = g then c else S.cur h := rfl
@[simp] theorem setCur_called (S : FState) (g : Nat) (c : Option Nat) : (S.setCur g c).called = S.called := rfl
@[simp] theorem setCur_freturned (S : FState) (g : Nat) (c : Option Nat) : (S.setCur g c).freturned = S.freturned := rfl
@[simp] theorem setCur_failed (S : FState) (g : Nat) (c : Option Nat) : (S.setCur g c).failed = S.failed := rfl

theorem fgate_peers {S S' : FState} {g : Nat} {l : Label} (h : fgate S g l = some S') : S'.peers = S.peers := by
  cases l <;> simp only [fgate] at h
  case send c => split at h <;> simp at h; subst h; rfl
  case ret c => split at h <;> simp at h; subst h; rfl
  case bsend ps c => simp at h
  all_goals (simp at h; subst h; rfl)

/-- A step of the family is a step of exactly one pair (for a `msg` label) or of none. -/
theorem fstep_peers {σ : State → Label → Option State} {t : Topo} {S S' : FState} {l : FLabel}
    (h : fstep σ t S l = some S') (p : Nat) :
    (∃ l0, l = .msg l0 ∧ t.pair l0.id = p ∧ σ (S.peers p) l0 = some (S'.peers p)) ∨
    ((∀ l0, l = .msg l0 → t.pair l0.id ≠ p) ∧ S'.peers p = S.peers p) := by
  cases l with
  | msg l0 =>
    simp only [fstep] at h
    cases hs : σ (S.peers (t.pair l0.id)) l0 with
    | none => simp [hs] at h
    | some s' =>
      simp only [hs] at h
      have key : S'.peers = fun q => if q = t.pair l0.id then s' else S.peers q := by
        cases hg : t.grp l0.id with
        | none => simp [hg] at h; subst h; rfl
        | some g =>
          simp only [hg, Option.map_eq_some_iff] at h
          obtain ⟨S1, h1, h2⟩ := h
          subst h2
          funext q
          simp [fgate_peers h1]
      by_cases hp : t.pair l0.id = p
      · left; refine ⟨l0, rfl, hp, ?_⟩
        subst hp; rw [hs, key]; simp
      · right; refine ⟨?_, ?_⟩
        · intro l1 e; cases e; exact hp
        · rw [key]; simp [Ne.symm hp]
  | fcall g =>
    right
    simp only [fstep] at h
    split at h <;> simp at h
    subst h
    exact ⟨(by intro l0 e; cases e), rfl⟩
  | ferr c =>
    right
    simp only [fstep] at h
    split at h
    · split at h <;> simp at h
      subst h
      exact ⟨(by intro l0 e; cases e), rfl⟩
    · simp at h
  | fret g =>
    right
    simp only [fstep] at h
    split at h <;> simp at h
    subst h
    exact ⟨(by intro l0 e; cases e), rfl⟩

/-- Projection: what pair `p` does in a run of the family is a run of the pair model. -/
theorem frun_proj {σ : State → Label → Option State} {t : Topo} {S S' : FState} {ls : List FLabel}
    (h : frun σ t S ls = some S') (p : Nat) : runG σ (S.peers p) (proj t p ls) = some (S'.peers p) := by
  induction ls generalizing S with
  | nil => simp [frun] at h; subst h; rfl
  | cons l ls ih =>
    obtain ⟨M, h1, h2⟩ := frun_cons_some h
    rcases fstep_peers h1 p with ⟨l0, e, hp, hs⟩ | ⟨hne, hs⟩
    · subst e
      simp only [proj, List.filterMap_cons, hp, if_true, runG, hs]
      exact ih h2
    · have : proj t p (l :: ls) = proj t p ls := by
        cases l with
        | msg l0 => simp [proj, hne l0 rfl]
        | _ => simp [proj]
      rw [this, ← hs]
      exact ih h2

theorem frun_proj_run {kind : Nat → Kind} {t : Topo} {S : FState} {ls : List FLabel}
    (h : frun (step kind) t finit ls = some S) (p : Nat) : run kind init (proj t p ls) = some (S.peers p) := by
  rw [run_eq_runG]; exact frun_proj h p

theorem proj_append (t : Topo) (p : Nat) (a b : List FLabel) : proj t p (a ++ b) = proj t p a ++ proj t p b := by
  simp [proj]

theorem proj_msg (t : Topo) (p : Nat) (l : Label) (ls : List FLabel) (h : t.pair l.id = p) :
    proj t p (.msg l :: ls) = l :: proj t p ls := by
  simp [proj, h]

theorem proj_fcall (t : Topo) (p g : Nat) (ls : List FLabel) : proj t p (.fcall g :: ls) = proj t p ls := by simp [proj]
theorem proj_fret (t : Topo) (p g : Nat) (ls : List FLabel) : proj t p (.fret g :: ls) = proj t p ls := by simp [proj]
theorem proj_ferr (t : Topo) (p c : Nat) (ls : List FLabel) : proj t p (.ferr c :: ls) = proj t p ls := by simp [proj]

theorem mem_of_mem_proj {t : Topo} {p : Nat} {l : Label} {ls : List FLabel} (h : l ∈ proj t p ls) : FLabel.msg l ∈ ls := by
  simp only [proj, List.mem_filterMap] at h
  obtain ⟨x, hx, hv⟩ := h
  cases x with
  | msg l0 =>
    simp at hv
    obtain ⟨_, e⟩ := hv
    subst e; exact hx
  | _ => simp at hv

/-! ### what the family needs of a pair model -/

/-- `ret i` records `i` as returned, nothing else does, and nothing forgets it. -/
structure PairOK (σ : State → Label → Option State) : Prop where
  ret_in : ∀ {s s' : State} {i : Nat}, σ s (.ret i) = some s' → i ∈ s'.returned
  ret_mono : ∀ {s s' : State} {l : Label} {i : Nat}, σ s l = some s' → i ∈ s.returned → i ∈ s'.returned
  ret_only : ∀ {s s' : State} {l : Label} {i : Nat}, σ s l = some s' → i ∈ s'.returned → i ∈ s.returned ∨ l = .ret i

theorem step_returned_only {kind : Nat → Kind} {s s' : State} {l : Label} (h : step kind s l = some s')
    {i : Nat} (hi : i ∈ s'.returned) : i ∈ s.returned ∨ l = .ret i := by
  cases l <;> simp only [step] at h
  case disp k =>
    split at h
    · split at h <;> simp at h; subst h; left; exact hi
    · simp at h
  case ret k =>
    split at h
    · simp at h
    · split at h <;> simp at h
      subst h
      simp only [List.mem_cons] at hi
      rcases hi with rfl | hi
      · right; rfl
      · left; exact hi
  all_goals (split at h <;> simp at h; subst h; left; exact hi)

theorem pairOK_step (kind : Nat → Kind) : PairOK (step kind) :=
  ⟨fun h => step_ret_returned h, fun h hi => step_returned_mono h hi, fun h hi => step_returned_only h hi⟩

theorem pairOK_stepE : PairOK stepE := by
  refine ⟨?_, ?_, ?_⟩
  · intro s s' i h
    simp only [stepE] at h
    split at h
    · simp at h
    · split at h <;> simp at h; subst h; simp
  · intro s s' l i h hi
    cases l <;> simp only [stepE] at h
    case ret k =>
      split at h
      · simp at h
      · split at h <;> simp at h; subst h; exact List.mem_cons_of_mem _ hi
    case send k => split at h <;> simp at h; subst h; exact hi
    case start k => split at h <;> simp at h; subst h; exact hi
    case cb k => split at h <;> simp at h; subst h; exact hi
    case fin k => split at h <;> simp at h; subst h; exact hi
    all_goals simp at h
  · intro s s' l i h hi
    cases l <;> simp only [stepE] at h
    case ret k =>
      split at h
      · simp at h
      · split at h <;> simp at h
        subst h
        simp only [List.mem_cons] at hi
        rcases hi with rfl | hi
        · right; rfl
        · left; exact hi
    case send k => split at h <;> simp at h; subst h; left; exact hi
    case start k => split at h <;> simp at h; subst h; left; exact hi
    case cb k => split at h <;> simp at h; subst h; left; exact hi
    case fin k => split at h <;> simp at h; subst h; left; exact hi
    all_goals simp at h

/-! ### case analysis of a step of the family -/

theorem fgate_cases {S S1 : FState} {g : Nat} {l : Label} (h : fgate S g l = some S1) :
    (∃ c, l = .send c ∧ c ∈ S.todo g ∧ S.cur g = none ∧ S1 = (S.setTodo g ((S.todo g).erase c)).setCur g (some c)) ∨
    (∃ c, l = .ret c ∧ S.cur g = some c ∧ S1 = S.setCur g none) ∨
    ((∀ c, l ≠ .send c) ∧ (∀ c, l ≠ .ret c) ∧ S1 = S) := by
  cases l <;> simp only [fgate] at h
  case send c =>
    split at h <;> simp at h
    rename_i hc
    left; exact ⟨c, rfl, hc.1, hc.2, h.symm⟩
  case ret c =>
    split at h <;> simp at h
    rename_i hc
    right; left; exact ⟨c, rfl, hc, h.symm⟩
  case bsend ps c => simp at h
  all_goals (simp at h; right; right; exact ⟨(by intro c e; cases e), (by intro c e; cases e), h.symm⟩)

theorem fstep_msg_cases {σ : State → Label → Option State} {t : Topo} {S S' : FState} {l0 : Label}
    (h : fstep σ t S (.msg l0) = some S') :
    ∃ s', σ (S.peers (t.pair l0.id)) l0 = some s' ∧
      ((t.grp l0.id = none ∧ S' = S.setPeer (t.pair l0.id) s') ∨
       (∃ g S1, t.grp l0.id = some g ∧ fgate S g l0 = some S1 ∧ S' = S1.setPeer (t.pair l0.id) s')) := by
  simp only [fstep] at h
  cases hs : σ (S.peers (t.pair l0.id)) l0 with
  | none => simp [hs] at h
  | some s' =>
    refine ⟨s', rfl, ?_⟩
    simp only [hs] at h
    cases hg : t.grp l0.id with
    | none => simp [hg] at h; left; exact ⟨rfl, h.symm⟩
    | some g =>
      simp only [hg, Option.map_eq_some_iff] at h
      obtain ⟨S1, h1, h2⟩ := h
      right; exact ⟨g, S1, rfl, h1, h2.symm⟩

/-! ### the invariant of the fan-out discipline -/

/-- `copy`: once the notifying method `g` has begun, each of its copies is still to be sent, is being
sent, has been sent (its per-session send returned) or failed.  `fret`: a method that has returned has
nothing left to send and no send under way — for good. -/
structure FInv (t : Topo) (S : FState) : Prop where
  todoCalled : ∀ g c, c ∈ S.todo g → g ∈ S.called
  curCalled : ∀ g c, S.cur g = some c → g ∈ S.called
  copy : ∀ g, g ∈ S.called → ∀ c, c ∈ t.copies g → t.grp c = some g →
    c ∈ S.todo g ∨ S.cur g = some c ∨ c ∈ (S.peers (t.pair c)).returned ∨ c ∈ S.failed
  fret : ∀ g, g ∈ S.freturned → g ∈ S.called ∧ S.todo g = [] ∧ S.cur g = none

theorem finv_init (t : Topo) : FInv t finit := by
  constructor <;> simp [finit]

theorem finv_setPeer {σ : State → Label → Option State} (hσ : PairOK σ) {t : Topo} {S : FState} (h : FInv t S)
    {p : Nat} {l : Label} {s' : State} (hs : σ (S.peers p) l = some s') : FInv t (S.setPeer p s') := by
  refine ⟨h.todoCalled, h.curCalled, ?_, h.fret⟩
  intro g hg c hc hgc
  rcases h.copy g hg c hc hgc with q | q | q | q
  · left; exact q
  · right; left; exact q
  · right; right; left
    simp only [setPeer_peers]
    split
    · rename_i e; rw [e] at q; exact hσ.ret_mono hs q
    · exact q
  · right; right; right; exact q

theorem finv_step {σ : State → Label → Option State} (hσ : PairOK σ) {t : Topo} {S S' : FState} {l : FLabel}
    (h : FInv t S) (hs : fstep σ t S l = some S') : FInv t S' := by
  cases l with
  | msg l0 =>
    obtain ⟨s', hσs, hc⟩ := fstep_msg_cases hs
    rcases hc with ⟨_, rfl⟩ | ⟨g, S1, hg, hgate, rfl⟩
    · exact finv_setPeer hσ h hσs
    · rcases fgate_cases hgate with ⟨c, rfl, hct, hcur, rfl⟩ | ⟨c, rfl, hcur, rfl⟩ | ⟨_, _, rfl⟩
      · -- the loop takes the next session
        have hgc : g ∈ S.called := h.todoCalled g c hct
        refine ⟨?_, ?_, ?_, ?_⟩
        · intro g' c' hc'
          simp only [setPeer_todo, setCur_todo, setTodo_todo] at hc'
          split at hc'
          · rename_i e; subst e; exact hgc
          · exact h.todoCalled g' c' hc'
        · intro g' c' hc'
          simp only [setPeer_cur, setCur_cur] at hc'
          split at hc'
          · rename_i e; subst e; exact hgc
          · exact h.curCalled g' c' hc'
        · intro g' hg' c' hc' hgc'
          simp only [setPeer_todo, setCur_todo, setTodo_todo, setPeer_cur, setCur_cur, setPeer_peers, setCur_peers,
            setTodo_peers, setPeer_failed, setCur_failed, setTodo_failed]
          simp only [setPeer_called, setCur_called, setTodo_called] at hg'
          rcases h.copy g' hg' c' hc' hgc' with q | q | q | q
          · by_cases e : g' = g
            · subst e
              simp only [if_true]
              by_cases e2 : c' = c
              · subst e2; right; left; rfl
              · left; exact (List.mem_erase_of_ne e2).2 q
            · simp only [e, if_false]; left; exact q
          · by_cases e : g' = g
            · subst e; rw [hcur] at q; cases q
            · simp only [e, if_false]; right; left; exact q
          · right; right; left
            split
            · rename_i e; rw [e] at q; exact hσ.ret_mono hσs q
            · exact q
          · right; right; right; exact q
        · intro g' hg'
          simp only [setPeer_freturned, setCur_freturned, setTodo_freturned] at hg'
          obtain ⟨a, b, c0⟩ := h.fret g' hg'
          have hne : g' ≠ g := by intro e; subst e; rw [b] at hct; simp at hct
          simp only [setPeer_called, setCur_called, setTodo_called, setPeer_todo, setCur_todo, setTodo_todo,
            setPeer_cur, setCur_cur, hne, if_false]
          exact ⟨a, b, c0⟩
      · -- the per-session send returns
        have hgc : g ∈ S.called := h.curCalled g c hcur
        have hret : c ∈ s'.returned := hσ.ret_in hσs
        refine ⟨?_, ?_, ?_, ?_⟩
        · intro g' c' hc'; exact h.todoCalled g' c' hc'
        · intro g' c' hc'
          simp only [setPeer_cur, setCur_cur] at hc'
          split at hc'
          · cases hc'
          · exact h.curCalled g' c' hc'
        · intro g' hg' c' hc' hgc'
          simp only [setPeer_todo, setCur_todo, setPeer_cur, setCur_cur, setPeer_peers, setCur_peers, setPeer_failed, setCur_failed]
          simp only [setPeer_called, setCur_called] at hg'
          rcases h.copy g' hg' c' hc' hgc' with q | q | q | q
          · left; exact q
          · by_cases e : g' = g
            · subst e
              rw [hcur] at q
              cases q
              right; right; left
              simp [Label.id, hret]
            · simp only [e, if_false]; right; left; exact q
          · right; right; left
            split
            · rename_i e; rw [e] at q; exact hσ.ret_mono hσs q
            · exact q
          · right; right; right; exact q
        · intro g' hg'
          simp only [setPeer_freturned, setCur_freturned] at hg'
          obtain ⟨a, b, c0⟩ := h.fret g' hg'
          have hne : g' ≠ g := by intro e; subst e; rw [c0] at hcur; cases hcur
          simp only [setPeer_called, setCur_called, setPeer_todo, setCur_todo, setPeer_cur, setCur_cur, hne, if_false]
          exact ⟨a, b, c0⟩
      · exact finv_setPeer hσ h hσs
  | fcall g =>
    simp only [fstep] at hs
    split at hs <;> simp at hs
    rename_i hn
    subst hs
    refine ⟨?_, ?_, ?_, ?_⟩
    · intro g' c' hc'
      simp only [setTodo_todo] at hc'
      simp only [List.mem_cons]
      split at hc'
      · rename_i e; left; exact e
      · right; exact h.todoCalled g' c' hc'
    · intro g' c' hc'
      simp only [List.mem_cons]
      right; exact h.curCalled g' c' hc'
    · intro g' hg' c' hc' hgc'
      simp only [List.mem_cons] at hg'
      simp only [setTodo_todo]
      by_cases e : g' = g
      · subst e; left; simp [hc']
      · simp only [e, if_false]
        rcases hg' with e2 | hg'
        · exact absurd e2 e
        · exact h.copy g' hg' c' hc' hgc'
    · intro g' hg'
      obtain ⟨a, b, c0⟩ := h.fret g' hg'
      have hne : g' ≠ g := by intro e; subst e; exact hn a
      simp only [setTodo_todo, hne, if_false, List.mem_cons]
      exact ⟨Or.inr a, b, c0⟩
  | ferr c =>
    simp only [fstep] at hs
    split at hs
    · rename_i g hg
      split at hs <;> simp at hs
      rename_i hcur
      subst hs
      refine ⟨h.todoCalled, ?_, ?_, ?_⟩
      · intro g' c' hc'
        simp only [setCur_cur] at hc'
        split at hc'
        · cases hc'
        · exact h.curCalled g' c' hc'
      · intro g' hg' c' hc' hgc'
        simp only [setCur_cur, List.mem_cons]
        rcases h.copy g' hg' c' hc' hgc' with q | q | q | q
        · left; exact q
        · by_cases e : g' = g
          · subst e; rw [hcur] at q; cases q; right; right; right; left; rfl
          · simp only [e, if_false]; right; left; exact q
        · right; right; left; exact q
        · right; right; right; right; exact q
      · intro g' hg'
        obtain ⟨a, b, c0⟩ := h.fret g' hg'
        have hne : g' ≠ g := by intro e; subst e; rw [c0] at hcur; cases hcur
        simp only [setCur_cur, hne, if_false]
        exact ⟨a, b, c0⟩
    · simp at hs
  | fret g =>
    simp only [fstep] at hs
    split at hs <;> simp at hs
    rename_i hc
    subst hs
    refine ⟨h.todoCalled, h.curCalled, h.copy, ?_⟩
    intro g' hg'
    simp only [List.mem_cons] at hg'
    rcases hg' with rfl | hg'
    · exact ⟨hc.1, hc.2.2.1, hc.2.2.2⟩
    · exact h.fret g' hg'

theorem finv_run {σ : State → Label → Option State} (hσ : PairOK σ) {t : Topo} {S S' : FState} {ls : List FLabel}
    (h : FInv t S) (hs : frun σ t S ls = some S') : FInv t S' := by
  induction ls generalizing S with
  | nil => simp [frun] at hs; subst hs; exact h
  | cons l ls ih =>
    obtain ⟨M, h1, h2⟩ := frun_cons_some hs
    exact ih (finv_step hσ h h1) h2

/-! ### history: what is recorded was done by a label of the run -/

theorem frun_returned_has_ret {σ : State → Label → Option State} (hσ : PairOK σ) {t : Topo} {S S' : FState}
    {ls : List FLabel} (h : frun σ t S ls = some S') {c : Nat} (hc : c ∈ (S'.peers (t.pair c)).returned) :
    c ∈ (S.peers (t.pair c)).returned ∨ FLabel.msg (.ret c) ∈ ls := by
  induction ls generalizing S with
  | nil => simp [frun] at h; subst h; left; exact hc
  | cons l ls ih =>
    obtain ⟨M, h1, h2⟩ := frun_cons_some h
    rcases ih h2 with q | q
    · rcases fstep_peers h1 (t.pair c) with ⟨l0, e, _, hs⟩ | ⟨_, hs⟩
      · rcases hσ.ret_only hs q with r | r
        · left; exact r
        · right; subst e; subst r; simp
      · left; rw [← hs]; exact q
    · right; exact List.mem_cons_of_mem _ q

theorem fstep_failed_only {σ : State → Label → Option State} {t : Topo} {S S' : FState} {l : FLabel}
    (h : fstep σ t S l = some S') {c : Nat} (hc : c ∈ S'.failed) : c ∈ S.failed ∨ l = .ferr c := by
  cases l with
  | msg l0 =>
    obtain ⟨s', _, hcs⟩ := fstep_msg_cases h
    rcases hcs with ⟨_, rfl⟩ | ⟨g, S1, _, hgate, rfl⟩
    · left; exact hc
    · rcases fgate_cases hgate with ⟨c', rfl, _, _, rfl⟩ | ⟨c', rfl, _, rfl⟩ | ⟨_, _, rfl⟩ <;> (left; exact hc)
  | fcall g =>
    simp only [fstep] at h
    split at h <;> simp at h
    subst h; left; exact hc
  | ferr c' =>
    simp only [fstep] at h
    split at h
    · split at h <;> simp at h
      subst h
      simp only [List.mem_cons] at hc
      rcases hc with rfl | hc
      · right; rfl
      · left; exact hc
    · simp at h
  | fret g =>
    simp only [fstep] at h
    split at h <;> simp at h
    subst h; left; exact hc

theorem frun_failed_has_ferr {σ : State → Label → Option State} {t : Topo} {S S' : FState}
    {ls : List FLabel} (h : frun σ t S ls = some S') {c : Nat} (hc : c ∈ S'.failed) :
    c ∈ S.failed ∨ FLabel.ferr c ∈ ls := by
  induction ls generalizing S with
  | nil => simp [frun] at h; subst h; left; exact hc
  | cons l ls ih =>
    obtain ⟨M, h1, h2⟩ := frun_cons_some h
    rcases ih h2 with q | q
    · rcases fstep_failed_only h1 q with r | r
      · left; exact r
      · right; subst r; simp
    · right; exact List.mem_cons_of_mem _ q

/-! ### (F1) a notifying method that addresses several sessions returns after every per-session send -/

theorem finv_fret_copy {σ : State → Label → Option State} {t : Topo} {S S' : FState} (hinv : FInv t S) {g : Nat}
    (hs : fstep σ t S (.fret g) = some S') {c : Nat} (hc : c ∈ t.copies g) (hg : t.grp c = some g) :
    c ∈ (S.peers (t.pair c)).returned ∨ c ∈ S.failed := by
  simp only [fstep] at hs
  split at hs <;> simp at hs
  rename_i hen
  rcases hinv.copy g hen.1 c hc hg with q | q | q | q
  · rw [hen.2.2.1] at q; simp at q
  · rw [hen.2.2.2] at q; cases q
  · left; exact q
  · right; exact q

/-- State form: in every reachable state in which the notifying method `g` can return, the per-session send
of each of its copies has returned (the copy is recorded as returned on its pair) or has failed. -/
theorem fanout_sends_over_when_it_returns {σ : State → Label → Option State} (hσ : PairOK σ) {t : Topo}
    {ls : List FLabel} {S S' : FState} (h : frun σ t finit ls = some S) {g : Nat}
    (hs : fstep σ t S (.fret g) = some S') {c : Nat} (hc : c ∈ t.copies g) (hg : t.grp c = some g) :
    c ∈ (S.peers (t.pair c)).returned ∨ c ∈ S.failed :=
  finv_fret_copy (finv_run hσ (finv_init t) h) hs hc hg

/-- Trace form, for ALL label lists, ALL addressings and either pair model: when the notifying method `g`
returns, the per-session send of every one of its copies has returned or failed before. -/
theorem fanout_returns_after_every_send {σ : State → Label → Option State} (hσ : PairOK σ) {t : Topo}
    {ls : List FLabel} {S : FState} {g : Nat} (h : frun σ t finit (ls ++ [.fret g]) = some S)
    {c : Nat} (hc : c ∈ t.copies g) (hg : t.grp c = some g) :
    FLabel.msg (.ret c) ∈ ls ∨ FLabel.ferr c ∈ ls := by
  obtain ⟨M, hm, hlast⟩ := frun_append_some h
  obtain ⟨M2, hstep, _⟩ := frun_cons_some hlast
  rcases fanout_sends_over_when_it_returns hσ hm hstep hc hg with q | q
  · rcases frun_returned_has_ret hσ hm q with r | r
    · simp [finit, init] at r
    · left; exact r
  · rcases frun_failed_has_ferr hm q with r | r
    · simp [finit] at r
    · right; exact r

/-- With the pair model of a session (`step kind`): when the notifying method returns, every copy whose
send did not fail is already in its receiver's FIFO. -/
theorem fanout_returns_after_every_write {kind : Nat → Kind} {t : Topo}
    {ls : List FLabel} {S : FState} {g : Nat} (h : frun (step kind) t finit (ls ++ [.fret g]) = some S)
    {c : Nat} (hc : c ∈ t.copies g) (hg : t.grp c = some g) (hn : kind c = .note) (hf : FLabel.ferr c ∉ ls) :
    FLabel.msg (.write c) ∈ ls := by
  obtain ⟨M, hm, _⟩ := frun_append_some h
  rcases fanout_returns_after_every_send (pairOK_step kind) h hc hg with q | q
  · -- split the run at the `ret c`
    obtain ⟨a, b, e⟩ := List.append_of_mem q
    subst e
    have hm' : frun (step kind) t finit ((a ++ [.msg (.ret c)]) ++ b) = some M := by simpa using hm
    obtain ⟨M1, hm1, _⟩ := frun_append_some hm'
    have hp := frun_proj_run hm1 (t.pair c)
    rw [proj_append, proj_msg t (t.pair c) (.ret c) [] rfl] at hp
    have hw := notify_returns_after_queued (by simpa [proj] using hp) hn
    have := mem_of_mem_proj hw
    simp [this]
  · exact absurd q hf

/-- The fan-out discipline is not vacuous: a method cannot return while a copy is still to be sent, and a
second send cannot begin while one is under way. -/
example :
    let t : Topo := { pair := fun i => i, grp := fun _ => some 0, copies := fun _ => [1, 2] }
    (frun (step fun _ => .note) t finit [.fcall 0, .msg (.send 1), .msg (.write 1), .msg (.ret 1), .fret 0]).isSome = false
    ∧ (frun (step fun _ => .note) t finit [.fcall 0, .msg (.send 1), .msg (.send 2)]).isSome = false
    ∧ (frun (step fun _ => .note) t finit [.fcall 0, .msg (.send 2), .msg (.write 2), .msg (.ret 2), .msg (.send 1), .ferr 1, .fret 0]).isSome = true := by
  refine ⟨?_, ?_, ?_⟩ <;> decide

/-! ### (F2) the ordering clause of C03 across a fan-out -/

theorem run_inj {kind : Nat → Kind} {s a b : State} {ls : List Label} (h1 : run kind s ls = some a)
    (h2 : run kind s ls = some b) : a = b := by rw [h1] at h2; exact Option.some.inj h2

theorem fstep_msg_pair {σ : State → Label → Option State} {t : Topo} {S S' : FState} {l0 : Label}
    (h : fstep σ t S (.msg l0) = some S') : ∃ s', σ (S.peers (t.pair l0.id)) l0 = some s' := by
  obtain ⟨s', hs, _⟩ := fstep_msg_cases h
  exact ⟨s', hs⟩

/-- For ALL label lists, ALL addressings: if the notifying method `g` has returned, and afterwards the
sending call of a message `j` for a peer to which `g` sent a copy `c` (without error) begins, then the
handler of `c` has finished when the handler of `j` starts. -/
theorem fanout_end_before_later_start {kind : Nat → Kind} {t : Topo} {l₁ l₂ l₃ : List FLabel} {g c j : Nat} {S : FState}
    (h : frun (step kind) t finit (l₁ ++ .fret g :: (l₂ ++ .msg (.send j) :: (l₃ ++ [.msg (.start j)]))) = some S)
    (hc : c ∈ t.copies g) (hg : t.grp c = some g) (hsync : (kind c).sync = true) (hp : t.pair c = t.pair j)
    (hf : FLabel.ferr c ∉ l₁) :
    FLabel.msg (.fin c) ∈ l₁ ++ .fret g :: (l₂ ++ .msg (.send j) :: l₃) := by
  have h' : frun (step kind) t finit ((l₁ ++ .fret g :: (l₂ ++ .msg (.send j) :: l₃)) ++ [.msg (.start j)]) = some S := by
    simpa [List.append_assoc] using h
  obtain ⟨M, hm, hlast⟩ := frun_append_some h'
  obtain ⟨_, hstartF, _⟩ := frun_cons_some hlast
  obtain ⟨s5, hstart⟩ := fstep_msg_pair hstartF
  -- the copy is recorded as returned on its pair when the method returns
  obtain ⟨S1, hs1, hrest⟩ := frun_append_some hm
  obtain ⟨S2, hfret, _⟩ := frun_cons_some hrest
  have hret : c ∈ (S1.peers (t.pair j)).returned := by
    rcases fanout_sends_over_when_it_returns (pairOK_step kind) hs1 hfret hc hg with q | q
    · rw [hp] at q; exact q
    · rcases frun_failed_has_ferr hs1 q with r | r
      · simp [finit] at r
      · exact absurd r hf
  -- the pair of `j`, projected
  have hpP := frun_proj_run hm (t.pair j)
  have hp1 := frun_proj_run hs1 (t.pair j)
  have e : proj t (t.pair j) (l₁ ++ .fret g :: (l₂ ++ .msg (.send j) :: l₃))
      = proj t (t.pair j) l₁ ++ (proj t (t.pair j) l₂ ++ .send j :: proj t (t.pair j) l₃) := by
    rw [proj_append, proj_fret, proj_append, proj_msg t (t.pair j) (.send j) l₃ rfl]
  rw [e] at hpP
  obtain ⟨m1, hm1, hr1⟩ := run_append_some hpP
  have : m1 = S1.peers (t.pair j) := run_inj hm1 hp1
  subst this
  obtain ⟨m2, hm2, hr2⟩ := run_append_some hr1
  obtain ⟨m3, hsend, hr3⟩ := run_cons_some hr2
  have hpred : (c, j) ∈ (M.peers (t.pair j)).pred :=
    run_pred_mono hr3 (step_send_pred hsend (run_returned_mono hm2 hret) hsync)
  have hstart' : step kind (M.peers (t.pair j)) (.start j) = some s5 := hstart
  rw [← e] at hpP
  have hd := sync_finished_when_later_starts hpP hpred hstart'
  rcases done_has_fin hpP hd with q | q
  · simp [init] at q
  · exact mem_of_mem_proj q

/-- Non-vacuity: AddRoots to two servers, then a tool call to the second. -/
example :
    let t : Topo := { pair := fun i => if i = 1 then 0 else 1, grp := fun i => if i ≤ 2 then some 0 else none, copies := fun _ => [1, 2] }
    (frun (step fun i => if i ≤ 2 then .note else .call) t finit
      [.fcall 0, .msg (.send 1), .msg (.write 1), .msg (.ret 1), .msg (.send 2), .msg (.write 2), .msg (.ret 2), .fret 0,
       .msg (.send 3), .msg (.write 3), .msg (.disp 2), .msg (.start 2), .msg (.fin 2), .msg (.disp 3), .msg (.rel 3), .msg (.start 3)]).isSome = true := by
  decide

/-- The hypothesis "the send of the copy did not fail" is needed: a copy whose send failed was never
written, so nothing orders a later message behind it. -/
example :
    let t : Topo := { pair := fun _ => 0, grp := fun i => if i = 1 then some 0 else none, copies := fun _ => [1] }
    (frun (step fun _ => .note) t finit
      [.fcall 0, .msg (.send 1), .ferr 1, .fret 0, .msg (.send 3), .msg (.write 3), .msg (.disp 3), .msg (.start 3)]).isSome = true := by
  decide

/-- A message leaves `unsent` only by its `send` / `bsend`. -/
theorem step_unsent_or_pred {kind : Nat → Kind} {s s' : State} {l : Label} (hinv : Inv kind s) (h : step kind s l = some s')
    {i j : Nat} (hu : s.phase j = .unsent) (hi : i ∈ s.returned) (hs : (kind i).sync = true) :
    s'.phase j = .unsent ∨ (i, j) ∈ s'.pred := by
  cases l <;> simp only [step] at h
  case send k =>
    split at h <;> simp at h
    subst h
    by_cases e : j = k
    · subst e; right; simp; right; exact ⟨hi, hs⟩
    · left; simp [e, hu]
  case bsend ps k =>
    split at h <;> simp at h
    subst h
    by_cases e : j = k
    · subst e; right; simp; right; left; exact ⟨hi, hs⟩
    · left; simp [e, hu]
  case write k =>
    split at h <;> simp at h
    rename_i hg; subst h
    left; simp only [setPhase_phase]; split
    · rename_i e; subst e; rw [hu] at hg; simp at hg
    · exact hu
  case ret k =>
    split at h
    · simp at h
    · split at h <;> simp at h; subst h; left; exact hu
  case disp k =>
    split at h
    · split at h <;> simp at h
      rename_i hd q hb hq e
      subst e; subst h
      have hph : s.phase hd = .queued := (hinv.qmem hd).1 (by rw [hq]; simp)
      left; simp only [setPhase_phase]; split
      · rename_i e; subst e; rw [hu] at hph; cases hph
      · exact hu
    · simp at h
  case rel k =>
    split at h <;> simp at h
    rename_i hg; subst h
    left; simp only [setPhase_phase]; split
    · rename_i e; subst e; rw [hu] at hg; simp at hg
    · exact hu
  case start k =>
    split at h <;> simp at h
    rename_i hg; subst h
    left; simp only [setPhase_phase]; split
    · rename_i e; subst e; rw [hu] at hg; simp at hg
    · exact hu
  case cb k => split at h <;> simp at h; subst h; left; exact hu
  case fin k =>
    split at h <;> simp at h
    rename_i hg; subst h
    left; simp only [setPhase_phase]; split
    · rename_i e; subst e; rw [hu] at hg; simp at hg
    · exact hu

theorem step_unsent_stays {kind : Nat → Kind} {s s' : State} {l : Label} (hinv : Inv kind s) (h : step kind s l = some s')
    {j : Nat} (hu : s.phase j = .unsent) :
    s'.phase j = .unsent ∨ l = .send j ∨ ∃ ps, l = .bsend ps j := by
  cases l <;> simp only [step] at h
  case send k =>
    split at h <;> simp at h
    subst h
    by_cases e : j = k
    · subst e; right; left; rfl
    · left; simp [e, hu]
  case bsend ps k =>
    split at h <;> simp at h
    subst h
    by_cases e : j = k
    · subst e; right; right; exact ⟨ps, rfl⟩
    · left; simp [e, hu]
  case write k =>
    split at h <;> simp at h
    rename_i hg; subst h
    left; simp only [setPhase_phase]; split
    · rename_i e; subst e; rw [hu] at hg; simp at hg
    · exact hu
  case ret k =>
    split at h
    · simp at h
    · split at h <;> simp at h; subst h; left; exact hu
  case disp k =>
    split at h
    · split at h <;> simp at h
      rename_i hd q hb hq e
      subst e; subst h
      have hph : s.phase hd = .queued := (hinv.qmem hd).1 (by rw [hq]; simp)
      left; simp only [setPhase_phase]; split
      · rename_i e; subst e; rw [hu] at hph; cases hph
      · exact hu
    · simp at h
  case rel k =>
    split at h <;> simp at h
    rename_i hg; subst h
    left; simp only [setPhase_phase]; split
    · rename_i e; subst e; rw [hu] at hg; simp at hg
    · exact hu
  case start k =>
    split at h <;> simp at h
    rename_i hg; subst h
    left; simp only [setPhase_phase]; split
    · rename_i e; subst e; rw [hu] at hg; simp at hg
    · exact hu
  case cb k => split at h <;> simp at h; subst h; left; exact hu
  case fin k =>
    split at h <;> simp at h
    rename_i hg; subst h
    left; simp only [setPhase_phase]; split
    · rename_i e; subst e; rw [hu] at hg; simp at hg
    · exact hu

theorem step_done_only_fin {kind : Nat → Kind} {s s' : State} {l : Label} (h : step kind s l = some s')
    {i : Nat} (hd : s'.phase i = .done) : s.phase i = .done ∨ l = .fin i := by
  cases l <;> simp only [step] at h
  case disp k =>
    split at h
    · split at h <;> simp at h
      subst h
      simp only [setPhase_phase] at hd
      split at hd
      · cases hd
      · left; exact hd
    · simp at h
  case ret k =>
    split at h
    · simp at h
    · split at h <;> simp at h; subst h; left; exact hd
  case cb k => split at h <;> simp at h; subst h; left; exact hd
  case fin k =>
    split at h <;> simp at h
    subst h
    simp only [setPhase_phase] at hd
    split at hd
    · rename_i e; subst e; right; rfl
    · left; exact hd
  all_goals
    split at h <;> simp at h
    subst h
    simp only [setPhase_phase] at hd
    split at hd
    · cases hd
    · left; exact hd

/-! ### invariants of the family over the session pair model -/

/-- Every pair satisfies the pair invariant, and a copy of a fan-out whose notifying method has not begun
is unsent. -/
structure FInvK (kind : Nat → Kind) (t : Topo) (S : FState) : Prop where
  pinv : ∀ p, Inv kind (S.peers p)
  unsent : ∀ c g, t.grp c = some g → g ∉ S.called → (S.peers (t.pair c)).phase c = .unsent

theorem finvK_init (kind : Nat → Kind) (t : Topo) : FInvK kind t finit :=
  ⟨fun _ => inv_init kind, fun _ _ _ _ => rfl⟩

theorem fstep_called {σ : State → Label → Option State} {t : Topo} {S S' : FState} {l : FLabel}
    (h : fstep σ t S l = some S') {g : Nat} (hg : g ∈ S.called) : g ∈ S'.called := by
  cases l with
  | msg l0 =>
    obtain ⟨s', _, hcs⟩ := fstep_msg_cases h
    rcases hcs with ⟨_, rfl⟩ | ⟨g', S1, _, hgate, rfl⟩
    · exact hg
    · rcases fgate_cases hgate with ⟨c', rfl, _, _, rfl⟩ | ⟨c', rfl, _, rfl⟩ | ⟨_, _, rfl⟩ <;> exact hg
  | fcall g' =>
    simp only [fstep] at h
    split at h <;> simp at h
    subst h; exact List.mem_cons_of_mem _ hg
  | ferr c' =>
    simp only [fstep] at h
    split at h
    · split at h <;> simp at h
      subst h; exact hg
    · simp at h
  | fret g' =>
    simp only [fstep] at h
    split at h <;> simp at h
    subst h; exact hg

theorem finvK_step {kind : Nat → Kind} {t : Topo} {S S' : FState} {l : FLabel}
    (hf : FInv t S) (h : FInvK kind t S) (hs : fstep (step kind) t S l = some S') : FInvK kind t S' := by
  constructor
  · intro p
    rcases fstep_peers hs p with ⟨l0, _, _, hp⟩ | ⟨_, hp⟩
    · exact inv_step (h.pinv p) hp
    · rw [hp]; exact h.pinv p
  · intro c g hg hn
    have hn0 : g ∉ S.called := fun x => hn (fstep_called hs x)
    have hu := h.unsent c g hg hn0
    rcases fstep_peers hs (t.pair c) with ⟨l0, e, hpair, hp⟩ | ⟨_, hp⟩
    · rcases step_unsent_stays (h.pinv _) hp hu with q | q | ⟨ps, q⟩
      · exact q
      · -- `send c` of a copy needs `c ∈ todo g`, hence `g` called
        subst e; subst q
        obtain ⟨s', _, hcs⟩ := fstep_msg_cases hs
        rcases hcs with ⟨hn1, _⟩ | ⟨g', S1, hg', hgate, _⟩
        · simp [Label.id, hg] at hn1
        · simp only [Label.id, hg, Option.some.injEq] at hg'
          subst hg'
          simp only [fgate] at hgate
          split at hgate <;> simp at hgate
          rename_i hc
          exact absurd (hf.todoCalled g c hc.1) hn0
      · subst e; subst q
        obtain ⟨s', _, hcs⟩ := fstep_msg_cases hs
        rcases hcs with ⟨hn1, _⟩ | ⟨g', S1, hg', hgate, _⟩
        · simp [Label.id, hg] at hn1
        · simp [fgate] at hgate
    · rw [hp]; exact hu

theorem finvK_run {kind : Nat → Kind} {t : Topo} {S S' : FState} {ls : List FLabel}
    (hf : FInv t S) (h : FInvK kind t S) (hs : frun (step kind) t S ls = some S') : FInvK kind t S' := by
  induction ls generalizing S with
  | nil => simp [frun] at hs; subst hs; exact h
  | cons l ls ih =>
    obtain ⟨M, h1, h2⟩ := frun_cons_some hs
    exact ih (finv_step (pairOK_step kind) hf h1) (finvK_step hf h h1) h2

theorem run_unsent_or_pred {kind : Nat → Kind} {s s' : State} {ls : List Label} (hinv : Inv kind s)
    (h : run kind s ls = some s') {i j : Nat} (hu : s.phase j = .unsent) (hi : i ∈ s.returned) (hs : (kind i).sync = true) :
    s'.phase j = .unsent ∨ (i, j) ∈ s'.pred := by
  induction ls generalizing s with
  | nil => simp [run] at h; subst h; left; exact hu
  | cons l ls ih =>
    obtain ⟨m, h1, h2⟩ := run_cons_some h
    rcases step_unsent_or_pred hinv h1 hu hi hs with q | q
    · exact ih (inv_step hinv h1) h2 q (step_returned_mono h1 hi)
    · right; exact run_pred_mono h2 q

/-- For ALL label lists, ALL addressings: the same across two fan-outs — if the notifying method `g` has
returned and afterwards the notifying method `g'` begins (a second `AddRoots`, say), then for a peer that got
the copy `c` of `g` without error the handler of `c` has finished when the handler of that peer's copy `c'`
of `g'` starts. -/
theorem fanout_end_before_later_fanout_start {kind : Nat → Kind} {t : Topo} {l₁ l₂ l₃ : List FLabel} {g g' c c' : Nat} {S : FState}
    (h : frun (step kind) t finit (l₁ ++ .fret g :: (l₂ ++ .fcall g' :: (l₃ ++ [.msg (.start c')]))) = some S)
    (hc : c ∈ t.copies g) (hg : t.grp c = some g) (hsync : (kind c).sync = true) (hp : t.pair c = t.pair c')
    (hg' : t.grp c' = some g') (hf : FLabel.ferr c ∉ l₁) :
    FLabel.msg (.fin c) ∈ l₁ ++ .fret g :: (l₂ ++ .fcall g' :: l₃) := by
  have h' : frun (step kind) t finit ((l₁ ++ .fret g :: (l₂ ++ .fcall g' :: l₃)) ++ [.msg (.start c')]) = some S := by
    simpa [List.append_assoc] using h
  obtain ⟨M, hm, hlast⟩ := frun_append_some h'
  obtain ⟨_, hstartF, _⟩ := frun_cons_some hlast
  obtain ⟨s5, hstart⟩ := fstep_msg_pair hstartF
  have hstart' : step kind (M.peers (t.pair c')) (.start c') = some s5 := hstart
  obtain ⟨S1, hs1, hrest⟩ := frun_append_some hm
  obtain ⟨S2, hfret, hrest⟩ := frun_cons_some hrest
  obtain ⟨S3, hs3, hrest⟩ := frun_append_some hrest
  obtain ⟨S4, hfcall, hs4⟩ := frun_cons_some hrest
  have hF1 := finv_run (pairOK_step kind) (finv_init t) hs1
  have hret1 : c ∈ (S1.peers (t.pair c')).returned := by
    rcases finv_fret_copy hF1 hfret hc hg with q | q
    · rw [hp] at q; exact q
    · rcases frun_failed_has_ferr hs1 q with r | r
      · simp [finit] at r
      · exact absurd r hf
  -- up to the begin of `g'`
  have hrun3 : frun (step kind) t finit (l₁ ++ .fret g :: l₂) = some S3 := by
    rw [frun_append, hs1]; simp [frun, hfret, hs3]
  have hF3 := finv_run (pairOK_step kind) (finv_init t) hrun3
  have hK3 := finvK_run (finv_init t) (finvK_init kind t) hrun3
  have hn : g' ∉ S3.called := by
    simp only [fstep] at hfcall
    split at hfcall <;> simp at hfcall
    assumption
  have hu3 : (S3.peers (t.pair c')).phase c' = .unsent := hK3.unsent c' g' hg' hn
  have hret3 : c ∈ (S3.peers (t.pair c')).returned := by
    have h2 : frun (step kind) t S1 (.fret g :: l₂) = some S3 := by simp [frun, hfret, hs3]
    have := frun_proj h2 (t.pair c')
    rw [← run_eq_runG] at this
    exact run_returned_mono this hret1
  -- from there to the start of the handler
  have h34 : frun (step kind) t S3 (.fcall g' :: l₃) = some M := by simp [frun, hfcall, hs4]
  have hp34 := frun_proj h34 (t.pair c')
  rw [← run_eq_runG] at hp34
  have hpred : (c, c') ∈ (M.peers (t.pair c')).pred := by
    rcases run_unsent_or_pred (hK3.pinv _) hp34 hu3 hret3 hsync with q | q
    · simp only [step] at hstart'
      split at hstart' <;> simp at hstart'
      rename_i hcnd
      rcases hcnd with ⟨e, _⟩ | e <;> rw [q] at e <;> cases e
    · exact q
  have hpP := frun_proj_run hm (t.pair c')
  have hd := sync_finished_when_later_starts hpP hpred hstart'
  rcases done_has_fin hpP hd with q | q
  · simp [init] at q
  · exact mem_of_mem_proj q

/-! ### the property monitor accepts every run of the family -/

/-- The monitor configuration that belongs to an addressing. -/
def Topo.cfg (kind : Nat → Kind) (t : Topo) : Cfg := { kind := kind, pair := t.pair, copies := t.copies, grp := t.grp }

def FMon.stepL (cfg : Cfg) (m : FMon) (l : FLabel) : FMon :=
  match l.vis with
  | some e => FMon.step cfg m e
  | none => m

theorem ffoldl_visible (cfg : Cfg) (m : FMon) (ls : List FLabel) :
    (fvisible ls).foldl (FMon.step cfg) m = ls.foldl (FMon.stepL cfg) m := by
  induction ls generalizing m with
  | nil => rfl
  | cons l ls ih =>
    simp only [fvisible, List.filterMap_cons, List.foldl_cons, FMon.stepL]
    cases hv : l.vis with
    | none => simp [← ih, fvisible]
    | some e => simp [← ih, fvisible]

theorem stepL_send (cfg : Cfg) (m : FMon) (j : Nat) :
    m.stepL cfg (.msg (.send j)) = { m with sentAfter := m.sentAfter ++ m.owed cfg j false } := rfl
theorem stepL_bsend (cfg : Cfg) (m : FMon) (ps : List Nat) (j : Nat) :
    m.stepL cfg (.msg (.bsend ps j)) = { m with
      sentAfter := (m.sentAfter ++ m.owed cfg j false ++ ((ps.filter fun k => cfg.obliges j k).map fun k => (k, j, Why.body))),
      bodies := (m.bodies ++ ps.map fun k => (k, j)) } := rfl
theorem stepL_ret (cfg : Cfg) (m : FMon) (i : Nat) :
    m.stepL cfg (.msg (.ret i)) = { m with returned := (i, .later) :: m.returned } := rfl
theorem stepL_fin (cfg : Cfg) (m : FMon) (i : Nat) :
    m.stepL cfg (.msg (.fin i)) = { m with finished := i :: m.finished } := rfl
theorem stepL_write (cfg : Cfg) (m : FMon) (i : Nat) : m.stepL cfg (.msg (.write i)) = m := rfl
theorem stepL_disp (cfg : Cfg) (m : FMon) (i : Nat) : m.stepL cfg (.msg (.disp i)) = m := rfl
theorem stepL_rel (cfg : Cfg) (m : FMon) (i : Nat) : m.stepL cfg (.msg (.rel i)) = m := rfl
theorem stepL_cb (cfg : Cfg) (m : FMon) (i : Nat) : m.stepL cfg (.msg (.cb i)) = m := rfl
theorem stepL_fcall (cfg : Cfg) (m : FMon) (g : Nat) :
    m.stepL cfg (.fcall g) = { m with sentAfter := m.sentAfter ++ ((cfg.copies g).filter fun c => cfg.grp c == some g).flatMap fun c => m.owed cfg c true } := rfl
theorem stepL_ferr (cfg : Cfg) (m : FMon) (c : Nat) :
    m.stepL cfg (.ferr c) = { m with failed := c :: m.failed } := rfl
theorem stepL_fret (cfg : Cfg) (m : FMon) (g : Nat) :
    m.stepL cfg (.fret g) = { m with returned := (((cfg.copies g).filter fun c => cfg.grp c == some g && !m.failed.contains c).map fun c => (c, Why.fan g)) ++ m.returned } := rfl
theorem stepL_start (cfg : Cfg) (m : FMon) (j : Nat) :
    m.stepL cfg (.msg (.start j)) = FMon.step cfg m (.msg (.beg j)) := rfl

theorem owed_mem {cfg : Cfg} {m : FMon} {j : Nat} {b : Bool} {x : Nat × Nat × Why} (h : x ∈ m.owed cfg j b) :
    ∃ r, r ∈ m.returned ∧ x = (r.1, j, r.2) ∧ (cfg.kind r.1).sync = true ∧ cfg.pair r.1 = cfg.pair j := by
  simp only [FMon.owed, List.mem_map, List.mem_filter] at h
  obtain ⟨r, ⟨hr, hc⟩, rfl⟩ := h
  simp only [Cfg.obliges, Bool.and_eq_true, beq_iff_eq] at hc
  exact ⟨r, hr, rfl, hc.1.1.1, hc.1.1.2⟩

/-- What is visible of a model run contains no `enq` event, so the queue-order clause cannot fire on it (for
the model's own counterpart of these events see `fvisibleQ` below). -/
theorem stepL_badEnq (cfg : Cfg) (m : FMon) (l : FLabel) (h : m.badEnq = none) : (m.stepL cfg l).badEnq = none := by
  cases l with
  | msg l0 =>
    cases l0 <;> try exact h
    case start j =>
      rw [stepL_start]
      simp only [FMon.step]
      split
      · exact h
      · split <;> exact h
  | fcall g => exact h
  | ferr c => exact h
  | fret g => exact h

theorem foldl_badEnq (cfg : Cfg) (m : FMon) (ls : List FLabel) (h : m.badEnq = none) :
    (ls.foldl (FMon.stepL cfg) m).badEnq = none := by
  induction ls generalizing m with
  | nil => exact h
  | cons l ls ih => exact ih _ (stepL_badEnq cfg m l h)

/-- The monitor's bookkeeping is backed by the model's ghost state. -/
structure FSim (kind : Nat → Kind) (t : Topo) (S : FState) (m : FMon) : Prop where
  ret : ∀ r, r ∈ m.returned → r.1 ∈ (S.peers (t.pair r.1)).returned
  failed : ∀ c, c ∈ S.failed → c ∈ m.failed
  pred : ∀ x, x ∈ m.sentAfter → t.pair x.1 = t.pair x.2.1 ∧ (kind x.1).sync = true ∧
    ((x.1, x.2.1) ∈ (S.peers (t.pair x.2.1)).pred ∨
      (x.1 ∈ (S.peers (t.pair x.2.1)).returned ∧ (S.peers (t.pair x.2.1)).phase x.2.1 = .unsent))
  fin : ∀ i, (S.peers (t.pair i)).phase i = .done → i ∈ m.finished
  ok : m.bad = none

theorem peers_returned_mono {kind : Nat → Kind} {t : Topo} {S S' : FState} {l : FLabel}
    (hs : fstep (step kind) t S l = some S') {q i : Nat} (hi : i ∈ (S.peers q).returned) : i ∈ (S'.peers q).returned := by
  rcases fstep_peers hs q with ⟨l0, _, _, hp⟩ | ⟨_, hp⟩
  · exact step_returned_mono hp hi
  · rw [hp]; exact hi

theorem peers_pred_mono {kind : Nat → Kind} {t : Topo} {S S' : FState} {l : FLabel}
    (hs : fstep (step kind) t S l = some S') {q : Nat} {x : Nat × Nat} (hi : x ∈ (S.peers q).pred) : x ∈ (S'.peers q).pred := by
  rcases fstep_peers hs q with ⟨l0, _, _, hp⟩ | ⟨_, hp⟩
  · exact step_pred_mono hp hi
  · rw [hp]; exact hi

/-- What a step of the model leaves of the simulation when the monitor does not move. -/
theorem fsim_frame {kind : Nat → Kind} {t : Topo} {S S' : FState} {l : FLabel} {m : FMon}
    (hK : FInvK kind t S) (hsim : FSim kind t S m) (hs : fstep (step kind) t S l = some S') :
    (∀ r, r ∈ m.returned → r.1 ∈ (S'.peers (t.pair r.1)).returned) ∧
    (∀ c, c ∈ S'.failed → c ∈ m.failed ∨ l = .ferr c) ∧
    (∀ x, x ∈ m.sentAfter → t.pair x.1 = t.pair x.2.1 ∧ (kind x.1).sync = true ∧
      ((x.1, x.2.1) ∈ (S'.peers (t.pair x.2.1)).pred ∨
        (x.1 ∈ (S'.peers (t.pair x.2.1)).returned ∧ (S'.peers (t.pair x.2.1)).phase x.2.1 = .unsent))) ∧
    (∀ i, (S'.peers (t.pair i)).phase i = .done → i ∈ m.finished ∨ l = .msg (.fin i)) := by
  refine ⟨?_, ?_, ?_, ?_⟩
  · intro r hr; exact peers_returned_mono hs (hsim.ret r hr)
  · intro c hc
    rcases fstep_failed_only hs hc with q | q
    · left; exact hsim.failed c q
    · right; exact q
  · intro x hx
    obtain ⟨h1, h2, h3⟩ := hsim.pred x hx
    refine ⟨h1, h2, ?_⟩
    rcases h3 with q | ⟨q1, q2⟩
    · left; exact peers_pred_mono hs q
    · rcases fstep_peers hs (t.pair x.2.1) with ⟨l0, _, _, hp⟩ | ⟨_, hp⟩
      · rcases step_unsent_or_pred (hK.pinv _) hp q2 q1 h2 with r | r
        · right; exact ⟨step_returned_mono hp q1, r⟩
        · left; exact r
      · right; rw [hp]; exact ⟨q1, q2⟩
  · intro i hd
    rcases fstep_peers hs (t.pair i) with ⟨l0, e, _, hp⟩ | ⟨_, hp⟩
    · rcases step_done_only_fin hp hd with r | r
      · left; exact hsim.fin i r
      · right; rw [e, r]
    · left; rw [hp] at hd; exact hsim.fin i hd

theorem fsim_step {kind : Nat → Kind} {t : Topo} {S S' : FState} {l : FLabel} {m : FMon}
    (hF : FInv t S) (hK : FInvK kind t S) (hsim : FSim kind t S m) (hs : fstep (step kind) t S l = some S') :
    FSim kind t S' (m.stepL (t.cfg kind) l) := by
  obtain ⟨fret, ffail, fpred, ffin⟩ := fsim_frame hK hsim hs
  -- the monitor did not move and the label is not `fin`/`ferr`
  have still : (∀ i, l ≠ .msg (.fin i)) → (∀ c, l ≠ .ferr c) → FSim kind t S' m := by
    intro h1 h2
    refine ⟨fret, ?_, fpred, ?_, hsim.ok⟩
    · intro c hc; rcases ffail c hc with q | q
      · exact q
      · exact absurd q (h2 c)
    · intro i hd; rcases ffin i hd with q | q
      · exact q
      · exact absurd q (h1 i)
  have nofail : (∀ c, l ≠ .ferr c) → ∀ c, c ∈ S'.failed → c ∈ m.failed := by
    intro h2 c hc; rcases ffail c hc with q | q
    · exact q
    · exact absurd q (h2 c)
  have nofin : (∀ i, l ≠ .msg (.fin i)) → ∀ i, (S'.peers (t.pair i)).phase i = .done → i ∈ m.finished := by
    intro h1 i hd; rcases ffin i hd with q | q
    · exact q
    · exact absurd q (h1 i)
  cases l with
  | msg l0 =>
    obtain ⟨s', hp⟩ := fstep_msg_pair hs
    have hp' : step kind (S.peers (t.pair l0.id)) l0 = some (S'.peers (t.pair l0.id)) := by
      rcases fstep_peers hs (t.pair l0.id) with ⟨l1, e, _, h1⟩ | ⟨h1, _⟩
      · cases e; exact h1
      · exact absurd rfl (h1 l0 rfl)
    cases l0 with
    | send j =>
      rw [stepL_send]
      refine ⟨fret, nofail (by intro c e; cases e), ?_, nofin (by intro i e; cases e), hsim.ok⟩
      intro x hx
      simp only [List.mem_append] at hx
      rcases hx with hx | hx
      · exact fpred x hx
      · obtain ⟨r, hr, rfl, hsy, hpr⟩ := owed_mem hx
        refine ⟨hpr, hsy, Or.inl ?_⟩
        have hret := hsim.ret r hr
        have hpr' : t.pair r.1 = t.pair j := hpr
        rw [hpr'] at hret
        exact step_send_pred hp' hret hsy
    | bsend ps j =>
      rw [stepL_bsend]
      refine ⟨fret, nofail (by intro c e; cases e), ?_, nofin (by intro i e; cases e), hsim.ok⟩
      intro x hx
      simp only [List.mem_append] at hx
      rcases hx with (hx | hx) | hx
      · exact fpred x hx
      · obtain ⟨r, hr, rfl, hsy, hpr⟩ := owed_mem hx
        refine ⟨hpr, hsy, Or.inl ?_⟩
        have hret := hsim.ret r hr
        have hpr' : t.pair r.1 = t.pair j := hpr
        rw [hpr'] at hret
        exact step_bsend_pred hp' (Or.inr hret) hsy
      · simp only [List.mem_map, List.mem_filter] at hx
        obtain ⟨k, ⟨hk, hc⟩, rfl⟩ := hx
        simp only [Cfg.obliges, Bool.and_eq_true, beq_iff_eq] at hc
        exact ⟨hc.1.2, hc.1.1, Or.inl (step_bsend_pred hp' (Or.inl hk) hc.1.1)⟩
    | write i => rw [stepL_write]; exact still (by intro i e; cases e) (by intro c e; cases e)
    | disp i => rw [stepL_disp]; exact still (by intro i e; cases e) (by intro c e; cases e)
    | rel i => rw [stepL_rel]; exact still (by intro i e; cases e) (by intro c e; cases e)
    | cb i => rw [stepL_cb]; exact still (by intro i e; cases e) (by intro c e; cases e)
    | ret i =>
      rw [stepL_ret]
      refine ⟨?_, nofail (by intro c e; cases e), fpred, nofin (by intro i e; cases e), hsim.ok⟩
      intro r hr
      simp only [List.mem_cons] at hr
      rcases hr with rfl | hr
      · exact step_ret_returned hp'
      · exact fret r hr
    | fin i =>
      rw [stepL_fin]
      refine ⟨fret, nofail (by intro c e; cases e), fpred, ?_, hsim.ok⟩
      intro k hd
      simp only [List.mem_cons]
      rcases ffin k hd with q | q
      · right; exact q
      · left; cases q; rfl
    | start j =>
      rw [stepL_start]
      have hfind : (m.sentAfter.find? fun p => p.2.1 == j && !m.finished.contains p.1) = none := by
        rw [List.find?_eq_none]
        intro x hx
        simp only [Bool.and_eq_true, beq_iff_eq, Bool.not_eq_true', Bool.not_eq_eq_eq_not, Bool.not_true, not_and, Bool.not_eq_false]
        intro e
        obtain ⟨h1, h2, h3⟩ := hsim.pred x hx
        rw [e] at h3 h1
        have hstart : step kind (S.peers (t.pair j)) (.start j) = some (S'.peers (t.pair j)) := hp'
        rcases h3 with q | ⟨_, q⟩
        · have hd := pred_done_at_start (hK.pinv _) q hstart
          rw [← h1] at hd
          simpa using hsim.fin x.1 hd
        · simp only [step] at hstart
          split at hstart <;> simp at hstart
          rename_i hc
          rcases hc with ⟨e2, _⟩ | e2 <;> rw [q] at e2 <;> cases e2
      have : FMon.step (t.cfg kind) m (.msg (.beg j)) = m := by
        simp only [FMon.step, hsim.ok, hfind]
      rw [this]
      exact still (by intro i e; cases e) (by intro c e; cases e)
  | fcall g =>
    rw [stepL_fcall]
    refine ⟨fret, nofail (by intro c e; cases e), ?_, nofin (by intro i e; cases e), hsim.ok⟩
    intro x hx
    simp only [List.mem_append, List.mem_flatMap, List.mem_filter] at hx
    rcases hx with hx | ⟨c, ⟨hc, hg⟩, hx⟩
    · exact fpred x hx
    · obtain ⟨r, hr, rfl, hsy, hpr⟩ := owed_mem hx
      have hg' : t.grp c = some g := by simpa [Topo.cfg] using hg
      have hn : g ∉ S.called := by
        simp only [fstep] at hs
        split at hs <;> simp at hs
        assumption
      have hpeers : S'.peers = S.peers := by
        simp only [fstep] at hs
        split at hs <;> simp at hs
        subst hs; rfl
      refine ⟨hpr, hsy, Or.inr ⟨?_, ?_⟩⟩
      · have hret := hsim.ret r hr
        have hpr' : t.pair r.1 = t.pair c := hpr
        rw [hpr'] at hret
        rw [hpeers]; exact hret
      · rw [hpeers]; exact hK.unsent c g hg' hn
  | ferr c =>
    rw [stepL_ferr]
    refine ⟨fret, ?_, fpred, nofin (by intro i e; cases e), hsim.ok⟩
    intro c' hc'
    simp only [List.mem_cons]
    rcases ffail c' hc' with q | q
    · right; exact q
    · left; cases q; rfl
  | fret g =>
    rw [stepL_fret]
    refine ⟨?_, nofail (by intro c e; cases e), fpred, nofin (by intro i e; cases e), hsim.ok⟩
    intro r hr
    simp only [List.mem_append, List.mem_map, List.mem_filter] at hr
    rcases hr with ⟨c, ⟨hc, hcond⟩, rfl⟩ | hr
    · simp only [Bool.and_eq_true, beq_iff_eq, Bool.not_eq_true', Topo.cfg] at hcond
      have hpeers : S'.peers = S.peers := by
        simp only [fstep] at hs
        split at hs <;> simp at hs
        subst hs; rfl
      rw [hpeers]
      rcases finv_fret_copy hF hs hc hcond.1 with q | q
      · exact q
      · have := hsim.failed c q
        have h2 := hcond.2
        simp at h2
        exact absurd this h2
    · exact fret r hr

theorem fsim_run {kind : Nat → Kind} {t : Topo} {S S' : FState} {ls : List FLabel} {m : FMon}
    (hF : FInv t S) (hK : FInvK kind t S) (hsim : FSim kind t S m) (hs : frun (step kind) t S ls = some S') :
    FSim kind t S' (ls.foldl (FMon.stepL (t.cfg kind)) m) := by
  induction ls generalizing S m with
  | nil => simp [frun] at hs; subst hs; exact hsim
  | cons l ls ih =>
    obtain ⟨M, h1, h2⟩ := frun_cons_some hs
    exact ih (finv_step (pairOK_step kind) hF h1) (finvK_step hF hK h1) (fsim_step hF hK hsim h1) h2

/-- Bridging theorem for the family: for ALL addressings, ALL classifications and ALL label lists that are
runs of the family model — any number of peers, any interleaving of fan-outs (each walking its session
snapshot in any order, with any of its sends failing), directed messages, transports, dispatchers and
handlers — the property monitor that is evaluated on the logs recorded from the real sessions holds on
what an observer sees of the run. -/
theorem fan_monitor_accepts_runs {kind : Nat → Kind} {t : Topo} {ls : List FLabel} {S : FState}
    (h : frun (step kind) t finit ls = some S) : fholdsOn (t.cfg kind) (fvisible ls) = true := by
  have hsim : FSim kind t finit ({} : FMon) := ⟨by simp, by simp [finit], by simp, by intro i; simp [finit, init], rfl⟩
  have := fsim_run (finv_init t) (finvK_init kind t) hsim h
  have hq := foldl_badEnq (t.cfg kind) ({} : FMon) ls rfl
  simp [fholdsOn, fmonitor, ffoldl_visible, this.ok, hq]

/-! ### stateless streamable servers: every pair is a temporary session per message (`stepE`) -/

/-- In the model of temporary sessions a sending call returns only after the handler is done. -/
def EInv (s : State) : Prop := ∀ i, i ∈ s.returned → s.phase i = .done

theorem einv_stepE {s s' : State} {l : Label} (h : EInv s) (hs : stepE s l = some s') : EInv s' := by
  intro i hi
  cases l <;> simp only [stepE] at hs
  case send k =>
    split at hs <;> simp at hs
    rename_i hu; subst hs
    simp only [setPhase_phase, setPhase_returned] at hi ⊢
    have := h i hi
    split
    · rename_i e; subst e; rw [hu] at this; cases this
    · exact this
  case start k =>
    split at hs <;> simp at hs
    rename_i hu; subst hs
    simp only [setPhase_phase, setPhase_returned] at hi ⊢
    have := h i hi
    split
    · rename_i e; subst e; rw [hu] at this; cases this
    · exact this
  case cb k => split at hs <;> simp at hs; subst hs; exact h i hi
  case fin k =>
    split at hs <;> simp at hs
    subst hs
    simp only [setPhase_phase, setPhase_returned] at hi ⊢
    split
    · rfl
    · exact h i hi
  case ret k =>
    split at hs
    · simp at hs
    · split at hs <;> simp at hs
      rename_i hd; subst hs
      simp only [List.mem_cons] at hi
      rcases hi with rfl | hi
      · exact hd
      · exact h i hi
  all_goals simp at hs

theorem stepE_done_only_fin {s s' : State} {l : Label} (h : stepE s l = some s')
    {i : Nat} (hd : s'.phase i = .done) : s.phase i = .done ∨ l = .fin i := by
  cases l <;> simp only [stepE] at h
  case send k =>
    split at h <;> simp at h
    subst h
    simp only [setPhase_phase] at hd
    split at hd
    · cases hd
    · left; exact hd
  case start k =>
    split at h <;> simp at h
    subst h
    simp only [setPhase_phase] at hd
    split at hd
    · cases hd
    · left; exact hd
  case cb k => split at h <;> simp at h; subst h; left; exact hd
  case fin k =>
    split at h <;> simp at h
    subst h
    simp only [setPhase_phase] at hd
    split at hd
    · rename_i e; subst e; right; rfl
    · left; exact hd
  case ret k =>
    split at h
    · simp at h
    · split at h <;> simp at h; subst h; left; exact hd
  all_goals simp at h

structure FSimE (t : Topo) (S : FState) (m : FMon) : Prop where
  einv : ∀ p, EInv (S.peers p)
  ret : ∀ r, r ∈ m.returned → r.1 ∈ m.finished
  failed : ∀ c, c ∈ S.failed → c ∈ m.failed
  pred : ∀ x, x ∈ m.sentAfter → x.1 ∈ m.finished
  fin : ∀ i, (S.peers (t.pair i)).phase i = .done → i ∈ m.finished
  ok : m.bad = none

theorem fsimE_step {kind : Nat → Kind} {t : Topo} {S S' : FState} {l : FLabel} {m : FMon}
    (hF : FInv t S) (hsim : FSimE t S m) (hs : fstep stepE t S l = some S') :
    FSimE t S' (m.stepL (t.cfg kind) l) := by
  have heinv : ∀ p, EInv (S'.peers p) := by
    intro p
    rcases fstep_peers hs p with ⟨l0, _, _, hp⟩ | ⟨_, hp⟩
    · exact einv_stepE (hsim.einv p) hp
    · rw [hp]; exact hsim.einv p
  have ffail : ∀ c, c ∈ S'.failed → c ∈ m.failed ∨ l = .ferr c := by
    intro c hc
    rcases fstep_failed_only hs hc with q | q
    · left; exact hsim.failed c q
    · right; exact q
  have ffin : ∀ i, (S'.peers (t.pair i)).phase i = .done → i ∈ m.finished ∨ l = .msg (.fin i) := by
    intro i hd
    rcases fstep_peers hs (t.pair i) with ⟨l0, e, _, hp⟩ | ⟨_, hp⟩
    · rcases stepE_done_only_fin hp hd with r | r
      · left; exact hsim.fin i r
      · right; rw [e, r]
    · left; rw [hp] at hd; exact hsim.fin i hd
  have nofail : (∀ c, l ≠ .ferr c) → ∀ c, c ∈ S'.failed → c ∈ m.failed := by
    intro h2 c hc; rcases ffail c hc with q | q
    · exact q
    · exact absurd q (h2 c)
  have nofin : (∀ i, l ≠ .msg (.fin i)) → ∀ i, (S'.peers (t.pair i)).phase i = .done → i ∈ m.finished := by
    intro h1 i hd; rcases ffin i hd with q | q
    · exact q
    · exact absurd q (h1 i)
  have owedFin : ∀ j b x, x ∈ m.owed (t.cfg kind) j b → x.1 ∈ m.finished := by
    intro j b x hx
    obtain ⟨r, hr, rfl, _, _⟩ := owed_mem hx
    exact hsim.ret r hr
  cases l with
  | msg l0 =>
    have hp' : stepE (S.peers (t.pair l0.id)) l0 = some (S'.peers (t.pair l0.id)) := by
      rcases fstep_peers hs (t.pair l0.id) with ⟨l1, e, _, h1⟩ | ⟨h1, _⟩
      · cases e; exact h1
      · exact absurd rfl (h1 l0 rfl)
    cases l0 with
    | send j =>
      rw [stepL_send]
      refine ⟨heinv, hsim.ret, nofail (by intro c e; cases e), ?_, nofin (by intro i e; cases e), hsim.ok⟩
      intro x hx
      simp only [List.mem_append] at hx
      rcases hx with hx | hx
      · exact hsim.pred x hx
      · exact owedFin _ _ x hx
    | bsend ps j => simp [stepE] at hp'
    | write i => simp [stepE] at hp'
    | disp i => simp [stepE] at hp'
    | rel i => simp [stepE] at hp'
    | cb i =>
      rw [stepL_cb]
      exact ⟨heinv, hsim.ret, nofail (by intro c e; cases e), hsim.pred, nofin (by intro i e; cases e), hsim.ok⟩
    | ret i =>
      rw [stepL_ret]
      refine ⟨heinv, ?_, nofail (by intro c e; cases e), hsim.pred, nofin (by intro i e; cases e), hsim.ok⟩
      intro r hr
      simp only [List.mem_cons] at hr
      rcases hr with rfl | hr
      · have hd : (S.peers (t.pair i)).phase i = .done := by
          have hp2 : stepE (S.peers (t.pair i)) (.ret i) = some (S'.peers (t.pair i)) := hp'
          simp only [stepE] at hp2
          split at hp2
          · simp at hp2
          · split at hp2 <;> simp at hp2
            assumption
        exact hsim.fin i hd
      · exact hsim.ret r hr
    | fin i =>
      rw [stepL_fin]
      refine ⟨heinv, ?_, nofail (by intro c e; cases e), ?_, ?_, hsim.ok⟩
      · intro r hr; exact List.mem_cons_of_mem _ (hsim.ret r hr)
      · intro x hx; exact List.mem_cons_of_mem _ (hsim.pred x hx)
      · intro k hd
        simp only [List.mem_cons]
        rcases ffin k hd with q | q
        · right; exact q
        · left; cases q; rfl
    | start j =>
      rw [stepL_start]
      have hfind : (m.sentAfter.find? fun p => p.2.1 == j && !m.finished.contains p.1) = none := by
        rw [List.find?_eq_none]
        intro x hx
        have := hsim.pred x hx
        simp [this]
      have : FMon.step (t.cfg kind) m (.msg (.beg j)) = m := by
        simp only [FMon.step, hsim.ok, hfind]
      rw [this]
      exact ⟨heinv, hsim.ret, nofail (by intro c e; cases e), hsim.pred, nofin (by intro i e; cases e), hsim.ok⟩
  | fcall g =>
    rw [stepL_fcall]
    refine ⟨heinv, hsim.ret, nofail (by intro c e; cases e), ?_, nofin (by intro i e; cases e), hsim.ok⟩
    intro x hx
    simp only [List.mem_append, List.mem_flatMap, List.mem_filter] at hx
    rcases hx with hx | ⟨c, _, hx⟩
    · exact hsim.pred x hx
    · exact owedFin _ _ x hx
  | ferr c =>
    rw [stepL_ferr]
    refine ⟨heinv, hsim.ret, ?_, hsim.pred, nofin (by intro i e; cases e), hsim.ok⟩
    intro c' hc'
    simp only [List.mem_cons]
    rcases ffail c' hc' with q | q
    · right; exact q
    · left; cases q; rfl
  | fret g =>
    rw [stepL_fret]
    refine ⟨heinv, ?_, nofail (by intro c e; cases e), hsim.pred, nofin (by intro i e; cases e), hsim.ok⟩
    intro r hr
    simp only [List.mem_append, List.mem_map, List.mem_filter] at hr
    rcases hr with ⟨c, ⟨hc, hcond⟩, rfl⟩ | hr
    · simp only [Bool.and_eq_true, beq_iff_eq, Bool.not_eq_true', Topo.cfg] at hcond
      rcases finv_fret_copy hF hs hc hcond.1 with q | q
      · exact hsim.fin c (hsim.einv _ c q)
      · have := hsim.failed c q
        have h2 := hcond.2
        simp at h2
        exact absurd this h2
    · exact hsim.ret r hr

theorem fsimE_run {kind : Nat → Kind} {t : Topo} {S S' : FState} {ls : List FLabel} {m : FMon}
    (hF : FInv t S) (hsim : FSimE t S m) (hs : frun stepE t S ls = some S') :
    FSimE t S' (ls.foldl (FMon.stepL (t.cfg kind)) m) := by
  induction ls generalizing S m with
  | nil => simp [frun] at hs; subst hs; exact hsim
  | cons l ls ih =>
    obtain ⟨M, h1, h2⟩ := frun_cons_some hs
    exact ih (finv_step pairOK_stepE hF h1) (fsimE_step hF hsim h1) h2

/-- One client, several STATELESS streamable servers (every pair a temporary session per POST, answered only
after the message was handled): for ALL addressings, whatever the kinds, and ALL label lists that are runs of
the family over `stepE`, the property monitor holds. -/
theorem fan_monitor_accepts_ephemeral_runs (kind : Nat → Kind) {t : Topo} {ls : List FLabel} {S : FState}
    (h : frun stepE t finit ls = some S) : fholdsOn (t.cfg kind) (fvisible ls) = true := by
  have hsim : FSimE t finit ({} : FMon) :=
    ⟨by intro p i hi; simp [finit, init] at hi, by simp, by simp [finit], by simp, by intro i; simp [finit, init], rfl⟩
  have := fsimE_run (kind := kind) (finv_init t) hsim h
  have hq := foldl_badEnq (t.cfg kind) ({} : FMon) ls rfl
  simp [fholdsOn, fmonitor, ffoldl_visible, this.ok, hq]

/-! ### one pair alone -/

/-- The addressing of a single pair without fan-outs. -/
def Topo.single : Topo := { pair := fun _ => 0, grp := fun _ => none, copies := fun _ => [] }

theorem frun_of_runG {σ : State → Label → Option State} {s s' : State} {ls : List Label} (S : FState)
    (hS : S.peers 0 = s) (h : runG σ s ls = some s') :
    ∃ S', frun σ Topo.single S (ls.map .msg) = some S' ∧ S'.peers 0 = s' := by
  induction ls generalizing s S with
  | nil => simp only [runG, Option.some.injEq] at h; subst h; exact ⟨S, rfl, hS⟩
  | cons l ls ih =>
    simp only [runG] at h
    cases h1 : σ s l with
    | none => simp [h1] at h
    | some s1 =>
      simp only [h1] at h
      obtain ⟨S', h2, h3⟩ := ih (S.setPeer 0 s1) (by simp) h
      refine ⟨S', ?_, h3⟩
      simp only [List.map_cons, frun, fstep, Topo.single, hS, h1]
      exact h2

theorem fvisible_map_msg (ls : List Label) : fvisible (ls.map .msg) = (visible ls).map .msg := by
  induction ls with
  | nil => rfl
  | cons l ls ih =>
    simp only [List.map_cons, fvisible, List.filterMap_cons, visible] at ih ⊢
    cases hv : l.vis with
    | none => simp [FLabel.vis, hv, ih]
    | some e => simp [FLabel.vis, hv, ih]

/-- The monitor of one pair (what the driver evaluates per direction on a case with one client and one
server): it accepts what an observer sees of every run of the pair model. -/
theorem pair_monitor_accepts_runs {kind : Nat → Kind} {ls : List Label} {s : State}
    (h : run kind init ls = some s) : fholdsOn (Topo.single.cfg kind) ((visible ls).map .msg) = true := by
  rw [run_eq_runG] at h
  obtain ⟨S', h2, _⟩ := frun_of_runG finit rfl h
  rw [← fvisible_map_msg]
  exact fan_monitor_accepts_runs h2

/-- …and of every run of the model of temporary sessions (stateless streamable server). -/
theorem pair_monitor_accepts_ephemeral_runs (kind : Nat → Kind) {ls : List Label} {s : State}
    (h : runE init ls = some s) : fholdsOn (Topo.single.cfg kind) ((visible ls).map .msg) = true := by
  rw [runE_eq_runG] at h
  obtain ⟨S', h2, _⟩ := frun_of_runG finit rfl h
  rw [← fvisible_map_msg]
  exact fan_monitor_accepts_ephemeral_runs kind h2

/-! ### the monitor is not vacuous across a fan-out -/

/-- The log of the seeded change C03-m10 (the notifying method returns before its per-session sends are
over; the send to peer 1 is slow; the same goroutine then sends a tool call to peer 1, which is handled
first): rejected by the monitor, and not a run of the fan-out discipline. -/
theorem detached_fanout_breaks_order :
    let cfg : Cfg := { kind := fun i => if i ≤ 2 then .note else .call, pair := fun i => if i = 1 then 0 else 1,
                       copies := fun _ => [1, 2], grp := fun i => if i ≤ 2 then some 0 else none }
    let t : Topo := { pair := cfg.pair, grp := cfg.grp, copies := cfg.copies }
    let log : List FEv := [.fcall 0, .fret 0, .msg (.snd 3), .msg (.snd 1), .msg (.snd 2), .msg (.ret 1), .msg (.beg 1), .msg (.fin 1),
                           .msg (.beg 3), .msg (.fin 3), .msg (.ret 3), .msg (.ret 2), .msg (.beg 2), .msg (.fin 2)]
    orderClause cfg log = some (.fanout 0 2 3) ∧ fanDiscipline t log = false := by
  refine ⟨?_, ?_⟩ <;> decide

/-- The same messages with the fan-out sequential: accepted. -/
example :
    let cfg : Cfg := { kind := fun i => if i ≤ 2 then .note else .call, pair := fun i => if i = 1 then 0 else 1,
                       copies := fun _ => [1, 2], grp := fun i => if i ≤ 2 then some 0 else none }
    orderClause cfg [.fcall 0, .msg (.snd 1), .msg (.ret 1), .msg (.snd 2), .msg (.beg 1), .msg (.fin 1), .msg (.ret 2), .fret 0,
                     .msg (.snd 3), .msg (.beg 2), .msg (.fin 2), .msg (.beg 3), .msg (.fin 3), .msg (.ret 3)] = none := by
  decide

/-- A later fan-out is judged by the begin of ITS notifying method: the copy for peer 1 of the second
AddRoots must not be handled before the copy for peer 1 of the first. -/
example :
    let cfg : Cfg := { kind := fun _ => .note, pair := fun i => i % 2,
                       copies := fun g => if g = 0 then [0, 1] else [2, 3], grp := fun i => if i ≤ 1 then some 0 else some 1 }
    orderClause cfg [.fcall 0, .fret 0, .fcall 1, .fret 1, .msg (.snd 3), .msg (.ret 3), .msg (.beg 3)] = some (.fanout 0 1 3) := by
  decide

/-! ### the order of entering the handler queue, on the model

The model has one FIFO between `write` and `disp`; the order in which the messages of a pair pass through it is
the order of its `disp` labels.  Showing every `disp i` to the monitor as `enq i` (`fvisibleQ`), the monitor —
both its handler-order clauses and the queue-order clause — accepts every run of the family. -/

def FLabel.visQ : FLabel → Option FEv
  | .msg (.disp i) => some (.enq i)
  | l => l.vis

def fvisibleQ (ls : List FLabel) : List FEv := ls.filterMap FLabel.visQ

def FMon.stepQ (cfg : Cfg) (m : FMon) (l : FLabel) : FMon :=
  match l.visQ with
  | some e => FMon.step cfg m e
  | none => m

theorem ffoldl_visibleQ (cfg : Cfg) (m : FMon) (ls : List FLabel) :
    (fvisibleQ ls).foldl (FMon.step cfg) m = ls.foldl (FMon.stepQ cfg) m := by
  induction ls generalizing m with
  | nil => rfl
  | cons l ls ih =>
    simp only [fvisibleQ, List.filterMap_cons, List.foldl_cons, FMon.stepQ]
    cases hv : l.visQ with
    | none => simp [← ih, fvisibleQ]
    | some e => simp [← ih, fvisibleQ]

theorem stepQ_of_not_disp (cfg : Cfg) (m : FMon) (l : FLabel) (h : ∀ i, l ≠ .msg (.disp i)) :
    m.stepQ cfg l = m.stepL cfg l := by
  cases l with
  | msg l0 =>
    cases l0 <;> first | rfl | exact absurd rfl (h _)
  | fcall g => rfl
  | ferr c => rfl
  | fret g => rfl

/-- `i` has left the queue of its pair. -/
def Beyond (s : State) (i : Nat) : Prop := s.phase i ≠ .unsent ∧ s.phase i ≠ .sending ∧ s.phase i ≠ .queued

theorem step_beyond_only_disp {kind : Nat → Kind} {s s' : State} {l : Label} (h : step kind s l = some s')
    {i : Nat} (hb : Beyond s' i) : Beyond s i ∨ l = .disp i := by
  rcases beyond_has_disp (kind := kind) (s := s) (s' := s') (ls := [l]) (by simp [run, h]) hb with q | q
  · left; exact q
  · right; simp only [List.mem_singleton] at q; exact q.symm

theorem stepL_enqd (cfg : Cfg) (m : FMon) (l : FLabel) : (m.stepL cfg l).enqd = m.enqd := by
  cases l with
  | msg l0 =>
    cases l0 <;> try rfl
    case start j =>
      rw [stepL_start]
      simp only [FMon.step]
      split
      · rfl
      · split <;> rfl
  | fcall g => rfl
  | ferr c => rfl
  | fret g => rfl

theorem stepL_bodies (cfg : Cfg) (m : FMon) (l : FLabel) :
    (m.stepL cfg l).bodies = m.bodies ∨ ∃ ps j, l = .msg (.bsend ps j) ∧ (m.stepL cfg l).bodies = m.bodies ++ ps.map fun k => (k, j) := by
  cases l with
  | msg l0 =>
    cases l0 <;> try (left; rfl)
    case bsend ps j => right; exact ⟨ps, j, rfl, rfl⟩
    case start j =>
      left
      rw [stepL_start]
      simp only [FMon.step]
      split
      · rfl
      · split <;> rfl
  | fcall g => left; rfl
  | ferr c => left; rfl
  | fret g => left; rfl

structure QSim (t : Topo) (S : FState) (m : FMon) : Prop where
  binv : ∀ p, BInv (S.peers p)
  enq : ∀ p i, Beyond (S.peers p) i → i ∈ m.enqd
  bodies : ∀ x, x ∈ m.bodies → (x.1, x.2) ∈ (S.peers (t.pair x.2)).after
  ok : m.badEnq = none

theorem qsim_step {kind : Nat → Kind} {t : Topo} {S S' : FState} {l : FLabel} {m : FMon}
    (hK : FInvK kind t S) (hq : QSim t S m) (hs : fstep (step kind) t S l = some S') :
    QSim t S' (m.stepQ (t.cfg kind) l) := by
  have hbinv : ∀ p, BInv (S'.peers p) := by
    intro p
    rcases fstep_peers hs p with ⟨l0, _, _, hp⟩ | ⟨_, hp⟩
    · exact binv_step (hK.pinv p) (hq.binv p) hp
    · rw [hp]; exact hq.binv p
  by_cases hd : ∃ j, l = .msg (.disp j)
  · obtain ⟨j, rfl⟩ := hd
    -- the model dispatches `j`: the monitor sees `enq j`
    have hp : step kind (S.peers (t.pair j)) (.disp j) = some (S'.peers (t.pair j)) := by
      rcases fstep_peers hs (t.pair j) with ⟨l1, e, _, h1⟩ | ⟨h1, _⟩
      · cases e; exact h1
      · exact absurd rfl (h1 (.disp j) rfl)
    have hinv := hK.pinv (t.pair j)
    have hb := hq.binv (t.pair j)
    -- `j` is the head of the queue
    have hhead : ∃ q, (S.peers (t.pair j)).queue = j :: q := by
      simp only [step] at hp
      split at hp
      · rename_i hd q _ hqueue
        split at hp <;> simp at hp
        rename_i e; subst e
        exact ⟨q, hqueue⟩
      · simp at hp
    obtain ⟨q, hqueue⟩ := hhead
    have hnd : j ∉ q := by have := hinv.qnodup; rw [hqueue] at this; exact (List.nodup_cons.1 this).1
    have hph : (S.peers (t.pair j)).phase j = .queued := (hinv.qmem j).1 (by rw [hqueue]; simp)
    have hfind : (m.bodies.find? fun p => p.2 == j && !m.enqd.contains p.1) = none := by
      rw [List.find?_eq_none]
      intro x hx
      simp only [Bool.and_eq_true, beq_iff_eq, Bool.not_eq_true', List.contains_eq_mem, decide_eq_false_iff_not, not_and, Decidable.not_not]
      intro e
      have haft := hq.bodies x hx
      rw [e] at haft
      obtain ⟨h1, h2⟩ := hb.ord x.1 j haft (by simp [hph]) (by simp [hph])
      apply hq.enq (t.pair j) x.1
      refine ⟨h1.1, h1.2, ?_⟩
      intro hq1
      have := h2 hph hq1
      rw [hqueue] at this
      exact (ahead_cons this hnd).1 rfl
    have hstep : m.stepQ (t.cfg kind) (.msg (.disp j)) = { m with enqd := j :: m.enqd } := by
      simp only [FMon.stepQ, FLabel.visQ, FMon.step, hq.ok, hfind]
    rw [hstep]
    refine ⟨hbinv, ?_, ?_, hq.ok⟩
    · intro p i hbe
      simp only [List.mem_cons]
      rcases fstep_peers hs p with ⟨l1, e, _, h1⟩ | ⟨_, h1⟩
      · cases e
        rcases step_beyond_only_disp h1 hbe with r | r
        · right; exact hq.enq p i r
        · left; cases r; rfl
      · right; rw [h1] at hbe; exact hq.enq p i hbe
    · intro x hx
      have := hq.bodies x hx
      rcases fstep_peers hs (t.pair x.2) with ⟨l1, _, _, h1⟩ | ⟨_, h1⟩
      · exact step_after_mono h1 this
      · rw [h1]; exact this
  · have hnd : ∀ i, l ≠ .msg (.disp i) := fun i e => hd ⟨i, e⟩
    rw [stepQ_of_not_disp _ _ _ hnd]
    refine ⟨hbinv, ?_, ?_, stepL_badEnq _ _ _ hq.ok⟩
    · intro p i hbe
      rw [stepL_enqd]
      rcases fstep_peers hs p with ⟨l1, e, _, h1⟩ | ⟨_, h1⟩
      · rcases step_beyond_only_disp h1 hbe with r | r
        · exact hq.enq p i r
        · subst e; subst r; exact absurd rfl (hnd i)
      · rw [h1] at hbe; exact hq.enq p i hbe
    · intro x hx
      have mono : ∀ y : Nat × Nat, (y.1, y.2) ∈ (S.peers (t.pair y.2)).after → (y.1, y.2) ∈ (S'.peers (t.pair y.2)).after := by
        intro y hy
        rcases fstep_peers hs (t.pair y.2) with ⟨l1, _, _, h1⟩ | ⟨_, h1⟩
        · exact step_after_mono h1 hy
        · rw [h1]; exact hy
      rcases stepL_bodies (t.cfg kind) m l with e | ⟨ps, j, rfl, e⟩
      · rw [e] at hx; exact mono x (hq.bodies x hx)
      · rw [e] at hx
        simp only [List.mem_append, List.mem_map] at hx
        rcases hx with hx | ⟨k, hk, rfl⟩
        · exact mono x (hq.bodies x hx)
        · have hp : step kind (S.peers (t.pair j)) (.bsend ps j) = some (S'.peers (t.pair j)) := by
            rcases fstep_peers hs (t.pair j) with ⟨l1, e1, _, h1⟩ | ⟨h1, _⟩
            · cases e1; exact h1
            · exact absurd rfl (h1 (.bsend ps j) rfl)
          exact step_bsend_after hp hk

/-- `FSim` does not look at the queue-order bookkeeping. -/
theorem fsim_congr {kind : Nat → Kind} {t : Topo} {S : FState} {m m' : FMon} (h : FSim kind t S m)
    (h1 : m'.returned = m.returned) (h2 : m'.failed = m.failed) (h3 : m'.sentAfter = m.sentAfter)
    (h4 : m'.finished = m.finished) (h5 : m'.bad = m.bad) : FSim kind t S m' :=
  ⟨by rw [h1]; exact h.ret, by rw [h2]; exact h.failed, by rw [h3]; exact h.pred, by rw [h4]; exact h.fin, by rw [h5]; exact h.ok⟩

theorem fsim_stepQ {kind : Nat → Kind} {t : Topo} {S S' : FState} {l : FLabel} {m : FMon}
    (hF : FInv t S) (hK : FInvK kind t S) (hsim : FSim kind t S m) (hs : fstep (step kind) t S l = some S') :
    FSim kind t S' (m.stepQ (t.cfg kind) l) := by
  have h := fsim_step hF hK hsim hs
  by_cases hd : ∃ j, l = .msg (.disp j)
  · obtain ⟨j, rfl⟩ := hd
    rw [stepL_disp] at h
    apply fsim_congr h <;>
    · simp only [FMon.stepQ, FLabel.visQ, FMon.step]
      split
      · rfl
      · split <;> rfl
  · rw [stepQ_of_not_disp _ _ _ (fun i e => hd ⟨i, e⟩)]; exact h

theorem qsim_run {kind : Nat → Kind} {t : Topo} {S S' : FState} {ls : List FLabel} {m : FMon}
    (hF : FInv t S) (hK : FInvK kind t S) (hsim : FSim kind t S m) (hq : QSim t S m) (hs : frun (step kind) t S ls = some S') :
    FSim kind t S' (ls.foldl (FMon.stepQ (t.cfg kind)) m) ∧ QSim t S' (ls.foldl (FMon.stepQ (t.cfg kind)) m) := by
  induction ls generalizing S m with
  | nil => simp [frun] at hs; subst hs; exact ⟨hsim, hq⟩
  | cons l ls ih =>
    obtain ⟨M, h1, h2⟩ := frun_cons_some hs
    exact ih (finv_step (pairOK_step kind) hF h1) (finvK_step hF hK h1) (fsim_stepQ hF hK hsim h1) (qsim_step hK hq h1) h2

/-- Bridging theorem with the queue order: for ALL addressings, classifications and label lists that are runs
of the family, the monitor — handler-order clauses AND the clause on the order of entering the handler queue —
accepts the run's visible part with every `disp i` shown as `enq i`. -/
theorem fan_monitor_accepts_runs_with_queue_order {kind : Nat → Kind} {t : Topo} {ls : List FLabel} {S : FState}
    (h : frun (step kind) t finit ls = some S) : fholdsOn (t.cfg kind) (fvisibleQ ls) = true := by
  have hsim : FSim kind t finit ({} : FMon) := ⟨by simp, by simp [finit], by simp, by intro i; simp [finit, init], rfl⟩
  have hq : QSim t finit ({} : FMon) :=
    ⟨fun _ => binv_init, by intro p i hb; simp [Beyond, finit, init] at hb, by simp, rfl⟩
  obtain ⟨h1, h2⟩ := qsim_run (finv_init t) (finvK_init kind t) hsim hq h
  simp [fholdsOn, fmonitor, ffoldl_visibleQ, h1.ok, h2.ok]

/-- The clause is not vacuous: the log of C03-m11 — body `[call 0, notification 1]`, the notification entering
the queue first — is rejected; in body order it is accepted. -/
theorem body_overtaken_breaks_order :
    let cfg : Cfg := { kind := fun i => if i = 0 then .call else .note, pair := fun _ => 0, copies := fun _ => [], grp := fun _ => none }
    orderClause cfg [.msg (.snd 0), .msg (.bsnd [0] 1), .enq 1, .msg (.beg 1), .msg (.fin 1), .enq 0, .msg (.beg 0), .msg (.fin 0)]
      = some (.bodyDispatch 0 1)
    ∧ orderClause cfg [.msg (.snd 0), .msg (.bsnd [0] 1), .enq 0, .enq 1, .msg (.beg 1), .msg (.beg 0), .msg (.fin 0), .msg (.fin 1)] = none := by
  constructor <;> decide

end Order
