import McpModel.Order.Fan
/-!
Engine `order` — the typed core of the C03 monitor (end-to-end half).

The driver (Driver.lean) parses the records of one case into typed observations — per message a `Rec`
(was its sending call seen, did it return without error, did the peer's handler start / end, how often did
it start) and the case's global event log as a `List FEv` (the harness's log, re-assembled in the order of
its sequence numbers) — calls `recClause` per message and `orderClause` on the log, and renders the
`Clause` (`Clause.text`, Driver.lean).  Everything that decides WHICH clause of C03 is violated lives here
on typed data, so that FanProps.lean (no alarm on any run of the model: `fan_monitor_accepts_runs`,
`fan_monitor_accepts_ephemeral_runs`) and Sound.lean (a clause fires only if the property clause, stated on
the observed log alone, fails) can reason about it.  The string layer stays in Driver.lean.

The monitor is written from the property text; it never consults `step`.  It applies per (sender,
receiving peer, direction) pair — `Cfg.pair` — also across a fan-out: when a notifying method that
addresses several sessions (`fret g`) has returned, each of its per-session copies `c` whose send did not
fail counts as returned on the pair of `c`, and whatever is sent on that pair afterwards must find the
handler of `c` finished when its own handler starts.  Core Lean only (linked into the driver).
-/
namespace Order

/-- Why the handler of `i` must have finished before the handler of `j` starts. -/
inductive Why where
  | later            -- the call that sent `i` had returned before `j` was sent
  | body             -- `i` stands before `j` in the body (JSON-RPC batch) that carried both
  | fan (g : Nat)    -- `i` is a per-session copy of the fan-out `g`, whose notifying method had returned before `j` was sent
deriving DecidableEq, Repr

structure Cfg where
  kind : Nat → Kind
  /-- the (direction, receiving peer) pair a message travels on -/
  pair : Nat → Nat
  /-- the per-session copies of a fan-out -/
  copies : Nat → List Nat
  /-- the fan-out a message is a per-session copy of -/
  grp : Nat → Option Nat

structure FMon where
  returned : List (Nat × Why) := []
  failed : List Nat := []
  finished : List Nat := []
  sentAfter : List (Nat × Nat × Why) := []
  bad : Option (Nat × Nat × Why) := none
  /-- messages that have entered their receiver's handler queue -/
  enqd : List Nat := []
  /-- (i, j): `i` stands before `j` in one body (any kinds) -/
  bodies : List (Nat × Nat) := []
  /-- first (i, j) with `j` entering the handler queue before `i` although `i` stands before `j` in their body -/
  badEnq : Option (Nat × Nat) := none

/-- Is `k` a synchronous message on the pair of `j`, other than `j` itself? -/
def Cfg.obliges (cfg : Cfg) (j : Nat) (k : Nat) : Bool := (cfg.kind k).sync && cfg.pair k == cfg.pair j && k != j

def Why.isLater : Why → Bool
  | .later => true
  | _ => false

/-- The returned messages that oblige `j` when `j` is sent.  An obligation that stems from a notifying
method (`fan g`) is judged at the level of the API: for a directed message against the begin of its sending
call, for a per-session copy of a fan-out against the begin of ITS notifying method (`fcall`), not against
the send the method makes internally.  Obligations between sends (`later`) are judged send against send. -/
def FMon.owed (cfg : Cfg) (m : FMon) (j : Nat) (atApi : Bool) : List (Nat × Nat × Why) :=
  (m.returned.filter fun r => cfg.obliges j r.1 && (r.2.isLater != atApi || (cfg.grp j).isNone)).map fun r => (r.1, j, r.2)

/-- C03 on a log: when the handler of `j` starts, the handler of every notification (or `initialize`) of
the same pair whose sending call — or the notifying method it is a copy of — had returned before `j` was
sent, or which stands before `j` in the body that carried both, has finished. -/
def FMon.step (cfg : Cfg) (m : FMon) : FEv → FMon
  | .msg (.snd j) => { m with sentAfter := m.sentAfter ++ m.owed cfg j false }
  | .msg (.bsnd ps j) =>
    { m with sentAfter := m.sentAfter ++ m.owed cfg j false
                            ++ ((ps.filter fun k => cfg.obliges j k).map fun k => (k, j, Why.body)),
             bodies := m.bodies ++ ps.map fun k => (k, j) }
  | .msg (.ret i) => { m with returned := (i, .later) :: m.returned }
  | .msg (.beg j) =>
    match m.bad with
    | some _ => m
    | none =>
      match m.sentAfter.find? fun p => p.2.1 == j && !m.finished.contains p.1 with
      | some p => { m with bad := some p }
      | none => m
  | .msg (.fin i) => { m with finished := i :: m.finished }
  | .enq j =>
    -- "dispatched to handlers in the order they were sent": a member of a body enters the queue after the members before it
    match m.badEnq with
    | some _ => { m with enqd := j :: m.enqd }
    | none =>
      match m.bodies.find? fun p => p.2 == j && !m.enqd.contains p.1 with
      | some p => { m with enqd := j :: m.enqd, badEnq := some p }
      | none => { m with enqd := j :: m.enqd }
  | .fcall g => { m with sentAfter := m.sentAfter ++ ((cfg.copies g).filter fun c => cfg.grp c == some g).flatMap fun c => m.owed cfg c true }
  | .ferr c => { m with failed := c :: m.failed }
  | .fret g =>
    { m with returned := (((cfg.copies g).filter fun c => cfg.grp c == some g && !m.failed.contains c).map fun c => (c, Why.fan g)) ++ m.returned }

def fmonitor (cfg : Cfg) (evs : List FEv) : FMon := evs.foldl (FMon.step cfg) {}

def fholdsOn (cfg : Cfg) (evs : List FEv) : Bool := (fmonitor cfg evs).bad.isNone && (fmonitor cfg evs).badEnq.isNone

/-! ### Per message -/

/-- What the case's records say about one message. -/
structure Rec where
  id : Nat
  /-- the sending call was seen to begin -/
  sent : Bool
  /-- the sending call returned without error -/
  acked : Bool
  /-- the peer's handler was seen to start / to end -/
  began : Bool
  ended : Bool
  /-- how often the peer's handler started -/
  runs : Nat
  /-- a notification from the client to a stateless streamable server (classifies F14) -/
  statelessNote : Bool := false

inductive Clause where
  | ranTwice (i n : Nat)
  | neverSent (i : Nat)
  | f14NotDispatched (i : Nat)
  | notHandled (i : Nat)
  | sameBody (i j : Nat)
  | bodyDispatch (i j : Nat)
  | laterSend (i j : Nat)
  | fanout (g i j : Nat)
deriving DecidableEq, Repr

/-- Per-record monitor: a message is handled at most once, only if it was sent, and — judged at
quiescence — to completion if its sending call returned without error. -/
def recClause (r : Rec) : Option Clause :=
  if r.runs > 1 then some (.ranTwice r.id r.runs)
  else if r.began ∧ ¬ r.sent then some (.neverSent r.id)
  else if r.acked ∧ (¬ r.began ∨ ¬ r.ended) then
    if r.statelessNote then some (.f14NotDispatched r.id) else some (.notHandled r.id)
  else none

def clauseOf : Nat × Nat × Why → Clause
  | (i, j, .later) => .laterSend i j
  | (i, j, .body) => .sameBody i j
  | (i, j, .fan g) => .fanout g i j

/-- The ordering clause on the case's event log: handler order first, then the order of entering the queue. -/
def orderClause (cfg : Cfg) (evs : List FEv) : Option Clause :=
  match (fmonitor cfg evs).bad with
  | some x => some (clauseOf x)
  | none => (fmonitor cfg evs).badEnq.map fun p => .bodyDispatch p.1 p.2

end Order
