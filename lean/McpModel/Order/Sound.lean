import McpModel.Order.Monitor
/-!
# Clause soundness of the C03 monitor (engine `order`)

For every clause the monitor can report (`Clause`) the corresponding clause of the property is stated as a
predicate `P_…` on what was OBSERVED — the case's event log `tr : List FEv` (the harness's global log:
sending calls begin / return, handlers start / end, notifying methods that address several sessions begin /
return, per-session sends fail; positions in the list are the order of observation) resp. the per-message
records `List Rec` — written from the property text with quantifiers over messages and positions; no monitor
state, no model.  `sound_<clause>`: whenever the monitor reports the clause, the predicate fails.
`monitor_sound` / `rec_sound` package them.

C03: "Messages from one peer are dispatched to handlers in the order they were sent.  The handler of a
notification (and of initialize) finishes before the handler of any later message from that peer starts, so
once a notifying method has returned, any notification or call the same goroutine sends afterwards is
observed by the peer after it.  Ordinary calls, by contrast, may run concurrently …"

Vocabulary.  `cfg.kind i` classifies message `i` (`sync`: notification or `initialize`), `cfg.pair i` is
the (direction, receiving peer) pair it travels on, `cfg.copies g` / `cfg.grp` say which messages are the
per-session copies of the notifying method `g`.  "Later" is read as the engine states it: the earlier
sending call had returned before the later one began, in the order of observation.
-/
set_option linter.unusedSimpArgs false
set_option linter.unusedVariables false
namespace Order

abbrev Log := List FEv

/-- The sending call of `j` begins at position `b` (alone, or as a member of a body). -/
def SentAt (tr : Log) (j b : Nat) : Prop :=
  tr[b]? = some (.msg (.snd j)) ∨ ∃ ps, tr[b]? = some (.msg (.bsnd ps j))

/-- The handler of `i` has ended before position `c`. -/
def FinBefore (tr : Log) (i c : Nat) : Prop := ∃ d, d < c ∧ tr[d]? = some (.msg (.fin i))

/-- At position `a` the notifying method `g` returns, `i` is one of its per-session copies, and the send of
that copy has not failed. -/
def FanReturnedAt (cfg : Cfg) (tr : Log) (g i a : Nat) : Prop :=
  tr[a]? = some (.fret g) ∧ i ∈ cfg.copies g ∧ cfg.grp i = some g ∧ ∀ e, e < a → tr[e]? ≠ some (.ferr i)

/-- `j` is sent — at the level of the API — at position `b`: a directed message when its sending call
begins, a per-session copy of a fan-out when ITS notifying method begins. -/
def ApiSentAt (cfg : Cfg) (tr : Log) (j b : Nat) : Prop :=
  (cfg.grp j = none ∧ SentAt tr j b) ∨ ∃ g', cfg.grp j = some g' ∧ j ∈ cfg.copies g' ∧ tr[b]? = some (.fcall g')

/-- "The handler of a notification (and of initialize) finishes before the handler of any later message
from that peer starts": if the sending call of the synchronous message `i` returned (position `a`) before
the sending call of `j` on the same pair began (position `b`), then when the handler of `j` starts
(position `c`) the handler of `i` has ended. -/
def P_laterSend (cfg : Cfg) (tr : Log) : Prop :=
  ∀ i j a b c, (cfg.kind i).sync = true → cfg.pair i = cfg.pair j → i ≠ j →
    tr[a]? = some (.msg (.ret i)) → a < b → SentAt tr j b → b < c → tr[c]? = some (.msg (.beg j)) →
    FinBefore tr i c

/-- "Messages from one peer are dispatched to handlers in the order they were sent" within one transport
unit: if the synchronous message `i` stands before `j` in the body that carried both, the handler of `i` has
ended when the handler of `j` starts. -/
def P_sameBody (cfg : Cfg) (tr : Log) : Prop :=
  ∀ i j ps b c, (cfg.kind i).sync = true → cfg.pair i = cfg.pair j → i ≠ j →
    i ∈ ps → tr[b]? = some (.msg (.bsnd ps j)) → b < c → tr[c]? = some (.msg (.beg j)) →
    FinBefore tr i c

/-- "Messages from one peer are dispatched to handlers in the order they were sent", for the members of one
transport unit and whatever their kinds: if `i` stands before `j` in the body that carried both (position `b`),
then when `j` enters the receiver's handler queue (position `c`) — the queue the single dispatcher drains in
order — `i` has entered it before. -/
def P_bodyDispatch (tr : Log) : Prop :=
  ∀ (i j : Nat) (ps : List Nat) (b c : Nat), i ∈ ps → tr[b]? = some (FEv.msg (.bsnd ps j)) → b < c → tr[c]? = some (FEv.enq j) →
    ∃ d, d < c ∧ tr[d]? = some (FEv.enq i)

/-- "Once a notifying method has returned, any notification or call the same goroutine sends afterwards is
observed by the peer after it", for a notifying method that addresses several sessions: if `g` returned
(position `a`) and `i` is its copy for some peer whose send did not fail, then whatever is sent to that peer
afterwards (position `b`, at the level of the API) finds the handler of `i` ended when its own handler
starts. -/
def P_fanout (cfg : Cfg) (tr : Log) : Prop :=
  ∀ g i j a b c, (cfg.kind i).sync = true → cfg.pair i = cfg.pair j → i ≠ j →
    FanReturnedAt cfg tr g i a → a < b → ApiSentAt cfg tr j b → b < c → tr[c]? = some (.msg (.beg j)) →
    FinBefore tr i c

/-- "Dispatched to handlers": a message is handled at most once. -/
def P_handledAtMostOnce (recs : List Rec) : Prop := ∀ r, r ∈ recs → r.runs ≤ 1

/-- Only messages that were sent are handled. -/
def P_handledOnlyIfSent (recs : List Rec) : Prop := ∀ r, r ∈ recs → r.began = true → r.sent = true

/-- "Messages from one peer are dispatched to handlers": judged at quiescence, every message whose sending
call returned without error has been handled to completion. -/
def P_sentIsHandled (recs : List Rec) : Prop := ∀ r, r ∈ recs → r.acked = true → r.began = true ∧ r.ended = true

/-- The property clause a monitor clause stands for. -/
def P_log (cfg : Cfg) : Clause → Log → Prop
  | .laterSend _ _ => P_laterSend cfg
  | .sameBody _ _ => P_sameBody cfg
  | .bodyDispatch _ _ => fun tr => P_bodyDispatch tr
  | .fanout _ _ _ => P_fanout cfg
  | _ => fun _ => True

def P_recs : Clause → List Rec → Prop
  | .ranTwice _ _ => P_handledAtMostOnce
  | .neverSent _ => P_handledOnlyIfSent
  | .f14NotDispatched _ | .notHandled _ => P_sentIsHandled
  | _ => fun _ => True

/-! ## per-record clauses -/

theorem sound_ranTwice {recs : List Rec} {r : Rec} (hr : r ∈ recs) {i n : Nat}
    (h : recClause r = some (.ranTwice i n)) : ¬ P_handledAtMostOnce recs := by
  intro hP
  have := hP r hr
  simp only [recClause] at h
  split at h
  · omega
  · split at h
    · cases h
    · split at h
      · split at h <;> cases h
      · cases h

theorem sound_neverSent {recs : List Rec} {r : Rec} (hr : r ∈ recs) {i : Nat}
    (h : recClause r = some (.neverSent i)) : ¬ P_handledOnlyIfSent recs := by
  intro hP
  simp only [recClause] at h
  split at h
  · cases h
  · split at h
    · rename_i hc
      have := hP r hr (by simpa using hc.1)
      simp [this] at hc
    · split at h
      · split at h <;> cases h
      · cases h

theorem recClause_unhandled {r : Rec} {cl : Clause} (h : recClause r = some cl)
    (hc : (∃ i, cl = .f14NotDispatched i) ∨ ∃ i, cl = .notHandled i) :
    r.acked = true ∧ (r.began = false ∨ r.ended = false) := by
  simp only [recClause] at h
  split at h
  · rcases hc with ⟨i, rfl⟩ | ⟨i, rfl⟩ <;> cases h
  · split at h
    · rcases hc with ⟨i, rfl⟩ | ⟨i, rfl⟩ <;> cases h
    · split at h
      · rename_i hx
        refine ⟨by simpa using hx.1, ?_⟩
        rcases hx.2 with q | q
        · left; simpa using q
        · right; simpa using q
      · cases h

theorem sound_f14NotDispatched {recs : List Rec} {r : Rec} (hr : r ∈ recs) {i : Nat}
    (h : recClause r = some (.f14NotDispatched i)) : ¬ P_sentIsHandled recs := by
  intro hP
  obtain ⟨h1, h2⟩ := recClause_unhandled h (Or.inl ⟨i, rfl⟩)
  obtain ⟨a, b⟩ := hP r hr h1
  rcases h2 with q | q
  · rw [a] at q; cases q
  · rw [b] at q; cases q

theorem sound_notHandled {recs : List Rec} {r : Rec} (hr : r ∈ recs) {i : Nat}
    (h : recClause r = some (.notHandled i)) : ¬ P_sentIsHandled recs := by
  intro hP
  obtain ⟨h1, h2⟩ := recClause_unhandled h (Or.inr ⟨i, rfl⟩)
  obtain ⟨a, b⟩ := hP r hr h1
  rcases h2 with q | q
  · rw [a] at q; cases q
  · rw [b] at q; cases q

/-- `recClause` reports only per-record clauses. -/
theorem recClause_kinds {r : Rec} {cl : Clause} (h : recClause r = some cl) :
    (∃ i n, cl = .ranTwice i n) ∨ (∃ i, cl = .neverSent i) ∨ (∃ i, cl = .f14NotDispatched i) ∨ ∃ i, cl = .notHandled i := by
  simp only [recClause] at h
  split at h
  · cases h; left; exact ⟨_, _, rfl⟩
  · split at h
    · cases h; right; left; exact ⟨_, rfl⟩
    · split at h
      · split at h
        · cases h; right; right; left; exact ⟨_, rfl⟩
        · cases h; right; right; right; exact ⟨_, rfl⟩
      · cases h

/-- Whenever the per-record monitor reports a clause for a record of the case, the property clause it stands
for fails on the case's records. -/
theorem rec_sound {recs : List Rec} {r : Rec} (hr : r ∈ recs) {cl : Clause} (h : recClause r = some cl) :
    ¬ P_recs cl recs := by
  rcases recClause_kinds h with ⟨i, n, rfl⟩ | ⟨i, rfl⟩ | ⟨i, rfl⟩ | ⟨i, rfl⟩
  · exact sound_ranTwice hr h
  · exact sound_neverSent hr h
  · exact sound_f14NotDispatched hr h
  · exact sound_notHandled hr h

/-! ## the ordering clauses -/

/-- Why the handler of `i` must have ended before that of `j` starts, as a fact about the log: the
obligation arose at position `b`. -/
def Owes (cfg : Cfg) (tr : Log) (i j : Nat) : Why → Nat → Prop
  | .later, b => ∃ a, a < b ∧ tr[a]? = some (.msg (.ret i)) ∧ SentAt tr j b
  | .fan g, b => ∃ a, a < b ∧ FanReturnedAt cfg tr g i a ∧ ApiSentAt cfg tr j b
  | .body, b => ∃ ps, i ∈ ps ∧ tr[b]? = some (.msg (.bsnd ps j))

/-- What the monitor's state says about the first `n` events of the log. -/
structure MInv (cfg : Cfg) (tr : Log) (n : Nat) (m : FMon) : Prop where
  ret : ∀ r, r ∈ m.returned →
    match r.2 with
    | .later => ∃ a, a < n ∧ tr[a]? = some (.msg (.ret r.1))
    | .fan g => ∃ a, a < n ∧ FanReturnedAt cfg tr g r.1 a
    | .body => False
  failed : ∀ c, c ∉ m.failed → ∀ e, e < n → tr[e]? ≠ some (.ferr c)
  finished : ∀ i, i ∉ m.finished → ∀ d, d < n → tr[d]? ≠ some (.msg (.fin i))
  owes : ∀ x, x ∈ m.sentAfter → (cfg.kind x.1).sync = true ∧ cfg.pair x.1 = cfg.pair x.2.1 ∧ x.1 ≠ x.2.1 ∧
    ∃ b, b < n ∧ Owes cfg tr x.1 x.2.1 x.2.2 b
  bad : ∀ x, m.bad = some x → (cfg.kind x.1).sync = true ∧ cfg.pair x.1 = cfg.pair x.2.1 ∧ x.1 ≠ x.2.1 ∧
    ∃ b c, b < c ∧ Owes cfg tr x.1 x.2.1 x.2.2 b ∧ tr[c]? = some (.msg (.beg x.2.1)) ∧
      ∀ d, d < c → tr[d]? ≠ some (.msg (.fin x.1))

theorem minv_init (cfg : Cfg) (tr : Log) : MInv cfg tr 0 {} := by
  constructor <;> simp

theorem obliges_iff {cfg : Cfg} {j k : Nat} :
    cfg.obliges j k = true ↔ (cfg.kind k).sync = true ∧ cfg.pair k = cfg.pair j ∧ k ≠ j := by
  simp [Cfg.obliges, and_assoc]

/-- The entries `owed` adds when `j` is sent (`atApi = false`) resp. when the notifying method of the copy
`j` begins (`atApi = true`) at position `n`. -/
theorem owed_owes {cfg : Cfg} {tr : Log} {n : Nat} {m : FMon} (hm : MInv cfg tr n m) {j : Nat} {atApi : Bool}
    (hsent : atApi = false → SentAt tr j n)
    (hapi : atApi = true → ∃ g', cfg.grp j = some g' ∧ j ∈ cfg.copies g' ∧ tr[n]? = some (.fcall g'))
    {x : Nat × Nat × Why} (hx : x ∈ m.owed cfg j atApi) :
    (cfg.kind x.1).sync = true ∧ cfg.pair x.1 = cfg.pair x.2.1 ∧ x.1 ≠ x.2.1 ∧ ∃ b, b < n + 1 ∧ Owes cfg tr x.1 x.2.1 x.2.2 b := by
  simp only [FMon.owed, List.mem_map, List.mem_filter] at hx
  obtain ⟨r, ⟨hr, hc⟩, rfl⟩ := hx
  simp only [Bool.and_eq_true, Bool.or_eq_true, bne_iff_ne, ne_eq, Option.isNone_iff_eq_none] at hc
  obtain ⟨hob, hsel⟩ := hc
  obtain ⟨h1, h2, h3⟩ := obliges_iff.1 hob
  refine ⟨h1, h2, h3, n, Nat.lt_succ_self n, ?_⟩
  have hret := hm.ret r hr
  cases hw : r.2 with
  | later =>
    simp only [hw] at hret ⊢
    obtain ⟨a, ha, hra⟩ := hret
    cases atApi with
    | false => exact ⟨a, ha, hra, hsent rfl⟩
    | true =>
      -- a `later` obligation is not taken at the begin of a notifying method
      obtain ⟨g', hg', _, _⟩ := hapi rfl
      simp [hw, Why.isLater, hg'] at hsel
  | fan g =>
    simp only [hw] at hret ⊢
    obtain ⟨a, ha, hra⟩ := hret
    refine ⟨a, ha, hra, ?_⟩
    cases atApi with
    | false =>
      simp only [hw, Why.isLater] at hsel
      rcases hsel with q | q
      · simp at q
      · left; exact ⟨q, hsent rfl⟩
    | true => right; exact hapi rfl
  | body => simp only [hw] at hret

theorem getElem?_ne_of_eq {tr : Log} {n : Nat} {e e' : FEv} (h : tr[n]? = some e) (hne : e ≠ e') : tr[n]? ≠ some e' := by
  rw [h]; intro x; exact hne (Option.some.inj x)

/-- One event more. -/
theorem minv_step {cfg : Cfg} {tr : Log} {n : Nat} {m : FMon} {e : FEv} (hm : MInv cfg tr n m)
    (he : tr[n]? = some e) : MInv cfg tr (n + 1) (FMon.step cfg m e) := by
  -- what carries over when the monitor keeps a component
  have kret : ∀ r, r ∈ m.returned →
      match r.2 with
      | .later => ∃ a, a < n + 1 ∧ tr[a]? = some (.msg (.ret r.1))
      | .fan g => ∃ a, a < n + 1 ∧ FanReturnedAt cfg tr g r.1 a
      | .body => False := by
    intro r hr
    have := hm.ret r hr
    cases hw : r.2 with
    | later => simp only [hw] at this ⊢; obtain ⟨a, ha, h⟩ := this; exact ⟨a, by omega, h⟩
    | fan g => simp only [hw] at this ⊢; obtain ⟨a, ha, h⟩ := this; exact ⟨a, by omega, h⟩
    | body => simp only [hw] at this
  have kfailed : (∀ c, e ≠ .ferr c) → ∀ c, c ∉ m.failed → ∀ x, x < n + 1 → tr[x]? ≠ some (.ferr c) := by
    intro hne c hc x hx
    by_cases hxn : x = n
    · subst hxn; exact getElem?_ne_of_eq he (hne c)
    · exact hm.failed c hc x (by omega)
  have kfin : (∀ i, e ≠ .msg (.fin i)) → ∀ i, i ∉ m.finished → ∀ d, d < n + 1 → tr[d]? ≠ some (.msg (.fin i)) := by
    intro hne i hi d hd
    by_cases hdn : d = n
    · subst hdn; exact getElem?_ne_of_eq he (hne i)
    · exact hm.finished i hi d (by omega)
  have kowes : ∀ x, x ∈ m.sentAfter → (cfg.kind x.1).sync = true ∧ cfg.pair x.1 = cfg.pair x.2.1 ∧ x.1 ≠ x.2.1 ∧
      ∃ b, b < n + 1 ∧ Owes cfg tr x.1 x.2.1 x.2.2 b := by
    intro x hx
    obtain ⟨h1, h2, h3, b, hb, h4⟩ := hm.owes x hx
    exact ⟨h1, h2, h3, b, by omega, h4⟩
  cases e with
  | msg ev =>
    cases ev with
    | snd j =>
      refine ⟨kret, kfailed (by intro c x; cases x), kfin (by intro i x; cases x), ?_, hm.bad⟩
      intro x hx
      simp only [FMon.step, List.mem_append] at hx
      rcases hx with hx | hx
      · exact kowes x hx
      · exact owed_owes hm (fun _ => Or.inl he) (by intro x; cases x) hx
    | bsnd ps j =>
      refine ⟨kret, kfailed (by intro c x; cases x), kfin (by intro i x; cases x), ?_, hm.bad⟩
      intro x hx
      simp only [FMon.step, List.mem_append] at hx
      rcases hx with (hx | hx) | hx
      · exact kowes x hx
      · exact owed_owes hm (fun _ => Or.inr ⟨ps, he⟩) (by intro x; cases x) hx
      · simp only [List.mem_map, List.mem_filter] at hx
        obtain ⟨k, ⟨hk, hc⟩, rfl⟩ := hx
        obtain ⟨h1, h2, h3⟩ := obliges_iff.1 hc
        exact ⟨h1, h2, h3, n, Nat.lt_succ_self n, ps, hk, he⟩
    | ret i =>
      refine ⟨?_, kfailed (by intro c x; cases x), kfin (by intro i x; cases x), kowes, hm.bad⟩
      intro r hr
      simp only [FMon.step, List.mem_cons] at hr
      rcases hr with rfl | hr
      · exact ⟨n, Nat.lt_succ_self n, he⟩
      · exact kret r hr
    | fin i =>
      refine ⟨kret, kfailed (by intro c x; cases x), ?_, kowes, hm.bad⟩
      intro k hk d hd
      simp only [FMon.step, List.mem_cons, not_or] at hk
      by_cases hdn : d = n
      · subst hdn; rw [he]; intro x; cases x; exact hk.1 rfl
      · exact hm.finished k hk.2 d (by omega)
    | beg j =>
      simp only [FMon.step]
      cases hb : m.bad with
      | some y =>
        simp only []
        exact ⟨kret, kfailed (by intro c x; cases x), kfin (by intro i x; cases x), kowes, hm.bad⟩
      | none =>
        simp only []
        cases hf : m.sentAfter.find? (fun p => p.2.1 == j && !m.finished.contains p.1) with
        | none =>
          simp only []
          exact ⟨kret, kfailed (by intro c x; cases x), kfin (by intro i x; cases x), kowes, hm.bad⟩
        | some p =>
          simp only []
          refine ⟨kret, kfailed (by intro c x; cases x), kfin (by intro i x; cases x), kowes, ?_⟩
          intro x hx
          simp only [Option.some.injEq] at hx
          subst hx
          have hp := List.find?_some hf
          have hmem := List.mem_of_find?_eq_some hf
          simp only [Bool.and_eq_true, beq_iff_eq, Bool.not_eq_true', List.contains_eq_mem, decide_eq_false_iff_not] at hp
          obtain ⟨h1, h2, h3, b, hbn, h4⟩ := hm.owes p hmem
          refine ⟨h1, h2, h3, b, n, hbn, h4, ?_, ?_⟩
          · rw [hp.1]; exact he
          · intro d hd; exact hm.finished p.1 (by simpa using hp.2) d hd
  | enq j =>
    have keep : ∀ m' : FMon, m'.returned = m.returned → m'.failed = m.failed → m'.finished = m.finished →
        m'.sentAfter = m.sentAfter → m'.bad = m.bad → MInv cfg tr (n + 1) m' := by
      intro m' h1 h2 h3 h4 h5
      exact ⟨by rw [h1]; exact kret, by rw [h2]; exact kfailed (by intro c x; cases x),
        by rw [h3]; exact kfin (by intro i x; cases x), by rw [h4]; exact kowes, by rw [h5]; exact hm.bad⟩
    simp only [FMon.step]
    split
    · exact keep _ rfl rfl rfl rfl rfl
    · split
      · exact keep _ rfl rfl rfl rfl rfl
      · exact keep _ rfl rfl rfl rfl rfl
  | fcall g =>
    refine ⟨kret, kfailed (by intro c x; cases x), kfin (by intro i x; cases x), ?_, hm.bad⟩
    intro x hx
    simp only [FMon.step, List.mem_append, List.mem_flatMap, List.mem_filter] at hx
    rcases hx with hx | ⟨c, ⟨hc, hg⟩, hx⟩
    · exact kowes x hx
    · exact owed_owes hm (by intro x; cases x) (fun _ => ⟨g, by simpa using hg, hc, he⟩) hx
  | ferr c =>
    refine ⟨kret, ?_, kfin (by intro i x; cases x), kowes, hm.bad⟩
    intro c' hc' x hx
    simp only [FMon.step, List.mem_cons, not_or] at hc'
    by_cases hxn : x = n
    · subst hxn; rw [he]; intro y; cases y; exact hc'.1 rfl
    · exact hm.failed c' hc'.2 x (by omega)
  | fret g =>
    refine ⟨?_, kfailed (by intro c x; cases x), kfin (by intro i x; cases x), kowes, hm.bad⟩
    intro r hr
    simp only [FMon.step, List.mem_append, List.mem_map, List.mem_filter] at hr
    rcases hr with ⟨c, ⟨hc, hcond⟩, rfl⟩ | hr
    · simp only [Bool.and_eq_true, beq_iff_eq, Bool.not_eq_true', List.contains_eq_mem, decide_eq_false_iff_not] at hcond
      exact ⟨n, Nat.lt_succ_self n, he, hc, hcond.1, fun x hx => hm.failed c hcond.2 x hx⟩
    · exact kret r hr

theorem minv_foldl {cfg : Cfg} {tr : Log} (l : List FEv) (n : Nat) (m : FMon) (hl : tr.drop n = l)
    (hm : MInv cfg tr n m) : MInv cfg tr (n + l.length) (l.foldl (FMon.step cfg) m) := by
  induction l generalizing n m with
  | nil => simpa using hm
  | cons e l ih =>
    have he : tr[n]? = some e := by
      have := congrArg List.head? hl
      simpa [List.head?_drop] using this
    have hl' : tr.drop (n + 1) = l := by
      have := congrArg List.tail hl
      simpa [List.tail_drop] using this
    have := ih (n + 1) (FMon.step cfg m e) hl' (minv_step hm he)
    simpa [Nat.add_assoc, Nat.add_comm 1] using this

/-- The monitor's final state speaks about the whole log. -/
theorem minv_final (cfg : Cfg) (tr : Log) : MInv cfg tr tr.length (fmonitor cfg tr) := by
  have := minv_foldl (cfg := cfg) (tr := tr) tr 0 {} (by simp) (minv_init cfg tr)
  simpa [fmonitor] using this

theorem bad_of_clause {cfg : Cfg} {tr : Log} {cl : Clause} (h : orderClause cfg tr = some cl)
    (hne : ∀ i j, cl ≠ .bodyDispatch i j) :
    ∃ x, (fmonitor cfg tr).bad = some x ∧ clauseOf x = cl := by
  simp only [orderClause] at h
  split at h
  · rename_i x hx
    exact ⟨x, hx, Option.some.inj h⟩
  · simp only [Option.map_eq_some_iff] at h
    obtain ⟨p, _, rfl⟩ := h
    exact absurd rfl (hne p.1 p.2)

theorem badEnq_of_clause {cfg : Cfg} {tr : Log} {i j : Nat} (h : orderClause cfg tr = some (.bodyDispatch i j)) :
    (fmonitor cfg tr).badEnq = some (i, j) := by
  simp only [orderClause] at h
  split at h
  · rename_i x hx
    obtain ⟨a, b, w⟩ := x
    cases w <;> simp [clauseOf] at h
  · simp only [Option.map_eq_some_iff, Clause.bodyDispatch.injEq] at h
    obtain ⟨p, hp, h1, h2⟩ := h
    rw [hp]; cases p; simp_all

theorem sound_laterSend {cfg : Cfg} {tr : Log} {i j : Nat} (h : orderClause cfg tr = some (.laterSend i j)) :
    ¬ P_laterSend cfg tr := by
  obtain ⟨⟨i', j', w⟩, hb, hc⟩ := bad_of_clause h (by intro a b x; cases x)
  match w, hb, hc with
  | .body, _, hc => simp [clauseOf] at hc
  | .fan g, _, hc => simp [clauseOf] at hc
  | .later, hb, hc =>
    simp only [clauseOf, Clause.laterSend.injEq] at hc
    obtain ⟨rfl, rfl⟩ := hc
    obtain ⟨h1, h2, h3, b, c, hbc, ⟨a, hab, hra, hs⟩, hbeg, hnofin⟩ := (minv_final cfg tr).bad _ hb
    intro hP
    obtain ⟨d, hd, hfin⟩ := hP i' j' a b c h1 h2 h3 hra hab hs hbc hbeg
    exact hnofin d hd hfin

theorem sound_sameBody {cfg : Cfg} {tr : Log} {i j : Nat} (h : orderClause cfg tr = some (.sameBody i j)) :
    ¬ P_sameBody cfg tr := by
  obtain ⟨⟨i', j', w⟩, hb, hc⟩ := bad_of_clause h (by intro a b x; cases x)
  match w, hb, hc with
  | .later, _, hc => simp [clauseOf] at hc
  | .fan g, _, hc => simp [clauseOf] at hc
  | .body, hb, hc =>
    simp only [clauseOf, Clause.sameBody.injEq] at hc
    obtain ⟨rfl, rfl⟩ := hc
    obtain ⟨h1, h2, h3, b, c, hbc, ⟨ps, hps, hbs⟩, hbeg, hnofin⟩ := (minv_final cfg tr).bad _ hb
    intro hP
    obtain ⟨d, hd, hfin⟩ := hP i' j' ps b c h1 h2 h3 hps hbs hbc hbeg
    exact hnofin d hd hfin

theorem sound_fanout {cfg : Cfg} {tr : Log} {g i j : Nat} (h : orderClause cfg tr = some (.fanout g i j)) :
    ¬ P_fanout cfg tr := by
  obtain ⟨⟨i', j', w⟩, hb, hc⟩ := bad_of_clause h (by intro a b x; cases x)
  match w, hb, hc with
  | .later, _, hc => simp [clauseOf] at hc
  | .body, _, hc => simp [clauseOf] at hc
  | .fan g', hb, hc =>
    simp only [clauseOf, Clause.fanout.injEq] at hc
    obtain ⟨rfl, rfl, rfl⟩ := hc
    obtain ⟨h1, h2, h3, b, c, hbc, ⟨a, hab, hfr, hs⟩, hbeg, hnofin⟩ := (minv_final cfg tr).bad _ hb
    intro hP
    obtain ⟨d, hd, hfin⟩ := hP g' i' j' a b c h1 h2 h3 hfr hab hs hbc hbeg
    exact hnofin d hd hfin

/-! ### the order of entering the handler queue -/

/-- What the monitor's state says about the `enq` / `bsnd` events among the first `n` events. -/
structure QInv (tr : Log) (n : Nat) (m : FMon) : Prop where
  enqd : ∀ i, i ∉ m.enqd → ∀ d, d < n → tr[d]? ≠ some (FEv.enq i)
  bodies : ∀ p, p ∈ m.bodies → ∃ (ps : List Nat) (b : Nat), b < n ∧ p.1 ∈ ps ∧ tr[b]? = some (FEv.msg (.bsnd ps p.2))
  bad : ∀ p, m.badEnq = some p → ∃ (ps : List Nat) (b c : Nat), b < c ∧ p.1 ∈ ps ∧ tr[b]? = some (FEv.msg (.bsnd ps p.2)) ∧
    tr[c]? = some (FEv.enq p.2) ∧ ∀ d, d < c → tr[d]? ≠ some (FEv.enq p.1)

theorem qinv_init (tr : Log) : QInv tr 0 {} := by
  constructor <;> simp

theorem qinv_step {cfg : Cfg} {tr : Log} {n : Nat} {m : FMon} {e : FEv} (hm : QInv tr n m)
    (he : tr[n]? = some e) : QInv tr (n + 1) (FMon.step cfg m e) := by
  have kenq : (∀ i, e ≠ .enq i) → ∀ i, i ∉ m.enqd → ∀ d, d < n + 1 → tr[d]? ≠ some (FEv.enq i) := by
    intro hne i hi d hd
    by_cases hdn : d = n
    · subst hdn; rw [he]; intro x; exact hne i (Option.some.inj x)
    · exact hm.enqd i hi d (by omega)
  have kbod : ∀ p, p ∈ m.bodies → ∃ (ps : List Nat) (b : Nat), b < n + 1 ∧ p.1 ∈ ps ∧ tr[b]? = some (FEv.msg (.bsnd ps p.2)) := by
    intro p hp
    obtain ⟨ps, b, hb, h1, h2⟩ := hm.bodies p hp
    exact ⟨ps, b, by omega, h1, h2⟩
  -- a step that touches none of the three components
  have keep : (∀ i, e ≠ .enq i) → ∀ m' : FMon, m'.enqd = m.enqd → m'.bodies = m.bodies → m'.badEnq = m.badEnq →
      QInv tr (n + 1) m' := by
    intro hne m' h1 h2 h3
    exact ⟨by rw [h1]; exact kenq hne, by rw [h2]; exact kbod, by rw [h3]; exact hm.bad⟩
  cases e with
  | msg ev =>
    cases ev with
    | snd j => exact keep (by intro i x; cases x) _ rfl rfl rfl
    | ret i => exact keep (by intro i x; cases x) _ rfl rfl rfl
    | fin i => exact keep (by intro i x; cases x) _ rfl rfl rfl
    | beg j =>
      simp only [FMon.step]
      split
      · exact keep (by intro i x; cases x) _ rfl rfl rfl
      · split
        · exact keep (by intro i x; cases x) _ rfl rfl rfl
        · exact keep (by intro i x; cases x) _ rfl rfl rfl
    | bsnd ps j =>
      refine ⟨kenq (by intro i x; cases x), ?_, hm.bad⟩
      intro p hp
      simp only [FMon.step, List.mem_append, List.mem_map] at hp
      rcases hp with hp | ⟨k, hk, rfl⟩
      · exact kbod p hp
      · exact ⟨ps, n, Nat.lt_succ_self n, hk, he⟩
  | fcall g => exact keep (by intro i x; cases x) _ rfl rfl rfl
  | ferr c => exact keep (by intro i x; cases x) _ rfl rfl rfl
  | fret g => exact keep (by intro i x; cases x) _ rfl rfl rfl
  | enq j =>
    have kenq' : ∀ i, i ∉ j :: m.enqd → ∀ d, d < n + 1 → tr[d]? ≠ some (FEv.enq i) := by
      intro i hi d hd
      simp only [List.mem_cons, not_or] at hi
      by_cases hdn : d = n
      · subst hdn; rw [he]; intro x; cases x; exact hi.1 rfl
      · exact hm.enqd i hi.2 d (by omega)
    simp only [FMon.step]
    cases hb : m.badEnq with
    | some y =>
      simp only []
      exact ⟨kenq', kbod, by intro p hp; exact hm.bad p (by simpa [hb] using hp)⟩
    | none =>
      simp only []
      cases hf : m.bodies.find? (fun p => p.2 == j && !m.enqd.contains p.1) with
      | none =>
        simp only []
        exact ⟨kenq', kbod, by intro p hp; simp [hb] at hp⟩
      | some p =>
        simp only []
        refine ⟨kenq', kbod, ?_⟩
        intro q hq
        simp only [Option.some.injEq] at hq
        subst hq
        have hp := List.find?_some hf
        have hmem := List.mem_of_find?_eq_some hf
        simp only [Bool.and_eq_true, beq_iff_eq, Bool.not_eq_true', List.contains_eq_mem, decide_eq_false_iff_not] at hp
        obtain ⟨ps, b, hbn, h1, h2⟩ := hm.bodies p hmem
        refine ⟨ps, b, n, hbn, h1, h2, ?_, ?_⟩
        · rw [hp.1]; exact he
        · intro d hd; exact hm.enqd p.1 (by simpa using hp.2) d hd

theorem qinv_foldl {cfg : Cfg} {tr : Log} (l : List FEv) (n : Nat) (m : FMon) (hl : tr.drop n = l)
    (hm : QInv tr n m) : QInv tr (n + l.length) (l.foldl (FMon.step cfg) m) := by
  induction l generalizing n m with
  | nil => simpa using hm
  | cons e l ih =>
    have he : tr[n]? = some e := by
      have := congrArg List.head? hl
      simpa [List.head?_drop] using this
    have hl' : tr.drop (n + 1) = l := by
      have := congrArg List.tail hl
      simpa [List.tail_drop] using this
    have := ih (n + 1) (FMon.step cfg m e) hl' (qinv_step hm he)
    simpa [Nat.add_assoc, Nat.add_comm 1] using this

theorem qinv_final (cfg : Cfg) (tr : Log) : QInv tr tr.length (fmonitor cfg tr) := by
  have := qinv_foldl (cfg := cfg) (tr := tr) tr 0 {} (by simp) (qinv_init tr)
  simpa [fmonitor] using this

theorem sound_bodyDispatch {cfg : Cfg} {tr : Log} {i j : Nat} (h : orderClause cfg tr = some (.bodyDispatch i j)) :
    ¬ P_bodyDispatch tr := by
  obtain ⟨ps, b, c, hbc, hps, hb, hc, hno⟩ := (qinv_final cfg tr).bad _ (badEnq_of_clause h)
  intro hP
  obtain ⟨d, hd, he⟩ := hP i j ps b c hps hb hbc hc
  exact hno d hd he

/-- `orderClause` reports only ordering clauses. -/
theorem orderClause_kinds {cfg : Cfg} {tr : Log} {cl : Clause} (h : orderClause cfg tr = some cl) :
    (∃ i j, cl = .laterSend i j) ∨ (∃ i j, cl = .sameBody i j) ∨ (∃ g i j, cl = .fanout g i j) ∨ ∃ i j, cl = .bodyDispatch i j := by
  simp only [orderClause] at h
  split at h
  · rename_i x hx
    obtain ⟨i, j, w⟩ := x
    cases h
    cases w
    · left; exact ⟨i, j, rfl⟩
    · right; left; exact ⟨i, j, rfl⟩
    · right; right; left; exact ⟨_, i, j, rfl⟩
  · simp only [Option.map_eq_some_iff] at h
    obtain ⟨p, _, rfl⟩ := h
    right; right; right; exact ⟨_, _, rfl⟩

/-- Whenever the monitor reports an ordering clause on a log, the property clause it stands for — a
statement about the observed log alone — fails on that log. -/
theorem monitor_sound {cfg : Cfg} {tr : Log} {cl : Clause} (h : orderClause cfg tr = some cl) : ¬ P_log cfg cl tr := by
  rcases orderClause_kinds h with ⟨i, j, rfl⟩ | ⟨i, j, rfl⟩ | ⟨g, i, j, rfl⟩ | ⟨i, j, rfl⟩
  · exact sound_laterSend h
  · exact sound_sameBody h
  · exact sound_fanout h
  · exact sound_bodyDispatch h

/-! ## the predicates are satisfiable on logs that exercise them, and fail on the logs of a broken order -/

/-- AddRoots-like fan-out `0` with one copy `5`, which is handled before the later message `1` is. -/
example : P_fanout ⟨fun _ => .note, fun _ => 0, fun g => if g = 0 then [5] else [], fun i => if i = 5 then some 0 else none⟩
    [.fcall 0, .msg (.snd 5), .msg (.ret 5), .fret 0, .msg (.beg 5), .msg (.fin 5), .msg (.snd 1), .msg (.beg 1)] := by
  intro g i j a b c _ _ hne hfr hab hs hbc hbeg
  obtain ⟨hfa, hic, _, _⟩ := hfr
  -- the only `fret` is at position 3, of fan-out 0, whose only copy is 5
  rcases a with _|_|_|_|_|_|_|_|a <;> simp at hfa
  subst hfa
  simp at hic
  subst hic
  refine ⟨5, ?_, by simp⟩
  rcases c with _|_|_|_|_|_|_|_|c <;> simp at hbeg
  · exact absurd hbeg hne
  · omega

/-- …and the same fan-out when the later message `1` is handled first: the clause fails. -/
example : ¬ P_fanout ⟨fun _ => .note, fun _ => 0, fun g => if g = 0 then [5] else [], fun i => if i = 5 then some 0 else none⟩
    [.fcall 0, .fret 0, .msg (.snd 1), .msg (.beg 1), .msg (.snd 5), .msg (.ret 5), .msg (.beg 5), .msg (.fin 5)] := by
  intro hP
  obtain ⟨d, hd, hfin⟩ := hP 0 5 1 1 2 3 rfl rfl (by decide) ⟨rfl, by simp, rfl, by intro e he; rcases e with _|e <;> simp at he ⊢⟩
    (by omega) (Or.inl ⟨rfl, Or.inl rfl⟩) (by omega) rfl
  rcases d with _|_|_|d <;> simp at hfin hd
  omega

/-- A notification handled before the message sent after its call returned: `P_laterSend` holds; with the
handlers swapped it fails. -/
example : P_laterSend ⟨fun _ => .note, fun _ => 0, fun _ => [], fun _ => none⟩
    [.msg (.snd 0), .msg (.ret 0), .msg (.snd 1), .msg (.beg 0), .msg (.fin 0), .msg (.beg 1)] := by
  intro i j a b c _ _ hne hra hab hs hbc hbeg
  rcases a with _|_|_|_|_|_|a <;> simp at hra
  subst hra
  exact ⟨4, by
    rcases c with _|_|_|_|_|_|c <;> simp at hbeg
    · subst hbeg; exact absurd rfl hne
    · omega, by simp⟩

example : ¬ P_laterSend ⟨fun _ => .note, fun _ => 0, fun _ => [], fun _ => none⟩
    [.msg (.snd 0), .msg (.ret 0), .msg (.snd 1), .msg (.beg 1), .msg (.beg 0), .msg (.fin 0)] := by
  intro hP
  obtain ⟨d, hd, hfin⟩ := hP 0 1 1 2 3 rfl rfl (by decide) rfl (by omega) (Or.inl rfl) (by omega) rfl
  rcases d with _|_|_|d <;> simp at hfin hd
  omega

/-- Two members of one body handled in body order: `P_sameBody` holds; in the opposite order it fails. -/
example : P_sameBody ⟨fun _ => .note, fun _ => 0, fun _ => [], fun _ => none⟩
    [.msg (.snd 0), .msg (.bsnd [0] 1), .msg (.beg 0), .msg (.fin 0), .msg (.beg 1)] := by
  intro i j ps b c _ _ hne hps hb hbc hbeg
  rcases b with _|_|_|_|_|b <;> simp at hb
  obtain ⟨rfl, rfl⟩ := hb
  simp at hps
  subst hps
  exact ⟨3, by
    rcases c with _|_|_|_|_|c <;> simp at hbeg
    all_goals omega, by simp⟩

example : ¬ P_sameBody ⟨fun _ => .note, fun _ => 0, fun _ => [], fun _ => none⟩
    [.msg (.snd 0), .msg (.bsnd [0] 1), .msg (.beg 1), .msg (.beg 0), .msg (.fin 0)] := by
  intro hP
  obtain ⟨d, hd, hfin⟩ := hP 0 1 [0] 1 2 rfl rfl (by decide) (by simp) rfl (by omega) rfl
  rcases d with _|_|d <;> simp at hfin hd
  omega

end Order
