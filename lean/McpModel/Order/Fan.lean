import McpModel.Order.Model
/-
Engine `order` — fan-out: one sender, SEVERAL receiving peers.

`Model.lean` describes one direction of one session pair.  A `Client` connected to several servers, or a
`Server` with several client sessions, is a family of such pairs — one `State` per (direction, receiving
peer), indexed by a natural number — which share nothing but the sender.  What couples them is a
*notifying method that addresses every session*: `Client.AddRoots` / `RemoveRoots`
(`changeAndNotify` → `notifySessions` over a snapshot of the client's sessions), `Server.ResourceUpdated`
(the legacy sessions subscribed to the URI) and the server's debounced list-changed notifications
(`Server.notifySessions`).  `notifySessions` (mcp/shared.go) is

    for _, s := range sessions { req := newRequest(s, params); if err := handleNotify(ctx, method, req); err != nil { logger.Warn(…) } }

— one per-session send after the other, each of them a complete `Notify` (regenerated structural fact
`order.fanout_loop`: no `go` statement, no `return`/`break`/`goto` in the loop, `handleNotify` called as
an expression), and the method returns after the loop.  Labels:

  `fcall g`  the notifying method `g` begins; its session snapshot is `copies g` — the per-session copies
             of the notification, each a message of its own (own id, own pair, own handler duration).
  `msg l`    a label of `Model.lean` for the pair `pair l.id`.  For a copy `c` of `g` (`grp c = some g`)
             `send c` is the loop taking the next session — enabled only while `c` is still to be sent and
             no other send of `g` is under way — and `ret c` ends that iteration.
  `ferr c`   the per-session send of `c` failed (`logger.Warn`, the loop goes on); no `ret c` then.
  `fret g`   the notifying method returns: enabled only when every session of the snapshot has been
             dealt with and no send is under way.

The order in which the snapshot is walked is not fixed (`ResourceUpdated` ranges over a map).  Messages
that are not copies of a fan-out (`grp = none`) — and the copies of a *debounced* list-changed
notification, whose notifying method no caller can observe returning: the ordering clause applies to each
per-session send from the instant that send has returned — are unconstrained `msg` labels.
The per-pair step function is a parameter (`step kind`, or `stepE` for the temporary sessions of a
stateless streamable server).  Core Lean only (linked into the driver).
-/
namespace Order

/-- The message a label is about. -/
def Label.id : Label → Nat
  | .send i | .bsend _ i | .write i | .ret i | .disp i | .rel i | .start i | .cb i | .fin i => i

/-- Static addressing: which pair a message travels on, which fan-out it is a copy of, and the session
snapshot of every fan-out. -/
structure Topo where
  pair : Nat → Nat
  grp : Nat → Option Nat
  copies : Nat → List Nat

inductive FLabel where
  | msg (l : Label)
  | fcall (g : Nat)
  | ferr (c : Nat)
  | fret (g : Nat)
deriving DecidableEq, Repr

structure FState where
  peers : Nat → State
  /-- per fan-out: the copies the loop has not reached yet -/
  todo : Nat → List Nat
  /-- per fan-out: the copy whose `handleNotify` is under way -/
  cur : Nat → Option Nat
  called : List Nat
  freturned : List Nat
  /-- copies whose per-session send reported an error -/
  failed : List Nat

def finit : FState :=
  { peers := fun _ => init, todo := fun _ => [], cur := fun _ => none, called := [], freturned := [], failed := [] }

def FState.setPeer (S : FState) (p : Nat) (s : State) : FState :=
  { S with peers := fun q => if q = p then s else S.peers q }

def FState.setTodo (S : FState) (g : Nat) (l : List Nat) : FState :=
  { S with todo := fun h => if h = g then l else S.todo h }

def FState.setCur (S : FState) (g : Nat) (c : Option Nat) : FState :=
  { S with cur := fun h => if h = g then c else S.cur h }

/-- What the fan-out discipline adds to a pair label of a copy of `g`. -/
def fgate (S : FState) (g : Nat) : Label → Option FState
  | .send c => if c ∈ S.todo g ∧ S.cur g = none then some ((S.setTodo g ((S.todo g).erase c)).setCur g (some c)) else none
  | .ret c => if S.cur g = some c then some (S.setCur g none) else none
  | .bsend _ _ => none
  | _ => some S

/-- One atomic step of the family; `σ` is the step function of a pair. -/
def fstep (σ : State → Label → Option State) (t : Topo) (S : FState) : FLabel → Option FState
  | .msg l =>
    match σ (S.peers (t.pair l.id)) l with
    | none => none
    | some s' =>
      match t.grp l.id with
      | none => some (S.setPeer (t.pair l.id) s')
      | some g => (fgate S g l).map fun S' => S'.setPeer (t.pair l.id) s'
  | .fcall g =>
    if g ∈ S.called then none else some { (S.setTodo g (t.copies g)) with called := g :: S.called }
  | .ferr c =>
    match t.grp c with
    | some g => if S.cur g = some c then some { (S.setCur g none) with failed := c :: S.failed } else none
    | none => none
  | .fret g =>
    if g ∈ S.called ∧ g ∉ S.freturned ∧ S.todo g = [] ∧ S.cur g = none then
      some { S with freturned := g :: S.freturned }
    else none

def frun (σ : State → Label → Option State) (t : Topo) : FState → List FLabel → Option FState
  | S, [] => some S
  | S, l :: ls =>
    match fstep σ t S l with
    | some S' => frun σ t S' ls
    | none => none

/-- Generic run of a pair (`run kind = runG (step kind)`, `runE = runG stepE`). -/
def runG (σ : State → Label → Option State) : State → List Label → Option State
  | s, [] => some s
  | s, l :: ls =>
    match σ s l with
    | some s' => runG σ s' ls
    | none => none

/-- The labels of pair `p` in a run of the family. -/
def proj (t : Topo) (p : Nat) (ls : List FLabel) : List Label :=
  ls.filterMap fun
    | .msg l => if t.pair l.id = p then some l else none
    | _ => none

/-! ### What an observer sees -/

inductive FEv where
  | msg (e : Ev)
  | fcall (g : Nat)
  | ferr (c : Nat)
  | fret (g : Nat)
  /-- message `i` enters the handler queue of the receiving connection (`acceptRequest`, the instant before
  `handlerQueue = append(handlerQueue, req)`; one reader goroutine per connection).  The model has one FIFO
  between `write` and `disp`; what leaves it in the order `disp` entered it in this order, so the model's
  counterpart of the order of these events is the order of its `disp` labels. -/
  | enq (i : Nat)
deriving DecidableEq, Repr

def FLabel.vis : FLabel → Option FEv
  | .msg l => l.vis.map .msg
  | .fcall g => some (.fcall g)
  | .ferr c => some (.ferr c)
  | .fret g => some (.fret g)

def fvisible (ls : List FLabel) : List FEv := ls.filterMap FLabel.vis

def Ev.id : Ev → Nat
  | .snd i | .bsnd _ i | .ret i | .beg i | .fin i => i

def Ev.label : Ev → Label
  | .snd i => .send i
  | .bsnd ps i => .bsend ps i
  | .ret i => .ret i
  | .beg i => .start i
  | .fin i => .fin i

def FEv.label : FEv → Option FLabel
  | .msg e => some (.msg e.label)
  | .fcall g => some (.fcall g)
  | .ferr c => some (.ferr c)
  | .fret g => some (.fret g)
  | .enq _ => none

/-- The fan-out discipline alone, on what is observed: every label of the discipline is visible, so the
observed log obeys it iff it is a run of the family whose pairs accept everything. -/
def fanDiscipline (t : Topo) (evs : List FEv) : Bool :=
  (frun (fun s _ => some s) t finit (evs.filterMap FEv.label)).isSome

end Order
