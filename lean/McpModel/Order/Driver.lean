import McpModel.Base.Proto
import McpModel.Order.Model
/-!
Driver for the engine `order` (C03, end-to-end half).  One case = one scenario between a real
`mcp.Client` and a real `mcp.Server` over one transport, under virtual time.

records (op ⇒ implementation's observation):
  `reset`                                              ⇒ `ok`
  `cfg tr=<transport> dir=<c2s|s2c|s2ci> pv=<version>` ⇒ `ok` | `connect-fail` | `setup-fail` | `carrier-fail` | `panic` …
  `m <i> dir=<c2s|s2c> kind=<i|n|c|g|r> meth=<name> d=<ms> gap=<ms> cb=<0|1> [b=<body> rs=<ms>]`
        ⇒ `snd=<seq>@<ms> ret=<seq>@<ms> err=<0|1> beg=<seq>@<ms> fin=<seq>@<ms> n=<handler runs>`   (`-` = did not happen)
  `end`                                                ⇒ `extra=<handler runs without a known tag> t=<ms>`

`b` (raw streamable peer only): messages with the same `b` ≠ 0 travel in ONE POST body (a JSON-RPC batch), in
record order; `snd` of all of them is logged before the POST, `ret` of all of them when the POST has been
answered (202, or the complete response stream if the body contains calls).  `rs`: the session's reader
pauses that long after reading the message (a schedule, invisible to the model).
`kind`: i = the initialize call, n = notification, c = call the sender waits for, g/r = call issued
from a goroutine of its own.  `snd`/`ret` = the sender's API call begins / returns, `beg`/`fin` = the
peer's handler (outermost receiving middleware) starts / ends; `<seq>` is the position in the global
event log.

Model side (`D` when it disagrees): every message whose sending call did not fail is handled exactly
once (`n=1`), nothing unknown is handled (`extra=0`), and — at `end`, per direction — the observed event
sequence must be the visible part of a run of `Order.step` (the invisible `write`/`disp`/`rel` labels
are found by search: `disp`/`rel` eagerly, `write` lazily — right before the first event that is not enabled
without it — with backtracking over which message is written, and, should that fail, by exhaustive
backtracking bounded by a step budget; a message of a body is a `bsend` carrying its predecessors; client→server traffic of a stateless
streamable server is checked against `Order.stepE`, one temporary session per message); otherwise
`rejected=<dir>@<seq>`.
Monitor side (`V`): the property itself, `Order.holdsOn` (proved to accept every model run:
`Order.monitor_accepts_runs`), on the implementation's event sequence, plus "a message that was sent
without error is eventually handled" at quiescence.  Messages are classified with the regenerated
`Async` guards (`Order.classify`), not with what the harness says.
-/
namespace Order
open Proto

def kv (toks : List String) (k : String) : Option String :=
  toks.findSome? fun t => if t.startsWith (k ++ "=") then some ((t.drop (k.length + 1)).toString) else none

/-- `12@9` ↦ (12, 9); `-` ↦ none. -/
def parseAt (s : String) : Option (Nat × Nat) :=
  match s.splitOn "@" with
  | [a, b] => do let x ← a.toNat?; let y ← b.toNat?; pure (x, y)
  | _ => none

structure Msg where
  id : Nat
  toServer : Bool
  isCall : Bool
  meth : String
  kindTok : String
  snd : Option (Nat × Nat)
  ret : Option (Nat × Nat)
  err : Bool
  beg : Option (Nat × Nat)
  fin : Option (Nat × Nat)
  n : Nat
  body : Nat := 0

structure St where
  tr : String := ""
  dir : String := ""
  pv : String := ""
  msgs : List Msg := []

def Msg.kind (m : Msg) : Kind := classify m.toServer m.isCall m.meth

def parseMsg (toks : List String) (impl : String) : Option Msg := do
  let id ← (← toks[0]?).toNat?
  let dir ← kv toks "dir"
  let k ← kv toks "kind"
  let meth ← kv toks "meth"
  let o := words impl
  let fld (name : String) : Option (Option (Nat × Nat)) :=
    match kv o name with
    | none => none
    | some "-" => some none
    | some v => (parseAt v).map some
  let snd ← fld "snd"
  let ret ← fld "ret"
  let beg ← fld "beg"
  let fin ← fld "fin"
  let err ← kv o "err"
  let n ← (← kv o "n").toNat?
  if dir != "c2s" && dir != "s2c" then none
  let body := ((kv toks "b").bind (·.toNat?)).getD 0
  pure { body := body, id := id, toServer := dir == "c2s", isCall := k != "n", meth := meth, kindTok := k,
         snd := snd, ret := if err == "1" then none else ret, err := err == "1", beg := beg, fin := fin, n := n }

def showAt : Option (Nat × Nat) → String
  | none => "-"
  | some (a, b) => s!"{a}@{b}"

def stateless (tr : String) : Bool := tr.startsWith "sl"

/-- What the model says about one message record: exactly one handler run unless the sending call failed. -/
def modelMsgObs (toks : List String) (impl : String) : String :=
  let o := words impl
  let err := kv o "err" == some "1"
  let o' := o.map fun t => if t.startsWith "n=" ∧ ¬ err then "n=1" else t
  let _ := toks
  " ".intercalate o'

/-- Per-record monitor: a message that was sent without error must have been handled, once. -/
def monitorMsg (st : St) (m : Msg) : Option String :=
  if m.n > 1 then some s!"C03: the handler of message {m.id} ({m.meth}) ran {m.n} times"
  else if m.beg.isSome ∧ m.snd.isNone then some s!"C03: message {m.id} ({m.meth}) was handled but never sent"
  else if ¬ m.err ∧ m.ret.isSome ∧ (m.beg.isNone ∨ m.fin.isNone) then
    if stateless st.tr ∧ ¬ m.isCall ∧ m.toServer then
      some s!"C03: F14 notification acknowledged (202) on a stateless streamable server but never dispatched (message {m.id}, {m.meth})"
    else some s!"C03: message {m.id} ({m.meth}) was sent without error but its handler never ran to completion"
  else none

/-- The messages that stand before `m` in the POST body that carries it (record order = body order). -/
def bodyPreds (msgs : List Msg) (m : Msg) : List Nat :=
  if m.body == 0 then [] else
    ((msgs.takeWhile fun x => x.id != m.id).filter fun x => x.toServer == m.toServer && x.body == m.body).map (·.id)

/-- The event sequence of one direction, in global log order. -/
def eventsOf (msgs : List Msg) (toServer : Bool) : List (Nat × Ev) :=
  let evs := msgs.foldl (fun acc m =>
    if m.toServer != toServer then acc else
    let add (acc : List (Nat × Ev)) (o : Option (Nat × Nat)) (e : Ev) := match o with
      | some (q, _) => (q, e) :: acc
      | none => acc
    let ps := bodyPreds msgs m
    add (add (add (add acc m.snd (if ps.isEmpty then .snd m.id else .bsnd ps m.id)) m.ret (.ret m.id)) m.beg (.beg m.id)) m.fin (.fin m.id)) []
  (evs.toArray.qsort fun a b => a.1 < b.1).toList

def kindFn (msgs : List Msg) : Nat → Kind := fun i =>
  match msgs.find? fun m => m.id == i with
  | some m => m.kind
  | none => .call

def Ev.label : Ev → Label
  | .snd i => .send i
  | .bsnd ps i => .bsend ps i
  | .ret i => .ret i
  | .beg i => .start i
  | .fin i => .fin i

/-- Eager invisible steps: release an asynchronous call, hand the head of the queue to the dispatcher. -/
def settle (kind : Nat → Kind) (s : State) : Nat → State
  | 0 => s
  | fuel + 1 =>
    match s.busy, s.queue with
    | some k, _ =>
      match step kind s (.rel k) with
      | some s' => settle kind s' fuel
      | none => s
    | none, h :: _ =>
      match step kind s (.disp h) with
      | some s' => settle kind s' fuel
      | none => s
    | none, [] => s

/-- Result of a search: events matched on the best attempt, success, step budget left. -/
structure SR where
  pos : Nat
  ok : Bool
  fuel : Nat
deriving Inhabited

/-- Is the event sequence the visible part of a model run?  `write` labels are placed lazily: only when the
next event is not enabled, and then any sending message may be written (backtracking over which).  Moving a
`write` to the right past an event that is enabled without it preserves being a run (no visible label is
disabled by a message still being outside the queue, `disp`/`rel` are taken eagerly anyway, and the order
among the writes is kept), so this finds a run whenever there is one. -/
partial def searchLazy (kind : Nat → Kind) (ids : List Nat) (s : State) (evs : List (Nat × Ev)) (pos fuel : Nat) : SR :=
  let s := settle kind s (2 * ids.length + 2)
  match evs with
  | [] => ⟨pos, true, fuel⟩
  | (_, e) :: rest =>
    match step kind s e.label with
    | some s' => searchLazy kind ids s' rest (pos + 1) fuel
    | none =>
      (ids.filter fun k => s.phase k == .sending).foldl (fun (best : SR) k =>
        if best.ok || best.fuel == 0 then best else
          match step kind s (.write k) with
          | some s' =>
            let r := searchLazy kind ids s' evs pos (best.fuel - 1)
            if r.ok || r.pos > best.pos then r else { best with fuel := r.fuel }
          | none => best) ⟨pos, false, fuel⟩

/-- Exhaustive variant (any sending message may be written before any event), bounded by the step budget. -/
partial def searchAll (kind : Nat → Kind) (ids : List Nat) (s : State) (evs : List (Nat × Ev)) (pos fuel : Nat) : SR :=
  let s := settle kind s (2 * ids.length + 2)
  match evs with
  | [] => ⟨pos, true, fuel⟩
  | (_, e) :: rest =>
    if fuel == 0 then ⟨pos, false, 0⟩ else
    let direct : SR := match step kind s e.label with
      | some s' => searchAll kind ids s' rest (pos + 1) (fuel - 1)
      | none => ⟨pos, false, fuel - 1⟩
    if direct.ok then direct else
      (ids.filter fun k => s.phase k == .sending).foldl (fun (best : SR) k =>
        if best.ok || best.fuel == 0 then best else
          match step kind s (.write k) with
          | some s' =>
            let r := searchAll kind ids s' evs pos (best.fuel - 1)
            if r.ok || r.pos > best.pos then r else { best with fuel := r.fuel }
          | none => best) direct

def search (kind : Nat → Kind) (ids : List Nat) (s : State) (evs : List (Nat × Ev)) (pos : Nat) : Nat × Bool :=
  let r := searchLazy kind ids s evs pos 20000
  if r.ok then (r.pos, true) else
    let r2 := searchAll kind ids s evs pos 20000
    if r2.ok then (r2.pos, true) else (max r.pos r2.pos, false)

/-- Ephemeral sessions: no invisible labels, the event sequence itself must be a run of `stepE`. -/
def searchE (s : State) (evs : List (Nat × Ev)) (pos : Nat) : Nat × Bool :=
  match evs with
  | [] => (pos, true)
  | (_, e) :: rest =>
    match stepE s e.label with
    | some s' => searchE s' rest (pos + 1)
    | none => (pos, false)

/-- `none` = accepted; `some q` = the event with global sequence number `q` is where every attempt got stuck. -/
def acceptDir (ephemeral : Bool) (msgs : List Msg) (toServer : Bool) : Option Nat :=
  let evs := eventsOf msgs toServer
  let ids := (msgs.filter fun m => m.toServer == toServer).map (·.id)
  let r := if ephemeral then searchE init evs 0 else search (kindFn msgs) ids init evs 0
  if r.2 then none else
    match evs[r.1]? with
    | some (q, _) => some q
    | none => some 0

/-- The ordering clause of C03 on one direction's events, with the proved monitor `Order.monitor`. -/
def orderClause (st : St) (toServer : Bool) : Option String :=
  let evs := (eventsOf st.msgs toServer).map (·.2)
  match (monitor (kindFn st.msgs) evs).bad with
  | none => none
  | some (i, j) =>
    let name (k : Nat) := match st.msgs.find? fun m => m.id == k with
      | some m => s!"{k} ({m.meth})"
      | none => toString k
    let isNote := match st.msgs.find? fun m => m.id == i with
      | some m => !m.isCall
      | none => false
    let pre := if stateless st.tr && isNote && toServer then "C03: F14 stateless streamable server: " else "C03: "
    let dir := if toServer then "client→server" else "server→client"
    let sameBody := match st.msgs.find? fun m => m.id == j with
      | some m => (bodyPreds st.msgs m).contains i
      | none => false
    if sameBody then
      some s!"{pre}{dir}: the handler of message {name j} started before the handler of message {name i} had finished, although {i} stands before {j} in the POST body (JSON-RPC batch) that carried both: messages of one peer must be dispatched in the order they were sent"
    else
    let acked := match st.msgs.find? fun m => m.id == i with
      | some m => if m.body != 0 then s!" (the POST that carried {i} had been answered: an acknowledgement may be given only after the messages are queued)" else ""
      | none => ""
    some s!"{pre}{dir}: the handler of message {name j} started before the handler of message {name i} had finished, although the call that sent {i} had returned before {j} was sent{acked}"

def engine : Engine St where
  init := {}
  step st toks impl :=
    match toks with
    | ["reset"] => ({}, { model := "ok" })
    | "cfg" :: rest =>
      match kv rest "tr", kv rest "dir", kv rest "pv" with
      | some tr, some dir, some pv => ({ tr := tr, dir := dir, pv := pv, msgs := [] }, { model := "ok" })
      | _, _, _ => (st, { model := "bad-op" })
    | "m" :: rest =>
      match parseMsg rest impl with
      | none => (st, { model := "bad-record" })
      | some m =>
        ({ st with msgs := st.msgs ++ [m] }, { model := modelMsgObs rest impl, violated := monitorMsg st m })
    | ["end"] =>
      let o := words impl
      let t := (kv o "t").getD "?"
      let rej := match acceptDir (stateless st.tr) st.msgs true, acceptDir false st.msgs false with
        | some q, _ => s!" rejected=c2s@{q}"
        | none, some q => s!" rejected=s2c@{q}"
        | none, none => ""
      let v := orderClause st true <|> orderClause st false
      (st, { model := s!"extra=0 t={t}{rej}", violated := v })
    | _ => (st, { model := "bad-op" })

end Order

def main : IO Unit := Proto.run Order.engine
