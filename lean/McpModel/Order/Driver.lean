import McpModel.Base.Proto
import McpModel.Order.Monitor
import McpModel.Order.EphemeralBody
/-!
Driver for the engine `order` (C03, end-to-end half).  One case = one scenario between a real
`mcp.Client` and a real `mcp.Server` over one transport, under virtual time.

records (op ⇒ implementation's observation):
  `reset`                                              ⇒ `ok`
  `cfg tr=<transport> dir=<c2s|s2c|s2ci> pv=<version>` ⇒ `ok` | `connect-fail` | `setup-fail` | `carrier-fail` | `panic` …
  `m <i> dir=<c2s|s2c> kind=<i|n|c|g|r> meth=<name> d=<ms> gap=<ms> cb=<0|1> [b=<body> rs=<ms>]`
        ⇒ `snd=<seq>@<ms> ret=<seq>@<ms> err=<0|1> beg=<seq>@<ms> fin=<seq>@<ms> n=<handler runs>`   (`-` = did not happen)
  `end`                                                ⇒ `extra=<handler runs without a known tag> t=<ms>`
Fan-out cases (`cfg … np=<peers>`: ONE Client connected to `np` servers, dir=c2s, or ONE Server with `np`
client sessions, dir=s2c) add
  `to=<peer>` on every `m` record (the receiving peer; the pair of a message is (direction, peer)),
  `of=<g>` on the per-session copies of the fan-out `g`, `lat=<ms>` (virtual latency a sending middleware
        adds to this message's send path — a schedule, invisible to the model), and
  `f <g> meth=<roots|resupd|tools|prompts|resources> mode=<sync|detached>`
        ⇒ `call=<seq>@<ms> done=<seq>@<ms>`   the notifying method (AddRoots/RemoveRoots, ResourceUpdated; for
        `detached`: AddTool/AddPrompt/AddResource, which only arm the debounce timer) begins / returns.
For a `sync` fan-out the copies obey the fan-out discipline of `Order.fstep` (per-session sends one after
the other, all of them over when the method returns) and the monitor counts every copy whose send did not
fail as returned on its pair from `done` on.  The copies of a `detached` (debounced) fan-out are plain
messages: the ordering clause applies to each from the instant its own per-session send has returned.

`b` (raw streamable peer only): messages with the same `b` ≠ 0 travel in ONE POST body (a JSON-RPC batch), in
record order; `snd` of all of them is logged before the POST, `ret` of all of them when the POST has been
answered (202, or the complete response stream if the body contains calls).  `rs`: the session's reader
pauses that long after reading the message (a schedule, invisible to the model).
`kind`: i = the initialize call, n = notification, c = call the sender waits for, g/r = call issued
from a goroutine of its own.  `snd`/`ret` = the sender's API call begins / returns, `beg`/`fin` = the
peer's handler (outermost receiving middleware) starts / ends; `<seq>` is the position in the global
event log.

Model side (`D` when it disagrees): every message whose sending call did not fail is handled exactly
once (`n=1`), nothing unknown is handled (`extra=0`), and — at `end`, per direction — the observed event
sequence must be the visible part of a run of `Order.step` (the invisible `write`/`disp`/`rel` labels
are found by search: `disp`/`rel` eagerly, `write` lazily — right before the first event that is not enabled
without it — with backtracking over which message is written, and, should that fail, by exhaustive
backtracking bounded by a step budget; a message of a body is a `bsend` carrying its predecessors; client→server traffic of a sessionless
streamable server — transports sl, slj, sn, snj and the raw peer's rs, rn — is checked against `Order.stepB`, one
temporary session per POST, which is `Order.stepE` when every POST carries one message); otherwise
`rejected=<dir>@<seq>`.
Monitor side (`V`): the property itself, `Order.holdsOn` (proved to accept every model run:
`Order.monitor_accepts_runs`), on the implementation's event sequence, plus "a message that was sent
without error is eventually handled" at quiescence.  Messages are classified with the regenerated
`Async` guards (`Order.classify`), not with what the harness says.
-/
namespace Order
open Proto

def kv (toks : List String) (k : String) : Option String :=
  toks.findSome? fun t => if t.startsWith (k ++ "=") then some ((t.drop (k.length + 1)).toString) else none

/-- `12@9` ↦ (12, 9); `-` ↦ none. -/
def parseAt (s : String) : Option (Nat × Nat) :=
  match s.splitOn "@" with
  | [a, b] => do let x ← a.toNat?; let y ← b.toNat?; pure (x, y)
  | _ => none

structure Msg where
  id : Nat
  toServer : Bool
  isCall : Bool
  meth : String
  kindTok : String
  snd : Option (Nat × Nat)
  ret : Option (Nat × Nat)
  err : Bool
  beg : Option (Nat × Nat)
  fin : Option (Nat × Nat)
  n : Nat
  body : Nat := 0
  /-- the receiving peer (fan-out cases; 0 otherwise) -/
  to : Nat := 0
  /-- the fan-out this message is a per-session copy of (0: none) -/
  grp : Nat := 0
  /-- where the sending call reported its error -/
  errAt : Option (Nat × Nat) := none
  /-- where the message entered the receiver's handler queue -/
  enq : Option (Nat × Nat) := none

/-- One notifying method that addresses several sessions. -/
structure Fan where
  g : Nat
  meth : String
  sync : Bool
  call : Option (Nat × Nat)
  done : Option (Nat × Nat)

structure St where
  tr : String := ""
  dir : String := ""
  pv : String := ""
  np : Nat := 1
  msgs : List Msg := []
  fans : List Fan := []

def Msg.kind (m : Msg) : Kind := classify m.toServer m.isCall m.meth

def parseMsg (toks : List String) (impl : String) : Option Msg := do
  let id ← (← toks[0]?).toNat?
  let dir ← kv toks "dir"
  let k ← kv toks "kind"
  let meth ← kv toks "meth"
  let o := words impl
  let fld (name : String) : Option (Option (Nat × Nat)) :=
    match kv o name with
    | none => none
    | some "-" => some none
    | some v => (parseAt v).map some
  let snd ← fld "snd"
  let ret ← fld "ret"
  let beg ← fld "beg"
  let fin ← fld "fin"
  let enq := (fld "enq").getD none
  let err ← kv o "err"
  let n ← (← kv o "n").toNat?
  if dir != "c2s" && dir != "s2c" then none
  let body := ((kv toks "b").bind (·.toNat?)).getD 0
  let to := ((kv toks "to").bind (·.toNat?)).getD 0
  let grp := ((kv toks "of").bind (·.toNat?)).getD 0
  pure { body := body, id := id, toServer := dir == "c2s", isCall := k != "n", meth := meth, kindTok := k,
         snd := snd, ret := if err == "1" then none else ret, err := err == "1", beg := beg, fin := fin, n := n,
         to := to, grp := grp, errAt := if err == "1" then ret else none, enq := enq }

def parseFan (toks : List String) (impl : String) : Option Fan := do
  let g ← (← toks[0]?).toNat?
  let meth ← kv toks "meth"
  let mode ← kv toks "mode"
  let o := words impl
  let fld (name : String) : Option (Option (Nat × Nat)) :=
    match kv o name with
    | none => none
    | some "-" => some none
    | some v => (parseAt v).map some
  let call ← fld "call"
  let done ← fld "done"
  if g == 0 || (mode != "sync" && mode != "detached") then none
  pure { g := g, meth := meth, sync := mode == "sync", call := call, done := done }

def showAt : Option (Nat × Nat) → String
  | none => "-"
  | some (a, b) => s!"{a}@{b}"

/-- Every POST is served by a temporary session of its own: a stateless `StreamableHTTPHandler` (`sl`, `slj`) or a
stateful one whose server hands out no session ids (`ServerOptions.GetSessionID` returns "": `sn`, `snj`). -/
def stateless (tr : String) : Bool := tr.startsWith "sl" || tr.startsWith "sn" || tr == "rs" || tr == "rn"

/-- What the model says about one message record: exactly one handler run unless the sending call failed. -/
def modelMsgObs (toks : List String) (impl : String) : String :=
  let o := words impl
  let err := kv o "err" == some "1"
  let o' := o.map fun t => if t.startsWith "n=" ∧ ¬ err then "n=1" else t
  let _ := toks
  " ".intercalate o'

/-- The typed record of a message (what `Order.recClause` judges). -/
def Msg.toRec (tr : String) (m : Msg) : Rec :=
  { id := m.id, sent := m.snd.isSome, acked := !m.err && m.ret.isSome, began := m.beg.isSome, ended := m.fin.isSome,
    runs := m.n, statelessNote := stateless tr && !m.isCall && m.toServer }

def nameOf (msgs : List Msg) (k : Nat) : String :=
  match msgs.find? fun m => m.id == k with
  | some m => s!"{k} ({m.meth})"
  | none => toString k

/-- Per-record monitor: a message that was sent without error must have been handled, once (`Order.recClause`). -/
def monitorMsg (st : St) (m : Msg) : Option String :=
  (recClause (m.toRec st.tr)).map fun
    | .ranTwice _ n => s!"C03: the handler of message {m.id} ({m.meth}) ran {n} times"
    | .neverSent _ => s!"C03: message {m.id} ({m.meth}) was handled but never sent"
    | .f14NotDispatched _ =>
      if m.body != 0 then
        s!"C03: sessionless-body-drop: a notification that travelled in a POST body with other messages (JSON-RPC batch) was accepted by a sessionless streamable server — the POST was answered — but never dispatched (message {m.id}, {m.meth})"
      else
        s!"C03: F14 notification acknowledged (202) on a stateless streamable server but never dispatched (message {m.id}, {m.meth})"
    | .notHandled _ => s!"C03: message {m.id} ({m.meth}) was sent without error but its handler never ran to completion"
    | _ => "C03: ?"

/-- The messages that stand before `m` in the POST body that carries it (record order = body order). -/
def bodyPreds (msgs : List Msg) (m : Msg) : List Nat :=
  if m.body == 0 then [] else
    ((msgs.takeWhile fun x => x.id != m.id).filter fun x => x.toServer == m.toServer && x.body == m.body).map (·.id)

/-- The pair a message travels on: (receiving peer, direction). -/
def Msg.pair (m : Msg) : Nat := 2 * m.to + (if m.toServer then 0 else 1)

def sortEvs {α} (evs : List (Nat × α)) : List (Nat × α) := (evs.toArray.qsort fun a b => a.1 < b.1).toList

/-- The event sequence of one pair, in global log order. -/
def eventsOf (msgs : List Msg) (pair : Nat) : List (Nat × Ev) :=
  let evs := msgs.foldl (fun acc m =>
    if m.pair != pair then acc else
    let add (acc : List (Nat × Ev)) (o : Option (Nat × Nat)) (e : Ev) := match o with
      | some (q, _) => (q, e) :: acc
      | none => acc
    let ps := bodyPreds msgs m
    add (add (add (add acc m.snd (if ps.isEmpty then .snd m.id else .bsnd ps m.id)) m.ret (.ret m.id)) m.beg (.beg m.id)) m.fin (.fin m.id)) []
  sortEvs evs

/-- The case's global event log: the events of every message, the failed per-session sends of fan-out
copies, and begin / return of every synchronous notifying method, in the order of the sequence numbers. -/
def fanEvents (st : St) : List (Nat × FEv) :=
  let add (acc : List (Nat × FEv)) (o : Option (Nat × Nat)) (e : FEv) := match o with
    | some (q, _) => (q, e) :: acc
    | none => acc
  let syncG (g : Nat) : Bool := st.fans.any fun f => f.g == g && f.sync
  let evs := st.msgs.foldl (fun acc m =>
    let ps := bodyPreds st.msgs m
    let acc := add (add (add (add acc m.snd (FEv.msg (if ps.isEmpty then .snd m.id else .bsnd ps m.id))) m.ret (.msg (.ret m.id))) m.beg (.msg (.beg m.id))) m.fin (.msg (.fin m.id))
    let acc := add acc m.enq (.enq m.id)
    if m.grp != 0 && syncG m.grp then add acc m.errAt (.ferr m.id) else acc) []
  let evs := st.fans.foldl (fun acc f => if f.sync then add (add acc f.call (.fcall f.g)) f.done (.fret f.g) else acc) evs
  sortEvs evs

def kindFn (msgs : List Msg) : Nat → Kind := fun i =>
  match msgs.find? fun m => m.id == i with
  | some m => m.kind
  | none => .call

/-- Addressing of the case: pair of a message, its synchronous fan-out (if any), the copies of a fan-out. -/
def topoOf (st : St) : Topo where
  pair i := match st.msgs.find? fun m => m.id == i with
    | some m => m.pair
    | none => 0
  grp i := match st.msgs.find? fun m => m.id == i with
    | some m => if m.grp != 0 && (st.fans.any fun f => f.g == m.grp && f.sync) then some m.grp else none
    | none => none
  copies g := if st.fans.any fun f => f.g == g && f.sync then (st.msgs.filter fun m => m.grp == g).map (·.id) else []

def cfgOf (st : St) : Cfg := let t := topoOf st; { kind := kindFn st.msgs, pair := t.pair, copies := t.copies, grp := t.grp }

/-- Eager invisible steps: release an asynchronous call, hand the head of the queue to the dispatcher. -/
def settle (kind : Nat → Kind) (s : State) : Nat → State
  | 0 => s
  | fuel + 1 =>
    match s.busy, s.queue with
    | some k, _ =>
      match step kind s (.rel k) with
      | some s' => settle kind s' fuel
      | none => s
    | none, h :: _ =>
      match step kind s (.disp h) with
      | some s' => settle kind s' fuel
      | none => s
    | none, [] => s

/-- The model has ONE FIFO between `write` and `disp`; the implementation reports the order in which the messages
of a pair entered the last of its queues (`enq`, `order`).  The search places the `write` labels in that order: a
message that was seen entering the queue may be written only when everything that entered before it has been. -/
def mayWrite (order : List Nat) (s : State) (k : Nat) : Bool :=
  !order.contains k ||
    (order.find? fun x => s.phase x == .unsent || s.phase x == .sending) == some k

/-- Result of a search: events matched on the best attempt, success, step budget left. -/
structure SR where
  pos : Nat
  ok : Bool
  fuel : Nat
deriving Inhabited

/-- Is the event sequence the visible part of a model run?  `write` labels are placed lazily: only when the
next event is not enabled, and then any sending message may be written (backtracking over which).  Moving a
`write` to the right past an event that is enabled without it preserves being a run (no visible label is
disabled by a message still being outside the queue, `disp`/`rel` are taken eagerly anyway, and the order
among the writes is kept), so this finds a run whenever there is one. -/
partial def searchLazy (kind : Nat → Kind) (order : List Nat) (ids : List Nat) (s : State) (evs : List (Nat × Ev)) (pos fuel : Nat) : SR :=
  let s := settle kind s (2 * ids.length + 2)
  match evs with
  | [] => ⟨pos, true, fuel⟩
  | (_, e) :: rest =>
    match step kind s e.label with
    | some s' => searchLazy kind order ids s' rest (pos + 1) fuel
    | none =>
      (ids.filter fun k => s.phase k == .sending && mayWrite order s k).foldl (fun (best : SR) k =>
        if best.ok || best.fuel == 0 then best else
          match step kind s (.write k) with
          | some s' =>
            let r := searchLazy kind order ids s' evs pos (best.fuel - 1)
            if r.ok || r.pos > best.pos then r else { best with fuel := r.fuel }
          | none => best) ⟨pos, false, fuel⟩

/-- Exhaustive variant (any sending message may be written before any event), bounded by the step budget. -/
partial def searchAll (kind : Nat → Kind) (order : List Nat) (ids : List Nat) (s : State) (evs : List (Nat × Ev)) (pos fuel : Nat) : SR :=
  let s := settle kind s (2 * ids.length + 2)
  match evs with
  | [] => ⟨pos, true, fuel⟩
  | (_, e) :: rest =>
    if fuel == 0 then ⟨pos, false, 0⟩ else
    let direct : SR := match step kind s e.label with
      | some s' => searchAll kind order ids s' rest (pos + 1) (fuel - 1)
      | none => ⟨pos, false, fuel - 1⟩
    if direct.ok then direct else
      (ids.filter fun k => s.phase k == .sending && mayWrite order s k).foldl (fun (best : SR) k =>
        if best.ok || best.fuel == 0 then best else
          match step kind s (.write k) with
          | some s' =>
            let r := searchAll kind order ids s' evs pos (best.fuel - 1)
            if r.ok || r.pos > best.pos then r else { best with fuel := r.fuel }
          | none => best) direct

def search (kind : Nat → Kind) (order : List Nat) (ids : List Nat) (s : State) (evs : List (Nat × Ev)) (pos : Nat) : Nat × Bool :=
  let r := searchLazy kind order ids s evs pos 20000
  if r.ok then (r.pos, true) else
    let r2 := searchAll kind order ids s evs pos 20000
    if r2.ok then (r2.pos, true) else (max r.pos r2.pos, false)

/-- Ephemeral sessions: no invisible labels, the event sequence itself must be a run of `stepB` — which is `stepE`
as long as no POST body carries several messages (`Order.stepB_eq_stepE`; only the raw peer sends such bodies). -/
def searchE (kind : Nat → Kind) (s : State) (evs : List (Nat × Ev)) (pos : Nat) : Nat × Bool :=
  match evs with
  | [] => (pos, true)
  | (_, e) :: rest =>
    match stepB kind s e.label with
    | some s' => searchE kind s' rest (pos + 1)
    | none => (pos, false)

/-- `none` = accepted; `some q` = the event with global sequence number `q` is where every attempt got stuck. -/
def acceptPair (ephemeral : Bool) (msgs : List Msg) (pair : Nat) : Option Nat :=
  let evs := eventsOf msgs pair
  let ids := (msgs.filter fun m => m.pair == pair).map (·.id)
  let order := (sortEvs ((msgs.filter fun m => m.pair == pair).filterMap fun m => m.enq.map fun q => (q.1, m.id))).map (·.2)
  let r := if ephemeral then searchE (kindFn msgs) init evs 0 else search (kindFn msgs) order ids init evs 0
  if r.2 then none else
    match evs[r.1]? with
    | some (q, _) => some q
    | none => some 0

/-- Every pair's events must be the visible part of a run of the pair model, and the global log must obey
the fan-out discipline (`Order.fanDiscipline`: a run of `Order.fstep` whose pairs accept everything). -/
def rejected (st : St) : String :=
  let pairs := (st.msgs.map (·.pair)).eraseDups
  let bad := pairs.findSome? fun p =>
    (acceptPair (stateless st.tr && p % 2 == 0) st.msgs p).map fun q =>
      let d := if p % 2 == 0 then "c2s" else "s2c"
      if st.np > 1 then s!" rejected={d}/{p / 2}@{q}" else s!" rejected={d}@{q}"
  match bad with
  | some r => r
  | none => if fanDiscipline (topoOf st) ((fanEvents st).map (·.2)) then "" else " rejected=fanout"

/-- The ordering clause of C03 on the case's event log, with the typed monitor `Order.orderClause`
(`Order.fan_monitor_accepts_runs`, `Order.sound_*`). -/
def orderJudge (st : St) : Option Clause :=
  if st.np > 1 then orderClause (cfgOf st) ((fanEvents st).map (·.2))
  else
    -- one client, one server: each direction is a pair of its own (no notifying method couples them), judged
    -- on its own events with the single-pair configuration (`Order.pair_monitor_accepts_runs`,
    -- `Order.pair_monitor_accepts_ephemeral_runs`)
    let cfg : Cfg := { kind := kindFn st.msgs, pair := fun _ => 0, copies := fun _ => [], grp := fun _ => none }
    [0, 1].findSome? fun p => orderClause cfg (((fanEvents { st with msgs := st.msgs.filter fun m => m.pair == p }).map (·.2)))

def orderText (st : St) : Option String :=
  (orderJudge st).map fun cl =>
    let find (k : Nat) := st.msgs.find? fun m => m.id == k
    let name := nameOf st.msgs
    let render (i j : Nat) (tail : String) (f14 : Bool := true) : String :=
      let toServer := match find i with | some m => m.toServer | none => true
      let isNote := match find i with | some m => !m.isCall | none => false
      let pre := if f14 && stateless st.tr && isNote && toServer then "C03: F14 stateless streamable server: " else "C03: "
      let dir := if toServer then "client→server" else "server→client"
      let peer := if st.np > 1 then match find i with | some m => s!" (peer {m.to})" | none => "" else ""
      s!"{pre}{dir}{peer}: the handler of message {name j} started before the handler of message {name i} had finished, {tail}"
    match cl with
    | .sameBody i j =>
      render i j s!"although {i} stands before {j} in the POST body (JSON-RPC batch) that carried both: messages of one peer must be dispatched in the order they were sent"
    | .bodyDispatch i j =>
      let toServer := match find i with | some m => m.toServer | none => true
      let dir := if toServer then "client→server" else "server→client"
      let peer := if st.np > 1 then match find i with | some m => s!" (peer {m.to})" | none => "" else ""
      s!"C03: {dir}{peer}: message {name j} entered the handler queue of the receiving connection before message {name i} did, although {i} stands before {j} in the POST body (JSON-RPC batch) that carried both: messages of one peer are dispatched to handlers in the order they were sent, whatever their kinds"
    | .laterSend i j =>
      let acked := match find i with
        | some m => if m.body != 0 then s!" (the POST that carried {i} had been answered: an acknowledgement may be given only after the messages are queued)" else ""
        | none => ""
      render i j s!"although the call that sent {i} had returned before {j} was sent{acked}"
    | .fanout g i j =>
      let meth := match st.fans.find? fun f => f.g == g with | some f => f.meth | none => "?"
      render i j s!"although {i} is this peer's copy of a notification sent to several sessions by one notifying method (fan-out {g}, {meth}) and that method had returned before {j} was sent: a notifying method that addresses several sessions has sent to every one of them when it returns" false
    | _ => "C03: ?"

def engine : Engine St where
  init := {}
  step st toks impl :=
    match toks with
    | ["reset"] => ({}, { model := "ok" })
    | "cfg" :: rest =>
      match kv rest "tr", kv rest "dir", kv rest "pv" with
      | some tr, some dir, some pv =>
        ({ tr := tr, dir := dir, pv := pv, np := ((kv rest "np").bind (·.toNat?)).getD 1, msgs := [] }, { model := "ok" })
      | _, _, _ => (st, { model := "bad-op" })
    | "f" :: rest =>
      match parseFan rest impl with
      | none => (st, { model := "bad-record" })
      | some f => ({ st with fans := st.fans ++ [f] }, { model := impl })
    | "m" :: rest =>
      match parseMsg rest impl with
      | none => (st, { model := "bad-record" })
      | some m =>
        ({ st with msgs := st.msgs ++ [m] }, { model := modelMsgObs rest impl, violated := monitorMsg st m })
    | ["end"] =>
      let o := words impl
      let t := (kv o "t").getD "?"
      (st, { model := s!"extra=0 t={t}{rejected st}", violated := orderText st })
    | _ => (st, { model := "bad-op" })

end Order

def main : IO Unit := Proto.run Order.engine
