import McpModel.Order.Props
/-!
Engine `order` — the temporary session of a sessionless streamable server, step by step (C03).

`Order.stepE` says in ONE label what a sessionless `StreamableHTTPHandler` (`Stateless`, or a stateful handler whose
`ServerOptions.GetSessionID` returns "") does for the POST that carries message `i`: "`ret i` requires the handler of
`i` to be done".  Here the code that makes this true is modelled statement by statement, and `stepE` is PROVED to be
what is visible of it (`fine_refines_stepE`).  Labels (one POST = one message = one temporary session; the statements
are those of `serveStateless` / `serveStatefulPOST` → `serveEphemeral` → `servePOST`, regenerated fact
`order.ephemeral_session`):

  `post i`    the client's `Write` issues the POST (the sender's API call began: `send i`).
  `hand i`    `connectStreamable` + `transport.ServeHTTP`: `servePOST` hands the message to the temporary session
              (`c.incoming <- msg`).  For a notification it then sets the status 202 on the ResponseWriter —
              nothing reaches the client before the HTTP handler returns — and `ServeHTTP` returns; for a call
              `ServeHTTP` itself stays in `servePOST` until the response has been written to the POST's stream.
  `start i`, `cb i`, `fin i`  the temporary session's reader/dispatcher start the user handler; it calls back; it ends.
  `drain i`   `serveEphemeral`: `close(transport.connection.incoming); session.Wait()` returns — `Wait` returns when the
              session's connection is done, i.e. after every handler it started has finished.  (For a POST with a
              call this label stands for `servePOST` seeing the call's response, which the handler's end produces.)
  `reply i`   the HTTP handler returns (`defer session.Close()`): only now the 202 / the response body's end
              reaches the client; the client's `Write` / `Call` returns: `ret i`.

Nothing is assumed about the schedule.  Core Lean only.
-/
set_option linter.unusedSimpArgs false
set_option linter.unusedVariables false
namespace Order

inductive TPhase where
  | unsent | posted | handed | running | done | drained | replied
deriving DecidableEq, Repr

inductive TLabel where
  | post (i : Nat)
  | hand (i : Nat)
  | start (i : Nat)
  | cb (i : Nat)
  | fin (i : Nat)
  | drain (i : Nat)
  | reply (i : Nat)
deriving DecidableEq, Repr

/-- State of the fine model: the phase of every message's POST. -/
structure TState where
  phase : Nat → TPhase

def tinit : TState := { phase := fun _ => .unsent }

def TState.set (s : TState) (i : Nat) (p : TPhase) : TState := { phase := fun k => if k = i then p else s.phase k }

def fineStep (s : TState) : TLabel → Option TState
  | .post i => if s.phase i = .unsent then some (s.set i .posted) else none
  | .hand i => if s.phase i = .posted then some (s.set i .handed) else none
  | .start i => if s.phase i = .handed then some (s.set i .running) else none
  | .cb i => if s.phase i = .running then some s else none
  | .fin i => if s.phase i = .running then some (s.set i .done) else none
  | .drain i => if s.phase i = .done then some (s.set i .drained) else none     -- `session.Wait()` returns only then
  | .reply i => if s.phase i = .drained then some (s.set i .replied) else none -- the HTTP handler returns after `Wait`

def fineRun : TState → List TLabel → Option TState
  | s, [] => some s
  | s, l :: ls =>
    match fineStep s l with
    | some s' => fineRun s' ls
    | none => none

/-- The label of `stepE` a fine label stands for (`hand`, `drain` are internal to the server). -/
def TLabel.coarse : TLabel → Option Label
  | .post i => some (.send i)
  | .start i => some (.start i)
  | .cb i => some (.cb i)
  | .fin i => some (.fin i)
  | .reply i => some (.ret i)
  | _ => none

def coarse (ls : List TLabel) : List Label := ls.filterMap TLabel.coarse

def TPhase.abs : TPhase → Phase
  | .unsent => .unsent
  | .posted => .sending
  | .handed => .sending
  | .running => .running
  | .done => .done
  | .drained => .done
  | .replied => .done

/-- The abstraction relation: phases correspond, and `returned` holds exactly the replied messages. -/
structure TAbs (f : TState) (s : State) : Prop where
  phase : ∀ i, s.phase i = (f.phase i).abs
  returned : ∀ i, i ∈ s.returned ↔ f.phase i = .replied

theorem tabs_init : TAbs tinit init := ⟨by intro i; rfl, by intro i; simp [init, tinit]⟩

theorem TState.set_phase (f : TState) (i k : Nat) (p : TPhase) :
    (f.set i p).phase k = if k = i then p else f.phase k := rfl

/-- One fine step is one step of `stepE`, or none at all. -/
theorem tabs_step {f f' : TState} {s : State} {l : TLabel} (ha : TAbs f s) (h : fineStep f l = some f') :
    match l.coarse with
    | some c => ∃ s', stepE s c = some s' ∧ TAbs f' s'
    | none => TAbs f' s := by
  cases l <;> simp only [fineStep] at h <;> split at h <;> simp at h <;> subst h <;> rename_i hp <;>
    simp only [TLabel.coarse]
  case post i =>
    have hs : s.phase i = .unsent := by rw [ha.phase, hp]; rfl
    refine ⟨s.setPhase i .sending, by simp [stepE, hs], ?_, ?_⟩
    · intro k
      simp only [setPhase_phase, TState.set_phase]
      by_cases e : k = i
      · simp [e, TPhase.abs]
      · simp [e, ha.phase]
    · intro k
      simp only [State.setPhase, TState.set_phase]
      by_cases e : k = i
      · subst e; simp; intro hk; have := (ha.returned k).1 hk; simp [hp] at this
      · simp [e]; exact ha.returned k
  case hand i =>
    refine ⟨?_, ?_⟩
    · intro k
      simp only [TState.set_phase]
      by_cases e : k = i
      · subst e; simp [TPhase.abs]; rw [ha.phase, hp]; rfl
      · simp [e, ha.phase]
    · intro k
      simp only [TState.set_phase]
      by_cases e : k = i
      · subst e; simp; intro hk; have := (ha.returned k).1 hk; simp [hp] at this
      · simp [e]; exact ha.returned k
  case start i =>
    have hs : s.phase i = .sending := by rw [ha.phase, hp]; rfl
    refine ⟨s.setPhase i .running, by simp [stepE, hs], ?_, ?_⟩
    · intro k
      simp only [setPhase_phase, TState.set_phase]
      by_cases e : k = i
      · simp [e, TPhase.abs]
      · simp [e, ha.phase]
    · intro k
      simp only [State.setPhase, TState.set_phase]
      by_cases e : k = i
      · subst e; simp; intro hk; have := (ha.returned k).1 hk; simp [hp] at this
      · simp [e]; exact ha.returned k
  case cb i =>
    have hs : s.phase i = .running := by rw [ha.phase, hp]; rfl
    exact ⟨s, by simp [stepE, hs], ha⟩
  case fin i =>
    have hs : s.phase i = .running := by rw [ha.phase, hp]; rfl
    refine ⟨s.setPhase i .done, by simp [stepE, hs], ?_, ?_⟩
    · intro k
      simp only [setPhase_phase, TState.set_phase]
      by_cases e : k = i
      · simp [e, TPhase.abs]
      · simp [e, ha.phase]
    · intro k
      simp only [State.setPhase, TState.set_phase]
      by_cases e : k = i
      · subst e; simp; intro hk; have := (ha.returned k).1 hk; simp [hp] at this
      · simp [e]; exact ha.returned k
  case drain i =>
    refine ⟨?_, ?_⟩
    · intro k
      simp only [TState.set_phase]
      by_cases e : k = i
      · subst e; simp [TPhase.abs]; rw [ha.phase, hp]; rfl
      · simp [e, ha.phase]
    · intro k
      simp only [TState.set_phase]
      by_cases e : k = i
      · subst e; simp; intro hk; have := (ha.returned k).1 hk; simp [hp] at this
      · simp [e]; exact ha.returned k
  case reply i =>
    have hs : s.phase i = .done := by rw [ha.phase, hp]; rfl
    have hn : i ∉ s.returned := by intro hk; have := (ha.returned i).1 hk; simp [hp] at this
    refine ⟨{ s with returned := i :: s.returned }, by simp [stepE, hs, hn], ?_, ?_⟩
    · intro k
      simp only [TState.set_phase]
      by_cases e : k = i
      · subst e; simp [TPhase.abs, hs]
      · simp [e, ha.phase]
    · intro k
      simp only [TState.set_phase, List.mem_cons]
      by_cases e : k = i
      · simp [e]
      · simp [e]; exact ha.returned k

/-- REFINEMENT: for ALL label lists, a run of the statement-level model of the temporary session shows, through
`coarse`, a run of `stepE` — "the POST is answered only after the session has handled what it carried" is a
consequence of `session.Wait()` standing between `ServeHTTP` and the return of the HTTP handler. -/
theorem fine_refines_stepE {f f' : TState} {s : State} {ls : List TLabel} (ha : TAbs f s) (h : fineRun f ls = some f') :
    ∃ s', runE s (coarse ls) = some s' ∧ TAbs f' s' := by
  induction ls generalizing f s with
  | nil => simp [fineRun] at h; subst h; exact ⟨s, rfl, ha⟩
  | cons l r ih =>
    simp only [fineRun] at h
    cases h1 : fineStep f l with
    | none => simp [h1] at h
    | some f1 =>
      simp only [h1] at h
      have hstep := tabs_step ha h1
      cases hc : l.coarse with
      | none =>
        simp only [hc] at hstep
        obtain ⟨s', hr, ha'⟩ := ih hstep h
        exact ⟨s', by simpa [coarse, hc] using hr, ha'⟩
      | some c =>
        simp only [hc] at hstep
        obtain ⟨s1, hs1, ha1⟩ := hstep
        obtain ⟨s', hr, ha'⟩ := ih ha1 h
        exact ⟨s', by simp [coarse, hc, runE, hs1]; simpa [coarse] using hr, ha'⟩

/-- Hence the ordering clause of C03 holds on what an observer sees of EVERY run of the statement-level model,
whatever the kinds of the messages and however long the handlers run. -/
theorem fine_runs_satisfy_monitor (kind : Nat → Kind) {ls : List TLabel} {f : TState}
    (h : fineRun tinit ls = some f) : holdsOn kind (visible (coarse ls)) = true := by
  obtain ⟨s', hr, _⟩ := fine_refines_stepE tabs_init h
  exact ephemeral_runs_satisfy_monitor kind hr

/-- For ALL runs: when the client's `Write` for `i` returns (`reply i`), the handler of `i` has finished. -/
theorem reply_after_fin {ls : List TLabel} {f f' : TState} {i : Nat}
    (h : fineRun tinit ls = some f) (hr : fineStep f (.reply i) = some f') : TLabel.fin i ∈ ls := by
  -- invariant: a message at or beyond `done` has a `fin` label in the history
  have inv : ∀ (ls pre : List TLabel) (g g' : TState),
      (∀ k, (g.phase k = .done ∨ g.phase k = .drained ∨ g.phase k = .replied) → TLabel.fin k ∈ pre) →
      fineRun g ls = some g' →
      ∀ k, (g'.phase k = .done ∨ g'.phase k = .drained ∨ g'.phase k = .replied) → TLabel.fin k ∈ pre ++ ls := by
    intro ls
    induction ls with
    | nil => intro pre g g' h0 hrun k hk; simp [fineRun] at hrun; subst hrun; simpa using h0 k hk
    | cons l r ih =>
      intro pre g g' h0 hrun k hk
      simp only [fineRun] at hrun
      cases hm : fineStep g l with
      | none => simp [hm] at hrun
      | some m =>
        simp only [hm] at hrun
        have hnext : ∀ k, (m.phase k = .done ∨ m.phase k = .drained ∨ m.phase k = .replied) → TLabel.fin k ∈ pre ++ [l] := by
          intro k hk
          cases l <;> simp only [fineStep] at hm <;> split at hm <;> simp at hm <;> subst hm <;> rename_i hp
          case fin j =>
            by_cases e : k = j
            · subst e; simp
            · simp only [TState.set_phase, e, if_false] at hk
              exact List.mem_append_left _ (h0 k hk)
          case cb j => exact List.mem_append_left _ (h0 k hk)
          all_goals
            rename_i j
            by_cases e : k = j
            · subst e
              first
                | (have hq : g.phase k = .done ∨ g.phase k = .drained ∨ g.phase k = .replied := by simp [hp]
                   exact List.mem_append_left _ (h0 k hq))
                | (simp [TState.set_phase] at hk)
            · simp only [TState.set_phase, e, if_false] at hk
              exact List.mem_append_left _ (h0 k hk)
        have := ih (pre ++ [l]) m g' hnext hrun k hk
        simpa [List.append_assoc] using this
  simp only [fineStep] at hr
  split at hr <;> simp at hr
  rename_i hp
  have := inv ls [] tinit f (by intro k hk; simp [tinit] at hk) h i (Or.inr (Or.inl hp))
  simpa using this

/-- Non-vacuity: a slow notification 0, then call 1 — the call is posted only after the notification's POST was
answered, which is after its handler finished. -/
example : (fineRun tinit [.post 0, .hand 0, .start 0, .cb 0, .fin 0, .drain 0, .reply 0,
                          .post 1, .hand 1, .start 1, .fin 1, .drain 1, .reply 1]).isSome = true := by decide

/-- Seeded change C03-m15 (`serveEphemeral` stops waiting after 10 s and lets the HTTP handler return): `reply 0`
while the handler of 0 is still running is not a step of the model, and what the client then observes is rejected
by the monitor. -/
theorem bounded_drain_breaks_order :
    (fineRun tinit [.post 0, .hand 0, .start 0, .reply 0]).isNone = true
    ∧ holdsOn (fun k => if k = 0 then .note else .call)
        [.snd 0, .beg 0, .ret 0, .snd 1, .beg 1, .fin 1, .ret 1, .fin 0] = false := by
  constructor <;> decide

end Order
