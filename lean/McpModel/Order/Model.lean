import McpModel.Generated.OrderGen
/-
Engine `order` — the end-to-end half of C03 (in-order dispatch between two MCP sessions).

One direction of one session pair (sender → receiver) as a labelled transition system.  Messages are
natural numbers.  What the code does, and which label stands for it:

  `send i`   the sender's API call for message `i` begins (`cs.NotifyProgress`, `cs.CallTool`,
             `ss.Log`, `client.AddRoots`, … ; inside it `jsonrpc2.Connection.Notify` / `Call`).
  `bsend ps i` message `i` is sent as part of ONE transport unit (an HTTP POST body carrying a
             JSON-RPC batch, as a foreign peer may send on protocol versions before 2025-06-18) in
             which the messages `ps` stand before it.  The transport hands the messages of one body
             to the session in body order (`servePOST`: `for _, msg := range incoming { c.incoming <- msg }`,
             one goroutine), so `write i` is enabled only after every `p ∈ ps` has been written;
             the acknowledgement of the body (202) is `ret` of each of its messages, hence enabled
             only when ALL of them are queued.  `send i` is `bsend [] i`.
  `write i`  the transport's `Write` has put the message into the receiver's FIFO: the pipe for the
             in-memory / stdio transports, the `incoming` channel of `SSEServerTransport` /
             `streamableServerConn` for HTTP POSTs (written *before* the 202, a regenerated fact),
             the single SSE response stream for server→client traffic.  Reader goroutine
             (`readIncoming`) and `handlerQueue` of the receiving `jsonrpc2.Connection` are FIFO
             too (proved for all schedules by the `conn` engine: `Conn.dispatch_fifo`); here the
             three queues in a row are one queue.
  `ret i`    the sender's API call returns.  A notification returns once its `Write` has returned
             (`Notify`: write, then N2 — a regenerated fact); a call returns once the response has
             arrived, i.e. after the receiver's handler finished.
  `disp i`   the receiver's single dispatcher (`handleAsync`, D1) takes the head of the queue and
             enters `Handle`; it then waits for the message's releaser.
  `rel i`    `ServerSession.handle` / `ClientSession.handle` call `jsonrpc2.Async` — only for calls
             other than `initialize` (regenerated guard, `Generated.Order`) — which releases the
             dispatcher before any user code runs.
  `start i`  user code (receiving middleware, then the handler) starts.
  `cb i`     the running handler of `i` makes an outgoing call to the peer on its own context and
             waits for the answer; the dispatcher is not released by that (only `Async` and the end
             of the handler release it).
  `fin i`    user code and `processResult` are done; for a message that did not call `Async` this
             is what releases the dispatcher (`defer releaser.release(true)`).

Nothing is assumed about the schedule: a run is any list of labels each of which is enabled.
`pred` is ghost state: the pairs (i, j) such that the API call for the synchronous message `i` had
returned before the API call for `j` began.  Core Lean only (linked into the driver).
-/
namespace Order

inductive Kind where
  | note   -- notification: never calls Async, no response
  | init   -- a call that does not call Async (`initialize` on the server)
  | call   -- any other call: calls Async before user code runs
deriving DecidableEq, Repr

/-- Does the dispatcher wait for the handler of such a message to finish? -/
def Kind.sync : Kind → Bool
  | .call => false
  | _ => true

/-- Direction-dependent classification, from the regenerated `Async` guards of
`ServerSession.handle` (receiver of client→server traffic) and `ClientSession.handle`. -/
def classify (toServer : Bool) (isCall : Bool) (method : String) : Kind :=
  if !isCall then .note
  else if (if toServer then Generated.Order.serverSyncCalls else Generated.Order.clientSyncCalls).contains method then .init
  else .call

inductive Phase where
  | unsent | sending | queued | dispatched | ready | running | done
deriving DecidableEq, Repr

inductive Label where
  | send (i : Nat)
  | bsend (ps : List Nat) (i : Nat)
  | write (i : Nat)
  | ret (i : Nat)
  | disp (i : Nat)
  | rel (i : Nat)
  | start (i : Nat)
  | cb (i : Nat)
  | fin (i : Nat)
deriving DecidableEq, Repr

structure State where
  phase : Nat → Phase
  /-- the receiver-side FIFO, head first -/
  queue : List Nat
  /-- the message the dispatcher is waiting for -/
  busy : Option Nat
  /-- messages whose sender-side API call has returned -/
  returned : List Nat
  /-- ghost: (i, j) with `i` synchronous and `ret i` before `send j`, or `i` before `j` in one body -/
  pred : List (Nat × Nat)
  /-- (p, i): `p` stands before `i` in the same transport unit (POST body); the transport writes them in that order -/
  after : List (Nat × Nat)

def init : State :=
  { phase := fun _ => .unsent, queue := [], busy := none, returned := [], pred := [], after := [] }

def State.setPhase (s : State) (i : Nat) (p : Phase) : State :=
  { s with phase := fun k => if k = i then p else s.phase k }

/-- One atomic step; `none` = the label is not enabled. -/
def step (kind : Nat → Kind) (s : State) : Label → Option State
  | .send i =>
    if s.phase i = .unsent then
      some { (s.setPhase i .sending) with
        pred := s.pred ++ (s.returned.filter fun k => (kind k).sync).map fun k => (k, i) }
    else none
  | .bsend ps i =>
    if s.phase i = .unsent ∧ ∀ p ∈ ps, s.phase p ≠ .unsent then
      some { (s.setPhase i .sending) with
        pred := s.pred ++ ((s.returned.filter fun k => (kind k).sync).map fun k => (k, i))
                  ++ ((ps.filter fun k => (kind k).sync).map fun k => (k, i)),
        after := s.after ++ ps.map fun p => (p, i) }
    else none
  | .write i =>
    if s.phase i = .sending ∧ ∀ p ∈ s.after, p.2 = i → (s.phase p.1 ≠ .unsent ∧ s.phase p.1 ≠ .sending) then
      some { (s.setPhase i .queued) with queue := s.queue ++ [i] }
    else none
  | .ret i =>
    if i ∈ s.returned then none
    else if (kind i = .note ∧ s.phase i ≠ .unsent ∧ s.phase i ≠ .sending) ∨ (kind i ≠ .note ∧ s.phase i = .done) then
      some { s with returned := i :: s.returned }
    else none
  | .disp i =>
    match s.busy, s.queue with
    | none, h :: q =>
      if h = i then some { (s.setPhase i .dispatched) with queue := q, busy := some i } else none
    | _, _ => none
  | .rel i =>
    if s.busy = some i ∧ kind i = .call ∧ s.phase i = .dispatched then
      some { (s.setPhase i .ready) with busy := none }
    else none
  | .start i =>
    if (s.phase i = .dispatched ∧ (kind i).sync = true) ∨ s.phase i = .ready then
      some (s.setPhase i .running)
    else none
  | .cb i =>
    -- the running handler of `i` calls back into the peer with its own context and gets the answer
    -- (`jsonrpc2.Connection.Call` + `Await`): this does not touch the releaser
    if s.phase i = .running then some s else none
  | .fin i =>
    if s.phase i = .running then
      some { (s.setPhase i .done) with busy := if s.busy = some i then none else s.busy }
    else none

/-- Run a label list; `none` as soon as a label is not enabled. -/
def run (kind : Nat → Kind) : State → List Label → Option State
  | s, [] => some s
  | s, l :: ls =>
    match step kind s l with
    | some s' => run kind s' ls
    | none => none

/-! ### Ephemeral sessions (stateless streamable HTTP server)

On a stateless `StreamableHTTPHandler` every POST gets a session of its own (`serveStateless`), so there
is no queue and no dispatcher shared between two messages.  What orders messages there is the HTTP
exchange itself: the response to a POST — the 202 of a notification included — is produced only
after the temporary session has handled what the POST carried (`serveEphemeral`: serve, end the
session's input, wait for it, close; F14 repaired), and a call returns with its response anyway.
Hence in this model `ret i` requires the handler of `i` to be done, whatever kind `i` has. -/

def stepE (s : State) : Label → Option State
  | .send i => if s.phase i = .unsent then some (s.setPhase i .sending) else none
  | .start i => if s.phase i = .sending then some (s.setPhase i .running) else none
  | .cb i => if s.phase i = .running then some s else none
  | .fin i => if s.phase i = .running then some (s.setPhase i .done) else none
  | .ret i =>
    if i ∈ s.returned then none
    else if s.phase i = .done then some { s with returned := i :: s.returned } else none
  | _ => none

def runE : State → List Label → Option State
  | s, [] => some s
  | s, l :: ls =>
    match stepE s l with
    | some s' => runE s' ls
    | none => none

/-! ### What an observer of the two sessions sees, and the property as a predicate on it -/

/-- Observable events: API call begins / returns, user handler starts / ends. -/
inductive Ev where
  | snd (i : Nat)
  | bsnd (ps : List Nat) (i : Nat)   -- `i` is sent in one body with `ps` before it
  | ret (i : Nat)
  | beg (i : Nat)
  | fin (i : Nat)
deriving DecidableEq, Repr

def Label.vis : Label → Option Ev
  | .send i => some (.snd i)
  | .bsend ps i => some (.bsnd ps i)
  | .ret i => some (.ret i)
  | .start i => some (.beg i)
  | .fin i => some (.fin i)
  | _ => none

def visible (ls : List Label) : List Ev := ls.filterMap Label.vis

/-- State of the property monitor (written from the property text, no reference to `step`):
which synchronous messages' notifying calls have returned, which handlers have finished, and for
every message the synchronous messages that had returned before it was sent. -/
structure Mon where
  returned : List Nat := []
  finished : List Nat := []
  sentAfter : List (Nat × Nat) := []   -- (i, j), `i` synchronous: `ret i` before `snd j`, or `i` before `j` in one body
  bad : Option (Nat × Nat) := none     -- first (i, j) with `j`'s handler started before `i`'s ended

/-- C03 on a trace: when the handler of `j` starts, the handler of every notification (or
`initialize`) whose sending call had returned before `j` was sent — or which stands before `j` in the
body that carried both — has finished. -/
def Mon.step (kind : Nat → Kind) (m : Mon) : Ev → Mon
  | .snd j => { m with sentAfter := m.sentAfter ++ (m.returned.filter fun k => (kind k).sync).map fun k => (k, j) }
  | .bsnd ps j => { m with sentAfter := m.sentAfter ++ ((m.returned.filter fun k => (kind k).sync).map fun k => (k, j))
                                            ++ ((ps.filter fun k => (kind k).sync).map fun k => (k, j)) }
  | .ret i => { m with returned := i :: m.returned }
  | .beg j =>
    match m.bad with
    | some _ => m
    | none =>
      match m.sentAfter.find? fun p => p.2 == j && !m.finished.contains p.1 with
      | some p => { m with bad := some p }
      | none => m
  | .fin i => { m with finished := i :: m.finished }

def monitor (kind : Nat → Kind) (evs : List Ev) : Mon := evs.foldl (Mon.step kind) {}

/-- The trace satisfies the ordering clause of C03. -/
def holdsOn (kind : Nat → Kind) (evs : List Ev) : Bool := (monitor kind evs).bad.isNone

end Order
