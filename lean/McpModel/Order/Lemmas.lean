import McpModel.Order.Model
/-
Inductive invariant of the end-to-end model and its preservation by every label.
-/
set_option linter.unusedSimpArgs false
set_option linter.unusedVariables false
namespace Order

/-- `i` stands before `j` in the queue `q`. -/
def Ahead (q : List Nat) (i j : Nat) : Prop := ∃ a b, q = a ++ j :: b ∧ i ∈ a

theorem ahead_snoc {q : List Nat} {i j : Nat} (x : Nat) (h : Ahead q i j) : Ahead (q ++ [x]) i j := by
  obtain ⟨a, b, hq, hi⟩ := h
  exact ⟨a, b ++ [x], by simp [hq], hi⟩

theorem ahead_of_mem {q : List Nat} {i : Nat} (j : Nat) (h : i ∈ q) : Ahead (q ++ [j]) i j :=
  ⟨q, [], by simp, h⟩

theorem ahead_cons {q : List Nat} {hd i j : Nat} (h : Ahead (hd :: q) i j) (hn : hd ∉ q) :
    j ≠ hd ∧ (i = hd ∨ Ahead q i j) := by
  obtain ⟨a, b, hq, hi⟩ := h
  cases a with
  | nil => simp at hi
  | cons x xs =>
    simp at hq
    obtain ⟨e1, e2⟩ := hq
    subst e1
    constructor
    · intro e; subst e; apply hn; rw [e2]; simp
    · simp at hi
      rcases hi with rfl | hi
      · left; rfl
      · right; exact ⟨xs, b, e2, hi⟩

/-- The invariant. `qmem`/`qnodup`: the queue holds exactly the queued messages, once each.
`busy`: the dispatcher waits for exactly the message that is dispatched-but-not-released or whose
synchronous handler is running.  `ready`: only asynchronous calls are released early.  `ret`: a
synchronous message whose sending call has returned is in the receiver's queue, holds the dispatcher,
or is done.  `pred`: if `ret i` came before `send j`, or `i` stands before `j` in one body (i synchronous),
then `i` is done, or `j` is not yet dispatched and `i` holds the dispatcher or stands before `j` in the
queue. -/
structure Inv (kind : Nat → Kind) (s : State) : Prop where
  qmem : ∀ i, i ∈ s.queue ↔ s.phase i = .queued
  qnodup : s.queue.Nodup
  busy : ∀ i, s.busy = some i ↔ (s.phase i = .dispatched ∨ (s.phase i = .running ∧ (kind i).sync = true))
  ready : ∀ i, s.phase i = .ready → (kind i).sync = false
  ret : ∀ i, i ∈ s.returned → (kind i).sync = true →
    s.phase i = .queued ∨ s.busy = some i ∨ s.phase i = .done
  pred : ∀ i j, (i, j) ∈ s.pred → (kind i).sync = true ∧
    (i ∈ s.returned ∨ ((i, j) ∈ s.after ∧ s.phase i ≠ .unsent)) ∧
    (s.phase i = .done ∨ s.phase j = .sending ∨
      (s.phase j = .queued ∧ (s.busy = some i ∨ Ahead s.queue i j)))

theorem inv_init (kind : Nat → Kind) : Inv kind init := by
  constructor <;> simp [init]

@[simp] theorem setPhase_phase (s : State) (i : Nat) (p : Phase) (k : Nat) :
    (s.setPhase i p).phase k = if k = i then p else s.phase k := rfl
@[simp] theorem setPhase_queue (s : State) (i : Nat) (p : Phase) : (s.setPhase i p).queue = s.queue := rfl
@[simp] theorem setPhase_busy (s : State) (i : Nat) (p : Phase) : (s.setPhase i p).busy = s.busy := rfl
@[simp] theorem setPhase_returned (s : State) (i : Nat) (p : Phase) : (s.setPhase i p).returned = s.returned := rfl
@[simp] theorem setPhase_pred (s : State) (i : Nat) (p : Phase) : (s.setPhase i p).pred = s.pred := rfl
@[simp] theorem setPhase_after (s : State) (i : Nat) (p : Phase) : (s.setPhase i p).after = s.after := rfl

/-- A synchronous message that has been written is in the queue, holds the dispatcher, or is done. -/
theorem Inv.beyond {kind : Nat → Kind} {s : State} (h : Inv kind s) {i : Nat} (hsync : (kind i).sync = true)
    (h1 : s.phase i ≠ .unsent) (h2 : s.phase i ≠ .sending) :
    s.phase i = .queued ∨ s.busy = some i ∨ s.phase i = .done := by
  cases hp : s.phase i with
  | unsent => exact absurd hp h1
  | sending => exact absurd hp h2
  | queued => left; rfl
  | dispatched => right; left; exact (h.busy i).2 (Or.inl hp)
  | ready => have := h.ready i hp; simp [hsync] at this
  | running => right; left; exact (h.busy i).2 (Or.inr ⟨hp, hsync⟩)
  | done => right; right; rfl

/-- The first component of a `pred` pair has been sent. -/
theorem Inv.pred_sent {kind : Nat → Kind} {s : State} (h : Inv kind s) {a b : Nat} (hab : (a, b) ∈ s.pred) :
    s.phase a ≠ .unsent := by
  obtain ⟨h1, h2, _⟩ := h.pred a b hab
  rcases h2 with h2 | ⟨_, h2⟩
  · intro hu
    rcases h.ret a h2 h1 with q | q | q
    · simp [hu] at q
    · have := (h.busy a).1 q; simp [hu] at this
    · simp [hu] at q
  · exact h2

/-- Bookkeeping for the second conjunct of `Inv.pred` under a phase change to a phase other than `unsent`. -/
theorem snd_conj {s : State} {a b k : Nat} {p : Phase} {R : Prop} (hp : p ≠ .unsent)
    (h : R ∨ ((a, b) ∈ s.after ∧ s.phase a ≠ .unsent)) :
    R ∨ ((a, b) ∈ s.after ∧ (if a = k then p else s.phase a) ≠ .unsent) := by
  rcases h with h | ⟨h1, h2⟩
  · left; exact h
  · right; refine ⟨h1, ?_⟩; split <;> assumption

theorem step_send_eq (kind : Nat → Kind) (s : State) (i : Nat) :
    step kind s (.send i) = step kind s (.bsend [] i) := by
  simp [step]

theorem inv_bsend {kind : Nat → Kind} {s s' : State} {ps : List Nat} {i : Nat} (h : Inv kind s)
    (hs : step kind s (.bsend ps i) = some s') : Inv kind s' := by
  simp only [step] at hs
  split at hs <;> simp at hs
  rename_i hg
  obtain ⟨hu, hps⟩ := hg
  subst hs
  refine ⟨?_, h.qnodup, ?_, ?_, ?_, ?_⟩
  · intro k
    simp only [setPhase_phase, setPhase_queue]
    by_cases hk : k = i
    · subst hk; simp; intro hq; have := (h.qmem k).1 hq; simp [hu] at this
    · simp [hk, h.qmem k]
  · intro k
    simp only [setPhase_phase, setPhase_busy]
    by_cases hk : k = i
    · subst hk; simp; intro hb; have := (h.busy k).1 hb; simp [hu] at this
    · simp [hk, h.busy k]
  · intro k
    simp only [setPhase_phase]
    by_cases hk : k = i
    · subst hk; simp
    · simp [hk]; exact h.ready k
  · intro k hk hsync
    simp only [setPhase_phase, setPhase_busy, setPhase_returned] at *
    have := h.ret k hk hsync
    by_cases hki : k = i
    · subst hki
      rcases this with h1 | h1 | h1
      · simp [hu] at h1
      · have := (h.busy k).1 h1; simp [hu] at this
      · simp [hu] at h1
    · simpa [hki] using this
  · intro a b hab
    simp only [setPhase_phase, setPhase_busy, setPhase_queue, setPhase_returned, List.mem_append, List.mem_map,
      List.mem_filter, Prod.mk.injEq] at *
    rcases hab with hab | ⟨k, ⟨hk, hsync⟩, rfl, rfl⟩ | ⟨k, ⟨hk, hsync⟩, rfl, rfl⟩
    · obtain ⟨h1, h2, h3⟩ := h.pred a b hab
      have hai : a ≠ i := by intro e; subst e; exact h.pred_sent hab hu
      refine ⟨h1, ?_, ?_⟩
      · rcases h2 with h2 | ⟨h2, h2'⟩
        · left; exact h2
        · right; exact ⟨Or.inl h2, by simp [hai, h2']⟩
      rcases h3 with q | q | q
      · left; simp [hai, q]
      · right; left; by_cases hb : b = i <;> simp [hb, q]
      · right; right
        have hbi : b ≠ i := by intro e; subst e; simp [hu] at q
        simpa [hbi] using q
    · refine ⟨hsync, Or.inl hk, ?_⟩
      right; left; simp
    · have hki : k ≠ i := by intro e; subst e; exact hps k hk hu
      refine ⟨hsync, Or.inr ⟨Or.inr ⟨k, hk, rfl, rfl⟩, by simp [hki]; exact hps k hk⟩, ?_⟩
      right; left; simp

theorem inv_send {kind : Nat → Kind} {s s' : State} {i : Nat} (h : Inv kind s)
    (hs : step kind s (.send i) = some s') : Inv kind s' := by
  rw [step_send_eq] at hs
  exact inv_bsend h hs

theorem inv_write {kind : Nat → Kind} {s s' : State} {i : Nat} (h : Inv kind s)
    (hs : step kind s (.write i) = some s') : Inv kind s' := by
  simp only [step] at hs
  split at hs <;> simp at hs
  rename_i hg
  obtain ⟨hu, hord⟩ := hg
  subst hs
  have hiq : i ∉ s.queue := by intro hq; have := (h.qmem i).1 hq; simp [hu] at this
  refine ⟨?_, ?_, ?_, ?_, ?_, ?_⟩
  · intro k
    simp only [setPhase_phase, List.mem_append, List.mem_singleton]
    by_cases hk : k = i
    · subst hk; simp
    · simp [hk, h.qmem k]
  · simp only [setPhase_queue]
    exact List.nodup_append.2 ⟨h.qnodup, by simp, by intro a ha b hb; simp at hb; subst hb; intro e; subst e; exact hiq ha⟩
  · intro k
    simp only [setPhase_phase, setPhase_busy]
    by_cases hk : k = i
    · subst hk; simp; intro hb; have := (h.busy k).1 hb; simp [hu] at this
    · simp [hk, h.busy k]
  · intro k
    simp only [setPhase_phase]
    by_cases hk : k = i
    · subst hk; simp
    · simp [hk]; exact h.ready k
  · intro k hk hsync
    simp only [setPhase_phase, setPhase_busy, setPhase_returned] at *
    have := h.ret k hk hsync
    by_cases hki : k = i
    · subst hki; simp
    · simpa [hki] using this
  · intro a b hab
    simp only [setPhase_phase, setPhase_busy, setPhase_queue, setPhase_returned, setPhase_pred, setPhase_after] at *
    obtain ⟨h1, h2, h3⟩ := h.pred a b hab
    refine ⟨h1, snd_conj (by simp) h2, ?_⟩
    by_cases hb : b = i
    · subst hb
      -- `a` has been written: its sending call returned, or it stands before `b` in the same body
      have hbey : s.phase a = .queued ∨ s.busy = some a ∨ s.phase a = .done := by
        rcases h2 with h2 | ⟨h2, _⟩
        · exact h.ret a h2 h1
        · have := hord (a, b) h2 rfl
          exact h.beyond h1 this.1 this.2
      have hai : a ≠ b := by
        intro e; subst e
        rcases hbey with q | q | q
        · simp [hu] at q
        · have := (h.busy a).1 q; simp [hu] at this
        · simp [hu] at q
      rcases hbey with q | q | q
      · right; right
        exact ⟨by simp, Or.inr (ahead_of_mem b ((h.qmem a).2 q))⟩
      · right; right; exact ⟨by simp, Or.inl q⟩
      · left; simp [hai, q]
    · rcases h3 with q | q | ⟨q, r⟩
      · have hai : a ≠ i := by intro e; subst e; simp [hu] at q
        left; simp [hai, q]
      · right; left; simp [hb, q]
      · right; right
        refine ⟨by simp [hb, q], ?_⟩
        rcases r with r | r
        · left; exact r
        · right; exact ahead_snoc i r

theorem inv_ret {kind : Nat → Kind} {s s' : State} {i : Nat} (h : Inv kind s)
    (hs : step kind s (.ret i) = some s') : Inv kind s' := by
  simp only [step] at hs
  split at hs
  · simp at hs
  split at hs <;> simp at hs
  rename_i hnr hok
  subst hs
  refine ⟨h.qmem, h.qnodup, h.busy, h.ready, ?_, ?_⟩
  · intro k hk hsync
    simp only [List.mem_cons] at hk
    rcases hk with rfl | hk
    · rcases hok with ⟨_, h1, h2⟩ | ⟨_, h2⟩
      · -- notification: written already
        cases hp : s.phase k with
        | unsent => exact absurd hp h1
        | sending => exact absurd hp h2
        | queued => left; rfl
        | dispatched => right; left; exact (h.busy k).2 (Or.inl hp)
        | ready => have := h.ready k hp; simp [hsync] at this
        | running => right; left; exact (h.busy k).2 (Or.inr ⟨hp, hsync⟩)
        | done => right; right; rfl
      · right; right; exact h2
    · exact h.ret k hk hsync
  · intro a b hab
    obtain ⟨h1, h2, h3⟩ := h.pred a b hab
    exact ⟨h1, h2.imp (List.mem_cons_of_mem _) id, h3⟩

theorem inv_disp {kind : Nat → Kind} {s s' : State} {i : Nat} (h : Inv kind s)
    (hs : step kind s (.disp i) = some s') : Inv kind s' := by
  simp only [step] at hs
  split at hs
  · rename_i hd q hbusy hqueue
    split at hs <;> simp at hs
    rename_i hi
    subst hi
    subst hs
    have hnd : hd ∉ q ∧ q.Nodup := by have := h.qnodup; rw [hqueue] at this; exact List.nodup_cons.1 this
    have hph : s.phase hd = .queued := (h.qmem hd).1 (by rw [hqueue]; simp)
    have nobusy : ∀ k, s.phase k ≠ .dispatched ∧ ¬ (s.phase k = .running ∧ (kind k).sync = true) := by
      intro k
      have := h.busy k
      rw [hbusy] at this
      constructor
      · intro e; exact absurd (this.2 (Or.inl e)) (by simp)
      · intro e; exact absurd (this.2 (Or.inr e)) (by simp)
    refine ⟨?_, hnd.2, ?_, ?_, ?_, ?_⟩
    · intro k
      simp only [setPhase_phase]
      by_cases hk : k = hd
      · subst hk; simp [hnd.1]
      · have := h.qmem k; rw [hqueue] at this; simp [hk] at this ⊢; exact this
    · intro k
      simp only [setPhase_phase]
      by_cases hk : k = hd
      · subst hk; simp
      · have h1 := (nobusy k).1; have h2 := (nobusy k).2
        simp [hk]
        constructor
        · intro e; exact absurd e.symm hk
        · intro e; rcases e with e | e
          · exact absurd e h1
          · exact absurd e h2
    · intro k
      simp only [setPhase_phase]
      by_cases hk : k = hd
      · subst hk; simp
      · simp [hk]; exact h.ready k
    · intro k hk hsync
      simp only [setPhase_phase]
      have := h.ret k hk hsync
      by_cases hkd : k = hd
      · subst hkd; simp
      · simp [hkd]
        rcases this with q1 | q1 | q1
        · left; exact q1
        · rw [hbusy] at q1; simp at q1
        · right; right; exact q1
    · intro a b hab
      simp only [setPhase_phase]
      obtain ⟨h1, h2, h3⟩ := h.pred a b hab
      refine ⟨h1, snd_conj (by simp) h2, ?_⟩
      rcases h3 with q1 | q1 | ⟨q1, r⟩
      · by_cases ha : a = hd
        · subst ha; simp [hph] at q1
        · left; simp [ha, q1]
      · have hb : b ≠ hd := by intro e; subst e; simp [hph] at q1
        right; left; simp [hb, q1]
      · rcases r with r | r
        · rw [hbusy] at r; simp at r
        · rw [hqueue] at r
          obtain ⟨hb, r⟩ := ahead_cons r hnd.1
          right; right
          refine ⟨by simp [hb, q1], ?_⟩
          rcases r with rfl | r
          · left; rfl
          · right; exact r
  · simp at hs

theorem inv_rel {kind : Nat → Kind} {s s' : State} {i : Nat} (h : Inv kind s)
    (hs : step kind s (.rel i) = some s') : Inv kind s' := by
  simp only [step] at hs
  split at hs <;> simp at hs
  rename_i hc
  obtain ⟨hb, hk, hp⟩ := hc
  subst hs
  have hasync : (kind i).sync = false := by simp [hk, Kind.sync]
  have other : ∀ k, k ≠ i → s.phase k ≠ .dispatched ∧ ¬ (s.phase k = .running ∧ (kind k).sync = true) := by
    intro k hki
    have := h.busy k
    rw [hb] at this
    constructor
    · intro e; have := this.2 (Or.inl e); simp at this; exact hki this.symm
    · intro e; have := this.2 (Or.inr e); simp at this; exact hki this.symm
  refine ⟨?_, h.qnodup, ?_, ?_, ?_, ?_⟩
  · intro k
    simp only [setPhase_phase, setPhase_queue]
    by_cases hki : k = i
    · subst hki; simp; intro hq; have := (h.qmem k).1 hq; simp [hp] at this
    · simp [hki, h.qmem k]
  · intro k
    simp only [setPhase_phase]
    by_cases hki : k = i
    · subst hki; simp
    · simp [hki]
      refine ⟨(other k hki).1, fun e => ?_⟩
      have := (other k hki).2
      cases hsy : (kind k).sync <;> simp_all
  · intro k
    simp only [setPhase_phase]
    by_cases hki : k = i
    · subst hki; simp [hasync]
    · simp [hki]; exact h.ready k
  · intro k hkr hsync
    simp only [setPhase_phase]
    have hki : k ≠ i := by intro e; subst e; simp [hasync] at hsync
    have := h.ret k hkr hsync
    simp [hki]
    rcases this with q | q | q
    · left; exact q
    · rw [hb] at q; simp at q; exact absurd q.symm hki
    · right; exact q
  · intro a b hab
    simp only [setPhase_phase, setPhase_queue, setPhase_pred] at *
    obtain ⟨h1, h2, h3⟩ := h.pred a b hab
    refine ⟨h1, snd_conj (by simp) h2, ?_⟩
    have hai : a ≠ i := by intro e; subst e; simp [hasync] at h1
    rcases h3 with q | q | ⟨q, r⟩
    · left; simp [hai, q]
    · have hbi : b ≠ i := by intro e; subst e; simp [hp] at q
      right; left; simp [hbi, q]
    · have hbi : b ≠ i := by intro e; subst e; simp [hp] at q
      right; right; simp [hbi, q]
      rcases r with r | r
      · rw [hb] at r; simp at r; exact absurd r.symm hai
      · exact r

theorem inv_start {kind : Nat → Kind} {s s' : State} {i : Nat} (h : Inv kind s)
    (hs : step kind s (.start i) = some s') : Inv kind s' := by
  simp only [step] at hs
  split at hs <;> simp at hs
  rename_i hc
  subst hs
  have hnq : s.phase i ≠ .queued ∧ s.phase i ≠ .sending ∧ s.phase i ≠ .done := by
    rcases hc with ⟨e, _⟩ | e <;> simp [e]
  refine ⟨?_, h.qnodup, ?_, ?_, ?_, ?_⟩
  · intro k
    simp only [setPhase_phase, setPhase_queue]
    by_cases hki : k = i
    · subst hki; simp; intro hq; exact hnq.1 ((h.qmem k).1 hq)
    · simp [hki, h.qmem k]
  · intro k
    simp only [setPhase_phase, setPhase_busy]
    by_cases hki : k = i
    · subst hki
      simp
      rcases hc with ⟨e, hsync⟩ | e
      · simp [hsync]; exact (h.busy k).2 (Or.inl e)
      · have := h.ready k e
        simp [this]
        intro hb; have := (h.busy k).1 hb; simp [e] at this
    · simp [hki, h.busy k]
  · intro k
    simp only [setPhase_phase]
    by_cases hki : k = i
    · subst hki; simp
    · simp [hki]; exact h.ready k
  · intro k hkr hsync
    simp only [setPhase_phase, setPhase_busy]
    have := h.ret k hkr hsync
    by_cases hki : k = i
    · subst hki
      simp
      rcases this with q | q | q
      · exact absurd q hnq.1
      · exact q
      · exact absurd q hnq.2.2
    · simpa [hki] using this
  · intro a b hab
    simp only [setPhase_phase, setPhase_queue, setPhase_busy, setPhase_pred] at *
    obtain ⟨h1, h2, h3⟩ := h.pred a b hab
    refine ⟨h1, snd_conj (by simp) h2, ?_⟩
    rcases h3 with q | q | ⟨q, r⟩
    · have hai : a ≠ i := by intro e; subst e; exact hnq.2.2 q
      left; simp [hai, q]
    · have hbi : b ≠ i := by intro e; subst e; exact hnq.2.1 q
      right; left; simp [hbi, q]
    · have hbi : b ≠ i := by intro e; subst e; exact hnq.1 q
      right; right; simp [hbi, q]; exact r

theorem inv_fin {kind : Nat → Kind} {s s' : State} {i : Nat} (h : Inv kind s)
    (hs : step kind s (.fin i) = some s') : Inv kind s' := by
  simp only [step] at hs
  split at hs <;> simp at hs
  rename_i hrun
  subst hs
  refine ⟨?_, h.qnodup, ?_, ?_, ?_, ?_⟩
  · intro k
    simp only [setPhase_phase, setPhase_queue]
    by_cases hki : k = i
    · subst hki; simp; intro hq; have := (h.qmem k).1 hq; simp [hrun] at this
    · simp [hki, h.qmem k]
  · intro k
    simp only [setPhase_phase]
    by_cases hki : k = i
    · subst hki
      by_cases hb : s.busy = some k <;> simp [hb]
    · by_cases hb : s.busy = some i
      · simp [hki, hb]
        refine ⟨fun e => ?_, fun e => ?_⟩
        · have := (h.busy k).2 (Or.inl e); rw [hb] at this; simp at this; exact hki this.symm
        · cases hsy : (kind k).sync
          · rfl
          · have := (h.busy k).2 (Or.inr ⟨e, hsy⟩); rw [hb] at this; simp at this; exact absurd this.symm hki
      · simp [hki, hb]; exact h.busy k
  · intro k
    simp only [setPhase_phase]
    by_cases hki : k = i
    · subst hki; simp
    · simp [hki]; exact h.ready k
  · intro k hkr hsync
    simp only [setPhase_phase]
    have := h.ret k hkr hsync
    by_cases hki : k = i
    · subst hki; simp
    · simp [hki]
      rcases this with q | q | q
      · left; exact q
      · right; left
        refine ⟨?_, q⟩
        rw [q]; simp; exact hki
      · right; right; exact q
  · intro a b hab
    simp only [setPhase_phase, setPhase_queue, setPhase_pred] at *
    obtain ⟨h1, h2, h3⟩ := h.pred a b hab
    refine ⟨h1, snd_conj (by simp) h2, ?_⟩
    by_cases hai : a = i
    · subst hai; left; simp
    · rcases h3 with q | q | ⟨q, r⟩
      · left; simp [hai, q]
      · have hbi : b ≠ i := by intro e; subst e; simp [hrun] at q
        right; left; simp [hbi, q]
      · have hbi : b ≠ i := by intro e; subst e; simp [hrun] at q
        right; right; simp [hbi, q]
        rcases r with r | r
        · left
          refine ⟨?_, r⟩
          rw [r]; simp; exact hai
        · right; exact r

theorem inv_step {kind : Nat → Kind} {s s' : State} {l : Label} (h : Inv kind s)
    (hs : step kind s l = some s') : Inv kind s' := by
  cases l with
  | send i => exact inv_send h hs
  | bsend ps i => exact inv_bsend h hs
  | write i => exact inv_write h hs
  | ret i => exact inv_ret h hs
  | disp i => exact inv_disp h hs
  | rel i => exact inv_rel h hs
  | start i => exact inv_start h hs
  | cb i =>
    simp only [step] at hs
    split at hs <;> simp at hs
    subst hs; exact h
  | fin i => exact inv_fin h hs

theorem inv_run {kind : Nat → Kind} {s s' : State} {ls : List Label} (h : Inv kind s)
    (hs : run kind s ls = some s') : Inv kind s' := by
  induction ls generalizing s with
  | nil => simp [run] at hs; subst hs; exact h
  | cons l ls ih =>
    simp only [run] at hs
    split at hs
    · rename_i s1 h1; exact ih (inv_step h h1) hs
    · simp at hs

end Order
