import McpModel.Wire.Ndjson
import McpModel.Wire.LemmasFrame
/-!
# C19 — `ndjson_roundtrip` at the byte level: the decoder reads the stream value by value
-/
namespace Wire
namespace L

/-- the scanner is deterministic on a prefix: what it consumes does not depend on what follows -/
theorem takeValue_append (s : Sc) (p r : Bytes) (h : takeValue s p = some (p, [])) :
    takeValue s (p ++ r) = some (p, r) := by
  induction p generalizing s with
  | nil => simp [takeValue] at h
  | cons b t ih =>
    simp only [takeValue] at h
    simp only [List.cons_append, takeValue]
    by_cases hd : (scStep s b).done = true
    · simp only [hd, ite_true, Option.some.injEq, Prod.mk.injEq, List.cons.injEq, true_and] at h
      simp [hd, h.1]
    · simp only [hd, Bool.false_eq_true, ite_false] at h ⊢
      cases ht : takeValue (scStep s b) t with
      | none => simp [ht] at h
      | some cr =>
        obtain ⟨c, r'⟩ := cr
        simp only [ht, Option.some.injEq, Prod.mk.injEq, List.cons.injEq, true_and] at h
        obtain ⟨rfl, rfl⟩ := h
        rw [ih (scStep s b) ht]

theorem dropWhile_ws (ws rest : Bytes) (h : ∀ b ∈ ws, isWs b = true) :
    (ws ++ rest).dropWhile isWs = rest.dropWhile isWs := by
  induction ws with
  | nil => rfl
  | cons b t ih =>
    have hb := h b (by simp)
    simp only [List.cons_append, List.dropWhile_cons, hb, ite_true]
    exact ih (fun x hx => h x (by simp [hx]))

theorem framed_spec (p : Bytes) (h : framed p = true) :
    ∃ b t, p = b :: t ∧ opensValue b = true ∧ takeValue {} p = some (p, []) := by
  simp only [framed, Bool.and_eq_true, beq_iff_eq] at h
  cases p with
  | nil => simp at h
  | cons b t => exact ⟨b, t, rfl, h.1, h.2⟩

theorem opens_not_ws (b : UInt8) (h : opensValue b = true) : isWs b = false := by
  simp only [opensValue, Bool.or_eq_true, decide_eq_true_eq] at h
  rcases h with rfl | rfl <;> decide

theorem lineSep_spec (ws : Bytes) (h : lineSep ws = true) :
    (∀ b ∈ ws, isWs b = true) ∧ ∃ c t, ws = c :: t ∧ (c = LF || c = CR) = true := by
  simp only [lineSep, Bool.and_eq_true, List.all_eq_true] at h
  refine ⟨h.1, ?_⟩
  cases ws with
  | nil => simp at h
  | cons c t => exact ⟨c, t, rfl, h.2⟩

theorem joinWs_length (l : List (Bytes × Bytes)) (h : ∀ q ∈ l, framed q.1 = true) : l.length ≤ (joinWs l).length := by
  induction l with
  | nil => simp [joinWs]
  | cons q t ih =>
    obtain ⟨p, ws⟩ := q
    obtain ⟨b, t', hp, _, _⟩ := framed_spec p (h (p, ws) (by simp))
    have := ih (fun x hx => h x (by simp [hx]))
    subst hp
    simp only [joinWs, List.length_cons, List.length_append]
    omega

/-- one round of the reader: leading white space, a framed value, then a separator that begins with LF / CR -/
theorem readStreamAux_step (n : Nat) (pre p ws rest : Bytes) (hpre : ∀ b ∈ pre, isWs b = true) (hp : framed p = true)
    (hws : lineSep ws = true) :
    readStreamAux (n + 1) (pre ++ (p ++ (ws ++ rest))) =
      (p :: (readStreamAux n (ws ++ rest)).1, (readStreamAux n (ws ++ rest)).2) := by
  obtain ⟨b, t, rfl, hb, ht⟩ := framed_spec p hp
  obtain ⟨_, c, t', rfl, hc⟩ := lineSep_spec ws hws
  simp only [readStreamAux]
  rw [dropWhile_ws pre _ hpre]
  simp only [List.cons_append, List.dropWhile_cons, opens_not_ws b hb, Bool.false_eq_true, ite_false, hb, ite_true]
  have := takeValue_append {} (b :: t) (c :: (t' ++ rest)) ht
  simp only [List.cons_append] at this
  rw [this]
  simp only [hc, ite_true]

theorem readStreamAux_ws (n : Nat) (ws : Bytes) (hws : ∀ b ∈ ws, isWs b = true) :
    readStreamAux (n + 1) ws = ([], .eof) := by
  simp only [readStreamAux]
  have := dropWhile_ws ws [] hws
  simp only [List.append_nil] at this
  rw [this]
  rfl

theorem readStreamAux_join (l : List (Bytes × Bytes)) (pre : Bytes) (n : Nat)
    (hf : ∀ q ∈ l, framed q.1 = true) (hw : ∀ q ∈ l, lineSep q.2 = true)
    (hpre : ∀ b ∈ pre, isWs b = true) (hn : l.length + 1 ≤ n) :
    readStreamAux n (pre ++ joinWs l) = (l.map (·.1), .eof) := by
  induction l generalizing pre n with
  | nil =>
    cases n with
    | zero => omega
    | succ n => simp only [joinWs, List.append_nil, readStreamAux_ws n pre hpre, List.map_nil]
  | cons q t ih =>
    obtain ⟨p, ws⟩ := q
    cases n with
    | zero => omega
    | succ n =>
      have hp := hf (p, ws) (by simp)
      have hs := hw (p, ws) (by simp)
      simp only [joinWs]
      rw [readStreamAux_step n pre p ws (joinWs t) hpre hp hs,
        ih ws n (fun x hx => hf x (by simp [hx])) (fun x hx => hw x (by simp [hx])) (lineSep_spec ws hs).1
          (by simp only [List.length_cons] at hn; omega)]
      rfl

/-- **ndjson_stream_roundtrip** — proof -/
theorem ndjson_stream_roundtrip (l : List (Bytes × Bytes)) (hf : ∀ q ∈ l, framed q.1 = true)
    (hw : ∀ q ∈ l, lineSep q.2 = true) :
    readStream (joinWs l) = (l.map (·.1), .eof) := by
  unfold readStream
  have hlen := joinWs_length l hf
  have := readStreamAux_join l [] ((joinWs l).length + 1) hf hw (by simp) (by omega)
  simpa using this

/-- the frames `ioConn.Write` produces: every payload followed by one LF -/
theorem frame_eq_joinWs (ps : List Bytes) : frame ps = joinWs (ps.map (fun p => (p, [LF]))) := by
  induction ps with
  | nil => rfl
  | cons p t ih => simp [frame, joinWs, ← ih]

theorem ndjson_roundtrip_bytes (ps : List Bytes) (h : ∀ p ∈ ps, framed p = true) :
    readStream (frame ps) = (ps, .eof) := by
  rw [frame_eq_joinWs]
  have := ndjson_stream_roundtrip (ps.map (fun p => (p, [LF])))
    (by intro q hq; simp only [List.mem_map] at hq; obtain ⟨p, hp, rfl⟩ := hq; exact h p hp)
    (by intro q hq; simp only [List.mem_map] at hq; obtain ⟨p, hp, rfl⟩ := hq; exact (by decide : lineSep [LF] = true))
  rw [this, List.map_map]
  congr 1
  clear this h
  induction ps with
  | nil => rfl
  | cons p t ih => simp only [List.map_cons, Function.comp, ih]

end L
end Wire
