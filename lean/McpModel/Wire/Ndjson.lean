import McpModel.Wire.Frame
/-!
# E2 Wire — newline-delimited framing at the BYTE level: the reader side (`json.Decoder` in `newIOConn`)

`ioConn` writes `payload ++ "\n"` per frame (`frame`) and reads with `json.NewDecoder(rwc)` / `dec.Decode(&raw)`: the
decoder skips insignificant white space (space, tab, CR, LF) and then reads ONE JSON value — it does not look for
line ends at all.  `unframe` (Frame.lean) is the line view of that; here is the byte view, for the values a peer may
put on the stream as a frame: objects and arrays (a message or a batch).  The extent of such a value is found by the
scanner's bracket depth outside string literals (`scStep`): the value ends with the byte that brings the depth back
to zero.  `readStream` = the reader goroutine: `Decode`, the SDK's own check of the byte that follows the value
(LF or CR, else "invalid trailing data"), until the input is exhausted.

Bare scalars as frames (`0`, `""`, `true`, `null`: never a message, see `degenerate_frames_rejected`) need a
look-ahead byte to find their end and are outside this scanner (`scanValue` answers `none`); well-formedness of the
value's inside is the JSON library's business (DESIGN §3).
Core Lean only (linked into the driver).
-/
namespace Wire

/-- JSON's insignificant white space -/
def isWs (b : UInt8) : Bool := b = 32 || b = 9 || b = 10 || b = 13

structure Sc where
  depth : Nat := 0
  inStr : Bool := false
  esc : Bool := false
deriving DecidableEq, Repr, Inhabited

def QUOTE : UInt8 := 34
def BACKSLASH : UInt8 := 92

/-- one byte of the scanner: string literals (with `\` escapes) hide brackets; `{` `[` open, `}` `]` close -/
def scStep (s : Sc) (b : UInt8) : Sc :=
  if s.inStr then
    (if s.esc then { s with esc := false }
     else if b = BACKSLASH then { s with esc := true }
     else if b = QUOTE then { s with inStr := false }
     else s)
  else if b = QUOTE then { s with inStr := true }
  else if b = 123 || b = 91 then { s with depth := s.depth + 1 }
  else if b = 125 || b = 93 then { s with depth := s.depth - 1 }
  else s

def Sc.done (s : Sc) : Bool := s.depth = 0 && !s.inStr

/-- consume bytes up to and including the one that closes the value; `none`: the input ends inside the value -/
def takeValue : Sc → Bytes → Option (Bytes × Bytes)
  | _, [] => none
  | s, b :: t =>
    if (scStep s b).done then some ([b], t)
    else match takeValue (scStep s b) t with
      | some (c, r) => some (b :: c, r)
      | none => none

def opensValue (b : UInt8) : Bool := b = 123 || b = 91

/-- `dec.Decode(&raw)`: skip white space, read one object / array; the value and the unread rest -/
def scanValue (bs : Bytes) : Option (Bytes × Bytes) :=
  match bs.dropWhile isWs with
  | [] => none
  | b :: t => if opensValue b then takeValue {} (b :: t) else none

/-- how the reader goroutine of `newIOConn` ends -/
inductive StreamEnd where
  | eof         -- `dec.Decode` reported the end of the input
  | trailing    -- "invalid trailing data at the end of stream": the byte after a value is neither LF nor CR
  | noValue     -- something that is no object / array, or an unterminated one (outside this model)
deriving DecidableEq, Repr, Inhabited

/-- The reader goroutine of `newIOConn` on an input that is available at once: `dec.Decode(&raw)`, then — if a
further byte is buffered — that byte must be LF or CR ("support both Unix and Windows line endings"), otherwise the
value is NOT handed on and the stream ends with an error; repeated until `Decode` fails.  The values handed to
`ioConn.Read`, in order, and how the stream ended.  (`fuel`: every round consumes at least one byte.) -/
def readStreamAux : Nat → Bytes → List Bytes × StreamEnd
  | 0, _ => ([], .noValue)
  | n + 1, bs =>
    match bs.dropWhile isWs with
    | [] => ([], .eof)
    | b :: t =>
      if opensValue b then
        match takeValue {} (b :: t) with
        | some (v, rest) =>
          (match rest with
            | [] => ([v], .eof)
            | c :: _ =>
              if c = LF || c = CR then (v :: (readStreamAux n rest).1, (readStreamAux n rest).2)
              else ([], .trailing))
        | none => ([], .noValue)
      else ([], .noValue)

def readStream (bs : Bytes) : List Bytes × StreamEnd := readStreamAux (bs.length + 1) bs

/-- a payload the byte-level round trip speaks about: it starts with `{` or `[` and the scanner's depth returns to
zero exactly at its last byte (true of the compact text of every JSON object and array) -/
def framed (p : Bytes) : Bool :=
  (match p with | b :: _ => opensValue b | [] => false) && takeValue {} p == some (p, [])

/-- a separator the SDK's reader accepts after a value: white space that begins with LF or CR -/
def lineSep (ws : Bytes) : Bool :=
  ws.all isWs && (match ws with | c :: _ => c = LF || c = CR | [] => false)

/-- values with the white space a peer put after each of them -/
def joinWs : List (Bytes × Bytes) → Bytes
  | [] => []
  | (p, ws) :: t => p ++ (ws ++ joinWs t)

end Wire
