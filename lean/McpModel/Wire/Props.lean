import McpModel.Wire.LemmasMsg
import McpModel.Wire.LemmasFrame
import McpModel.Wire.LemmasContent2
import McpModel.Wire.LemmasBatch
import McpModel.Wire.LemmasSpell
import McpModel.Wire.LemmasResult
import McpModel.Wire.LemmasOrder
import McpModel.Wire.LemmasInput
import McpModel.Wire.LemmasSse
import McpModel.Wire.LemmasBytes
import McpModel.Wire.LemmasConc
import McpModel.Wire.LemmasRef
import McpModel.Wire.LemmasClone
import McpModel.Wire.LemmasAnn
import McpModel.Wire.LemmasRetry
/-!
# C19 (and the E2 part of C02) — property theorems of the wire engine

Model: `Wire.encodeMsg`/`decodeMsg` (`internal/jsonrpc2/messages.go`, `wire.go`), `decodeID` (the
REPAIRED id path, fix F1), `toWireError`, `frame`/`unframe`, `readBatch`, `opRead`/`opWrite`
(`ioConn`, REPAIRED batch tracking, fix F2), `writeEvent`/`scanEvents` (`mcp/event.go`; `renderStream`: event streams as any conforming peer frames them),
`encodeContent`/`decodeContent` (`mcp/content.go`, REPAIRED nesting, fix F8), `sdkResultList`
(REPAIRED normalisation, fix F15), `listPage` (`paginateList` + the list handlers' `setFunc`, every cursor), `sdkCallTool` (results of raw tool handlers; REPAIRED nil result, fix
wire-F30), `unquote` (the spelling of string literals on the wire).  Struct tags, codes and framing constants come from
`Generated.Wire` (regenerated from /repo on every run): a changed tag re-opens these proofs.

Every theorem quantifies over ALL messages / JSON values / byte strings / event lists / label
sequences; nothing is bounded.  Proofs are in the `Lemmas*` files (`Wire.L.*`); this file states the
properties.  Counter-example theorems for the four repaired defects: `L.f1_counterexample_2p53`,
`L.f1_counterexample_maxint64`, `L.f2_counterexample_withheld`, `L.f2_counterexample_dup`,
`L.f8_counterexample_text`, `L.f8_counterexample_image`; for the known finding F23: `L.f23_counterexample`.
-/
namespace Wire
open Generated.Wire

/-! ## messages -/

/-- **decode_encode_msg.** Every well-formed message (`wfMsg`: request/notification with a non-empty
method, response with an id; ids: any string incl. empty, any int64; any params/result value; any
error incl. data) decodes from its own encoding to itself. -/
theorem decode_encode_msg (m : Msg) (h : wfMsg m = true) : decodeMsg (encodeMsg m) = .ok m :=
  L.decode_encode_msg m h

example : wfMsg (.response (.int 9223372036854775807) none (some ⟨-32601, [110, 111], some .null⟩)) = true := by decide

/-- **encode_decode_preserves.** Every valid wire message `w` (`validWire`: `jsonrpc:"2.0"`; id a
string, an integer anywhere in the int64 range, or absent; the member combination of a request,
notification or response; unknown extra members allowed) decodes, and re-encoding the result
preserves the version tag, the id (type and exact value), method, params, result and the error's
code, message and data (`proj`). -/
theorem encode_decode_preserves (w : JVal) (h : validWire w = true) :
    ∃ m, decodeMsg w = .ok m ∧ proj (encodeMsg m) = proj w :=
  L.encode_decode_preserves w h

example : validWire (.obj [(wireDecode_VersionTag_name, .str wireVersion), (wireDecode_ID_name, .int 9007199254740993),
    (wireDecode_Method_name, .str [112]), ([120], .bool true)]) = true := by decide

/-- **id_echo_exact** (C02 and C19). An id the SDK holds — any string, any int64 — is written and
read back unchanged … -/
theorem id_echo_exact (id : Id) (h : ∀ n, id = .int n → inInt64 n = true) :
    (match encodeId id with
      | none => Except.ok Id.none
      | some v => decodeID v) = .ok id :=
  L.id_echo_exact id h

/-- … and an id token on the wire — a string, or an integer literal anywhere in the int64 range — is
decoded and re-encoded to the identical token (same JSON type, same value).  Before fix F1 this
failed beyond ±2^53 (`L.f1_counterexample_2p53`, `L.f1_counterexample_maxint64`). -/
theorem id_echo_exact_wire (v : JVal) (h : (∃ s, v = .str s) ∨ (∃ n, v = .int n ∧ inInt64 n = true)) :
    (decodeID v).map encodeId = .ok (some v) :=
  L.id_echo_exact_wire v h

/-- **wire_error_wrap.** A `*WireError` goes out unchanged.  Any other error goes out with its own
text as message, no data, and the code of the first `*WireError` in its `Unwrap` tree (0 if none) … -/
theorem wire_error_wrap (e : GoErr) :
    (∀ w, e = .wire w → toWireError e = w) ∧
    (∀ msg ws, e = .other msg ws →
      (toWireError e).message = msg ∧ (toWireError e).data = none ∧
      (toWireError e).code = (match (GoErr.other msg ws).firstWire with | some w => w.code | none => 0)) :=
  L.wire_error_wrap e

/-- … so however deep a wire error is wrapped with `%w`, the wire carries its code and the outermost
message. -/
theorem wire_error_wrap_chain (m : Bytes) (ms : List Bytes) (w : WErr) :
    toWireError (chain (m :: ms) w) = { code := w.code, message := m, data := none } :=
  L.wire_error_wrap_chain m ms w

/-- **decode_case_sensitive.** A member whose name is not exactly one of the six wire names — e.g.
one that differs only in case — has no influence on decoding, wherever it stands. -/
theorem decode_case_sensitive (k : Bytes) (v : JVal) (a b : List (Bytes × JVal)) (h : k ∉ wireNames) :
    decodeMsg (.obj (a ++ (k, v) :: b)) = decodeMsg (.obj (a ++ b)) :=
  L.decode_case_sensitive k v a b h

example : ([73, 68] : Bytes) ∉ wireNames := by decide   -- "ID"

/-- **decode_error_case_sensitive.** The same one level down, in the `error` object the codec decodes itself:
a member of it whose name is not exactly `code`, `message` or `data` — `Code`, `MESSAGE`, `Data` — has no
influence on decoding, wherever it stands in the error object (before or after the real member, or instead of
it) and wherever the `error` member stands in the message. -/
theorem decode_error_case_sensitive (k : Bytes) (v : JVal) (ea eb pre post : List (Bytes × JVal))
    (h : k ∉ wireErrorNames) :
    decodeMsg (.obj (pre ++ (wireDecode_Error_name, .obj (ea ++ (k, v) :: eb)) :: post)) =
      decodeMsg (.obj (pre ++ (wireDecode_Error_name, .obj (ea ++ eb)) :: post)) :=
  L.decode_error_case_sensitive k v ea eb pre post h

example : ([67, 111, 100, 101] : Bytes) ∉ wireErrorNames := by decide   -- "Code"

/-- **decode_total.** Decoding returns a message or an error class for every JSON value (the Go
side's "never panics on arbitrary bytes" is the fuzzing obligation of the tie). -/
theorem decode_total (w : JVal) : (∃ m, decodeMsg w = .ok m) ∨ (∃ e, decodeMsg w = .error e) :=
  L.decode_total w

/-- A response needs an id: without one it is rejected as an invalid request. -/
theorem response_needs_id (kvs : List (Bytes × JVal))
    (hv : lookup wireDecode_VersionTag_name kvs = some (.str wireVersion))
    (hm : lookup wireDecode_Method_name kvs = none) (hi : lookup wireDecode_ID_name kvs = none)
    (he : validErr (lookup wireDecode_Error_name kvs) = true) :
    decodeMsg (.obj kvs) = .error .noId :=
  L.response_needs_id kvs hv hm hi he

/-! ## strings as a foreign peer spells them -/

/-- **string_any_spelling.** Every spelling of a string that RFC 8259 allows — each character raw, as
one of the eight short escapes (`\/` included), as `\uXXXX` with hex digits of either case, or as a
UTF-16 surrogate pair — denotes that string: for EVERY list of spelled units, each valid, `unquote` of
the spelled body is the concatenation of what the units denote. -/
theorem string_any_spelling (l : List Sp) (h : ∀ x ∈ l, x.valid = true) : unquote (spell l) = some (denote l) :=
  L.unquote_spell l h

/-- `req\/1` is `req/1`; `\ud83d\uDE00` is U+1F600; a lone surrogate is outside the model. -/
example : unquote [114, 101, 113, 92, 47, 49] = some [114, 101, 113, 47, 49] := by decide
example : unquote [92, 117, 100, 56, 51, 100, 92, 117, 68, 69, 48, 48] = some [0xF0, 0x9F, 0x98, 0x80] := by decide
example : unquote [92, 117, 100, 56, 51, 100] = none := by decide
example : (Sp.pair (13, false) (8, false) (3, false) (13, true) (13, true) (14, true) (0, false) (0, false)).valid = true := by decide

/-- **string_id_any_spelling** (C02 and C19). A string id is decoded to the string it denotes and
echoed as that string, however the peer spelled it (composition of `string_any_spelling` and
`id_echo_exact_wire`). -/
theorem string_id_any_spelling (l : List Sp) (h : ∀ x ∈ l, x.valid = true) :
    (unquote (spell l)).map (fun s => (decodeID (.str s)).map encodeId) = some (.ok (some (.str (denote l)))) := by
  rw [string_any_spelling l h]
  simp only [Option.map]
  rw [id_echo_exact_wire (.str (denote l)) (Or.inl ⟨_, rfl⟩)]

/-! ## framing -/

/-- **ndjson_roundtrip.** For every list of non-empty payloads without a raw line feed (every compact
JSON text), splitting `payload₁ "\n" payload₂ "\n" …` at line feeds gives the payloads back, and
nothing is left over. -/
theorem ndjson_roundtrip (ps : List Bytes) (h : ∀ p ∈ ps, p ≠ [] ∧ LF ∉ p) :
    unframe (frame ps) = ps ∧ (splitLines (frame ps)).2 = [] :=
  L.ndjson_roundtrip ps h

/-! ### the byte level -/

/-- **split_lines_bytes.** `bufio.Reader.ReadBytes('\n')` run to the end of the input, on BYTES: the lines, each
followed by LF, then the unterminated rest, are exactly the input — nothing lost, nothing invented —, no line and
not the rest contains an LF, and this is the only such decomposition.  (So `scanEvents`, `unframe` and the theorems
about them are statements about byte strings.) -/
theorem split_lines_bytes (bs : Bytes) :
    frame (splitLines bs).1 ++ (splitLines bs).2 = bs ∧ (∀ l ∈ (splitLines bs).1, LF ∉ l) ∧ LF ∉ (splitLines bs).2 :=
  ⟨L.splitLines_join bs, L.splitLines_noLF bs⟩

theorem split_lines_unique (ls : List Bytes) (rest : Bytes) (h : ∀ l ∈ ls, LF ∉ l) (hr : LF ∉ rest) :
    splitLines (frame ls ++ rest) = (ls, rest) :=
  L.splitLines_unique ls rest h hr

/-- **concurrent_writes_never_interleave.**  Writers `ws` (each a frame cut into the pieces in which the
stream takes it) call `ioConn.Write` at the same time.  Under EVERY schedule — who wins `writeMu` when,
when the stream takes the next piece — the stream holds, at every moment, whole frames of some of the
writers, in the order in which they won the lock, followed by a prefix of the lock holder's frame: no byte
of one frame ever stands inside another.  The frames done, the holder's and the waiting ones are the
writers' frames (`Perm`: none lost, none twice). -/
theorem concurrent_writes_never_interleave (ws : List (List Bytes)) (ops : List CWOp) :
    (CW.run { waiting := ws } ops).Inv (ws.map List.flatten) :=
  CW.run_inv _ ops _ ⟨[], [], by simp, by simp, by simp⟩

/-- … and when every writer has returned, the stream is the concatenation of the frames in some order. -/
theorem concurrent_writes_framed (ws : List (List Bytes)) (ops : List CWOp)
    (hh : (CW.run { waiting := ws } ops).holder = none) (hw : (CW.run { waiting := ws } ops).waiting = []) :
    ∃ order : List Bytes, order.Perm (ws.map List.flatten) ∧ (CW.run { waiting := ws } ops).out = order.flatten := by
  obtain ⟨done, pre, hout, hpre, hperm⟩ := concurrent_writes_never_interleave ws ops
  have := hpre hh
  subst this
  rw [hh, hw] at hperm
  exact ⟨done, by simpa using hperm, by simpa using hout⟩

/-- non-vacuity: two writers, frames in two pieces each; the second cannot get in between -/
example : (CW.run { waiting := [[[1], [2, 10]], [[3], [4, 10]]] } [.acquire 1, .piece, .acquire 0, .piece, .acquire 0, .piece, .piece]).out
    = [3, 4, 10, 1, 2, 10] := by decide

/-! ## multi round trip: what a retried request carries -/

/-- **retry_roundtrip.**  For every params value (members `rest`, none of them `inputResponses` / `requestState`),
every set of fulfilled responses — each an object with a discriminating member — and every request state: the
retried request carries the responses and the state INTACT (the member values are exactly the ones
`setMultiRoundTripRetryParams` assigned; both omitted when empty), and the server decodes them
(`InputResponseMap.UnmarshalJSON`) to the same keys, each with the kind of its response, and the same state. -/
theorem retry_roundtrip (rest rs : List (Bytes × JVal)) (state : Bytes) (kind : JVal → RespKind)
    (h1 : lookup retry_InputResponses_name rest = none) (h2 : lookup retry_RequestState_name rest = none)
    (hk : ∀ p ∈ rs, respKindOf p.2 = .ok (kind p.2)) :
    lookup retry_InputResponses_name (retryParams rest rs state) = (if rs = [] then none else some (.obj rs)) ∧
    lookup retry_RequestState_name (retryParams rest rs state) = (if state = [] then none else some (.str state)) ∧
    decodeRetry (retryParams rest rs state) = .ok (rs.map (fun p => (p.1, kind p.2)), state) :=
  L.retry_roundtrip rest rs state kind h1 h2 hk

/-- the three response types are told apart by `roots`, then `action`, then `role`; an object with none is refused -/
theorem resp_kind_discriminated (kvs : List (Bytes × JVal)) :
    ((lookup probe_Roots_name kvs).isSome = true → respKindOf (.obj kvs) = .ok .roots) ∧
    ((lookup probe_Roots_name kvs) = none → (lookup probe_Action_name kvs).isSome = true → respKindOf (.obj kvs) = .ok .elicit) ∧
    ((lookup probe_Roots_name kvs) = none → (lookup probe_Action_name kvs) = none → (lookup probe_Role_name kvs).isSome = true →
      respKindOf (.obj kvs) = .ok .sampling) ∧
    ((lookup probe_Roots_name kvs) = none → (lookup probe_Action_name kvs) = none → (lookup probe_Role_name kvs) = none →
      respKindOf (.obj kvs) = .error ()) :=
  L.resp_kind_discriminated kvs

/-! ## the `CompleteReference` codec -/

/-- **ref_roundtrip.** Every reference `CompleteReference.MarshalJSON` accepts decodes (`UnmarshalJSON`) from
what it wrote to itself. -/
theorem ref_roundtrip (r : CRef) (v : JVal) (h : encodeRef r = .ok v) : decodeRef v = .ok r :=
  L.ref_roundtrip r v h

/-- **ref_encode_validates.** `MarshalJSON` writes exactly the consistent references: one of the two known types
and only that type's own member (`name` for a prompt, `uri` for a resource). -/
theorem ref_encode_validates (r : CRef) :
    (∃ v, encodeRef r = .ok v) ↔ ((r.typ = refPromptType ∧ r.uri = []) ∨ (r.typ = refResourceType ∧ r.name = [])) :=
  L.ref_encode_validates r

/-- **ref_decode_validates.** Whatever `UnmarshalJSON` accepts — from ANY JSON value — is consistent: `MarshalJSON`
writes it again, and that decodes to the same reference. -/
theorem ref_decode_validates (v : JVal) (r : CRef) (h : decodeRef v = .ok r) :
    ∃ v', encodeRef r = .ok v' ∧ decodeRef v' = .ok r :=
  L.ref_decode_validates v r h

/-- the member names are matched exactly: a reference whose type stands under `Type` has no type -/
theorem ref_decode_case_sensitive (n u : Bytes) :
    decodeRef (.obj [([84, 121, 112, 101], .str refPromptType), (CompleteReference_Name_name, .str n), (CompleteReference_URI_name, .str u)])
      = .error .unknownType :=
  L.ref_decode_case_sensitive n u

example : encodeRef ⟨refPromptType, [112], []⟩ = .ok (.obj [([116, 121, 112, 101], .str refPromptType), ([110, 97, 109, 101], .str [112])]) := by
  decide

/-- **logging_transparent.**  A `LoggingTransport` hands every message on unchanged, in both directions: what
its `Read` returns is what the delegate's `Read` returned, what its `Write` does to the stream is what the
delegate's `Write` does. -/
theorem logging_transparent (o : ReadOut) (m : Msg) (w : WriteOut) : (logRead o).1 = o ∧ (logWrite m w).1 = w :=
  ⟨rfl, rfl⟩

/-- **logged_payload_roundtrip.**  The payload logged for a well-formed message that was read or written decodes
to that message. -/
theorem logged_payload_roundtrip (m : Msg) (h : wfMsg m = true) :
    (∃ v, (logRead (.msg m)).2 = .read v ∧ decodeMsg v = .ok m) ∧
    (∀ w, w ≠ WriteOut.panic → ∃ v, (logWrite m w).2 = some (.write v) ∧ decodeMsg v = .ok m) :=
  ⟨⟨_, rfl, decode_encode_msg m h⟩, fun w hw => ⟨_, by simp [logWrite, hw], decode_encode_msg m h⟩⟩

/-- **ndjson_stream_roundtrip** (byte level, reader side of `ioConn`).  For EVERY list of values that are JSON
objects or arrays as far as the decoder's scanner sees them (`framed`: the bracket depth outside string literals
returns to zero exactly at the last byte — escapes, quotes and brackets inside strings included), each followed by
ANY separator that is white space beginning with LF or CR (`lineSep`: LF, CRLF, blank lines, further blanks), the
reader goroutine of `newIOConn` — `json.Decoder.Decode` value by value plus the SDK's check of the byte that follows
a value — hands on exactly those values, in order, and ends with the end of the input. -/
theorem ndjson_stream_roundtrip (l : List (Bytes × Bytes)) (hf : ∀ q ∈ l, framed q.1 = true)
    (hw : ∀ q ∈ l, lineSep q.2 = true) : readStream (joinWs l) = (l.map (·.1), .eof) :=
  L.ndjson_stream_roundtrip l hf hw

/-- … in particular what `ioConn.Write` writes (`frame`: every payload followed by one LF) is read back payload by
payload. -/
theorem ndjson_roundtrip_bytes (ps : List Bytes) (h : ∀ p ∈ ps, framed p = true) : readStream (frame ps) = (ps, .eof) :=
  L.ndjson_roundtrip_bytes ps h

/-- Non-vacuity: `{"a":"}\"]{["}` then `[{}]`, ended by CRLF and LF. -/
example : readStream ([123, 34, 97, 34, 58, 34, 125, 92, 34, 93, 123, 91, 34, 125] ++ [CR, LF] ++ [91, 123, 125, 93] ++ [LF]) =
    ([[123, 34, 97, 34, 58, 34, 125, 92, 34, 93, 123, 91, 34, 125], [91, 123, 125, 93]], .eof) := by decide
example : framed [123, 34, 97, 34, 58, 34, 125, 92, 34, 93, 123, 91, 34, 125] = true := by decide
/-- what the separator hypothesis excludes — and the SDK's reader refuses, although it is valid JSON text: two values
separated by a blank (`{} {}`), or by nothing (`{}{}`): "invalid trailing data", the first value is not handed on. -/
theorem reader_refuses_other_separators :
    readStream [123, 125, 32, 123, 125] = ([], .trailing) ∧ readStream [123, 125, 123, 125] = ([], .trailing) := by
  decide

/-- **sse_roundtrip.** For every list of events whose fields are trimmed and LF-free and which are
not entirely empty (`CleanEvent`; every SDK message event is one: its data is a compact JSON text),
scanning the bytes `writeEvent` wrote for them yields exactly those events, in order, without error. -/
theorem sse_roundtrip (es : List Event) (h : ∀ e ∈ es, CleanEvent e) :
    scanEvents (es.flatMap writeEvent) = (es, false) :=
  L.sse_roundtrip es h

/-- **sse_eol_irrelevant.** The scanner does not see whether a line ended in LF or in CRLF: for EVERY
list of LF-free lines — field lines, comments, blank lines, garbage —, every choice of line end per
line, and every unterminated rest, scanning the stream yields the events and the verdict that
scanning the same lines written with LF yields. -/
theorem sse_eol_irrelevant (ls : List (Bytes × Eol)) (rest : Bytes) (h : ∀ p ∈ ls, LF ∉ p.1) :
    scanEvents (renderLines ls ++ rest) = scanEvents (frame (ls.map (·.1)) ++ rest) :=
  L.sse_eol_irrelevant ls rest h

/-- **sse_roundtrip_any_eol.** An event stream as ANY conforming peer may frame it — each line ended
by LF or CRLF (chosen line by line, the dispatching blank line included), comment lines anywhere,
fields in any order and any number of times, the payload spread over several `data` lines, `retry`
lines, unknown fields with arbitrary values, any run of spaces/tabs (or none) after the colon — is
scanned, without error, to exactly the events it denotes (`FEvent.denote`: last `event`/`id`/`retry`
value, the `data` values joined by LF), in order; blocks that denote nothing (comments only, blank
lines) yield nothing.  For EVERY list of such events (`WfFLine`: key without colon, line without LF,
values of the four known fields trimmed). -/
theorem sse_roundtrip_any_eol (es : List FEvent) (h : ∀ e ∈ es, ∀ l ∈ e.lines, WfFLine l) :
    scanEvents (renderStream es) = ((es.map FEvent.denote).filter (fun e => !e.isEmpty), false) :=
  L.sse_roundtrip_any_eol es h

/-- Non-vacuity: `: hi CRLF  data:{ CRLF  event: m LF  data: } CRLF  CRLF` denotes the event `m` with data
`{ LF }`; a comment-only block denotes nothing. -/
example : scanEvents (renderStream [⟨[⟨[], [], [32, 104, 105], .crlf⟩, ⟨sse_dataKey, [], [123], .crlf⟩,
      ⟨sse_eventKey, [32], [109], .lf⟩, ⟨sse_dataKey, [32], [125], .crlf⟩], .crlf⟩, ⟨[⟨[], [], [107], .crlf⟩], .crlf⟩]) =
    ([{ name := [109], data := [123, 10, 125] }], false) := by decide
example : WfFLine ⟨sse_dataKey, [32, 9], [123, 125], .crlf⟩ := L.wfFLine_spec _ (by decide)
/-- what the hypothesis excludes: a data value ending in a blank is not read back as it was written -/
example : (scanEvents (renderStream [⟨[⟨sse_dataKey, [], [120, 32], .lf⟩], .lf⟩])).1 ≠ [{ data := [120, 32] }] := by decide

/-- **batch_roundtrip.** A batch frame made of the encodings of well-formed messages is read back as
exactly those messages (and a single message as itself); `Read` then hands the queue out in order. -/
theorem batch_roundtrip (ms : List Msg) (hne : ms ≠ []) (h : ∀ m ∈ ms, wfMsg m = true) :
    readBatch (.arr (ms.map encodeMsg)) = .ok (ms, true) :=
  L.readBatch_array ms hne h

theorem single_roundtrip (m : Msg) (h : wfMsg m = true) : readBatch (encodeMsg m) = .ok ([m], false) :=
  L.readBatch_single m h

theorem read_queue_in_order (s : IOState) (m : Msg) (q : List Msg) (h : s.queue = m :: q) :
    opRead false s = ({ s with queue := q }, .msg m) :=
  L.read_queue s m q h

/-- **batch_exactly_once** (C02; the write side of C19's `batch_roundtrip`). For EVERY sequence of
labels — frames arriving (single messages and batches of any composition of calls, notifications
and responses, well-formed or not), `Read`s, `Write`s of responses in any order incl. duplicates and
unknown ids, outgoing messages, version changes — on a fresh `ioConn`: the model never reaches a
panic state, every `Read` returns what the slot specification (`specRead`/`specAccept`) returns, and
every `Write` writes what `specWrite` prescribes: nothing while another call of the same batch is
unanswered; ONE array with exactly one response per call of the batch, in call order, when the last
call is answered; the message on its own otherwise.  Notifications have no slot: they cannot
withhold or break anything (F2 repaired; counter-examples `L.f2_counterexample_*`). -/
theorem batch_exactly_once (ops : List IOOp) :
    (runBoth ({}, []) ops).2 = true ∧ (runBoth ({}, []) ops).1.1.panicked = false :=
  ⟨(L.batch_exactly_once ops).1, (L.batch_exactly_once ops).2.1⟩

/-- What the specification's flushed array is: for the batch it closes, one response per call, in
call order, each bearing its call's id; the batch leaves the open list (no second array). -/
theorem batch_flush_exact (sp : List Slots) (hok : ∀ sl ∈ sp, SlotsOK sl) (msg : Msg) (ms : List Msg)
    (sp' : List Slots) (h : specWrite sp msg = (sp', .array ms)) :
    ∃ sl ∈ sp, ms.map Msg.id = sl.map (·.1) ∧ slotPending sl msg.id = true ∧ sp'.length + 1 = sp.length :=
  L.spec_flush sp hok msg ms sp' h

/-- Non-vacuity: `[notification, call 5]`, then the answer to 5 ⇒ `[response 5]` is flushed. -/
example :
    let s0 : IOState := { wire := [.arr [wNotif, wCall5]] }
    let r2 := opRead false (opRead false s0).1
    (opWrite r2.1 resp5).2 = .array [encodeMsg resp5] := by decide

/-! ## content and results -/

/-- **content_roundtrip.** Every well-formed content value (`wfContent`) — every kind, empty and
non-empty members, `_meta`, annotations, blocks nested in a tool_result — decodes from its own
encoding to itself, in every context whose allow list admits its kind. -/
theorem content_roundtrip (allow : Option (List Bytes)) (c : Content) (h : wfContent c = true)
    (hal : allowed allow c.kind = true) : decodeContent allow (encodeContent c) = .ok c :=
  L.content_roundtrip allow c h hal

theorem contents_roundtrip (allow : Option (List Bytes)) (cs : List Content)
    (h : ∀ c ∈ cs, wfContent c = true ∧ allowed allow c.kind = true) :
    decodeContentList allow (.arr (encodeContents cs)) = .ok cs :=
  L.contents_roundtrip allow cs h

example : wfContent (.toolResult [105] [.text [] [] none, .image [] [] [] none] none false []) = true := by decide

/-- **required_members_present**, content: in the encoding of EVERY content value, at every nesting
depth, `text` is present in a text block (also when empty), `data` in image/audio blocks (also when
nil), `content` is a non-null array in a tool_result, and the same holds inside that array.  Before
fix F8 this failed for nested blocks (`L.f8_counterexample_text`, `L.f8_counterexample_image`). -/
theorem required_members_present (c : Content) : reqOK (encodeContent c) = true :=
  L.required_members_present c

/-- **required_members_present**, resource contents — PARTIAL (known finding F23).
Full statement (FALSE on this tree, counter-example `L.f23_counterexample`):
  `∀ uri mime text blob m, resourceOK (encodeResource uri mime text blob m) = true`
i.e. every resource contents object carries `text` or `blob`.  What holds: it does whenever the text
is non-empty or a blob is present; an EMPTY text resource is written as `{"uri":…}` because `text`
has `omitempty` and `ResourceContents` has no `MarshalJSON` (the repository's own test pins that). -/
theorem resource_text_present_partial (uri mime text : Bytes) (blob : Option Bytes) (m : Meta)
    (h : text ≠ [] ∨ blob.isSome = true) : resourceOK (encodeResource uri mime text blob m) = true :=
  L.resource_text_present_partial uri mime text blob m h

example : resourceOK (encodeResource [117] [] [116] none []) = true := by decide

/-- **required_members_present**, results: a result that is sent carries an array for its required
list member — never `null` — whatever the handler or registry left (nil included; F15 repaired). -/
theorem required_lists_present (k : RKind) (l : RList) (v : JVal) (h : sdkResultList k l = .sent v) :
    ∃ items, v = .arr items :=
  L.required_lists_present k l v h

/-- **required_lists_present, every cursor position.** A list request (`tools/list`, `prompts/list`,
`resources/list`, `resources/templates/list`) against ANY registry (sorted key list), with ANY page
size and ANY cursor — none, one the server issued earlier (stale or not), a forged well-formed one
naming any string — is answered either with an error (the cursor does not decode) or with a result
whose list member is an ARRAY of at most `pageSize` items: the items of the keys the cursor leaves,
in order.  Never `null`. -/
theorem required_lists_present_paged (k : RKind) (hk : k.isPaged = true) (item : Bytes → JVal) (keys : List Bytes)
    (ps : Nat) (c : Cursor) :
    (c = .garbage ∧ (listPage k item keys ps c).1 = .errorInstead) ∨
    (∃ items, (listPage k item keys ps c).1 = .sent (.arr items) ∧ items.length ≤ ps ∧
      items = ((pageSeq keys c).take ps).map item) :=
  L.required_lists_present_paged k hk item keys ps c

/-- … at every position: with the keys split into those not above the cursor's uid and the rest (empty,
or starting with a key above it), the page is the first `pageSize` items of the rest … -/
theorem list_page_at_position (k : RKind) (hk : k.isPaged = true) (item : Bytes → JVal) (a b : List Bytes)
    (ps : Nat) (uid : Bytes) (ha : ∀ x ∈ a, keyLt uid x = false) (hb : ∀ h t, b = h :: t → keyLt uid h = true) :
    (listPage k item (a ++ b) ps (.after uid)).1 = .sent (.arr ((b.take ps).map item)) :=
  L.list_page_at_position k hk item a b ps uid ha hb

/-- … and **the page above the last key is the EMPTY ARRAY** (no further cursor): a cursor at or beyond
the last key — the one page 1 issued, after the items above it were removed — gets `[]`. -/
theorem list_page_beyond_last_is_empty_array (k : RKind) (hk : k.isPaged = true) (item : Bytes → JVal)
    (keys : List Bytes) (ps : Nat) (uid : Bytes) (h : ∀ x ∈ keys, keyLt uid x = false) :
    listPage k item keys ps (.after uid) = (.sent (.arr []), none) :=
  L.list_page_beyond_last k hk item keys ps uid h

/-- **required_lists_present after every history** (the client's `roots/list`).  Whatever sequence of
`AddRoots` / `RemoveRoots` calls a client has seen — none, roots added and ALL of them removed again
(one by one, at once, together with names that were never there), refilled … — the `roots` member of
the result it sends is the ARRAY of the roots that are left, in key order; `[]` when none is left.
Never `null`.  (The registry's state after a history is its key set: `regAfter`.) -/
theorem required_lists_present_after_history (item : Bytes → JVal) (h : List RegOp) :
    listAll .listRoots item (regAfter h) = .sent (.arr ((regAfter h).map item)) :=
  L.listAll_sent item (regAfter h)

/-- … in particular after the last root was removed: `[]`. -/
theorem roots_emptied_is_empty_array (item : Bytes → JVal) (h : List RegOp) (he : regAfter h = []) :
    listAll .listRoots item (regAfter h) = .sent (.arr []) := by
  rw [required_lists_present_after_history, he]; rfl

/-- non-vacuity: a history that fills and empties the registry -/
example : regAfter [.add [[97], [98]], .rm [[97]], .rm [[98], [99]]] = [] := by decide

/-- every registry the SDK lists (the server's four page by page, the client's roots whole), in every
state and for every cursor that decodes: the list member sent is an array. -/
theorem required_lists_present_listed (k : RKind) (hk : k.isListed = true) (item : Bytes → JVal)
    (keys : List Bytes) (ps : Nat) (c : Cursor) (hc : c ≠ .garbage) :
    ∃ items, (listReg k item keys ps c).1 = .sent (.arr items) :=
  L.listReg_sent k hk item keys ps c hc

/-- **call_tool_content_present** (required_members_present for `tools/call` through the low-level
`Server.AddTool`). Whatever result a raw tool handler returns — `Content` nil, empty or not,
`StructuredContent` nil or any value, `IsError` either way — the result sent has a `content` member
that is an ARRAY of exactly the handler's blocks (none for nil), each with its required members;
`structuredContent` is the handler's value, present iff set; `isError` is present iff set. -/
theorem call_tool_content_present (c : Option (List Content)) (s : Option JVal) (e : Bool) :
    ∃ ms, sdkCallTool (.result c s e) = .sent ms ∧
      lookup CallToolResult_Content_name ms = some (.arr (encodeContents (c.getD []))) ∧
      contentArrOK (lookup CallToolResult_Content_name ms) = true ∧
      lookup CallToolResult_StructuredContent_name ms = s ∧
      lookup CallToolResult_IsError_name ms = (if e then some (.bool true) else none) :=
  L.call_tool_content_present c s e

/-- … and for every handler return (a result, `(nil, nil)`, an error): what is sent as a result has
its `content` array (wire-F30 repaired: a nil result goes out as an empty one). -/
theorem call_tool_never_without_content (r : ToolRet) (ms : List (Bytes × JVal)) (h : sdkCallTool r = .sent ms) :
    contentArrOK (lookup CallToolResult_Content_name ms) = true :=
  L.call_tool_never_without_content r ms h

/-- Why the normalisation in `Server.callTool` must look at `Content` alone: a nil slice marshalled
as it is gives `"content":null` — also when structured content is present. -/
theorem call_tool_unnormalised_null (s : Option JVal) (e : Bool) :
    lookup CallToolResult_Content_name (callToolMembers none s e) = some .null ∧
    contentArrOK (lookup CallToolResult_Content_name (callToolMembers none s e)) = false :=
  L.call_tool_unnormalised_null s e

/-! ## order of delivery (C03) -/

/-- **batch_read_order** (C03, C19). For EVERY state of an `ioConn` and EVERY sequence of labels —
frames arriving (single messages, batches of any size and composition), `Read`s, `Write`s, version
changes — in which no `Read` fails: the messages the `Read`s returned, followed by what is still
pending (the unread rest of the last frame, then the messages of the frames not yet taken), are
exactly what was pending before followed by the messages of the frames fed — element by element, in
the order in which the peer wrote them.  Nothing is reordered, duplicated or dropped, whatever the
interleaving of reads with arrivals and writes. -/
theorem batch_read_order (s : IOState) (ops : List IOOp)
    (hok : ∀ r ∈ readResults s ops, ∃ m, r = .msg m) :
    (readResults s ops).filterMap ReadOut.msg? ++ (ioRun s ops).pendingMsgs =
      s.pendingMsgs ++ (fedFrames ops).flatMap frameMsgs :=
  L.batch_read_order s ops hok

/-- … so on a fresh connection that has been read dry, the concatenation of the messages `Read`
returned IS the concatenation of the frames' messages. -/
theorem batch_read_order_fresh (ops : List IOOp)
    (hok : ∀ r ∈ readResults {} ops, ∃ m, r = .msg m) (hdry : (ioRun {} ops).pendingMsgs = []) :
    (readResults {} ops).filterMap ReadOut.msg? = (fedFrames ops).flatMap frameMsgs := by
  have h := batch_read_order {} ops hok
  rw [hdry, List.append_nil] at h
  simpa [IOState.pendingMsgs] using h

/-- Without the proviso: the messages returned BEFORE the first failing `Read` (a read error ends the
connection) are a prefix of what the peer wrote, in order. -/
theorem batch_read_order_prefix (s : IOState) (ops : List IOOp) :
    ∃ rest, s.pendingMsgs ++ (fedFrames ops).flatMap frameMsgs = msgsUntilErr (readResults s ops) ++ rest :=
  L.batch_read_order_prefix s ops

/-- Non-vacuity: the batch `[n, call 5, n]` is handed out as n, call 5, n. -/
example :
    let ops : List IOOp := [.feed (.arr [wNotif, wCall5, wNotif]), .read, .read, .read]
    (readResults {} ops).filterMap ReadOut.msg? = [.request .none [110] none, .request (.int 5) [112] none, .request .none [110] none] := by
  decide

/-- The monitor's judgement "out of order" (the message returned is not the next element the peer
wrote but IS a later one) cannot fire when `Read` returns the next element. -/
theorem read_order_monitor_sound (same : Msg → JVal → Bool) (e : JVal) (rest : List JVal) (m : Msg)
    (h : same m e = true) : outOfOrder same (e :: rest) m = false :=
  L.outOfOrder_next same e rest m h

/-! ## frames without a message -/

/-- **read_batch_nonempty.** Whatever `readBatch` accepts carries at least one message: `ioConn.Read`
takes `msgs[0]` and `msgs[1:]` of it. -/
theorem read_batch_nonempty (raw : JVal) (ms : List Msg) (b : Bool) (h : readBatch raw = .ok (ms, b)) : ms ≠ [] :=
  L.readBatch_nonempty raw ms b h

/-- **degenerate_frames_rejected.** `null`, `[]`, every array whose first element is not an object
(`[null]`, `[[]]`, `[[],[]]`, `[0]`, `[""]`, …) and every bare non-object are rejected with an error … -/
theorem degenerate_frames_rejected (raw : JVal)
    (h : raw = .null ∨ raw = .arr [] ∨ (∃ e t, raw = .arr (e :: t) ∧ notMsgShaped e = true) ∨
      (notMsgShaped raw = true ∧ ∀ l, raw ≠ .arr l)) :
    ∃ e, readBatch raw = .error e :=
  L.degenerate_frames_rejected raw h

/-- … and a `Read` that takes a rejected frame returns that error and leaves the connection's state
alone: nothing queued, nothing tracked, no panic state. -/
theorem read_degenerate_frame (s : IOState) (raw : JVal) (w : List JVal) (hq : s.queue = []) (hw : s.wire = raw :: w)
    (e : RErr) (h : readBatch raw = .error e) :
    opRead false s = ({ s with wire := w }, .err e) :=
  L.read_degenerate_frame s raw w hq hw e h

example : ∃ e, readBatch (.arr [.arr [], .null]) = .error e :=
  degenerate_frames_rejected _ (Or.inr (Or.inr (Or.inl ⟨_, _, rfl, rfl⟩)))

/-! ## `inputRequests` (fix F32) -/

/-- **input_requests_null_entry_rejected.** A `null` entry anywhere in `inputRequests` makes the
decode an error — before fix F32 the nil entry was dereferenced (client crash). -/
theorem input_requests_null_entry_rejected (a b : List (Bytes × JVal)) (k : Bytes) :
    decodeInputRequests (.obj (a ++ (k, .null) :: b)) = .error () :=
  L.input_requests_null_entry_rejected a b k

/-- **input_requests_case_sensitive.** A member of an entry whose name is not exactly `method` or
`params` — e.g. `Method` — has no influence on how the entry decodes. -/
theorem input_requests_case_sensitive (k : Bytes) (v : JVal) (a b : List (Bytes × JVal))
    (h1 : k ≠ irmRaw_Method_name) (h2 : k ≠ irmRaw_Params_name) :
    decodeInputEntry (.obj (a ++ (k, v) :: b)) = decodeInputEntry (.obj (a ++ b)) :=
  L.input_entry_case_sensitive k v a b h1 h2

example : ([77, 101, 116, 104, 111, 100] : Bytes) ≠ irmRaw_Method_name := by decide   -- "Method"

/-- What is accepted: the keys of the wire object, in order, each naming one of the methods of the
switch in `InputRequestMap.UnmarshalJSON`. -/
theorem input_requests_methods (kvs : List (Bytes × JVal)) (l : List (Bytes × Bytes))
    (h : decodeInputRequests (.obj kvs) = .ok l) :
    l.map (·.1) = kvs.map (·.1) ∧ ∀ p ∈ l, p.2 ∈ inputRequestMethods :=
  L.decodeInputEntries_ok kvs l h

end Wire
