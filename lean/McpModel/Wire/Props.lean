import McpModel.Wire.Sse
import McpModel.Wire.Result
namespace Wire
end Wire
