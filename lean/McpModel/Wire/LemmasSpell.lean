import McpModel.Wire.Spell
import McpModel.Wire.Msg
/-!
Proofs for `Wire.Spell`: every valid spelling of a string denotes that string.
-/
namespace Wire.L
open Wire

theorem hexVal_hexDigit : ∀ (n : Fin 16) (up : Bool), hexVal (hexDigit up n) = some n.val := by decide

theorem hexVal_digit (n : Nib) : hexVal n.digit = some n.1.val := hexVal_hexDigit n.1 n.2

theorem urun_cons (st : USt) (b : UInt8) (rest : Bytes) :
    urun st (b :: rest) = match ustep st b with
      | none => none
      | some (st', out) => (urun st' rest).map (out ++ ·) := by
  cases st <;> rfl

theorem map_nil_append (o : Option Bytes) : o.map (([] : Bytes) ++ ·) = o := by
  cases o <;> simp

theorem ustep_hex (k v : Nat) (hi : Option Nat) (n : Nib) :
    ustep (.hex k v hi) n.digit =
      if k < 3 then some (.hex (k + 1) (16 * v + n.1.val) hi, []) else finishU (16 * v + n.1.val) hi := by
  simp only [ustep, hexVal_digit]

/-- one more digit while fewer than three have been read -/
theorem urun_hex_more (k v : Nat) (hi : Option Nat) (n : Nib) (rest : Bytes) (hk : k < 3) :
    urun (.hex k v hi) (n.digit :: rest) = urun (.hex (k + 1) (16 * v + n.1.val) hi) rest := by
  rw [urun_cons, ustep_hex, if_pos hk]
  exact map_nil_append _

/-- four hex digits read from state `hex 0 0 hi` -/
theorem urun_hex4 (a b c d : Nib) (hi : Option Nat) (rest : Bytes) :
    urun (.hex 0 0 hi) (a.digit :: b.digit :: c.digit :: d.digit :: rest) =
      match finishU (nibVal a b c d) hi with
      | none => none
      | some (st', out) => (urun st' rest).map (out ++ ·) := by
  rw [urun_hex_more 0 _ _ _ _ (by omega), urun_hex_more 1 _ _ _ _ (by omega),
    urun_hex_more 2 _ _ _ _ (by omega), urun_cons, ustep_hex, if_neg (by omega)]
  rfl

theorem urun_norm_bs (rest : Bytes) : urun .norm (92 :: rest) = urun .esc rest := by
  rw [urun_cons]
  simp only [ustep, if_pos]
  exact map_nil_append _

theorem urun_esc_u (rest : Bytes) : urun .esc (117 :: rest) = urun (.hex 0 0 none) rest := by
  rw [urun_cons]
  simp only [ustep, if_pos]
  exact map_nil_append _

theorem urun_hi_bs_u (h : Nat) (rest : Bytes) : urun (.hi h) (92 :: 117 :: rest) = urun (.hex 0 0 (some h)) rest := by
  rw [urun_cons]
  simp only [ustep, if_pos]
  rw [map_nil_append, urun_cons]
  simp only [ustep, if_pos]
  exact map_nil_append _

/-- one unit, then the rest -/
theorem urun_unit (x : Sp) (h : x.valid = true) (rest : Bytes) :
    urun .norm (x.text ++ rest) = (urun .norm rest).map (x.denote ++ ·) := by
  cases x with
  | raw b =>
    simp [Sp.valid] at h
    obtain ⟨⟨h1, h2⟩, h3⟩ := h
    have h1' : ¬ b < 32 := by simpa using h1
    simp [Sp.text, Sp.denote, urun_cons, ustep, h1', h2, h3]
  | short e =>
    simp only [Sp.valid] at h
    cases hs : shortEsc e with
    | none => simp [hs] at h
    | some c =>
      have hu : e ≠ 117 := by
        intro he; subst he; simp [shortEsc] at hs
      simp only [Sp.text, Sp.denote, hs, List.cons_append, List.nil_append]
      rw [urun_norm_bs, urun_cons]
      simp only [ustep, if_neg hu, hs, Option.map]
      rfl
  | u4 a b c d =>
    simp [Sp.valid] at h
    simp only [Sp.text, Sp.denote, List.cons_append, List.nil_append]
    rw [urun_norm_bs, urun_esc_u, urun_hex4]
    simp only [finishU, h.1, h.2]
    rfl
  | pair a b c d a' b' c' d' =>
    simp [Sp.valid] at h
    simp only [Sp.text, Sp.denote, List.cons_append, List.nil_append]
    rw [urun_norm_bs, urun_esc_u, urun_hex4]
    simp only [finishU, h.1]
    simp only [if_pos]
    rw [map_nil_append, urun_hi_bs_u, urun_hex4]
    simp only [finishU, h.2]
    rfl

/-- **Every valid spelling of a string denotes that string.** -/
theorem unquote_spell (l : List Sp) (h : ∀ x ∈ l, x.valid = true) : unquote (spell l) = some (denote l) := by
  induction l with
  | nil => rfl
  | cons x xs ih =>
    have hx := h x (by simp)
    have hxs := ih (fun y hy => h y (by simp [hy]))
    simp only [unquote] at hxs ⊢
    simp only [spell, denote, List.flatMap_cons] at hxs ⊢
    rw [urun_unit x hx, hxs]
    simp

end Wire.L
