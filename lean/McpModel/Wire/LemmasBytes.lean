import McpModel.Wire.LemmasSse
import McpModel.Wire.LemmasNdjson
/-!
# C19 — the byte level of both framings

`splitLines` is `bufio.Reader.ReadBytes('\n')` run to the end of the input: it is characterised here by what it does
to the BYTES (nothing lost, nothing invented, no LF inside a line), so that `scanEvents : Bytes → …` is a statement
about byte strings, not about pre-split lines.  Line ends as `mcp/event.go` treats them: a line ends at LF; CR and LF
bytes at the END of a line are dropped (`bytes.TrimRight(line, "\r\n")`: CRLF, and any run of CRs before the LF); a
bare CR inside a line is NOT a line end.
-/
namespace Wire
namespace L

/-- line splitting loses and invents nothing: the lines, each followed by LF, then the unterminated rest, are the input -/
theorem splitLines_join (bs : Bytes) : frame (splitLines bs).1 ++ (splitLines bs).2 = bs := by
  induction bs with
  | nil => rfl
  | cons b t ih =>
    cases hst : splitLines t with
    | mk ls rest =>
      rw [hst] at ih
      simp only at ih
      simp only [splitLines, hst]
      by_cases hb : b = LF
      · subst hb
        simp only [ite_true, frame, List.flatMap_cons, List.nil_append, List.cons_append]
        exact congrArg (LF :: ·) ih
      · simp only [hb, ite_false]
        cases ls with
        | nil =>
          simp only [frame, List.flatMap_nil, List.nil_append] at ih ⊢
          rw [ih]
        | cons l ls' =>
          simp only [frame, List.flatMap_cons, List.cons_append, List.append_assoc] at ih ⊢
          exact congrArg (b :: ·) ih

/-- no line, and not the rest, contains an LF -/
theorem splitLines_noLF (bs : Bytes) : (∀ l ∈ (splitLines bs).1, LF ∉ l) ∧ LF ∉ (splitLines bs).2 := by
  induction bs with
  | nil => simp [splitLines]
  | cons b t ih =>
    cases hst : splitLines t with
    | mk ls rest =>
      rw [hst] at ih
      obtain ⟨ih1, ih2⟩ := ih
      simp only at ih1 ih2
      simp only [splitLines, hst]
      by_cases hb : b = LF
      · subst hb
        simp only [ite_true]
        refine ⟨?_, ih2⟩
        intro l hl
        simp only [List.mem_cons] at hl
        rcases hl with rfl | hl
        · simp
        · exact ih1 l hl
      · simp only [hb, ite_false]
        cases ls with
        | nil =>
          refine ⟨fun l hl => absurd hl (by simp), ?_⟩
          simp only [List.mem_cons, not_or]
          exact ⟨fun e => hb e.symm, ih2⟩
        | cons l ls' =>
          refine ⟨?_, ih2⟩
          intro x hx
          simp only [List.mem_cons] at hx
          rcases hx with rfl | hx
          · simp only [List.mem_cons, not_or]
            exact ⟨fun e => hb e.symm, ih1 l (by simp)⟩
          · exact ih1 x (by simp [hx])

/-- … and it is the ONLY such decomposition: LF-free lines, each followed by LF, then an LF-free rest -/
theorem splitLines_unique (ls : List Bytes) (rest : Bytes) (h : ∀ l ∈ ls, LF ∉ l) (hr : LF ∉ rest) :
    splitLines (frame ls ++ rest) = (ls, rest) := by
  induction ls with
  | nil =>
    simp only [frame, List.flatMap_nil, List.nil_append]
    induction rest with
    | nil => rfl
    | cons b t iht =>
      have hb : b ≠ LF := fun e => hr (by simp [e])
      have := iht (fun hm => hr (by simp [hm]))
      simp [splitLines, hb, this]
  | cons l t ih =>
    have := splitLines_append_line l (frame t ++ rest) (h l (by simp))
    simp only [frame, List.flatMap_cons, List.append_assoc] at this ⊢
    rw [show (t.flatMap (· ++ [LF])) = frame t from rfl] at this ⊢
    simp only [List.singleton_append] at this ⊢
    rw [this, ih (fun x hx => h x (by simp [hx]))]

end L
end Wire
