import McpModel.Wire.Ref
/-! # E2 Wire — theorems on the `CompleteReference` codec -/
namespace Wire.L
open Wire Generated.Wire

theorem decodeRef_fields (t n u : Bytes) :
    decodeRef (.obj (members [
      (CompleteReference_Type_name, strMember CompleteReference_Type_omit t),
      (CompleteReference_Name_name, strMember CompleteReference_Name_omit n),
      (CompleteReference_URI_name, strMember CompleteReference_URI_omit u)])) =
    checked ⟨t, n, u⟩ := by
  by_cases hn : n = [] <;> by_cases hu : u = [] <;>
    simp [decodeRef, strField, members, strMember, lookup, hn, hu]

/-- **ref_roundtrip.** Every reference `MarshalJSON` accepts decodes from what it wrote to itself. -/
theorem ref_roundtrip (r : CRef) (v : JVal) (h : encodeRef r = .ok v) : decodeRef v = .ok r := by
  obtain ⟨t, n, u⟩ := r
  unfold encodeRef at h
  cases hc : refCheck ⟨t, n, u⟩ with
  | error e => simp [hc] at h
  | ok _ =>
    simp only [hc] at h
    injection h with h
    subst h
    rw [decodeRef_fields]; simp [checked, hc]

theorem refCheck_ok_iff (r : CRef) :
    refCheck r = .ok () ↔ ((r.typ = refPromptType ∧ r.uri = []) ∨ (r.typ = refResourceType ∧ r.name = [])) := by
  have hne : refPromptType ≠ refResourceType := by decide
  have hne' : refResourceType ≠ refPromptType := by decide
  unfold refCheck
  by_cases h1 : r.typ = refPromptType
  · by_cases h2 : r.uri = [] <;> simp [h1, h2, hne]
  · by_cases h1' : r.typ = refResourceType
    · by_cases h2 : r.name = [] <;> simp [h1', h2, hne']
    · simp [h1, h1']

/-- **ref_encode_validates.** `MarshalJSON` writes exactly the consistent references: a known type and only
that type's own member. -/
theorem ref_encode_validates (r : CRef) :
    (∃ v, encodeRef r = .ok v) ↔ ((r.typ = refPromptType ∧ r.uri = []) ∨ (r.typ = refResourceType ∧ r.name = [])) := by
  rw [← refCheck_ok_iff]
  unfold encodeRef
  cases refCheck r <;> simp

/-- **ref_decode_validates.** Whatever `UnmarshalJSON` accepts is consistent — `MarshalJSON` writes it again,
and that decodes to the same reference. -/
theorem ref_decode_validates (v : JVal) (r : CRef) (h : decodeRef v = .ok r) :
    ∃ v', encodeRef r = .ok v' ∧ decodeRef v' = .ok r := by
  have hc : refCheck r = .ok () := by
    cases v with
    | obj kvs =>
      simp only [decodeRef] at h
      split at h
      · next t n u _ _ _ =>
        cases hc : refCheck ⟨t, n, u⟩ with
        | error e => simp [checked, hc] at h
        | ok _ => simp [checked, hc] at h; subst h; exact hc
      · cases h
    | _ => simp [decodeRef] at h
  have : ∃ v', encodeRef r = .ok v' := by simp [encodeRef, hc]
  obtain ⟨v', hv⟩ := this
  exact ⟨v', hv, ref_roundtrip r v' hv⟩

/-- the member names are matched exactly: a `Type` / `TYPE` member is no `type` -/
theorem ref_decode_case_sensitive (n u : Bytes) :
    decodeRef (.obj [([84, 121, 112, 101], .str refPromptType), (CompleteReference_Name_name, .str n), (CompleteReference_URI_name, .str u)])
      = .error .unknownType := by
  simp [decodeRef, strField, lookup, checked, refCheck, refPromptType, refResourceType]

end Wire.L
