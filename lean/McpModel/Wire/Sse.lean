import McpModel.Wire.Frame
/-!
# E2 Wire — SSE framing: `writeEvent` / `scanEvents` (`mcp/event.go:44-160`)

Byte level.  `bufio.Reader.ReadBytes('\n')` is `splitLines` (complete lines + the unterminated
rest at EOF).  Field keys and write prefixes are the regenerated constants.
`trim` is Go's `TrimSpace` on byte strings: ASCII blanks and the UTF-8 encodings of the other
code points with the Unicode White_Space property (the harness compares this table with
`unicode.IsSpace` on every run).
-/
namespace Wire
open Generated.Wire

structure Event where
  name : Bytes := []
  id : Bytes := []
  retry : Bytes := []
  data : Bytes := []
deriving DecidableEq, Repr, Inhabited

def Event.isEmpty (e : Event) : Bool := e.name = [] && e.id = [] && e.data = [] && e.retry = []

/-- `writeEvent` -/
def writeEvent (e : Event) : Bytes :=
  (if e.name = [] then [] else sse_writeName ++ e.name ++ [LF]) ++
  ((if e.id = [] then [] else sse_writeID ++ e.id ++ [LF]) ++
  ((if e.retry = [] then [] else sse_writeRetry ++ e.retry ++ [LF]) ++
  (sse_writeData ++ e.data ++ [LF, LF])))

def isAsciiSpace (b : UInt8) : Bool := b = 9 || b = 10 || b = 11 || b = 12 || b = 13 || b = 32

/-- UTF-8 encodings of the non-ASCII code points for which `unicode.IsSpace` holds:
U+0085, U+00A0, U+1680, U+2000–U+200A, U+2028, U+2029, U+202F, U+205F, U+3000. -/
def spaceSeqs : List Bytes :=
  [[0xC2, 0x85], [0xC2, 0xA0], [0xE1, 0x9A, 0x80],
   [0xE2, 0x80, 0x80], [0xE2, 0x80, 0x81], [0xE2, 0x80, 0x82], [0xE2, 0x80, 0x83], [0xE2, 0x80, 0x84],
   [0xE2, 0x80, 0x85], [0xE2, 0x80, 0x86], [0xE2, 0x80, 0x87], [0xE2, 0x80, 0x88], [0xE2, 0x80, 0x89],
   [0xE2, 0x80, 0x8A], [0xE2, 0x80, 0xA8], [0xE2, 0x80, 0xA9], [0xE2, 0x80, 0xAF], [0xE2, 0x81, 0x9F],
   [0xE3, 0x80, 0x80]]

/-- Strip one leading blank (ASCII or one of `seqs`), if any. -/
def stripOne (seqs : List Bytes) (bs : Bytes) : Option Bytes :=
  match bs with
  | [] => none
  | b :: t =>
    if isAsciiSpace b then some t
    else (seqs.find? (fun q => q.isPrefixOf bs)).map (fun q => bs.drop q.length)

/-- Trim leading blanks; `fuel` bounds the iterations (each removes ≥ 1 byte). -/
def trimLeftAux (seqs : List Bytes) : Nat → Bytes → Bytes
  | 0, bs => bs
  | n + 1, bs => match stripOne seqs bs with
    | some t => trimLeftAux seqs n t
    | none => bs

def trimLeft (bs : Bytes) : Bytes := trimLeftAux spaceSeqs bs.length bs
def trimRight (bs : Bytes) : Bytes := (trimLeftAux (spaceSeqs.map List.reverse) bs.length bs.reverse).reverse
/-- `bytes.TrimSpace` / `strings.TrimSpace` -/
def trim (bs : Bytes) : Bytes := trimRight (trimLeft bs)

/-- `bytes.TrimRight(line, "\r\n")` -/
def trimRightCRLF (bs : Bytes) : Bytes := (bs.reverse.dropWhile (fun b => b = CR || b = LF)).reverse

def COLON : UInt8 := 58

/-- `bytes.Cut(line, ":")` -/
def cutColon : Bytes → Option (Bytes × Bytes)
  | [] => none
  | b :: bs => if b = COLON then some ([], bs) else
      match cutColon bs with
      | some (k, v) => some (b :: k, v)
      | none => none

structure Scan where
  evt : Event := {}
  dataBuf : Option Bytes := none     -- non-nil: the preceding field(s) were data
  out : List Event := []
  malformed : Bool := false          -- terminal error yielded
deriving Repr, Inhabited

def yieldEvent (a : Scan) : Scan :=
  let evt := match a.dataBuf with
    | some d => { a.evt with data := d }
    | none => a.evt
  if evt.isEmpty then { a with evt := evt, dataBuf := none }
  else { a with evt := {}, dataBuf := none, out := a.out ++ [evt] }

/-- The field `k` with (trimmed) value `v` applied to the event being collected. -/
def applyField (a : Scan) (k v : Bytes) : Scan :=
  if k = sse_eventKey then { a with evt := { a.evt with name := v } }
  else if k = sse_idKey then { a with evt := { a.evt with id := v } }
  else if k = sse_retryKey then { a with evt := { a.evt with retry := v } }
  else if k = sse_dataKey then
    { a with dataBuf := some (match a.dataBuf with
        | none => v
        | some d => d ++ [LF] ++ v) }
  else a

/-- A non-empty line: `key:value` dispatch. -/
def procLine (a : Scan) (line : Bytes) : Scan :=
  match cutColon line with
  | none => { a with malformed := true }
  | some (k, v) => applyField a k (trim v)

/-- A complete line (terminated by LF; not at EOF). -/
def stepLine (a : Scan) (raw : Bytes) : Scan :=
  if a.malformed then a else
  let line := trimRightCRLF raw
  if line = [] then yieldEvent a else procLine a line

/-- The unterminated rest at EOF (possibly empty). -/
def finishLine (a : Scan) (raw : Bytes) : Scan :=
  if a.malformed then a else
  let line := trimRightCRLF raw
  if line = [] then yieldEvent a
  else
    let a' := procLine a line
    if a'.malformed then a' else yieldEvent a'

/-- `scanEvents` run to the end of the input: the events yielded, and whether it ended with the
"malformed line" error. -/
def scanEvents (bs : Bytes) : List Event × Bool :=
  let (ls, rest) := splitLines bs
  let a := finishLine (ls.foldl stepLine {}) rest
  (a.out, a.malformed)

/-! ## the domain of `sse_roundtrip` -/

/-- A field value the property quantifies over: `TrimSpace` leaves it unchanged (no blank at either
end — true of every compact JSON text, of every event name and id the SDK uses) and it has no LF. -/
def Clean (v : Bytes) : Prop := trim v = v ∧ LF ∉ v

structure CleanEvent (e : Event) : Prop where
  name : Clean e.name
  id : Clean e.id
  retry : Clean e.retry
  data : Clean e.data
  nonempty : e.isEmpty = false

/-! ## event streams as a FOREIGN peer may frame them

`writeEvent` is one writer.  A text/event-stream from another server or through a proxy may end its
lines in CRLF as well as LF (here: chosen line by line), carry comment lines, fields in any order and
more than once, a payload spread over several `data` lines, `retry` lines, fields this SDK does not
know, and any run of spaces/tabs after the colon.  (A bare CR as a line end is outside: the scanner
splits at LF only.) -/

inductive Eol where
  | lf | crlf
deriving DecidableEq, Repr, Inhabited

def Eol.bytes : Eol → Bytes
  | .lf => [LF]
  | .crlf => [CR, LF]

/-- what is left of the line end in front of the LF -/
def Eol.cr : Eol → Bytes
  | .lf => []
  | .crlf => [CR]

/-- lines, each with its own line end -/
def renderLines : List (Bytes × Eol) → Bytes
  | [] => []
  | (l, e) :: t => l ++ (e.bytes ++ renderLines t)

/-- One line `key ":" pad value` with its line end.  The empty key is a comment line. -/
structure FLine where
  key : Bytes
  pad : Bytes := []
  val : Bytes := []
  eol : Eol := .lf
deriving DecidableEq, Repr, Inhabited

def FLine.text (l : FLine) : Bytes := l.key ++ COLON :: (l.pad ++ l.val)

/-- An event as the peer frames it: its lines, then the blank line that dispatches it. -/
structure FEvent where
  lines : List FLine
  endEol : Eol := .lf
deriving DecidableEq, Repr, Inhabited

def FEvent.render (e : FEvent) : List (Bytes × Eol) := e.lines.map (fun l => (l.text, l.eol)) ++ [([], e.endEol)]

def renderStream (es : List FEvent) : Bytes := renderLines (es.flatMap FEvent.render)

def sseKeys : List Bytes := [sse_eventKey, sse_idKey, sse_retryKey, sse_dataKey]

/-- the value of the LAST line with key `k` (empty if there is none) -/
def lastField (k : Bytes) (ls : List FLine) : Bytes :=
  (((ls.filter (fun l => l.key = k)).getLast?).map (·.val)).getD []

/-- the values joined with single line feeds -/
def joinLF : List Bytes → Bytes
  | [] => []
  | v :: t => t.foldl (fun d x => d ++ LF :: x) v

/-- What a framed event denotes (text/event-stream processing model, as far as this SDK reads it):
the last `event`, `id` and `retry` value, and the `data` values in order joined with LF; comments and
unknown fields contribute nothing. -/
def FEvent.denote (e : FEvent) : Event :=
  { name := lastField sse_eventKey e.lines, id := lastField sse_idKey e.lines,
    retry := lastField sse_retryKey e.lines,
    data := joinLF ((e.lines.filter (fun l => l.key = sse_dataKey)).map (·.val)) }

/-- A line the property speaks about: the key has no colon, the line no LF; for the four fields the
SDK reads, the pad is spaces/tabs and the value is trimmed (then it has no blank — so no CR — at
either end).  The value of a comment or of an unknown field is arbitrary. -/
structure WfFLine (l : FLine) : Prop where
  nocolon : COLON ∉ l.key
  nolf : LF ∉ l.text
  known : l.key ∈ sseKeys → (∀ b ∈ l.pad, b = 32 ∨ b = 9) ∧ trim l.val = l.val

/-- decidable form, for the driver -/
def wfFLine (l : FLine) : Bool :=
  !l.key.contains COLON && !l.text.contains LF &&
  (!sseKeys.contains l.key || (l.pad.all (fun b => b = 32 || b = 9) && trim l.val = l.val))

end Wire
