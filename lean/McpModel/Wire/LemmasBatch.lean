import McpModel.Wire.Frame
import McpModel.Wire.LemmasMsg
/-!
# C02 / C19 — `ioConn` batch bookkeeping: refinement of `opRead`/`opWrite` to the slot specification
-/
set_option linter.unusedSimpArgs false
namespace Wire.L
open Wire Generated.Wire

/-! ## association-list lemmas -/

section alist
variable {α β : Type} [DecidableEq α]

theorem alookup_none_iff (k : α) (l : List (α × β)) : alookup k l = none ↔ k ∉ l.map (·.1) := by
  induction l with
  | nil => simp [alookup]
  | cons p t ih =>
    obtain ⟨k', v⟩ := p
    by_cases h : k' = k
    · simp [alookup, h]
    · simp [alookup, h, ih, Ne.symm h]

theorem alookup_mem (k : α) (v : β) (l : List (α × β)) (h : alookup k l = some v) : (k, v) ∈ l := by
  induction l with
  | nil => simp [alookup] at h
  | cons p t ih =>
    obtain ⟨k', w⟩ := p
    by_cases hk : k' = k
    · simp [alookup, hk] at h; subst hk; subst h; simp
    · simp [alookup, hk] at h; simp [ih h]

theorem alookup_of_mem (k : α) (v : β) (l : List (α × β)) (hn : (l.map (·.1)).Nodup) (h : (k, v) ∈ l) :
    alookup k l = some v := by
  induction l with
  | nil => simp at h
  | cons p t ih =>
    obtain ⟨k', w⟩ := p
    simp only [List.map_cons, List.nodup_cons] at hn
    rcases List.mem_cons.mp h with e | e
    · cases e; simp [alookup]
    · have : k' ≠ k := by
        intro e'; subst e'
        exact hn.1 (List.mem_map.mpr ⟨(k', v), e, rfl⟩)
      simp [alookup, this, ih hn.2 e]

theorem mem_aerase (k : α) (l : List (α × β)) (p : α × β) : p ∈ aerase k l ↔ p ∈ l ∧ p.1 ≠ k := by
  simp [aerase]

theorem aerase_keys_nodup (k : α) (l : List (α × β)) (h : (l.map (·.1)).Nodup) : ((aerase k l).map (·.1)).Nodup := by
  unfold aerase
  exact (List.Nodup.sublist (List.Sublist.map _ (List.filter_sublist)) h)

theorem aset_keys (k : α) (v : β) (l : List (α × β)) : (aset k v l).map (·.1) = l.map (·.1) := by
  induction l with
  | nil => rfl
  | cons p t ih =>
    obtain ⟨k', w⟩ := p
    by_cases h : k' = k <;> simp [aset, h, ih]

theorem mem_aset (k : α) (v : β) (l : List (α × β)) (hn : (l.map (·.1)).Nodup) (hk : k ∈ l.map (·.1)) (p : α × β) :
    p ∈ aset k v l ↔ (p = (k, v) ∨ (p ∈ l ∧ p.1 ≠ k)) := by
  induction l with
  | nil => simp at hk
  | cons q t ih =>
    obtain ⟨k', w⟩ := q
    simp only [List.map_cons, List.nodup_cons] at hn
    by_cases h : k' = k
    · subst h
      simp only [aset, ite_true, List.mem_cons]
      constructor
      · rintro (e | e)
        · exact .inl e
        · refine .inr ⟨.inr e, ?_⟩
          intro e'; exact hn.1 (List.mem_map.mpr ⟨p, e, e'⟩)
      · rintro (e | ⟨e | e, ne⟩)
        · exact .inl e
        · subst e; exact absurd rfl ne
        · exact .inr e
    · have hk' : k ∈ t.map (·.1) := by
        simp only [List.map_cons, List.mem_cons] at hk
        rcases hk with e | e
        · exact absurd e.symm h
        · exact e
      simp only [aset, if_neg h, List.mem_cons, ih hn.2 hk']
      constructor
      · rintro (e | e | ⟨e, ne⟩)
        · subst e; exact .inr ⟨.inl rfl, h⟩
        · exact .inl e
        · exact .inr ⟨.inr e, ne⟩
      · rintro (e | ⟨e | e, ne⟩)
        · exact .inr (.inl e)
        · exact .inl e
        · exact .inr (.inr ⟨e, ne⟩)

end alist

/-! ## `setAt` -/

theorem setAt_length {α : Type} (l : List α) (i : Nat) (x : α) : (setAt l i x).length = l.length := by
  induction l generalizing i with
  | nil => rfl
  | cons a t ih => cases i <;> simp [setAt, ih]

theorem setAt_get {α : Type} (l : List α) (i j : Nat) (x : α) :
    (setAt l i x)[j]? = if j = i ∧ i < l.length then some x else l[j]? := by
  induction l generalizing i j with
  | nil => simp [setAt]
  | cons a t ih =>
    cases i with
    | zero => cases j <;> simp [setAt]
    | succ i => cases j <;> simp [setAt, ih]

theorem setAt_map {α β : Type} (f : α → β) (l : List α) (i : Nat) (x : α) :
    (setAt l i x).map f = setAt (l.map f) i (f x) := by
  induction l generalizing i with
  | nil => rfl
  | cons a t ih => cases i <;> simp [setAt, ih]

/-! ## the slot specification -/

theorem slotPending_iff (sl : Slots) (id : Id) : slotPending sl id = true ↔ ∃ i : Nat, sl[i]? = some (id, none) := by
  induction sl with
  | nil => simp [slotPending]
  | cons p t ih =>
    obtain ⟨i0, r⟩ := p
    simp only [slotPending, List.any_cons, Bool.or_eq_true, Bool.and_eq_true, decide_eq_true_eq,
      Option.isNone_iff_eq_none] at ih ⊢
    constructor
    · rintro (⟨rfl, rfl⟩ | h)
      · exact ⟨0, rfl⟩
      · obtain ⟨i, hi⟩ := ih.mp h
        exact ⟨i + 1, by simpa using hi⟩
    · rintro ⟨i, hi⟩
      cases i with
      | zero => simp at hi; exact .inl ⟨hi.1, hi.2⟩
      | succ i => exact .inr (ih.mpr ⟨i, by simpa using hi⟩)

/-- With distinct call ids, filling the slot of `id` is a point update. -/
theorem fillSlot_eq_setAt (sl : Slots) (id : Id) (m : Msg) (idx : Nat)
    (hn : (sl.map (·.1)).Nodup) (h : sl[idx]? = some (id, none)) :
    fillSlot id m sl = setAt sl idx (id, some m) := by
  induction sl generalizing idx with
  | nil => simp at h
  | cons p t ih =>
    obtain ⟨i0, r⟩ := p
    simp only [List.map_cons, List.nodup_cons] at hn
    cases idx with
    | zero =>
      simp at h
      obtain ⟨rfl, rfl⟩ := h
      simp [fillSlot, setAt]
    | succ j =>
      have hj : t[j]? = some (id, none) := by simpa using h
      have hne : i0 ≠ id := by
        intro e; subst e
        exact hn.1 (List.mem_map.mpr ⟨(i0, none), List.mem_of_getElem? hj, rfl⟩)
      simp [fillSlot, setAt, hne, ih j hn.2 hj]

theorem allSome_eq (l : List (Option Msg)) :
    allSome l = if l.all (·.isSome) then some (l.filterMap id) else none := by
  induction l with
  | nil => rfl
  | cons a t ih =>
    cases a with
    | none => simp [allSome]
    | some m =>
      simp only [allSome, ih, List.all_cons, Option.isSome_some, Bool.true_and, List.filterMap_cons, id]
      split <;> simp

theorem slotsComplete_map (sl : Slots) : (sl.map (·.2)).all (·.isSome) = slotsComplete sl := by
  simp [slotsComplete, List.all_map]
  rfl

theorem slotsMsgs_map (sl : Slots) : (sl.map (·.2)).filterMap id = slotsMsgs sl := by
  simp [slotsMsgs, List.filterMap_map]

theorem specWrite_single (sp : List Slots) (id : Id) (r : Option JVal) (e : Option WErr)
    (h : ∀ sl ∈ sp, slotPending sl id = false) :
    specWrite sp (.response id r e) = (sp, .single (.response id r e)) := by
  induction sp with
  | nil => rfl
  | cons b t ih =>
    have hb := h b (by simp)
    have := ih (fun sl hsl => h sl (by simp [hsl]))
    simp [specWrite, Msg.id, hb, this]

theorem specWrite_at (pre post : List Slots) (sl : Slots) (id : Id) (r : Option JVal) (e : Option WErr)
    (hpre : ∀ x ∈ pre, slotPending x id = false) (hsl : slotPending sl id = true) :
    specWrite (pre ++ sl :: post) (.response id r e) =
      (if slotsComplete (fillSlot id (.response id r e) sl)
        then (pre ++ post, .array (slotsMsgs (fillSlot id (.response id r e) sl)))
        else (pre ++ fillSlot id (.response id r e) sl :: post, .nothing)) := by
  induction pre with
  | nil =>
    simp only [List.nil_append, specWrite, Msg.id, hsl, ite_true]
    rfl
  | cons b t ih =>
    have hb := hpre b (by simp)
    have := ih (fun x hx => hpre x (by simp [hx]))
    simp only [List.cons_append, specWrite, Msg.id, hb, Bool.false_eq_true, ite_false, this]
    split <;> rfl

/-! ## the refinement relation -/

inductive All₂ {α β : Type} (R : α → β → Prop) : List α → List β → Prop
  | nil : All₂ R [] []
  | cons {a b l1 l2} : R a b → All₂ R l1 l2 → All₂ R (a :: l1) (b :: l2)

theorem All₂.append {α β : Type} {R : α → β → Prop} {a c : List α} {b d : List β}
    (h1 : All₂ R a b) (h2 : All₂ R c d) : All₂ R (a ++ c) (b ++ d) := by
  induction h1 with
  | nil => exact h2
  | cons r _ ih => exact .cons r ih

theorem All₂.split {α β : Type} {R : α → β → Prop} {l1 : List α} {l2 : List β} (h : All₂ R l1 l2)
    (x : α) (hx : x ∈ l1) :
    ∃ a b c d y, l1 = a ++ x :: b ∧ l2 = c ++ y :: d ∧ All₂ R a c ∧ R x y ∧ All₂ R b d := by
  induction h with
  | nil => simp at hx
  | @cons a0 b0 t1 t2 r rest ih =>
    rcases List.mem_cons.mp hx with e | e
    · subst e
      exact ⟨[], t1, [], t2, b0, rfl, rfl, .nil, r, rest⟩
    · obtain ⟨a, b, c, d, y, e1, e2, r1, r2, r3⟩ := ih e
      exact ⟨a0 :: a, b, b0 :: c, d, y, by simp [e1], by simp [e2], .cons r r1, r2, r3⟩

theorem All₂.mem_right {α β : Type} {R : α → β → Prop} {l1 : List α} {l2 : List β} (h : All₂ R l1 l2)
    (y : β) (hy : y ∈ l2) : ∃ x ∈ l1, R x y := by
  induction h with
  | nil => simp at hy
  | @cons a0 b0 t1 t2 r _ ih =>
    rcases List.mem_cons.mp hy with e | e
    · subst e; exact ⟨a0, by simp, r⟩
    · obtain ⟨x, hx, hr⟩ := ih e; exact ⟨x, by simp [hx], hr⟩

section split
variable {α β : Type} [DecidableEq α]

theorem aerase_split (k : α) (v : β) (a b : List (α × β)) (hn : ((a ++ (k, v) :: b).map (·.1)).Nodup) :
    aerase k (a ++ (k, v) :: b) = a ++ b := by
  have hn' := hn
  simp only [List.map_append, List.map_cons, List.nodup_append, List.nodup_cons] at hn'
  obtain ⟨_, ⟨hkb, _⟩, hdis⟩ := hn'
  have ha : ∀ p ∈ a, p.1 ≠ k := by
    intro p hp e
    exact hdis p.1 (List.mem_map.mpr ⟨p, hp, rfl⟩) k (by simp) e
  have hb : ∀ p ∈ b, p.1 ≠ k := by
    intro p hp e
    exact hkb (List.mem_map.mpr ⟨p, hp, e⟩)
  unfold aerase
  simp only [List.filter_append, List.filter_cons, ne_eq, not_true_eq_false, decide_false, Bool.false_eq_true, ite_false]
  rw [List.filter_eq_self.mpr (by intro p hp; simpa using ha p hp), List.filter_eq_self.mpr (by intro p hp; simpa using hb p hp)]

theorem aset_split (k : α) (v v' : β) (a b : List (α × β)) (hn : ((a ++ (k, v) :: b).map (·.1)).Nodup) :
    aset k v' (a ++ (k, v) :: b) = a ++ (k, v') :: b := by
  induction a with
  | nil => simp [aset]
  | cons p t ih =>
    obtain ⟨k', w⟩ := p
    simp only [List.cons_append, List.map_cons, List.nodup_cons] at hn
    have : k' ≠ k := by
      intro e; subst e
      exact hn.1 (by simp)
    simp [aset, this, ih hn.2]

theorem alookup_split (k : α) (v : β) (a b : List (α × β)) (hn : ((a ++ (k, v) :: b).map (·.1)).Nodup) :
    alookup k (a ++ (k, v) :: b) = some v :=
  alookup_of_mem k v _ hn (by simp)

end split

structure BatchRel (b : Batch) (sl : Slots) : Prop where
  resp : b.responses = sl.map (·.2)
  unres : ∀ (id : Id) (i : Nat), (id, i) ∈ b.unresolved ↔ sl[i]? = some (id, none)
  ids : (sl.map (·.1)).Nodup
  keys : (b.unresolved.map (·.1)).Nodup

/-- The `ioConn` state refines the list of open slot batches `sp`.  (`outCap = 0`: the outgoing batch
buffer has capacity only in the SDK's own tests.) -/
structure Rel (s : IOState) (sp : List Slots) : Prop where
  noPanic : s.panicked = false
  noOut : s.outCap = 0
  heapRel : All₂ (fun (p : Nat × Batch) sl => BatchRel p.2 sl) s.heap sp
  handles : (s.heap.map (·.1)).Nodup
  fresh : ∀ p ∈ s.heap, p.1 < s.next
  byIdKeys : (s.byId.map (·.1)).Nodup
  byIdIff : ∀ (id : Id) (h : Nat), (id, h) ∈ s.byId ↔ ∃ b, (h, b) ∈ s.heap ∧ id ∈ b.unresolved.map (·.1)
  nonempty : ∀ p ∈ s.heap, p.2.unresolved ≠ []

theorem BatchRel.pending_iff {b : Batch} {sl : Slots} (h : BatchRel b sl) (id : Id) :
    slotPending sl id = true ↔ id ∈ b.unresolved.map (·.1) := by
  rw [slotPending_iff]
  constructor
  · rintro ⟨i, hi⟩
    exact List.mem_map.mpr ⟨(id, i), (h.unres id i).mpr hi, rfl⟩
  · intro hm
    obtain ⟨⟨id', i⟩, hp, rfl⟩ := List.mem_map.mp hm
    exact ⟨i, (h.unres _ i).mp hp⟩

theorem nodup_getElem?_inj {α : Type} (l : List α) (hn : l.Nodup) (i j : Nat) (x : α)
    (hi : l[i]? = some x) (hj : l[j]? = some x) : i = j := by
  induction l generalizing i j with
  | nil => simp at hi
  | cons a t ih =>
    simp only [List.nodup_cons] at hn
    cases i with
    | zero =>
      cases j with
      | zero => rfl
      | succ j =>
        simp at hi hj; subst hi
        exact absurd (List.mem_of_getElem? hj) hn.1
    | succ i =>
      cases j with
      | zero =>
        simp at hi hj; subst hj
        exact absurd (List.mem_of_getElem? hi) hn.1
      | succ j =>
        simp at hi hj
        rw [ih hn.2 i j hi hj]

theorem BatchRel.empty_iff {b : Batch} {sl : Slots} (h : BatchRel b sl) :
    b.unresolved = [] ↔ slotsComplete sl = true := by
  constructor
  · intro he
    simp only [slotsComplete, List.all_eq_true]
    intro p hp
    obtain ⟨i, hi, rfl⟩ := List.mem_iff_getElem.mp hp
    cases hs : (sl[i]).2 with
    | some _ => rfl
    | none =>
      have : (sl[i].1, i) ∈ b.unresolved := by
        apply (h.unres _ i).mpr
        rw [List.getElem?_eq_getElem hi, ← hs]
      rw [he] at this; simp at this
  · intro hc
    cases hu : b.unresolved with
    | nil => rfl
    | cons p t =>
      obtain ⟨id, i⟩ := p
      have hm : (id, i) ∈ b.unresolved := by rw [hu]; simp
      have hs := (h.unres id i).mp hm
      have hmem := List.mem_of_getElem? hs
      simp only [slotsComplete, List.all_eq_true] at hc
      have := hc _ hmem
      simp at this

theorem BatchRel.fill {b : Batch} {sl : Slots} (h : BatchRel b sl) (id : Id) (idx : Nat) (msg : Msg)
    (hu : (id, idx) ∈ b.unresolved) :
    BatchRel { unresolved := aerase id b.unresolved, responses := setAt b.responses idx (some msg) }
      (setAt sl idx (id, some msg)) ∧
    fillSlot id msg sl = setAt sl idx (id, some msg) := by
  have hs := (h.unres id idx).mp hu
  have hlt : idx < sl.length := (List.getElem?_eq_some_iff.mp hs).1
  refine ⟨⟨?_, ?_, ?_, ?_⟩, fillSlot_eq_setAt sl id msg idx h.ids hs⟩
  · simp only [h.resp, setAt_map]
  · intro id' i
    simp only [mem_aerase, setAt_get]
    constructor
    · rintro ⟨hm, hne⟩
      have hs' := (h.unres id' i).mp hm
      have : i ≠ idx := by
        intro e; subst e
        rw [hs] at hs'; cases hs'; exact hne rfl
      simp [this, hs']
    · intro hget
      by_cases e : i = idx
      · subst e; simp [hlt] at hget
      · simp only [e, false_and, ite_false] at hget
        refine ⟨(h.unres id' i).mpr hget, ?_⟩
        intro e'
        subst e'
        -- two slots with the same id
        have e1 : (sl.map (·.1))[i]? = some id' := by simp [List.getElem?_map, hget]
        have e2 : (sl.map (·.1))[idx]? = some id' := by simp [List.getElem?_map, hs]
        exact e (nodup_getElem?_inj _ h.ids i idx id' e1 e2)
  · -- ids unchanged
    have : (setAt sl idx (id, some msg)).map (·.1) = sl.map (·.1) := by
      rw [setAt_map]
      apply List.ext_getElem?
      intro j
      rw [setAt_get]
      by_cases e : j = idx
      · subst e
        simp only [List.length_map, hlt, and_self, ite_true, List.getElem?_map, hs, Option.map_some]
      · simp [e]
    rw [this]; exact h.ids
  · exact aerase_keys_nodup id _ h.keys

/-! ## `ioConn.Write` refines `specWrite` -/

theorem Rel.not_pending_of_lookup_none {s : IOState} {sp : List Slots} (h : Rel s sp) (id : Id)
    (hl : alookup id s.byId = none) : ∀ sl ∈ sp, slotPending sl id = false := by
  intro sl hsl
  obtain ⟨⟨hh, b⟩, hmem, hr⟩ := h.heapRel.mem_right sl hsl
  cases hp : slotPending sl id with
  | false => rfl
  | true =>
    have hk := (hr.pending_iff id).mp hp
    have : (id, hh) ∈ s.byId := (h.byIdIff id hh).mpr ⟨b, hmem, hk⟩
    have hn := (alookup_none_iff id s.byId).mp hl
    exact absurd (List.mem_map.mpr ⟨(id, hh), this, rfl⟩) hn

/-- **The write step.** From related states, `opWrite` does not panic, produces exactly what the
slot specification prescribes (encoded), and leaves related states. -/
theorem write_refines (s : IOState) (sp : List Slots) (h : Rel s sp) (msg : Msg) :
    Rel (opWrite s msg).1 (specWrite sp msg).1 ∧
    (opWrite s msg).2.matches (specWrite sp msg).2 = true := by
  cases msg with
  | request id m p =>
    have : ¬ (s.outBuf.length < s.outCap) := by rw [h.noOut]; omega
    simp only [opWrite, h.noPanic, Bool.false_eq_true, ite_false, this, specWrite]
    exact ⟨h, by simp [WriteOut.matches]⟩
  | response id r e =>
    simp only [opWrite, h.noPanic, Bool.false_eq_true, ite_false]
    cases hl : alookup id s.byId with
    | none =>
      rw [specWrite_single sp id r e (h.not_pending_of_lookup_none id hl)]
      exact ⟨h, by simp [WriteOut.matches]⟩
    | some hh =>
      -- the batch holding `id`
      have hmemId := alookup_mem id hh s.byId hl
      obtain ⟨b, hb, hkey⟩ := (h.byIdIff id hh).mp hmemId
      obtain ⟨hpre, hpost, pre, post, sl, eheap, esp, rpre, rb, rpost⟩ := h.heapRel.split (hh, b) hb
      have hnod : ((hpre ++ (hh, b) :: hpost).map (·.1)).Nodup := by rw [← eheap]; exact h.handles
      have hlook : alookup hh s.heap = some b := by rw [eheap]; exact alookup_split hh b hpre hpost hnod
      obtain ⟨⟨id', idx⟩, hu, hid'⟩ := List.mem_map.mp hkey
      simp only at hid'; subst hid'
      have hlu : alookup id' b.unresolved = some idx := alookup_of_mem id' idx _ rb.keys hu
      obtain ⟨rb', hfill⟩ := rb.fill id' idx (.response id' r e) hu
      -- earlier batches do not wait for `id`
      have hprePend : ∀ x ∈ pre, slotPending x id' = false := by
        intro x hx
        obtain ⟨⟨h0, b0⟩, hm0, r0⟩ := rpre.mem_right x hx
        cases hp : slotPending x id' with
        | false => rfl
        | true =>
          have hk0 := (r0.pending_iff id').mp hp
          have hin0 : (h0, b0) ∈ s.heap := by rw [eheap]; simp [hm0]
          have hid0 : (id', h0) ∈ s.byId := (h.byIdIff id' h0).mpr ⟨b0, hin0, hk0⟩
          have e0 : alookup id' s.byId = some h0 := alookup_of_mem id' h0 _ h.byIdKeys hid0
          rw [hl] at e0
          cases e0
          -- hh occurs twice among the handles
          simp only [List.map_append, List.map_cons, List.nodup_append] at hnod
          exact absurd rfl (hnod.2.2 hh (List.mem_map.mpr ⟨(hh, b0), hm0, rfl⟩) hh (by simp))
      have hslPend : slotPending sl id' = true := (rb.pending_iff id').mpr hkey
      rw [esp, specWrite_at pre post sl id' r e hprePend hslPend, hfill]
      simp only [hlook, hlu]
      have hcomp := rb'.empty_iff
      simp only at hcomp
      by_cases hc : aerase id' b.unresolved = []
      · -- last open call of the batch: flush
        have hcs : slotsComplete (setAt sl idx (id', some (Msg.response id' r e))) = true := hcomp.mp hc
        have hne : (setAt b.responses idx (some (Msg.response id' r e))).isEmpty = false := by
          have hlt : idx < sl.length := (List.getElem?_eq_some_iff.mp ((rb.unres id' idx).mp hu)).1
          have : (setAt b.responses idx (some (Msg.response id' r e))).length = sl.length := by
            rw [setAt_length, rb.resp]; simp
          cases hx : setAt b.responses idx (some (Msg.response id' r e)) with
          | nil => rw [hx] at this; simp at this; omega
          | cons _ _ => rfl
        have hall : allSome (setAt b.responses idx (some (Msg.response id' r e))) =
            some (slotsMsgs (setAt sl idx (id', some (Msg.response id' r e)))) := by
          have hr' := rb'.resp
          simp only at hr'
          rw [allSome_eq, hr', slotsComplete_map, hcs, slotsMsgs_map]; rfl
        simp only [hc, List.isEmpty_nil, ite_true, hne, Bool.false_eq_true, ite_false, hall, hcs]
        refine ⟨?_, by simp [WriteOut.matches]⟩
        have herase : aerase hh s.heap = hpre ++ hpost := by rw [eheap]; exact aerase_split hh b hpre hpost hnod
        -- every unresolved key of b is id'
        have hall' : ∀ p ∈ b.unresolved, p.1 = id' := by
          intro p hp
          cases hq : decide (p.1 = id') with
          | true => exact of_decide_eq_true hq
          | false =>
            have : p ∈ aerase id' b.unresolved := (mem_aerase id' _ p).mpr ⟨hp, of_decide_eq_false hq⟩
            rw [hc] at this; simp at this
        refine ⟨by simpa using h.noPanic, by simpa using h.noOut, ?_, ?_, ?_, ?_, ?_, ?_⟩
        · simp only [herase]; exact rpre.append rpost
        · simp only [herase]
          simp only [List.map_append, List.map_cons, List.nodup_append, List.nodup_cons] at hnod ⊢
          exact ⟨hnod.1, hnod.2.1.2, fun a ha c hc' => hnod.2.2 a ha c (by simp [hc'])⟩
        · intro p hp
          simp only [herase] at hp
          exact h.fresh p (by rw [eheap]; rcases List.mem_append.mp hp with x | x <;> simp [x])
        · exact aerase_keys_nodup id' _ h.byIdKeys
        · intro i2 h2
          simp only [mem_aerase, herase]
          constructor
          · rintro ⟨hm, hne2⟩
            obtain ⟨b2, hb2, hk2⟩ := (h.byIdIff i2 h2).mp hm
            rw [eheap] at hb2
            rcases List.mem_append.mp hb2 with x | x
            · exact ⟨b2, by simp [x], hk2⟩
            · rcases List.mem_cons.mp x with x | x
              · cases x
                obtain ⟨p, hp, rfl⟩ := List.mem_map.mp hk2
                exact absurd (hall' p hp) hne2
              · exact ⟨b2, by simp [x], hk2⟩
          · rintro ⟨b2, hb2, hk2⟩
            have hin : (h2, b2) ∈ s.heap := by
              rw [eheap]; rcases List.mem_append.mp hb2 with x | x <;> simp [x]
            refine ⟨(h.byIdIff i2 h2).mpr ⟨b2, hin, hk2⟩, ?_⟩
            intro e2
            subst e2
            have e0 : alookup i2 s.byId = some h2 :=
              alookup_of_mem i2 h2 _ h.byIdKeys ((h.byIdIff i2 h2).mpr ⟨b2, hin, hk2⟩)
            rw [hl] at e0; cases e0
            simp only [List.map_append, List.map_cons, List.nodup_append, List.nodup_cons] at hnod
            rcases List.mem_append.mp hb2 with x | x
            · exact hnod.2.2 hh (List.mem_map.mpr ⟨(hh, b2), x, rfl⟩) hh (by simp) rfl
            · exact hnod.2.1.1 (List.mem_map.mpr ⟨(hh, b2), x, rfl⟩)
        · intro p hp
          simp only [herase] at hp
          exact h.nonempty p (by rw [eheap]; rcases List.mem_append.mp hp with x | x <;> simp [x])
      · -- still open calls: withhold
        have hcs : slotsComplete (setAt sl idx (id', some (Msg.response id' r e))) = false := by
          cases hx : slotsComplete (setAt sl idx (id', some (Msg.response id' r e))) with
          | false => rfl
          | true => exact absurd (hcomp.mpr hx) hc
        have hne : (aerase id' b.unresolved).isEmpty = false := by
          cases hx : aerase id' b.unresolved with
          | nil => exact absurd hx hc
          | cons _ _ => rfl
        simp only [hne, Bool.false_eq_true, ite_false, hcs]
        refine ⟨?_, by simp [WriteOut.matches]⟩
        have hset : aset hh { unresolved := aerase id' b.unresolved, responses := setAt b.responses idx (some (Msg.response id' r e)) } s.heap =
            hpre ++ (hh, { unresolved := aerase id' b.unresolved, responses := setAt b.responses idx (some (Msg.response id' r e)) }) :: hpost := by
          rw [eheap]; exact aset_split hh b _ hpre hpost hnod
        refine ⟨by simpa using h.noPanic, by simpa using h.noOut, ?_, ?_, ?_, ?_, ?_, ?_⟩
        · simp only [hset]; exact rpre.append (.cons rb' rpost)
        · simp only [hset]; simpa using hnod
        · intro p hp
          simp only [hset] at hp
          rcases List.mem_append.mp hp with x | x
          · exact h.fresh p (by rw [eheap]; simp [x])
          · rcases List.mem_cons.mp x with x | x
            · subst x; exact h.fresh (hh, b) hb
            · exact h.fresh p (by rw [eheap]; simp [x])
        · exact aerase_keys_nodup id' _ h.byIdKeys
        · intro i2 h2
          simp only [mem_aerase, hset]
          constructor
          · rintro ⟨hm, hne2⟩
            obtain ⟨b2, hb2, hk2⟩ := (h.byIdIff i2 h2).mp hm
            rw [eheap] at hb2
            rcases List.mem_append.mp hb2 with x | x
            · exact ⟨b2, by simp [x], hk2⟩
            · rcases List.mem_cons.mp x with x | x
              · cases x
                refine ⟨{ unresolved := aerase id' b.unresolved, responses := setAt b.responses idx (some (Msg.response id' r e)) }, by simp, ?_⟩
                obtain ⟨p, hp, rfl⟩ := List.mem_map.mp hk2
                exact List.mem_map.mpr ⟨p, (mem_aerase id' _ p).mpr ⟨hp, hne2⟩, rfl⟩
              · exact ⟨b2, by simp [x], hk2⟩
          · rintro ⟨b2, hb2, hk2⟩
            rcases List.mem_append.mp hb2 with x | x
            · have hin : (h2, b2) ∈ s.heap := by rw [eheap]; simp [x]
              refine ⟨(h.byIdIff i2 h2).mpr ⟨b2, hin, hk2⟩, ?_⟩
              intro e2; subst e2
              have e0 : alookup i2 s.byId = some h2 :=
                alookup_of_mem i2 h2 _ h.byIdKeys ((h.byIdIff i2 h2).mpr ⟨b2, hin, hk2⟩)
              rw [hl] at e0; cases e0
              simp only [List.map_append, List.map_cons, List.nodup_append, List.nodup_cons] at hnod
              exact hnod.2.2 hh (List.mem_map.mpr ⟨(hh, b2), x, rfl⟩) hh (by simp) rfl
            · rcases List.mem_cons.mp x with y | y
              · cases y
                obtain ⟨p, hp, rfl⟩ := List.mem_map.mp hk2
                have hp' := (mem_aerase id' _ p).mp hp
                exact ⟨(h.byIdIff p.1 hh).mpr ⟨b, hb, List.mem_map.mpr ⟨p, hp'.1, rfl⟩⟩, hp'.2⟩
              · have hin : (h2, b2) ∈ s.heap := by rw [eheap]; simp [y]
                refine ⟨(h.byIdIff i2 h2).mpr ⟨b2, hin, hk2⟩, ?_⟩
                intro e2; subst e2
                have e0 : alookup i2 s.byId = some h2 :=
                  alookup_of_mem i2 h2 _ h.byIdKeys ((h.byIdIff i2 h2).mpr ⟨b2, hin, hk2⟩)
                rw [hl] at e0
                have e1 : hh = h2 := by cases e0; rfl
                subst e1
                simp only [List.map_append, List.map_cons, List.nodup_append, List.nodup_cons] at hnod
                exact hnod.2.1.1 (List.mem_map.mpr ⟨(hh, b2), y, rfl⟩)
        · intro p hp
          simp only [hset] at hp
          rcases List.mem_append.mp hp with x | x
          · exact h.nonempty p (by rw [eheap]; simp [x])
          · rcases List.mem_cons.mp x with x | x
            · subst x; exact hc
            · exact h.nonempty p (by rw [eheap]; simp [x])

/-! ## `ioConn.Read` refines `specAccept` -/

/-- the tracking loop, on the call ids only -/
def trackCalls : List Id → Batch → Except RErr Batch
  | [], b => .ok b
  | id :: t, b =>
    if (alookup id b.unresolved).isSome then .error .dupInBatch
    else trackCalls t { unresolved := b.unresolved ++ [(id, b.responses.length)], responses := b.responses ++ [none] }

theorem trackLoop_eq (msgs : List Msg) (b : Batch) : trackLoop false msgs b = trackCalls (callIds msgs) b := by
  induction msgs generalizing b with
  | nil => rfl
  | cons m t ih =>
    cases m with
    | request id me p =>
      by_cases hid : id = .none
      · simp [trackLoop, callIds, hid, ih]
      · simp [trackLoop, callIds, hid, trackCalls, ih]
    | response id r e => simp [trackLoop, callIds, ih]

theorem nodupB_iff (l : List Id) : nodupB l = true ↔ l.Nodup := by
  induction l with
  | nil => simp [nodupB]
  | cons a t ih => simp [nodupB, ih]

theorem alookup_isSome_iff {α β : Type} [DecidableEq α] (k : α) (l : List (α × β)) :
    (alookup k l).isSome = true ↔ k ∈ l.map (·.1) := by
  cases h : alookup k l with
  | none => simp [(alookup_none_iff k l).mp h]
  | some v =>
    simp only [Option.isSome_some, true_iff]
    exact List.mem_map.mpr ⟨(k, v), alookup_mem k v l h, rfl⟩

theorem trackCalls_spec (calls : List Id) (b : Batch) (sl : Slots) (hrel : BatchRel b sl)
    (hnone : ∀ p ∈ sl, p.2 = none) :
    (((sl.map (·.1)) ++ calls).Nodup →
      ∃ b', trackCalls calls b = .ok b' ∧ BatchRel b' (sl ++ calls.map (fun c => (c, none)))) ∧
    (¬ ((sl.map (·.1)) ++ calls).Nodup → trackCalls calls b = .error .dupInBatch) := by
  induction calls generalizing b sl with
  | nil => exact ⟨fun _ => ⟨b, rfl, by simpa using hrel⟩, fun hn => absurd (by simpa using hrel.ids) hn⟩
  | cons id t ih =>
    have hkeys : id ∈ b.unresolved.map (·.1) ↔ id ∈ sl.map (·.1) := by
      rw [← hrel.pending_iff, slotPending_iff]
      constructor
      · rintro ⟨i, hi⟩; exact List.mem_map.mpr ⟨(id, none), List.mem_of_getElem? hi, rfl⟩
      · intro hm
        obtain ⟨⟨id', r⟩, hp, rfl⟩ := List.mem_map.mp hm
        have := hnone _ hp; simp only at this; subst this
        obtain ⟨i, hi⟩ := List.mem_iff_getElem?.mp hp
        exact ⟨i, hi⟩
    by_cases hin : id ∈ sl.map (·.1)
    · have : (alookup id b.unresolved).isSome = true := (alookup_isSome_iff id _).mpr (hkeys.mpr hin)
      refine ⟨fun hn => ?_, fun _ => by simp [trackCalls, this]⟩
      exfalso
      have := (List.nodup_append.mp hn).2.2 id hin id (by simp)
      exact this rfl
    · have hns : ¬ (alookup id b.unresolved).isSome = true := fun hx => hin (hkeys.mp ((alookup_isSome_iff id _).mp hx))
      have hlen : b.responses.length = sl.length := by rw [hrel.resp]; simp
      have hrel1 : BatchRel { unresolved := b.unresolved ++ [(id, b.responses.length)], responses := b.responses ++ [none] }
          (sl ++ [(id, none)]) := by
        refine ⟨by simp [hrel.resp], ?_, ?_, ?_⟩
        · intro id' i
          simp only [List.mem_append, List.mem_cons, List.not_mem_nil, or_false, Prod.mk.injEq]
          constructor
          · rintro (hm | ⟨rfl, rfl⟩)
            · have := (hrel.unres id' i).mp hm
              have hlt := (List.getElem?_eq_some_iff.mp this).1
              rw [List.getElem?_append_left hlt]; exact this
            · rw [hlen, List.getElem?_append_right (Nat.le_refl _)]; simp
          · intro hg
            by_cases hlt : i < sl.length
            · rw [List.getElem?_append_left hlt] at hg
              exact .inl ((hrel.unres id' i).mpr hg)
            · rw [List.getElem?_append_right (by omega)] at hg
              have : i - sl.length = 0 := by
                cases hx : i - sl.length with
                | zero => rfl
                | succ n => rw [hx] at hg; simp at hg
              rw [this] at hg
              simp at hg
              exact .inr ⟨hg.symm, by omega⟩
        · simp only [List.map_append, List.map_cons, List.map_nil]
          exact List.nodup_append.mpr ⟨hrel.ids, by simp, by
            intro a ha c hc; simp at hc; subst hc; intro e; subst e; exact hin ha⟩
        · simp only [List.map_append, List.map_cons, List.map_nil]
          exact List.nodup_append.mpr ⟨hrel.keys, by simp, by
            intro a ha c hc; simp at hc; subst hc; intro e; subst e; exact hin (hkeys.mp ha)⟩
      have hnone1 : ∀ p ∈ sl ++ [(id, none)], p.2 = none := by
        intro p hp
        rcases List.mem_append.mp hp with x | x
        · exact hnone p x
        · simp at x; subst x; rfl
      obtain ⟨ih1, ih2⟩ := ih _ (sl ++ [(id, none)]) hrel1 hnone1
      have e1 : (sl ++ [((id, none) : Id × Option Msg)]).map (fun x => x.1) ++ t = sl.map (fun x => x.1) ++ id :: t := by simp
      rw [e1] at ih1 ih2
      constructor
      · intro hn
        obtain ⟨b', hb', r'⟩ := ih1 hn
        refine ⟨b', by simp [trackCalls, hns, hb'], ?_⟩
        simpa using r'
      · intro hn
        simp [trackCalls, hns, ih2 hn]

theorem Rel.frame {s : IOState} {sp : List Slots} (h : Rel s sp) (w : List JVal) (q : List Msg) :
    Rel { s with wire := w, queue := q } sp :=
  ⟨h.noPanic, h.noOut, h.heapRel, h.handles, h.fresh, h.byIdKeys, h.byIdIff, h.nonempty⟩

/-- keys of a freshly tracked batch = its call ids -/
theorem fresh_keys (b : Batch) (calls : List Id) (hr : BatchRel b (calls.map (fun c => (c, none)))) (id : Id) :
    id ∈ b.unresolved.map (·.1) ↔ id ∈ calls := by
  rw [← hr.pending_iff, slotPending_iff]
  constructor
  · rintro ⟨i, hi⟩
    simp only [List.getElem?_map, Option.map_eq_some_iff, Prod.mk.injEq, and_true] at hi
    obtain ⟨c, hc, rfl⟩ := hi
    exact List.mem_of_getElem? hc
  · intro hm
    obtain ⟨i, hi⟩ := List.mem_iff_getElem?.mp hm
    exact ⟨i, by simp [List.getElem?_map, hi]⟩

/-- **The read step.** From related states, `opRead` returns what the specification prescribes —
in particular it rejects a batch exactly when two of its calls share an id (`dup`) or one of its
calls is still unanswered in an open batch (`seen`) — and leaves related states. -/
theorem read_refines (s : IOState) (sp : List Slots) (h : Rel s sp) :
    Rel (opRead false s).1 (specRead sp s).1 ∧ (opRead false s).2 = (specRead sp s).2 := by
  obtain ⟨wire, queue, byId, heap, next, noBatch, outCap, outBuf, panicked⟩ := s
  unfold opRead specRead
  cases queue with
  | cons m q => exact ⟨h.frame wire q, rfl⟩
  | nil =>
    cases wire with
    | nil => exact ⟨h, rfl⟩
    | cons raw w =>
      simp only
      cases hrb : readBatch raw with
      | error e => exact ⟨h.frame w [], rfl⟩
      | ok mb =>
        obtain ⟨msgs, batch⟩ := mb
        simp only
        by_cases hnb : (batch && noBatch) = true
        · simp only [hnb, ite_true]
          exact ⟨h.frame w [], trivial⟩
        · simp only [hnb, Bool.false_eq_true, ite_false]
          cases msgs with
          | nil => exact ⟨h.frame w [], rfl⟩
          | cons m0 rest =>
            simp only
            cases batch with
            | false => exact ⟨h.frame w rest, rfl⟩
            | true =>
              simp only [ite_true]
              rw [trackLoop_eq]
              have hempty : BatchRel { unresolved := [], responses := [] } [] :=
                ⟨rfl, by intro id i; simp, by simp, by simp⟩
              obtain ⟨t1, t2⟩ := trackCalls_spec (callIds (m0 :: rest)) _ [] hempty (by simp)
              simp only [List.map_nil, List.nil_append] at t1 t2
              unfold specAccept
              by_cases hnd : (callIds (m0 :: rest)).Nodup
              · obtain ⟨b, hb, hr⟩ := t1 hnd
                have hndB : nodupB (callIds (m0 :: rest)) = true := (nodupB_iff _).mpr hnd
                simp only [hb, hndB, Bool.not_true, Bool.false_eq_true, ite_false]
                have hresp : b.responses.isEmpty = (callIds (m0 :: rest)).isEmpty := by
                  rw [hr.resp]; cases callIds (m0 :: rest) <;> rfl
                cases hce : (callIds (m0 :: rest)).isEmpty with
                | true =>
                  have hcn : callIds (m0 :: rest) = [] := List.isEmpty_iff.mp hce
                  simp only [hresp, hce, ite_true, hcn, List.any_nil, Bool.false_eq_true, ite_false]
                  exact ⟨h.frame w rest, by first | rfl | trivial⟩
                | false =>
                  simp only [hresp, hce, Bool.false_eq_true, ite_false]
                  -- the "previously seen" test agrees with the specification's
                  have hseen : (b.unresolved.any (fun p => (alookup p.1 byId).isSome)) =
                      (callIds (m0 :: rest)).any (fun c => sp.any (fun sl => slotPending sl c)) := by
                    apply Bool.eq_iff_iff.mpr
                    simp only [List.any_eq_true]
                    constructor
                    · rintro ⟨p, hp, hs⟩
                      have hc : p.1 ∈ callIds (m0 :: rest) := (fresh_keys b _ hr p.1).mp (List.mem_map.mpr ⟨p, hp, rfl⟩)
                      refine ⟨p.1, hc, ?_⟩
                      obtain ⟨⟨i2, h2⟩, hm2, e2⟩ := List.mem_map.mp ((alookup_isSome_iff p.1 byId).mp hs)
                      simp only at e2; subst e2
                      obtain ⟨b2, hb2, hk2⟩ := (h.byIdIff _ h2).mp hm2
                      obtain ⟨_, _, pre, post, sl, _, esp, _, rb2, _⟩ := h.heapRel.split (h2, b2) hb2
                      exact ⟨sl, by rw [esp]; simp, (rb2.pending_iff _).mpr hk2⟩
                    · rintro ⟨c, hc, sl, hsl, hp⟩
                      obtain ⟨p, hp1, hp2⟩ := List.mem_map.mp ((fresh_keys b _ hr c).mpr hc)
                      refine ⟨p, hp1, ?_⟩
                      obtain ⟨⟨h2, b2⟩, hm2, r2⟩ := h.heapRel.mem_right sl hsl
                      have hk2 := (r2.pending_iff c).mp hp
                      have : (c, h2) ∈ byId := (h.byIdIff c h2).mpr ⟨b2, hm2, hk2⟩
                      rw [hp2]
                      exact (alookup_isSome_iff c byId).mpr (List.mem_map.mpr ⟨(c, h2), this, rfl⟩)
                  have hab : addBatch ⟨w, rest, byId, heap, next, noBatch, outCap, outBuf, panicked⟩ b =
                      if (callIds (m0 :: rest)).any (fun c => sp.any (fun sl => slotPending sl c)) then .error .seenId
                      else .ok ⟨w, rest, byId ++ b.unresolved.map (fun p => (p.1, next)), heap ++ [(next, b)], next + 1,
                        noBatch, outCap, outBuf, panicked⟩ := by
                    simp only [addBatch, hseen]
                  rw [hab]
                  cases hany : (callIds (m0 :: rest)).any (fun c => sp.any (fun sl => slotPending sl c)) with
                  | true => simp only [ite_true]; exact ⟨h.frame w rest, by first | rfl | trivial⟩
                  | false =>
                    simp only [Bool.false_eq_true, ite_false]
                    refine ⟨?_, by first | rfl | trivial⟩
                    have hnotseen : ∀ p ∈ b.unresolved, p.1 ∉ byId.map (·.1) := by
                      intro p hp hin
                      have : (b.unresolved.any (fun p => (alookup p.1 byId).isSome)) = true :=
                        List.any_eq_true.mpr ⟨p, hp, (alookup_isSome_iff p.1 byId).mpr hin⟩
                      rw [hseen, hany] at this; cases this
                    have hbne : b.unresolved ≠ [] := by
                      intro he
                      have := hr.empty_iff.mp he
                      cases hc : callIds (m0 :: rest) with
                      | nil => rw [hc] at hce; cases hce
                      | cons c cs => rw [hc] at this; simp [slotsComplete] at this
                    refine ⟨h.noPanic, h.noOut, ?_, ?_, ?_, ?_, ?_, ?_⟩
                    · exact h.heapRel.append (.cons hr .nil)
                    · simp only [List.map_append, List.map_cons, List.map_nil]
                      refine List.nodup_append.mpr ⟨h.handles, by simp, ?_⟩
                      intro a ha c hc e
                      simp at hc; subst hc
                      obtain ⟨p, hp, hpe⟩ := List.mem_map.mp ha
                      have := h.fresh p hp
                      simp only at this hpe e
                      omega
                    · intro p hp
                      rcases List.mem_append.mp hp with x | x
                      · exact Nat.lt_succ_of_lt (h.fresh p x)
                      · simp at x; subst x; exact Nat.lt_succ_self _
                    · simp only [List.map_append, List.map_map]
                      refine List.nodup_append.mpr ⟨h.byIdKeys, ?_, ?_⟩
                      · have : (b.unresolved.map ((fun x => x.1) ∘ fun p => (p.1, next))) = b.unresolved.map (·.1) := by
                          apply List.map_congr_left; intro a _; rfl
                        rw [this]; exact hr.keys
                      · intro a ha c hc e
                        subst e
                        obtain ⟨p, hp, rfl⟩ := List.mem_map.mp hc
                        exact hnotseen p hp ha
                    · intro id2 h2
                      simp only [List.mem_append, List.mem_map, List.mem_cons, List.not_mem_nil, or_false, Prod.mk.injEq]
                      constructor
                      · rintro (hm | ⟨p, hp, rfl, rfl⟩)
                        · obtain ⟨b2, hb2, hk2⟩ := (h.byIdIff id2 h2).mp hm
                          exact ⟨b2, .inl hb2, List.mem_map.mp hk2⟩
                        · exact ⟨b, .inr ⟨rfl, rfl⟩, p, hp, rfl⟩
                      · rintro ⟨b2, (hb2 | ⟨rfl, rfl⟩), p, hp, rfl⟩
                        · exact .inl ((h.byIdIff p.1 h2).mpr ⟨b2, hb2, List.mem_map.mpr ⟨p, hp, rfl⟩⟩)
                        · exact .inr ⟨p, hp, rfl, rfl⟩
                    · intro p hp
                      rcases List.mem_append.mp hp with x | x
                      · exact h.nonempty p x
                      · simp at x; subst x; exact hbne
              · have hndB : nodupB (callIds (m0 :: rest)) = false := by
                  cases hx : nodupB (callIds (m0 :: rest)) with
                  | false => rfl
                  | true => exact absurd ((nodupB_iff _).mp hx) hnd
                simp only [t2 hnd, hndB, Bool.not_false, ite_true]
                exact ⟨h.frame w rest, by first | rfl | trivial⟩

/-! ## all runs -/

theorem rel_init : Rel {} [] :=
  ⟨rfl, rfl, .nil, by simp, by intro p hp; simp at hp, by simp, by intro id h; simp, by intro p hp; simp at hp⟩

theorem step_refines (st : IOState × List Slots) (h : Rel st.1 st.2) (op : IOOp) :
    Rel (stepBoth st op).1.1 (stepBoth st op).1.2 ∧ (stepBoth st op).2 = true := by
  cases op with
  | feed raw => exact ⟨⟨h.noPanic, h.noOut, h.heapRel, h.handles, h.fresh, h.byIdKeys, h.byIdIff, h.nonempty⟩, rfl⟩
  | setNoBatch b => exact ⟨⟨h.noPanic, h.noOut, h.heapRel, h.handles, h.fresh, h.byIdKeys, h.byIdIff, h.nonempty⟩, rfl⟩
  | read =>
    obtain ⟨r1, r2⟩ := read_refines st.1 st.2 h
    exact ⟨r1, by simp [stepBoth, r2]⟩
  | write m => exact write_refines st.1 st.2 h m

/-- **batch_exactly_once** (C02) / **batch_roundtrip** (C19), refinement form. For EVERY sequence of
labels (frames arriving — single messages and batches of any composition of calls, notifications and
responses, well-formed or not —, reads, writes of responses in any order, duplicates, unknown ids,
outgoing messages, version changes), starting from a fresh `ioConn`:
* the model never reaches one of its two panic states ("inconsistent batches", a nil response in a
  flushed array);
* every `Read` returns exactly what the slot specification returns — a batch is rejected only for
  two calls with the same id or a call id still unanswered in an open batch, never because of
  notifications;
* every `Write` writes exactly what the slot specification prescribes: nothing while another call
  of the same batch is unanswered, ONE array with exactly one response per call of the batch in call
  order when the last call is answered, the message on its own in every other case. -/
theorem batch_exactly_once (ops : List IOOp) :
    (runBoth ({}, []) ops).2 = true ∧ (runBoth ({}, []) ops).1.1.panicked = false ∧
    Rel (runBoth ({}, []) ops).1.1 (runBoth ({}, []) ops).1.2 := by
  have key : ∀ (ops : List IOOp) (st : IOState × List Slots), Rel st.1 st.2 →
      (runBoth st ops).2 = true ∧ Rel (runBoth st ops).1.1 (runBoth st ops).1.2 := by
    intro ops
    induction ops with
    | nil => intro st h; exact ⟨rfl, h⟩
    | cons op t ih =>
      intro st h
      obtain ⟨h1, h2⟩ := step_refines st h op
      obtain ⟨i1, i2⟩ := ih (stepBoth st op).1 h1
      exact ⟨by simp [runBoth, h2, i1], i2⟩
  obtain ⟨k1, k2⟩ := key ops ({}, []) rel_init
  exact ⟨k1, k2.noPanic, k2⟩

/-! ## what the slot specification guarantees -/

theorem fillSlot_ok (sl : Slots) (m : Msg) (h : SlotsOK sl) : SlotsOK (fillSlot m.id m sl) := by
  induction sl with
  | nil => exact h
  | cons p t ih =>
    obtain ⟨i, r⟩ := p
    have ht : SlotsOK t := fun q hq => h q (by simp [hq])
    simp only [fillSlot]
    split
    · rename_i hc
      intro q hq m' hm'
      rcases List.mem_cons.mp hq with e | e
      · subst e; simp only at hm'; cases hm'; exact hc.1.symm
      · exact ht q e m' hm'
    · intro q hq m' hm'
      rcases List.mem_cons.mp hq with e | e
      · subst e; exact h (i, r) (by simp) m' hm'
      · exact ih ht q e m' hm'

theorem fillSlot_ids (sl : Slots) (id : Id) (m : Msg) : (fillSlot id m sl).map (·.1) = sl.map (·.1) := by
  induction sl with
  | nil => rfl
  | cons p t ih =>
    obtain ⟨i, r⟩ := p
    simp only [fillSlot]
    split <;> simp [ih]

theorem msgs_ids_of_complete (sl : Slots) (hok : SlotsOK sl) (hc : slotsComplete sl = true) :
    (slotsMsgs sl).map Msg.id = sl.map (·.1) := by
  induction sl with
  | nil => rfl
  | cons p t ih =>
    obtain ⟨i, r⟩ := p
    simp only [slotsComplete, List.all_cons, Bool.and_eq_true] at hc
    cases r with
    | none => simp at hc
    | some m =>
      have := hok (i, some m) (by simp) m rfl
      simp only at this
      simp only [slotsMsgs, List.filterMap_cons, List.map_cons, this]
      congr 1
      exact ih (fun q hq => hok q (by simp [hq])) (by simpa [slotsComplete] using hc.2)

/-- **The array that is flushed** holds, for the batch `sl` it closes, exactly one response per call,
in call order, each bearing its call's id, and the response just written is one of them.  (The
batch leaves the open list, so no second array can ever be written for it.) -/
theorem spec_flush (sp : List Slots) (hok : ∀ sl ∈ sp, SlotsOK sl) (msg : Msg) (ms : List Msg) (sp' : List Slots)
    (h : specWrite sp msg = (sp', .array ms)) :
    ∃ sl ∈ sp, ms.map Msg.id = sl.map (·.1) ∧ slotPending sl msg.id = true ∧ sp'.length + 1 = sp.length := by
  induction sp generalizing sp' with
  | nil => cases msg <;> simp [specWrite] at h
  | cons b t ih =>
    cases msg with
    | request id m p => simp [specWrite] at h
    | response id r e =>
      simp only [specWrite, Msg.id] at h
      by_cases hp : slotPending b id = true
      · simp only [hp, ite_true] at h
        by_cases hc : slotsComplete (fillSlot id (.response id r e) b) = true
        · simp only [hc, ite_true, Prod.mk.injEq, SOut.array.injEq] at h
          obtain ⟨rfl, rfl⟩ := h
          refine ⟨b, by simp, ?_, hp, by simp⟩
          have hok' := fillSlot_ok b (.response id r e) (hok b (by simp))
          simp only [Msg.id] at hok'
          rw [msgs_ids_of_complete _ hok' hc, fillSlot_ids]
        · simp [hc] at h
      · simp only [hp, Bool.false_eq_true, ite_false, Prod.mk.injEq] at h
        obtain ⟨rfl, h2⟩ := h
        obtain ⟨sl, hsl, e1, e2, e3⟩ := ih (fun x hx => hok x (by simp [hx])) (specWrite t (.response id r e)).1
          (by rw [← h2])
        exact ⟨sl, by simp [hsl], e1, e2, by simp only [List.length_cons]; omega⟩

/-! ## witnesses (non-vacuity and F2) -/

/-- REPAIRED tracking: `[notification, call 5]` — both are read, and answering 5 flushes `[resp 5]`. -/
example :
    let s0 : IOState := { wire := [.arr [wNotif, wCall5]] }
    let r1 := opRead false s0
    let r2 := opRead false r1.1
    let w := opWrite r2.1 resp5
    r1.2 = .msg (.request .none [110] none) ∧ r2.2 = .msg (.request (.int 5) [112] none) ∧
      w.2 = .array [encodeMsg resp5] := by decide

/-- REPAIRED: a batch of two notifications is read without error and tracks nothing. -/
example :
    let s0 : IOState := { wire := [.arr [wNotif, wNotif]] }
    let r1 := opRead false s0
    r1.2 = .msg (.request .none [110] none) ∧ r1.1.byId = [] ∧ r1.1.queue.length = 1 := by decide

/-- F2, counter-example on the UNREPAIRED tracking (every `*Request`): the reply to 5 is withheld. -/
theorem f2_counterexample_withheld :
    let s0 : IOState := { wire := [.arr [wNotif, wCall5]] }
    let r1 := opRead true s0
    let r2 := opRead true r1.1
    (opWrite r2.1 resp5).2 = .nothing := by decide

/-- F2: two notifications in one batch are a "duplicate message ID" read error. -/
theorem f2_counterexample_dup :
    (opRead true { wire := [.arr [wNotif, wNotif]] }).2 = .err .dupInBatch := by decide

/-! ## reading back what was written -/

theorem decodeAll_encode (ms : List Msg) (h : ∀ m ∈ ms, wfMsg m = true) : decodeAll (ms.map encodeMsg) = .ok ms := by
  induction ms with
  | nil => rfl
  | cons m t ih =>
    simp only [List.map_cons, decodeAll, decode_encode_msg m (h m (by simp)), ih (fun x hx => h x (by simp [hx])), ok_bind]

theorem readBatch_array (ms : List Msg) (hne : ms ≠ []) (h : ∀ m ∈ ms, wfMsg m = true) :
    readBatch (.arr (ms.map encodeMsg)) = .ok (ms, true) := by
  cases ms with
  | nil => exact absurd rfl hne
  | cons m t =>
    have := decodeAll_encode (m :: t) h
    simp only [List.map_cons] at this ⊢
    simp only [readBatch, this]

theorem readBatch_single (m : Msg) (h : wfMsg m = true) : readBatch (encodeMsg m) = .ok ([m], false) := by
  have hd := decode_encode_msg m h
  cases m <;> simp only [encodeMsg] at hd ⊢ <;> simp only [readBatch, hd]

/-- the queue is handed out in order -/
theorem read_queue (s : IOState) (m : Msg) (q : List Msg) (h : s.queue = m :: q) :
    opRead false s = ({ s with queue := q }, .msg m) := by
  simp [opRead, h]

end Wire.L
