import McpModel.Wire.Sse
/-!
# C19 — framing theorems: ndjson and SSE round trips (byte level)
-/
namespace Wire.L
open Wire Generated.Wire

/-! ## splitting at LF -/

theorem splitLines_line (l rest : Bytes) (h : LF ∉ l) :
    splitLines (l ++ LF :: rest) = (l :: (splitLines rest).1, (splitLines rest).2) := by
  induction l with
  | nil => simp [splitLines]
  | cons b t ih =>
    have hb : b ≠ LF := fun e => h (by simp [e])
    have ht : LF ∉ t := fun e => h (by simp [e])
    simp [splitLines, ih ht, hb]

theorem splitLines_nil : splitLines [] = ([], []) := rfl

/-- **ndjson_roundtrip** (C19). For every list of payloads that are non-empty and contain no raw line
feed — every compact JSON text is such a payload — splitting what `ioConn.Write` produced
(`payload ++ "\n"` each) at line feeds gives the payloads back, in order, nothing else. -/
theorem ndjson_roundtrip (ps : List Bytes) (h : ∀ p ∈ ps, p ≠ [] ∧ LF ∉ p) :
    unframe (frame ps) = ps ∧ (splitLines (frame ps)).2 = [] := by
  induction ps with
  | nil => simp [unframe, frame, splitLines]
  | cons p ps ih =>
    obtain ⟨hp1, hp2⟩ := h p (by simp)
    have ih' := ih (fun q hq => h q (by simp [hq]))
    have e : frame (p :: ps) = p ++ LF :: frame ps := by simp [frame]
    rw [e]
    simp only [unframe, splitLines_line p _ hp2]
    constructor
    · simp only [List.filter_cons, hp1, ne_eq, not_false_eq_true, decide_true, ite_true]
      have := ih'.1
      simp only [unframe] at this
      rw [this]
    · exact ih'.2

example : unframe (frame [[123, 125], [91, 93]]) = [[123, 125], [91, 93]] := by decide

theorem splitLines_frame (ls : List Bytes) (h : ∀ l ∈ ls, LF ∉ l) : splitLines (frame ls) = (ls, []) := by
  induction ls with
  | nil => rfl
  | cons l ls ih =>
    have e : frame (l :: ls) = l ++ LF :: frame ls := by simp [frame]
    rw [e, splitLines_line l _ (h l (by simp)), ih (fun q hq => h q (by simp [hq]))]

/-! ## `TrimSpace` -/

theorem stripOne_none_head (seqs : List Bytes) (b : UInt8) (t : Bytes) (h : stripOne seqs (b :: t) = none) :
    isAsciiSpace b = false := by
  unfold stripOne at h
  by_cases hb : isAsciiSpace b = true
  · simp [hb] at h
  · simpa using hb

theorem stripOne_length (seqs : List Bytes) (hs : ∀ q ∈ seqs, q ≠ []) (bs t : Bytes)
    (h : stripOne seqs bs = some t) : t.length < bs.length := by
  cases bs with
  | nil => simp [stripOne] at h
  | cons b r =>
    unfold stripOne at h
    by_cases hb : isAsciiSpace b = true
    · simp [hb] at h; subst h; simp
    · simp only [hb, Bool.false_eq_true, ite_false, Option.map_eq_some_iff] at h
      obtain ⟨q, hq, rfl⟩ := h
      have hmem := List.mem_of_find?_eq_some hq
      have hne := hs q hmem
      have : 0 < q.length := List.length_pos_iff.mpr hne
      simp only [List.length_drop, List.length_cons]
      omega

theorem trimLeftAux_fix (seqs : List Bytes) (hs : ∀ q ∈ seqs, q ≠ []) :
    ∀ (n : Nat) (bs : Bytes), bs.length ≤ n → stripOne seqs (trimLeftAux seqs n bs) = none := by
  intro n
  induction n with
  | zero =>
    intro bs h
    have : bs = [] := List.length_eq_zero_iff.mp (Nat.le_zero.mp h)
    subst this; rfl
  | succ n ih =>
    intro bs h
    simp only [trimLeftAux]
    cases hso : stripOne seqs bs with
    | none => simpa using hso
    | some t =>
      have := stripOne_length seqs hs bs t hso
      exact ih t (by omega)

theorem trimLeftAux_of_none (seqs : List Bytes) (n : Nat) (bs : Bytes) (h : stripOne seqs bs = none) :
    trimLeftAux seqs n bs = bs := by
  cases n with
  | zero => rfl
  | succ n => simp [trimLeftAux, h]

/-- A pad made of spaces and tabs is trimmed away in front of anything. -/
theorem trimLeft_pad (pad v : Bytes) (hp : ∀ b ∈ pad, b = 32 ∨ b = 9) : trimLeft (pad ++ v) = trimLeft v := by
  induction pad with
  | nil => rfl
  | cons b t ih =>
    have hb : isAsciiSpace b = true := by
      rcases hp b (by simp) with h | h <;> subst h <;> decide
    have : stripOne spaceSeqs (b :: (t ++ v)) = some (t ++ v) := by simp [stripOne, hb]
    unfold trimLeft at ih ⊢
    simp only [List.cons_append, List.length_cons, trimLeftAux, this]
    exact ih (fun x hx => hp x (by simp [hx]))

theorem trim_pad (pad v : Bytes) (hp : ∀ b ∈ pad, b = 32 ∨ b = 9) (hv : trim v = v) : trim (pad ++ v) = v := by
  unfold trim at hv ⊢
  rw [trimLeft_pad pad v hp, hv]

theorem spaceSeqs_rev_ne : ∀ q ∈ spaceSeqs.map List.reverse, q ≠ [] := by decide

/-- A trimmed value does not end in an ASCII blank. -/
theorem trim_last (v : Bytes) (hv : trim v = v) (b : UInt8) (t : Bytes) (hr : v.reverse = b :: t) :
    isAsciiSpace b = false := by
  have h1 : stripOne (spaceSeqs.map List.reverse) v.reverse = none := by
    have := trimLeftAux_fix (spaceSeqs.map List.reverse) spaceSeqs_rev_ne (trimLeft v).length (trimLeft v).reverse (by simp)
    have e : (trimLeftAux (spaceSeqs.map List.reverse) (trimLeft v).length (trimLeft v).reverse) = v.reverse := by
      have h2 : trimRight (trimLeft v) = v := hv
      unfold trimRight at h2
      exact (List.reverse_eq_iff.mp h2)
    rw [e] at this
    exact this
  rw [hr] at h1
  exact stripOne_none_head _ b t h1

theorem dropWhile_crlf_of_head (b : UInt8) (t : Bytes) (h : isAsciiSpace b = false) :
    (b :: t).dropWhile (fun b => b = CR || b = LF) = b :: t := by
  have : (b = CR || b = LF) = false := by
    cases hc : (b = CR || b = LF : Bool) with
    | false => rfl
    | true =>
      simp only [Bool.or_eq_true, decide_eq_true_eq] at hc
      rcases hc with rfl | rfl <;> simp [isAsciiSpace, CR, LF] at h
  simp [List.dropWhile, this]

/-- `TrimRight(line, "\r\n")` leaves `prefix ++ value` alone when the prefix ends in a space/tab
and the value is trimmed. -/
theorem trimRightCRLF_field (pre v : Bytes) (hv : trim v = v)
    (hpre : ∃ b t, pre.reverse = b :: t ∧ b ≠ CR ∧ b ≠ LF) :
    trimRightCRLF (pre ++ v) = pre ++ v := by
  unfold trimRightCRLF
  cases hr : v.reverse with
  | nil =>
    have : v = [] := by simpa using hr
    subst this
    obtain ⟨b, t, hb, h1, h2⟩ := hpre
    simp only [List.append_nil, hb]
    have : (b = CR || b = LF) = false := by simp [h1, h2]
    simp only [List.dropWhile, this]
    rw [← hb]; simp
  | cons b t =>
    have hb := trim_last v hv b t hr
    simp only [List.reverse_append, hr, List.cons_append]
    rw [dropWhile_crlf_of_head b _ hb]
    rw [← List.cons_append, ← hr, ← List.reverse_append]; simp

/-! ## SSE: one field line -/

theorem cutColon_key (k v : Bytes) (hk : COLON ∉ k) : cutColon (k ++ COLON :: v) = some (k, v) := by
  induction k with
  | nil => simp [cutColon]
  | cons b bs ih =>
    have hb : b ≠ COLON := fun e => hk (by simp [e])
    have := ih (fun h => hk (List.mem_cons_of_mem _ h))
    simp [cutColon, hb, this]

/-- What the writer's prefix for a field must look like for the scanner to get the value back:
`key ++ ":" ++ pad` with a pad of spaces/tabs (possibly empty). Checked on the regenerated constants. -/
def lastOK (pre : Bytes) : Bool :=
  match pre.reverse with
  | b :: _ => b ≠ CR && b ≠ LF
  | [] => false

theorem lastOK_spec (pre : Bytes) (h : lastOK pre = true) : ∃ b t, pre.reverse = b :: t ∧ b ≠ CR ∧ b ≠ LF := by
  unfold lastOK at h
  cases hr : pre.reverse with
  | nil => simp [hr] at h
  | cons b t =>
    simp only [hr, Bool.and_eq_true, decide_eq_true_eq] at h
    exact ⟨b, t, rfl, h.1, h.2⟩

structure PrefixOK (pre key : Bytes) : Prop where
  shape : ∃ pad, pre = key ++ COLON :: pad ∧ ∀ b ∈ pad, b = 32 ∨ b = 9
  nocolon : COLON ∉ key
  last : lastOK pre = true

theorem prefix_name : PrefixOK sse_writeName sse_eventKey :=
  ⟨⟨sse_writeName.drop (sse_eventKey.length + 1), by decide, by decide⟩, by decide, by decide⟩
theorem prefix_id : PrefixOK sse_writeID sse_idKey :=
  ⟨⟨sse_writeID.drop (sse_idKey.length + 1), by decide, by decide⟩, by decide, by decide⟩
theorem prefix_retry : PrefixOK sse_writeRetry sse_retryKey :=
  ⟨⟨sse_writeRetry.drop (sse_retryKey.length + 1), by decide, by decide⟩, by decide, by decide⟩
theorem prefix_data : PrefixOK sse_writeData sse_dataKey :=
  ⟨⟨sse_writeData.drop (sse_dataKey.length + 1), by decide, by decide⟩, by decide, by decide⟩

/-- A written field line is read as exactly that field with exactly that value. -/
theorem stepLine_field (a : Scan) (pre key v : Bytes) (hp : PrefixOK pre key) (hm : a.malformed = false)
    (hv : trim v = v) : stepLine a (pre ++ v) = applyField a key v := by
  obtain ⟨⟨pad, hshape, hpad⟩, hnc, hlast⟩ := hp
  have hlast := lastOK_spec pre hlast
  have hne : pre ++ v ≠ [] := by
    obtain ⟨b, t, hb, -⟩ := hlast
    intro h
    have : pre = [] := (List.append_eq_nil_iff.mp h).1
    subst this; simp at hb
  simp only [stepLine, hm, Bool.false_eq_true, ite_false, trimRightCRLF_field pre v hv hlast, hne, procLine]
  rw [hshape, List.append_assoc, List.cons_append, cutColon_key key (pad ++ v) hnc]
  simp only [trim_pad pad v hpad hv]

theorem stepLine_blank (a : Scan) (hm : a.malformed = false) : stepLine a [] = yieldEvent a := by
  simp [stepLine, hm, trimRightCRLF]

theorem stepLine_field' (evt : Event) (buf : Option Bytes) (out : List Event) (pre key v : Bytes)
    (hp : PrefixOK pre key) (hv : trim v = v) :
    stepLine ⟨evt, buf, out, false⟩ (pre ++ v) = applyField ⟨evt, buf, out, false⟩ key v :=
  stepLine_field _ pre key v hp rfl hv

theorem stepLine_blank' (evt : Event) (buf : Option Bytes) (out : List Event) :
    stepLine ⟨evt, buf, out, false⟩ [] = yieldEvent ⟨evt, buf, out, false⟩ := stepLine_blank _ rfl

/-! ## SSE: one event, then a stream -/

/-- The lines `writeEvent` writes. -/
def eventLines (e : Event) : List Bytes :=
  (if e.name = [] then [] else [sse_writeName ++ e.name]) ++
  ((if e.id = [] then [] else [sse_writeID ++ e.id]) ++
  ((if e.retry = [] then [] else [sse_writeRetry ++ e.retry]) ++
  [sse_writeData ++ e.data, []]))

theorem writeEvent_eq (e : Event) : writeEvent e = frame (eventLines e) := by
  unfold writeEvent eventLines frame
  by_cases h1 : e.name = [] <;> by_cases h2 : e.id = [] <;> by_cases h3 : e.retry = [] <;> simp [h1, h2, h3]

theorem prefixes_noLF : LF ∉ sse_writeName ∧ LF ∉ sse_writeID ∧ LF ∉ sse_writeRetry ∧ LF ∉ sse_writeData := by decide

theorem eventLines_noLF (e : Event) (h : CleanEvent e) : ∀ l ∈ eventLines e, LF ∉ l := by
  obtain ⟨p1, p2, p3, p4⟩ := prefixes_noLF
  intro l hl
  unfold eventLines at hl
  simp only [List.mem_append, List.mem_cons, List.not_mem_nil, or_false] at hl
  have key : ∀ (pre v : Bytes), LF ∉ pre → LF ∉ v → LF ∉ pre ++ v := by
    intro pre v a b hmem
    rcases List.mem_append.mp hmem with x | x
    · exact a x
    · exact b x
  rcases hl with hl | hl | hl | hl | hl
  · split at hl
    · simp at hl
    · simp only [List.mem_cons, List.not_mem_nil, or_false] at hl; subst hl; exact key _ _ p1 h.name.2
  · split at hl
    · simp at hl
    · simp only [List.mem_cons, List.not_mem_nil, or_false] at hl; subst hl; exact key _ _ p2 h.id.2
  · split at hl
    · simp at hl
    · simp only [List.mem_cons, List.not_mem_nil, or_false] at hl; subst hl; exact key _ _ p3 h.retry.2
  · subst hl; exact key _ _ p4 h.data.2
  · subst hl; simp

theorem keys_distinct : sse_idKey ≠ sse_eventKey ∧ sse_retryKey ≠ sse_eventKey ∧ sse_retryKey ≠ sse_idKey ∧
    sse_dataKey ≠ sse_eventKey ∧ sse_dataKey ≠ sse_idKey ∧ sse_dataKey ≠ sse_retryKey := by decide

/-- One well-formed event is scanned back as itself, from any accumulator holding no partial event. -/
theorem scan_one (e : Event) (out : List Event) (h : CleanEvent e) :
    (eventLines e).foldl stepLine ⟨{}, none, out, false⟩ = ⟨{}, none, out ++ [e], false⟩ := by
  obtain ⟨k1, k2, k3, k4, k5, k6⟩ := keys_distinct
  obtain ⟨n, i, r, d⟩ := e
  have hn := h.name.1; have hi := h.id.1; have hr := h.retry.1; have hd := h.data.1
  have hne := h.nonempty
  simp only at hn hi hr hd
  unfold eventLines
  by_cases h1 : n = [] <;> by_cases h2 : i = [] <;> by_cases h3 : r = [] <;>
    simp only [h1, h2, h3, ite_true, ite_false, List.nil_append, List.cons_append, List.foldl_cons, List.foldl_nil,
      stepLine_field' _ _ _ _ _ _ prefix_name hn, stepLine_field' _ _ _ _ _ _ prefix_id hi,
      stepLine_field' _ _ _ _ _ _ prefix_retry hr, stepLine_field' _ _ _ _ _ _ prefix_data hd,
      applyField, k1, k2, k3, k4, k5, k6, stepLine_blank', yieldEvent] <;>
    simp_all [Event.isEmpty]

/-- A stream of well-formed events, at line level. -/
theorem scan_lines (es : List Event) (out : List Event) (h : ∀ e ∈ es, CleanEvent e) :
    (es.flatMap eventLines).foldl stepLine ⟨{}, none, out, false⟩ = ⟨{}, none, out ++ es, false⟩ := by
  induction es generalizing out with
  | nil => simp
  | cons e es ih =>
    simp only [List.flatMap_cons, List.foldl_append]
    rw [scan_one e out (h e (by simp)), ih _ (fun e he => h e (by simp [he]))]
    simp

theorem frame_flatMap (es : List Event) : es.flatMap writeEvent = frame (es.flatMap eventLines) := by
  induction es with
  | nil => rfl
  | cons e es ih => simp [List.flatMap_cons, ih, writeEvent_eq, frame]

/-- **sse_roundtrip** (C19). For every list of events whose fields are trimmed and LF-free and which
are not entirely empty — every SDK message event: the data is a compact JSON text — scanning the
bytes `writeEvent` wrote for them, one after the other, yields exactly those events, in order, and
no error. -/
theorem sse_roundtrip (es : List Event) (h : ∀ e ∈ es, CleanEvent e) :
    scanEvents (es.flatMap writeEvent) = (es, false) := by
  have hl : ∀ l ∈ es.flatMap eventLines, LF ∉ l := by
    intro l hl
    obtain ⟨e, he, hle⟩ := List.mem_flatMap.mp hl
    exact eventLines_noLF e (h e he) l hle
  unfold scanEvents
  rw [frame_flatMap, splitLines_frame _ hl]
  simp only [scan_lines es [] h, finishLine, trimRightCRLF, yieldEvent]
  simp [Event.isEmpty]

/-- Non-vacuity: a JSON-RPC message event with a name and an id. -/
example : CleanEvent { name := [109], id := [49], data := [123, 125] } :=
  ⟨⟨by decide, by decide⟩, ⟨by decide, by decide⟩, ⟨by decide, by decide⟩, ⟨by decide, by decide⟩, by decide⟩
example : scanEvents (writeEvent { name := [109], id := [49], data := [123, 125] } ++ writeEvent { data := [49] }) =
    ([{ name := [109], id := [49], data := [123, 125] }, { data := [49] }], false) := by decide
/-- … and what the hypothesis excludes really breaks: a payload with a raw LF is not scanned back. -/
example : scanEvents (writeEvent { data := [97, 10, 98] }) ≠ ([{ data := [97, 10, 98] }], false) := by decide

end Wire.L
