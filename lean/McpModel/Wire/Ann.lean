import McpModel.Wire.Msg
namespace Wire
open Generated.Wire

/-! # `ToolAnnotations` (`mcp/protocol.go`): two encodings, one decoder

`MarshalJSON` writes the tagged struct — `readOnlyHint` and `idempotentHint` always, the two pointer hints and the
title when set — unless `MCPGODEBUG=hintomitempty=1`, where the struct `compat` (all five `omitempty`) restores
the encoding of older releases: false-valued `readOnlyHint` / `idempotentHint` are left out.  There is no
`UnmarshalJSON`: the tagged struct is decoded as it is (an absent bool member is `false`). -/

structure ToolAnn where
  destructive : Option Bool
  idempotent : Bool
  openWorld : Option Bool
  readOnly : Bool
  title : Bytes
deriving DecidableEq, Repr, Inhabited

def boolMember (om : Bool) (b : Bool) : Option JVal := if om && !b then none else some (.bool b)
def optBoolMember : Option Bool → Option JVal
  | none => none
  | some b => some (.bool b)

/-- `ToolAnnotations.MarshalJSON`; `compat` = the `hintomitempty == "1"` branch -/
def encodeAnn (compat : Bool) (a : ToolAnn) : JVal :=
  .obj (members [
    (ToolAnnotations_DestructiveHint_name, optBoolMember a.destructive),
    (ToolAnnotations_IdempotentHint_name, boolMember (if compat then ToolAnnotationsCompat_IdempotentHint_omit else ToolAnnotations_IdempotentHint_omit) a.idempotent),
    (ToolAnnotations_OpenWorldHint_name, optBoolMember a.openWorld),
    (ToolAnnotations_ReadOnlyHint_name, boolMember (if compat then ToolAnnotationsCompat_ReadOnlyHint_omit else ToolAnnotations_ReadOnlyHint_omit) a.readOnly),
    (ToolAnnotations_Title_name, if a.title = [] then none else some (.str a.title))])

def boolField (k : Bytes) (kvs : List (Bytes × JVal)) : Except Unit Bool :=
  match lookup k kvs with
  | none => .ok false
  | some .null => .ok false
  | some (.bool b) => .ok b
  | some _ => .error ()

def optBoolField (k : Bytes) (kvs : List (Bytes × JVal)) : Except Unit (Option Bool) :=
  match lookup k kvs with
  | none => .ok none
  | some .null => .ok none
  | some (.bool b) => .ok (some b)
  | some _ => .error ()

def strFieldA (k : Bytes) (kvs : List (Bytes × JVal)) : Except Unit Bytes :=
  match lookup k kvs with
  | none => .ok []
  | some .null => .ok []
  | some (.str s) => .ok s
  | some _ => .error ()

/-- decoding of the tagged struct -/
def decodeAnn : JVal → Except Unit ToolAnn
  | .obj kvs =>
    match optBoolField ToolAnnotations_DestructiveHint_name kvs, boolField ToolAnnotations_IdempotentHint_name kvs,
        optBoolField ToolAnnotations_OpenWorldHint_name kvs, boolField ToolAnnotations_ReadOnlyHint_name kvs,
        strFieldA ToolAnnotations_Title_name kvs with
    | .ok d, .ok i, .ok o, .ok r, .ok t => .ok ⟨d, i, o, r, t⟩
    | _, _, _, _, _ => .error ()
  | _ => .error ()

end Wire
