import McpModel.Wire.Clone
/-! # E2 Wire — theorems on the capabilities clones (stated here in full; Props imports this module) -/
namespace Wire

theorem cloneSlots_fresh (v : CSlots) (base a : Nat) (h : some a ∈ cloneSlots v base) : base ≤ a := by
  induction v generalizing base with
  | nil => simp [cloneSlots] at h
  | cons s t ih =>
    cases s with
    | none =>
      simp only [cloneSlots, List.mem_cons] at h
      rcases h with h | h
      · cases h
      · exact ih base h
    | some b =>
      simp only [cloneSlots, List.mem_cons] at h
      rcases h with h | h
      · injection h with h; omega
      · have := ih (base + 1) h; omega

theorem encSlots_prefix (v : CSlots) (h ext : Heap) (hw : wfSlots v h) : encSlots v (h ++ ext) = encSlots v h := by
  unfold encSlots
  apply List.map_congr_left
  intro s hs
  cases s with
  | none => rfl
  | some a =>
    have := hw a hs
    simp [List.getElem?_append_left this]

theorem encSlots_clone_aux (v : CSlots) (h : Heap) (hw : wfSlots v h) : ∀ (pre : Heap) (base : Nat), base = (h ++ pre).length →
    encSlots (cloneSlots v base) (h ++ pre ++ copies v h) = encSlots v h := by
  induction v with
  | nil => intro _ _ _; rfl
  | cons s t ih =>
    intro pre base hb
    have hwt : wfSlots t h := fun a ha => hw a (List.mem_cons_of_mem _ ha)
    cases s with
    | none =>
      have := ih hwt pre base hb
      have hc : copies (none :: t) h = copies t h := by simp [copies]
      rw [hc]
      simp only [cloneSlots, encSlots, List.map_cons] at this ⊢
      rw [this]; rfl
    | some a =>
      have ha : a < h.length := hw a (by simp)
      have hget : h[a]? = some h[a] := by simp [ha]
      have hc : copies (some a :: t) h = h[a] :: copies t h := by simp [copies, hget]
      have := ih hwt (pre ++ [h[a]]) (base + 1) (by simp [hb]; omega)
      rw [hc]
      have e : h ++ pre ++ h[a] :: copies t h = h ++ (pre ++ [h[a]]) ++ copies t h := by simp
      rw [e]
      simp only [cloneSlots, encSlots, List.map_cons] at this ⊢
      rw [this]
      congr 1
      subst hb
      have : (h ++ (pre ++ [h[a]]) ++ copies t h)[(h ++ pre).length]? = some h[a] := by
        have e2 : h ++ (pre ++ [h[a]]) ++ copies t h = (h ++ pre) ++ (h[a] :: copies t h) := by simp
        rw [e2, List.getElem?_append_right (Nat.le_refl _)]; simp
      simp [this, hget]

/-- **clone_same_encoding.** The clone encodes like the original. -/
theorem clone_same_encoding (v : CSlots) (h : Heap) (hw : wfSlots v h) :
    encSlots (cloneV v h).1 (cloneV v h).2 = encSlots v h := by
  have := encSlots_clone_aux v h hw [] h.length (by simp)
  simpa [cloneV] using this

/-- **clone_no_alias.** Whatever is written through ANY pointer or into ANY map of the clone, the original encodes as
before: no cell of the clone is a cell of the original. -/
theorem clone_no_alias (v : CSlots) (h : Heap) (hw : wfSlots v h) (a : Nat) (x : JVal) (ha : some a ∈ (cloneV v h).1) :
    encSlots v (writeCell (cloneV v h).2 a x) = encSlots v h := by
  have hf : h.length ≤ a := cloneSlots_fresh v h.length a ha
  unfold encSlots writeCell cloneV
  apply List.map_congr_left
  intro s hs
  cases s with
  | none => rfl
  | some b =>
    have hb := hw b hs
    have : b ≠ a := by omega
    simp [List.getElem?_set_ne (Ne.symm this), List.getElem?_append_left hb]

/-- … and the other way round: a write through the original after the clone was taken does not show in the clone. -/
theorem clone_no_alias_rev (v : CSlots) (h : Heap) (hw : wfSlots v h) (a : Nat) (x : JVal) (ha : some a ∈ v) :
    encSlots (cloneV v h).1 (writeCell (cloneV v h).2 a x) = encSlots (cloneV v h).1 (cloneV v h).2 := by
  have hlt := hw a ha
  unfold encSlots writeCell
  apply List.map_congr_left
  intro s hs
  cases s with
  | none => rfl
  | some b =>
    have hf : h.length ≤ b := cloneSlots_fresh v h.length b hs
    have : a ≠ b := by omega
    simp [List.getElem?_set_ne this]

/-- why every pointer / map member must be copied: a value that keeps a slot's address shares the cell -/
theorem shared_slot_aliases (h : Heap) (a : Nat) (x : JVal) (ha : a < h.length) (hx : h[a]? ≠ some x) :
    encSlots [some a] (writeCell h a x) ≠ encSlots [some a] h := by
  simp [encSlots, writeCell, ha]
  intro hh; apply hx; simp [ha, hh]

end Wire
