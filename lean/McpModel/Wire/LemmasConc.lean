import McpModel.Wire.Frame
/-! # E2 Wire — lemmas: the stream under concurrent writers (`writeMu`) -/
namespace Wire
theorem CW.step_inv (frames : List Bytes) (s : CW) (op : CWOp) (h : s.Inv frames) : (s.step op).Inv frames := by
  obtain ⟨done, pre, hout, hpre, hperm⟩ := h
  cases op with
  | acquire k =>
    simp only [CW.step]
    split
    · next w b hh hd =>
      have hw : s.waiting = s.waiting.take k ++ w :: b := by rw [← hd, List.take_append_drop]
      have hp0 := hpre hh
      subst hp0
      refine ⟨done, [], by simpa using hout, by simp, ?_⟩
      rw [hh] at hperm
      rw [hw] at hperm
      simp only [List.append_nil, List.map_append, List.map_cons, List.nil_append] at hperm ⊢
      refine List.Perm.trans ?_ hperm
      simp only [List.append_assoc]
      exact List.Perm.append_left done (by simpa using (List.perm_middle (a := w.flatten) (l₁ := List.map List.flatten (List.take k s.waiting)) (l₂ := List.map List.flatten b)).symm)
    · exact ⟨done, pre, hout, hpre, hperm⟩
  | piece =>
    simp only [CW.step]
    split
    · next p rest hh =>
      by_cases hr : rest = []
      · subst hr
        refine ⟨done ++ [pre ++ p], [], by simp [hout], by simp, ?_⟩
        rw [hh] at hperm
        simpa using hperm
      · refine ⟨done, pre ++ p, by simp [hout], by simp [hr], ?_⟩
        rw [hh] at hperm
        simpa [hr] using hperm
    · next hh =>
      refine ⟨done ++ [pre], [], by simp [hout], by simp, ?_⟩
      rw [hh] at hperm
      simpa using hperm
    · exact ⟨done, pre, hout, hpre, hperm⟩

theorem CW.run_inv (frames : List Bytes) (ops : List CWOp) : ∀ s : CW, s.Inv frames → (s.run ops).Inv frames := by
  induction ops with
  | nil => intro s h; exact h
  | cons op t ih => intro s h; exact ih _ (CW.step_inv frames s op h)

end Wire
