import McpModel.Wire.Msg
/-!
# E2 Wire — `InputRequestMap.UnmarshalJSON` (`mcp/protocol.go`), REPAIRED (fix F32)

`inputRequests` of an input-required result: an object whose members are `{"method": m, "params": p}`
with `m` one of the three methods a server may ask a client (`Generated.Wire.inputRequestMethods`: the
cases of `switch raw.Method`).  The entries are decoded into `map[string]*raw`; a `null` entry is a nil
pointer there.  Before fix F32 the loop dereferenced it (`raw.Method`): a peer sending
`{"inputRequests":{"a":null}}` crashed the client.  The repaired code rejects the entry with an error
and decodes with the SDK's case-sensitive decoder (`internaljson.Unmarshal`), as C19 demands.

The three params types are plain tagged structs (their member decoding is the JSON library's
business); the model needs of `params` only: absent ⇒ error (an empty `json.RawMessage` does not
unmarshal), `null` ⇒ fine (no-op), an object ⇒ fine for objects with well-typed members (the
generators keep to `{}` and to values the SDK itself marshalled), anything else ⇒ error.
-/
namespace Wire
open Generated.Wire

def paramsOK : Option JVal → Bool
  | none => false
  | some .null => true
  | some (.obj _) => true
  | some _ => false

/-- one entry ↦ the method it names -/
def decodeInputEntry : JVal → Except Unit Bytes
  | .null => .error ()                       -- F32 repaired: was a nil dereference
  | .obj mem =>
    match lookup irmRaw_Method_name mem with
    | some (.str m) =>
      if inputRequestMethods.contains m && paramsOK (lookup irmRaw_Params_name mem) then .ok m else .error ()
    | _ => .error ()                          -- absent / null: method "" is unsupported; wrong type: unmarshal error
  | _ => .error ()

def decodeInputEntries : List (Bytes × JVal) → Except Unit (List (Bytes × Bytes))
  | [] => .ok []
  | (k, v) :: t => do
    let m ← decodeInputEntry v
    let r ← decodeInputEntries t
    .ok ((k, m) :: r)

/-- `InputRequestMap.UnmarshalJSON`: key ↦ method of every entry, in wire order -/
def decodeInputRequests : JVal → Except Unit (List (Bytes × Bytes))
  | .null => .ok []
  | .obj kvs => decodeInputEntries kvs
  | _ => .error ()

end Wire
