import McpModel.Wire.Msg
namespace Wire

/-! # `ClientCapabilities.clone` / `ServerCapabilities.clone` (`mcp/protocol.go`): a copy that shares nothing mutable

A capabilities value reaches its mutable parts through pointers and maps: the members `clone` copies with
`shallowClone` / `maps.Clone` / `x := *p` (fact wire.clone_*: every pointer / map member of the struct is
listed).  Modelled as a heap of cells (the content of a pointed-to struct or of a map, as its encoding) and a
value holding, per such member (a *slot*), nil or the address of its cell.  `clone` allocates a fresh cell per
non-nil slot with the same content.  (Values INSIDE the Extensions / Experimental maps are shared by
design — "shallow-copied" — and are outside the slots.) -/

abbrev Heap := List JVal

/-- per slot: nil, or the address of its cell -/
abbrev CSlots := List (Option Nat)

/-- what an encoder sees of the value: the content of every slot -/
def encSlots (v : CSlots) (h : Heap) : List (Option JVal) := v.map (fun s => s.bind (fun a => h[a]?))

def wfSlots (v : CSlots) (h : Heap) : Prop := ∀ a, some a ∈ v → a < h.length

/-- the copies `clone` allocates, in slot order -/
def copies (v : CSlots) (h : Heap) : List JVal := v.filterMap (fun s => s.bind (fun a => h[a]?))

/-- the clone's slots: the k-th non-nil slot points to the k-th fresh cell, allocated from address `base` on -/
def cloneSlots : CSlots → Nat → CSlots
  | [], _ => []
  | none :: t, base => none :: cloneSlots t base
  | some _ :: t, base => some base :: cloneSlots t (base + 1)

/-- `clone`: the new value and the heap after it -/
def cloneV (v : CSlots) (h : Heap) : CSlots × Heap := (cloneSlots v h.length, h ++ copies v h)

/-- a write through a pointer / into a map: the cell at `a` gets new content -/
def writeCell (h : Heap) (a : Nat) (x : JVal) : Heap := h.set a x

end Wire
