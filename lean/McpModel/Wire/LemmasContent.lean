import McpModel.Wire.Content
/-!
# C19 — content theorems: `content_roundtrip`, `required_members_present`
Helper lemmas first: how the decoder (`wcFields`, `setScalar`) processes one member of an encoding.
-/
namespace Wire
open Generated.Wire

theorem wcFields_cons (k : Bytes) (v : JVal) (t : List (Bytes × JVal)) (s : WCS) (n : Option (List (Option WC))) :
    wcFields ((k, v) :: t) (s, n) =
      if k = wireContent_NestedContent_name then (wcNested v >>= fun n' => wcFields t (s, n'))
      else (setScalar k v s >>= fun s' => wcFields t (s', n)) := by
  simp only [wcFields]

theorem wcFields_nil (acc : WCS × Option (List (Option WC))) : wcFields [] acc = .ok acc := by
  simp [wcFields]

theorem members_cons (k : Bytes) (ov : Option JVal) (fs : List (Bytes × Option JVal)) :
    members ((k, ov) :: fs) = (match ov with | some v => [(k, v)] | none => []) ++ members fs := by
  cases ov <;> simp [members]

theorem members_nil : members [] = [] := rfl

/-- One string member (`omitempty` or not) of an encoding, processed by the decoder. -/
theorem step_str (k : Bytes) (om : Bool) (x : Bytes) (fs : List (Bytes × Option JVal)) (s : WCS)
    (n : Option (List (Option WC))) (hk : k ≠ wireContent_NestedContent_name)
    (h0 : x = [] → setScalar k (.str []) s = .ok s) :
    wcFields (members (member k om (optStr x) (.str []) :: fs)) (s, n) =
      (setScalar k (.str x) s >>= fun s' => wcFields (members fs) (s', n)) := by
  by_cases hx : x = []
  · subst hx
    cases om
    · simp only [member, optStr, members_cons]
      simp only [ite_true, Bool.false_eq_true, ite_false, List.cons_append, List.nil_append, wcFields_cons, if_neg hk]
    · simp only [member, optStr, members_cons]
      simp only [ite_true, List.nil_append, h0 rfl, ok_bind]
  · simp only [member, optStr, if_neg hx, members_cons, List.cons_append, List.nil_append, wcFields_cons, if_neg hk]

/-- A member that is present. -/
theorem step_some (k : Bytes) (om : Bool) (v d : JVal) (fs : List (Bytes × Option JVal)) (s : WCS)
    (n : Option (List (Option WC))) (hk : k ≠ wireContent_NestedContent_name) :
    wcFields (members (member k om (some v) d :: fs)) (s, n) =
      (setScalar k v s >>= fun s' => wcFields (members fs) (s', n)) := by
  simp only [member, members_cons, List.cons_append, List.nil_append, wcFields_cons, if_neg hk]

/-- An empty `omitempty` member: nothing is written, nothing is read. -/
theorem step_none (k : Bytes) (d : JVal) (fs : List (Bytes × Option JVal)) (acc : WCS × Option (List (Option WC))) :
    wcFields (members (member k true none d :: fs)) acc = wcFields (members fs) acc := by
  simp only [member, members_cons, ite_true, List.nil_append]

/-! `setScalar` on the values the encoders write -/

theorem set_type (x : Bytes) (s : WCS) : setScalar wireContent_Type_name (.str x) s = .ok { s with type := x } := by
  simp [setScalar, cString]

theorem set_text (x : Bytes) (s : WCS) : setScalar wireContent_Text_name (.str x) s = .ok { s with text := x } := by
  simp [setScalar, cString]

theorem set_mime (x : Bytes) (s : WCS) : setScalar wireContent_MIMEType_name (.str x) s = .ok { s with mime := x } := by
  simp [setScalar, cString]

theorem set_uri (x : Bytes) (s : WCS) : setScalar wireContent_URI_name (.str x) s = .ok { s with uri := x } := by
  simp [setScalar, cString]

theorem set_name (x : Bytes) (s : WCS) : setScalar wireContent_Name_name (.str x) s = .ok { s with name := x } := by
  simp [setScalar, cString]

theorem set_title (x : Bytes) (s : WCS) : setScalar wireContent_Title_name (.str x) s = .ok { s with title := x } := by
  simp [setScalar, cString]

theorem set_description (x : Bytes) (s : WCS) : setScalar wireContent_Description_name (.str x) s = .ok { s with description := x } := by
  simp [setScalar, cString]

theorem set_id (x : Bytes) (s : WCS) : setScalar wireContent_ID_name (.str x) s = .ok { s with id := x } := by
  simp [setScalar, cString]

theorem set_toolUseId (x : Bytes) (s : WCS) : setScalar wireContent_ToolUseID_name (.str x) s = .ok { s with toolUseId := x } := by
  simp [setScalar, cString]

theorem set_data (x : Bytes) (s : WCS) : setScalar wireContent_Data_name (.str x) s = .ok { s with data := x } := by
  simp [setScalar, cBytes]
theorem set_resource (kvs : List (Bytes × JVal)) (s : WCS) :
    setScalar wireContent_Resource_name (.obj kvs) s = .ok { s with resource := some (.obj kvs) } := by
  simp [setScalar, cObjOpt]
theorem set_size (n : Int) (s : WCS) (h : inInt64 n = true) :
    setScalar wireContent_Size_name (.int n) s = .ok { s with size := some n } := by
  simp [setScalar, cSize, h]
theorem set_meta (m : Meta) (s : WCS) : setScalar wireContent_Meta_name (.obj m) s = .ok { s with mta := m } := by
  simp [setScalar, cMap]
theorem set_ann (kvs : List (Bytes × JVal)) (s : WCS) :
    setScalar wireContent_Annotations_name (.obj kvs) s = .ok { s with ann := some (.obj kvs) } := by
  simp [setScalar, cObjOpt]
theorem set_icons (l : List JVal) (s : WCS) (h : cIconList l = .ok l) :
    setScalar wireContent_Icons_name (.arr l) s = .ok { s with icons := l } := by
  simp [setScalar, cIcons, h]
theorem set_input (m : Meta) (s : WCS) : setScalar wireContent_Input_name (.obj m) s = .ok { s with input := m } := by
  simp [setScalar, cMap]
theorem set_structured (v : JVal) (s : WCS) (h : v ≠ .null) :
    setScalar wireContent_StructuredContent_name v s = .ok { s with structured := some v } := by
  cases v <;> simp [setScalar, cAny] at h ⊢
theorem set_isError (b : Bool) (s : WCS) : setScalar wireContent_IsError_name (.bool b) s = .ok { s with isError := b } := by
  simp [setScalar, cBool]

/-! the per-struct member names are the `wireContent` names (so one set of lemmas serves all) -/
theorem names_agree :
    textWire_Type_name = wireContent_Type_name ∧ textWire_Text_name = wireContent_Text_name ∧
    textWire_Meta_name = wireContent_Meta_name ∧ textWire_Annotations_name = wireContent_Annotations_name ∧
    imageAudioWire_Type_name = wireContent_Type_name ∧ imageAudioWire_MIMEType_name = wireContent_MIMEType_name ∧
    imageAudioWire_Data_name = wireContent_Data_name ∧ imageAudioWire_Meta_name = wireContent_Meta_name ∧
    imageAudioWire_Annotations_name = wireContent_Annotations_name ∧
    toolUseWire_Type_name = wireContent_Type_name ∧ toolUseWire_ID_name = wireContent_ID_name ∧
    toolUseWire_Name_name = wireContent_Name_name ∧ toolUseWire_Input_name = wireContent_Input_name ∧
    toolUseWire_Meta_name = wireContent_Meta_name ∧
    toolResultWire_Type_name = wireContent_Type_name ∧ toolResultWire_ToolUseID_name = wireContent_ToolUseID_name ∧
    toolResultWire_Content_name = wireContent_NestedContent_name ∧
    toolResultWire_StructuredContent_name = wireContent_StructuredContent_name ∧
    toolResultWire_IsError_name = wireContent_IsError_name ∧ toolResultWire_Meta_name = wireContent_Meta_name := by
  decide

end Wire
