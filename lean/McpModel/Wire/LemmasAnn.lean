import McpModel.Wire.Ann
/-! # E2 Wire — theorems on the two encodings of `ToolAnnotations` (stated here in full; Props imports this module) -/
namespace Wire
open Generated.Wire

/-- **tool_annotations_roundtrip.**  Under BOTH encodings every value decodes from what was written to itself. -/
theorem tool_annotations_roundtrip (compat : Bool) (a : ToolAnn) : decodeAnn (encodeAnn compat a) = .ok a := by
  obtain ⟨d, i, o, r, t⟩ := a
  cases compat <;> cases d <;> cases i <;> cases o <;> cases r <;> by_cases ht : t = [] <;>
    simp [encodeAnn, decodeAnn, members, boolMember, optBoolMember, optBoolField, boolField, strFieldA, lookup, ht]

/-- **tool_annotations_hints_present.**  The default encoding always carries `readOnlyHint` and `idempotentHint`
(as booleans): a client that reads a missing hint by the schema's default does not depend on the server's build. -/
theorem tool_annotations_hints_present (a : ToolAnn) :
    ∃ kvs, encodeAnn false a = .obj kvs ∧ lookup ToolAnnotations_ReadOnlyHint_name kvs = some (.bool a.readOnly) ∧
      lookup ToolAnnotations_IdempotentHint_name kvs = some (.bool a.idempotent) := by
  obtain ⟨d, i, o, r, t⟩ := a
  refine ⟨_, rfl, ?_, ?_⟩ <;>
    (cases d <;> cases o <;> by_cases ht : t = [] <;> simp [members, boolMember, optBoolMember, lookup, ht])

/-- … and the compat encoding leaves exactly the false ones out -/
theorem tool_annotations_compat_omits_false (a : ToolAnn) :
    ∃ kvs, encodeAnn true a = .obj kvs ∧
      lookup ToolAnnotations_ReadOnlyHint_name kvs = (if a.readOnly then some (.bool true) else none) ∧
      lookup ToolAnnotations_IdempotentHint_name kvs = (if a.idempotent then some (.bool true) else none) := by
  obtain ⟨d, i, o, r, t⟩ := a
  refine ⟨_, rfl, ?_, ?_⟩ <;>
    (cases d <;> cases i <;> cases o <;> cases r <;> by_cases ht : t = [] <;> simp [members, boolMember, optBoolMember, lookup, ht])

end Wire
