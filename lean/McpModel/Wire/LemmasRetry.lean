import McpModel.Wire.Retry
/-! # E2 Wire — theorems on what a retried request carries -/
namespace Wire.L
open Wire Generated.Wire

theorem lookup_append_none (k : Bytes) (a b : List (Bytes × JVal)) (h : lookup k b = none) : lookup k (a ++ b) = lookup k a := by
  induction a with
  | nil => simp [h, lookup]
  | cons p t ih => obtain ⟨k', v⟩ := p; simp [lookup, ih]

theorem lookup_append_some (k : Bytes) (a b : List (Bytes × JVal)) (v : JVal) (h : lookup k b = some v) : lookup k (a ++ b) = some v := by
  induction a with
  | nil => simpa using h
  | cons p t ih => obtain ⟨k', v'⟩ := p; simp [lookup, ih]

theorem decodeResponses_kinds (rs : List (Bytes × JVal)) (kind : JVal → RespKind) (h : ∀ p ∈ rs, respKindOf p.2 = .ok (kind p.2)) :
    decodeResponses rs = .ok (rs.map (fun p => (p.1, kind p.2))) := by
  induction rs with
  | nil => rfl
  | cons p t ih =>
    obtain ⟨k, v⟩ := p
    have h1 := h (k, v) (by simp)
    have h2 := ih (fun q hq => h q (by simp [hq]))
    simp only [decodeResponses]
    simp only [] at h1
    rw [h1, h2]; rfl

/-- the two members as assigned: present iff non-empty, with exactly the value given -/
theorem retry_members (rest rs : List (Bytes × JVal)) (state : Bytes)
    (h1 : lookup retry_InputResponses_name rest = none) (h2 : lookup retry_RequestState_name rest = none) :
    lookup retry_InputResponses_name (retryParams rest rs state) = (if rs = [] then none else some (.obj rs)) ∧
    lookup retry_RequestState_name (retryParams rest rs state) = (if state = [] then none else some (.str state)) := by
  have hne : retry_InputResponses_name ≠ retry_RequestState_name := by decide
  have hne' : retry_RequestState_name ≠ retry_InputResponses_name := by decide
  have e1 : lookup retry_InputResponses_name (retryParams rest rs state) = (if rs = [] then none else some (.obj rs)) := by
    unfold retryParams
    by_cases hr : rs = [] <;> by_cases hs : state = []
    · rw [lookup_append_none _ _ _ (by simp [members, hr, hs, lookup])]; simp [hr, h1]
    · rw [lookup_append_none _ _ _ (by simp [members, hr, hs, lookup, hne'])]; simp [hr, h1]
    · rw [lookup_append_some _ _ _ (.obj rs) (by simp [members, hr, hs, lookup])]; simp [hr]
    · rw [lookup_append_some _ _ _ (.obj rs) (by simp [members, hr, hs, lookup, hne'])]; simp [hr]
  have e2 : lookup retry_RequestState_name (retryParams rest rs state) = (if state = [] then none else some (.str state)) := by
    unfold retryParams
    by_cases hr : rs = [] <;> by_cases hs : state = []
    · rw [lookup_append_none _ _ _ (by simp [members, hr, hs, lookup])]; simp [hs, h2]
    · rw [lookup_append_some _ _ _ (.str state) (by simp [members, hr, hs, lookup])]; simp [hs]
    · rw [lookup_append_none _ _ _ (by simp [members, hr, hs, lookup, hne])]; simp [hs, h2]
    · rw [lookup_append_some _ _ _ (.str state) (by simp [members, hr, hs, lookup, hne])]; simp [hs]
  exact ⟨e1, e2⟩

/-- **retry_roundtrip.**  For every params value (members `rest`, none of them `inputResponses` / `requestState`),
every set of fulfilled responses — each an object with a discriminating member — and every request state: the
retried request carries the responses and the state INTACT (the member values are exactly the ones assigned),
and the server decodes them to the same keys, each with the kind of its response, and the same state. -/
theorem retry_roundtrip (rest rs : List (Bytes × JVal)) (state : Bytes) (kind : JVal → RespKind)
    (h1 : lookup retry_InputResponses_name rest = none) (h2 : lookup retry_RequestState_name rest = none)
    (hk : ∀ p ∈ rs, respKindOf p.2 = .ok (kind p.2)) :
    lookup retry_InputResponses_name (retryParams rest rs state) = (if rs = [] then none else some (.obj rs)) ∧
    lookup retry_RequestState_name (retryParams rest rs state) = (if state = [] then none else some (.str state)) ∧
    decodeRetry (retryParams rest rs state) = .ok (rs.map (fun p => (p.1, kind p.2)), state) := by
  obtain ⟨e1, e2⟩ := retry_members rest rs state h1 h2
  refine ⟨e1, e2, ?_⟩
  unfold decodeRetry
  rw [e1, e2]
  have hd := decodeResponses_kinds rs kind hk
  by_cases hr : rs = [] <;> by_cases hs : state = [] <;>
    simp [hr, hs, decodeInputResponses, decodeState, hd]

/-- the three response types of the SDK are told apart: an object with `roots` is a roots result whatever else it
has; one with `action` and no `roots` an elicitation result; one with `role` and neither a sampling result; an
object with none of the three is refused -/
theorem resp_kind_discriminated (kvs : List (Bytes × JVal)) :
    ((lookup probe_Roots_name kvs).isSome = true → respKindOf (.obj kvs) = .ok .roots) ∧
    ((lookup probe_Roots_name kvs) = none → (lookup probe_Action_name kvs).isSome = true → respKindOf (.obj kvs) = .ok .elicit) ∧
    ((lookup probe_Roots_name kvs) = none → (lookup probe_Action_name kvs) = none → (lookup probe_Role_name kvs).isSome = true →
      respKindOf (.obj kvs) = .ok .sampling) ∧
    ((lookup probe_Roots_name kvs) = none → (lookup probe_Action_name kvs) = none → (lookup probe_Role_name kvs) = none →
      respKindOf (.obj kvs) = .error ()) := by
  refine ⟨?_, ?_, ?_, ?_⟩ <;> intros <;> simp_all [respKindOf]

end Wire.L
