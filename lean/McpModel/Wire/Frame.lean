import McpModel.Wire.Msg
/-!
# E2 Wire — newline-delimited framing, `readBatch`, and the `ioConn` batch bookkeeping
(`mcp/transport.go:478-523, 609-770`)

* `frame`/`unframe`: the byte-level ndjson framing (payload ++ "\n").
* `readBatch`: one frame ↦ one message or a non-empty array of messages.
* `IOState` + `opRead`/`opWrite`: `ioConn.Read` / `ioConn.Write` as a small state machine: the
  unread `queue`, `t.batches` (id ↦ batch), the `msgBatch` objects (`unresolved`, `responses`),
  the optional outgoing batch.  The two `panic`s reachable in principle ("inconsistent batches", a
  nil `*Response` in a flushed array) are explicit `panicked` states; `Props` proves them unreachable.
  Tracking is the REPAIRED one (fix F2): only calls are tracked, `trackAll := true` gives the
  unrepaired behaviour (every `*Request`, used to state the counter-examples).
-/
namespace Wire

/-! ## ndjson framing on bytes -/

def LF : UInt8 := 10
def CR : UInt8 := 13

/-- `ioConn.Write`: `data = append(data, '\n')` for every payload. -/
def frame (ps : List Bytes) : Bytes := ps.flatMap (· ++ [LF])

/-- Split at LF: the complete lines (without the LF) and the unterminated rest. -/
def splitLines : Bytes → List Bytes × Bytes
  | [] => ([], [])
  | b :: t =>
    let (ls, rest) := splitLines t
    if b = LF then ([] :: ls, rest)
    else match ls with
      | [] => ([], b :: rest)
      | l :: ls' => ((b :: l) :: ls', rest)

/-- The reader side at line granularity: every non-empty complete line is one payload (blank lines
between values are skipped by the JSON stream decoder). -/
def unframe (bs : Bytes) : List Bytes := (splitLines bs).1.filter (· ≠ [])

/-! ## readBatch -/

inductive RErr where
  | decode (e : DErr)     -- DecodeMessage failed
  | emptyBatch
  | noBatching            -- batch under protocol ≥ 2025-06-18
  | dupInBatch            -- "duplicate message ID"
  | seenId                -- addBatch: "batch contains previously seen request"
  | eof
deriving DecidableEq, Repr, Inhabited

def decodeAll : List JVal → Except DErr (List Msg)
  | [] => .ok []
  | v :: t => do
    let m ← decodeMsg v
    let ms ← decodeAll t
    .ok (m :: ms)

/-- `readBatch`: array (or `null`, which unmarshals into a nil slice) ⇒ batch. -/
def readBatch (raw : JVal) : Except RErr (List Msg × Bool) :=
  match raw with
  | .null => .error .emptyBatch
  | .arr [] => .error .emptyBatch
  | .arr l => match decodeAll l with
    | .ok ms => .ok (ms, true)
    | .error e => .error (.decode e)
  | v => match decodeMsg v with
    | .ok m => .ok ([m], false)
    | .error e => .error (.decode e)

/-! ## ioConn -/

/-- `msgBatch` -/
structure Batch where
  unresolved : List (Id × Nat)        -- map id ↦ index into `responses`
  responses : List (Option Msg)       -- nil until answered
deriving Repr, Inhabited

structure IOState where
  wire : List JVal := []              -- frames waiting on the `incoming` channel
  queue : List Msg := []              -- `t.queue`
  byId : List (Id × Nat) := []        -- `t.batches`: id ↦ batch (handle)
  heap : List (Nat × Batch) := []     -- the msgBatch objects still referenced from `t.batches`
  next : Nat := 0                     -- fresh handle
  noBatch : Bool := false             -- protocolVersion ≥ 2025-06-18
  outCap : Nat := 0                   -- cap(outgoingBatch)
  outBuf : List Msg := []             -- outgoingBatch
  panicked : Bool := false
deriving Repr, Inhabited

def alookup {α β : Type} [DecidableEq α] (k : α) : List (α × β) → Option β
  | [] => none
  | (k', v) :: t => if k' = k then some v else alookup k t

def aerase {α β : Type} [DecidableEq α] (k : α) (l : List (α × β)) : List (α × β) :=
  l.filter (fun p => p.1 ≠ k)

/-- update in place (the Go code mutates the `msgBatch` object its map entries point to) -/
def aset {α β : Type} [DecidableEq α] (k : α) (v : β) : List (α × β) → List (α × β)
  | [] => []
  | (k', w) :: t => if k' = k then (k, v) :: t else (k', w) :: aset k v t

/-- The loop over `msgs` in `ioConn.Read` that builds the `msgBatch`.
`trackAll = false`: repaired (`req.IsCall()`); `true`: every `*Request`. -/
def trackLoop (trackAll : Bool) : List Msg → Batch → Except RErr Batch
  | [], b => .ok b
  | m :: t, b =>
    match m with
    | .request id _ _ =>
      if trackAll || id ≠ .none then
        if (alookup id b.unresolved).isSome then .error .dupInBatch
        else trackLoop trackAll t { unresolved := b.unresolved ++ [(id, b.responses.length)], responses := b.responses ++ [none] }
      else trackLoop trackAll t b
    | _ => trackLoop trackAll t b

/-- `addBatch` -/
def addBatch (s : IOState) (b : Batch) : Except RErr IOState :=
  if b.unresolved.any (fun p => (alookup p.1 s.byId).isSome) then .error .seenId
  else .ok { s with byId := s.byId ++ b.unresolved.map (fun p => (p.1, s.next)),
                    heap := s.heap ++ [(s.next, b)], next := s.next + 1 }

inductive ReadOut where
  | msg (m : Msg)
  | err (e : RErr)
deriving DecidableEq, Repr, Inhabited

/-- `ioConn.Read` (context handling and `Close` are outside this model). -/
def opRead (trackAll : Bool) (s : IOState) : IOState × ReadOut :=
  match s.queue with
  | m :: q => ({ s with queue := q }, .msg m)
  | [] =>
    match s.wire with
    | [] => (s, .err .eof)
    | raw :: w =>
      let s := { s with wire := w }
      match readBatch raw with
      | .error e => (s, .err e)
      | .ok (msgs, batch) =>
        if batch && s.noBatch then (s, .err .noBatching) else
        match msgs with
        | [] => (s, .err .emptyBatch)            -- unreachable: readBatch never returns []
        | m0 :: rest =>
          let s := { s with queue := rest }
          if batch then
            match trackLoop trackAll msgs { unresolved := [], responses := [] } with
            | .error e => (s, .err e)
            | .ok b =>
              if b.responses.isEmpty then (s, .msg m0)      -- respBatch == nil
              else match addBatch s b with
                | .error e => (s, .err e)
                | .ok s' => (s', .msg m0)
          else (s, .msg m0)

inductive WriteOut where
  | nothing                       -- nothing written (withheld / collected)
  | single (v : JVal)             -- one message
  | array (vs : List JVal)        -- one JSON array
  | panic
deriving DecidableEq, Repr, Inhabited

def allSome : List (Option Msg) → Option (List Msg)
  | [] => some []
  | none :: _ => none
  | some m :: t => (allSome t).map (m :: ·)

def setAt {α : Type} : List α → Nat → α → List α
  | [], _, _ => []
  | _ :: t, 0, x => x :: t
  | a :: t, n + 1, x => a :: setAt t n x

/-- `ioConn.Write` with `updateBatch` inlined. -/
def opWrite (s : IOState) (msg : Msg) : IOState × WriteOut :=
  if s.panicked then (s, .panic) else
  match msg with
  | .response id _ _ =>
    match alookup id s.byId with
    | some h =>
      match alookup h s.heap with
      | none => ({ s with panicked := true }, .panic)
      | some b =>
        match alookup id b.unresolved with
        | none => ({ s with panicked := true }, .panic)     -- "internal error: inconsistent batches"
        | some idx =>
          let b' : Batch := { unresolved := aerase id b.unresolved, responses := setAt b.responses idx (some msg) }
          let byId' := aerase id s.byId
          if b'.unresolved.isEmpty then
            let s' := { s with byId := byId', heap := aerase h s.heap }
            if b'.responses.isEmpty then (s', .nothing)
            else match allSome b'.responses with
              | some ms => (s', .array (ms.map encodeMsg))
              | none => ({ s' with panicked := true }, .panic)   -- nil *Response in marshalMessages
          else
            ({ s with byId := byId', heap := aset h b' s.heap }, .nothing)
    | none => (s, .single (encodeMsg msg))
  | .request .. =>
    if s.outBuf.length < s.outCap then
      let buf := s.outBuf ++ [msg]
      if buf.length = s.outCap then ({ s with outBuf := [] }, .array (buf.map encodeMsg))
      else ({ s with outBuf := buf }, .nothing)
    else (s, .single (encodeMsg msg))

/-! ## concurrent writers (`writeMu` in `ioConn.Write`)

`Write` takes `writeMu` first and holds it until the bytes have been handed to the stream
(`defer t.writeMu.Unlock()`): framing AND the write to `rwc` are ONE atomic section.  Writers that
call `Write` at the same time therefore take effect one after the other, in the order in which they
win the lock; the stream receives their frames whole, in that order — whatever the stream does with
the bytes of one call (it may forward them in pieces). -/

/-- the `Write` calls of several goroutines, in the order in which they win `writeMu` -/
def cwRun (s : IOState) : List Msg → IOState × List WriteOut
  | [] => (s, [])
  | m :: t =>
    let r := opWrite s m
    let r2 := cwRun r.1 t
    (r2.1, r.2 :: r2.2)

/-- the payload of the line a `Write` puts on the stream, if it writes -/
def WriteOut.frame : WriteOut → Option JVal
  | .single v => some v
  | .array vs => some (.arr vs)
  | _ => none

/-- the lines on the stream after the calls -/
def cwLines (outs : List WriteOut) : List JVal := outs.filterMap WriteOut.frame

/-! ## `writeMu`: the stream under concurrent writers, piece by piece -/

/-- writers on one connection: the lock holder (the pieces of its frame that the stream has not
taken yet), the writers that have not won `writeMu` yet (their frames, cut in pieces as the stream
will take them), the bytes on the stream -/
structure CW where
  holder : Option (List Bytes) := none
  waiting : List (List Bytes) := []
  out : Bytes := []

/-- the scheduler's choices: the `k`-th waiting writer wins the lock (possible only while nobody
holds it: `sync.Mutex`); the stream takes the next piece from the holder, which unlocks after its last -/
inductive CWOp where
  | acquire (k : Nat)
  | piece

def CW.step (s : CW) : CWOp → CW
  | .acquire k =>
    match s.holder, s.waiting.drop k with
    | none, w :: b => { s with holder := some w, waiting := s.waiting.take k ++ b }
    | _, _ => s
  | .piece =>
    match s.holder with
    | some (p :: rest) => { s with out := s.out ++ p, holder := if rest = [] then none else some rest }
    | some [] => { s with holder := none }
    | none => s

def CW.run (s : CW) (ops : List CWOp) : CW := ops.foldl CW.step s

/-- the stream holds whole frames, in some order, then a prefix of the holder's frame; frames done, the
holder's and the waiting ones are the frames of the writers -/
def CW.Inv (frames : List Bytes) (s : CW) : Prop :=
  ∃ (done : List Bytes) (pre : Bytes), s.out = done.flatten ++ pre ∧ (s.holder = none → pre = []) ∧
    (done ++ (match s.holder with | none => [] | some r => [pre ++ r.flatten]) ++ s.waiting.map List.flatten).Perm frames

/-! ## `LoggingTransport` (`loggingConn`, `mcp/transport.go`)

A connection around a connection: `Read` and `Write` call the delegate and hand its result on as it is;
beside that they write one line to the log — `read: ` / `write: ` and `EncodeMessage` of the message, or
`read error: …` / `write error: …`. -/

inductive LogEntry where
  | read (v : JVal) | readErr | write (v : JVal) | writeErr
deriving DecidableEq, Repr, Inhabited

/-- `loggingConn.Read` on what the delegate's `Read` returned -/
def logRead (o : ReadOut) : ReadOut × LogEntry :=
  (o, match o with | .msg m => .read (encodeMsg m) | .err _ => .readErr)

/-- `loggingConn.Write` on what the delegate's `Write` did (a panic of the delegate passes through: no line) -/
def logWrite (m : Msg) (o : WriteOut) : WriteOut × Option LogEntry :=
  (o, if o = .panic then none else some (.write (encodeMsg m)))

/-- what passes through a logging connection -/
inductive LogEv where
  | read (o : ReadOut)
  | write (m : Msg) (o : WriteOut)
deriving Repr, Inhabited

def logOf : List LogEv → List LogEntry
  | [] => []
  | .read o :: t => (logRead o).2 :: logOf t
  | .write m o :: t => match (logWrite m o).2 with
    | some e => e :: logOf t
    | none => logOf t

/-! ## The abstract specification of batch replies (what C02 asks for)

Per accepted batch: one slot per CALL of the batch, in batch order, holding the call's id and its
response once it is given.  A batch is accepted iff its call ids are pairwise distinct and none of
them is still unanswered in an open batch.  A response to an unanswered call of an open batch fills
its slot and nothing is written — unless it fills the last empty slot, in which case one array with
exactly the batch's responses, one per call, in call order, is written and the batch is closed.
Everything else is written at once on its own.  Notifications and responses inside a batch have no
slot: they cannot withhold or break anything. -/

abbrev Slots := List (Id × Option Msg)

def callIds : List Msg → List Id
  | [] => []
  | .request id _ _ :: t => if id ≠ .none then id :: callIds t else callIds t
  | _ :: t => callIds t

inductive SOut where
  | nothing | single (m : Msg) | array (ms : List Msg)
deriving DecidableEq, Repr, Inhabited

def slotPending (sl : Slots) (id : Id) : Bool := sl.any (fun p => p.1 = id && p.2.isNone)

def fillSlot (id : Id) (m : Msg) : Slots → Slots
  | [] => []
  | (i, r) :: t => if i = id ∧ r = none then (i, some m) :: t else (i, r) :: fillSlot id m t

def slotsComplete (sl : Slots) : Bool := sl.all (fun p => p.2.isSome)
def slotsMsgs (sl : Slots) : List Msg := sl.filterMap (fun p => p.2)

def specWrite : List Slots → Msg → List Slots × SOut
  | bs, .request id m p => (bs, .single (.request id m p))
  | [], msg => ([], .single msg)
  | b :: bs, msg =>
    if slotPending b msg.id then
      let b' := fillSlot msg.id msg b
      if slotsComplete b' then (bs, .array (slotsMsgs b')) else (b' :: bs, .nothing)
    else
      let r := specWrite bs msg
      (b :: r.1, r.2)

def nodupB : List Id → Bool
  | [] => true
  | a :: t => !t.contains a && nodupB t

/-- acceptance of a batch frame whose messages are `msgs` -/
def specAccept (bs : List Slots) (msgs : List Msg) : Except RErr (List Slots) :=
  let calls := callIds msgs
  if !nodupB calls then .error .dupInBatch
  else if calls.any (fun c => bs.any (fun sl => slotPending sl c)) then .error .seenId
  else .ok (if calls.isEmpty then bs else bs ++ [calls.map (fun c => (c, none))])

/-- `ioConn.Read` as the specification sees it: the same frame handling, with `specAccept` in the
place of the tracking loop and `addBatch`. -/
def specRead (sp : List Slots) (s : IOState) : List Slots × ReadOut :=
  match s.queue with
  | m :: _ => (sp, .msg m)
  | [] =>
    match s.wire with
    | [] => (sp, .err .eof)
    | raw :: _ =>
      match readBatch raw with
      | .error e => (sp, .err e)
      | .ok (msgs, batch) =>
        if batch && s.noBatch then (sp, .err .noBatching) else
        match msgs with
        | [] => (sp, .err .emptyBatch)
        | m0 :: _ =>
          if batch then
            match specAccept sp msgs with
            | .error e => (sp, .err e)
            | .ok sp' => (sp', .msg m0)
          else (sp, .msg m0)

/-- what the writer side shows of an `opWrite` result, as messages -/
def WriteOut.matches : WriteOut → SOut → Bool
  | .nothing, .nothing => true
  | .single v, .single m => v == encodeMsg m
  | .array vs, .array ms => vs == ms.map encodeMsg
  | _, _ => false


/-- every filled slot holds a response bearing the slot's call id -/
def SlotsOK (sl : Slots) : Prop := ∀ p ∈ sl, ∀ m, p.2 = some m → m.id = p.1


/-! ## runs -/

/-- witnesses used by the examples -/
def wNotif : JVal := encodeMsg (.request .none [110] none)
def wCall5 : JVal := encodeMsg (.request (.int 5) [112] none)
def resp5 : Msg := .response (.int 5) (some (.obj [])) none



/-- The labels of the `ioConn` machine: a frame arrives on the stream, the negotiated protocol
version changes (batching allowed or not), the connection calls `Read`, the connection calls
`Write` (a response of a finished handler, or an outgoing request/notification). -/
inductive IOOp where
  | feed (raw : JVal)
  | setNoBatch (b : Bool)
  | read
  | write (m : Msg)
deriving Repr, Inhabited

/-- One label on the model and on the specification side by side; the Boolean says whether what the
model did is what the specification prescribes (`read`: same result; `write`: the encoded
specification output). -/
def stepBoth (st : IOState × List Slots) : IOOp → (IOState × List Slots) × Bool
  | .feed raw => (({ st.1 with wire := st.1.wire ++ [raw] }, st.2), true)
  | .setNoBatch b => (({ st.1 with noBatch := b }, st.2), true)
  | .read => (((opRead false st.1).1, (specRead st.2 st.1).1), decide ((opRead false st.1).2 = (specRead st.2 st.1).2))
  | .write m => (((opWrite st.1 m).1, (specWrite st.2 m).1), (opWrite st.1 m).2.matches (specWrite st.2 m).2)

/-! ## the order in which `Read` hands messages out (C03: messages of one peer reach the dispatcher
in the order in which they were written) -/

/-- the messages a frame carries, in the order in which the peer wrote them (none if the frame is not
a message or a non-empty array of messages) -/
def frameMsgs (raw : JVal) : List Msg :=
  match readBatch raw with
  | .ok (ms, _) => ms
  | .error _ => []

/-- what is still to be handed out: the unread rest of the last frame, then the frames not yet taken -/
def IOState.pendingMsgs (s : IOState) : List Msg := s.queue ++ s.wire.flatMap frameMsgs

/-- one label of the machine (`Read` results are dropped here; see `readResults`) -/
def ioStep (s : IOState) : IOOp → IOState
  | .feed raw => { s with wire := s.wire ++ [raw] }
  | .setNoBatch b => { s with noBatch := b }
  | .read => (opRead false s).1
  | .write m => (opWrite s m).1

def ioRun (s : IOState) : List IOOp → IOState
  | [] => s
  | op :: t => ioRun (ioStep s op) t

/-- what the `Read`s of a label sequence returned, in order -/
def readResults (s : IOState) : List IOOp → List ReadOut
  | [] => []
  | .read :: t => (opRead false s).2 :: readResults (opRead false s).1 t
  | op :: t => readResults (ioStep s op) t

/-- the frames a label sequence puts on the stream, in order -/
def fedFrames : List IOOp → List JVal
  | [] => []
  | .feed raw :: t => raw :: fedFrames t
  | _ :: t => fedFrames t

def ReadOut.msg? : ReadOut → Option Msg
  | .msg m => some m
  | .err _ => none

/-- the messages returned up to the first failing `Read` (a read error ends the connection: the
jsonrpc2 reader stops at the first error) -/
def msgsUntilErr : List ReadOut → List Msg
  | .msg m :: t => m :: msgsUntilErr t
  | _ => []

/-- The order judgement of the monitor, on what the peer wrote (`expect`: the wire elements of the
accepted frame not yet handed out) and the message `Read` returned: out of order iff the message is
not the next element but IS one of the later ones. -/
def outOfOrder (same : Msg → JVal → Bool) (expect : List JVal) (m : Msg) : Bool :=
  match expect with
  | [] => false
  | e :: rest => !same m e && rest.any (same m)

/-- a JSON value that is not an object is not a message -/
def notMsgShaped : JVal → Bool
  | .obj _ => false
  | _ => true

/-- how the clause texts name a frame -/
def frameDesc : JVal → String
  | .null => "null"
  | .arr [] => "[] (an array without elements)"
  | .arr l =>
    if l.all notMsgShaped then s!"an array of {l.length} values none of which is an object"
    else s!"a batch of {l.length} elements"
  | .obj _ => "a single object"
  | _ => "a value that is neither an object nor an array"

def runBoth (st : IOState × List Slots) : List IOOp → (IOState × List Slots) × Bool
  | [] => (st, true)
  | op :: t =>
    let r := stepBoth st op
    let r' := runBoth r.1 t
    (r'.1, r.2 && r'.2)

end Wire
