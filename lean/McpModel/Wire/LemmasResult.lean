import McpModel.Wire.LemmasContent2
/-!
Proofs about `tools/call` results of raw tool handlers (`Wire.sdkCallTool`).
-/
namespace Wire.L
open Wire Generated.Wire

theorem lookup_callToolMembers_content (c : Option (List Content)) (s : Option JVal) (e : Bool) :
    lookup CallToolResult_Content_name (callToolMembers c s e) = encContentSlice CallToolResult_Content_omit c := by
  cases s <;> cases e <;> cases h : encContentSlice false c <;>
    simp [callToolMembers, members, member, lookup, h]

theorem lookup_callToolMembers_structured (c : Option (List Content)) (s : Option JVal) (e : Bool) :
    lookup CallToolResult_StructuredContent_name (callToolMembers c s e) = s := by
  cases s <;> cases e <;> cases h : encContentSlice false c <;>
    simp [callToolMembers, members, member, lookup, h]

theorem lookup_callToolMembers_isError (c : Option (List Content)) (s : Option JVal) (e : Bool) :
    lookup CallToolResult_IsError_name (callToolMembers c s e) = (if e then some (.bool true) else none) := by
  cases s <;> cases e <;> cases h : encContentSlice false c <;>
    simp [callToolMembers, members, member, lookup, h]

theorem encContentSlice_normalised (c : Option (List Content)) :
    encContentSlice CallToolResult_Content_omit (callToolNormalise c) = some (.arr (encodeContents (c.getD []))) := by
  cases c with
  | none => simp [callToolNormalise, encContentSlice, encodeContents]
  | some l => cases l <;> simp [callToolNormalise, encContentSlice, encodeContents]

/-- **call_tool_content_present.** Whatever a raw tool handler returns as a result — `Content` nil,
empty or not, `StructuredContent` nil or any value, `IsError` either way — the result the SDK sends has
a `content` member that is an ARRAY holding exactly the encodings of the handler's blocks (none for
nil), each with its required members; `structuredContent` is the handler's value, present iff set;
`isError` is present (true) iff set. -/
theorem call_tool_content_present (c : Option (List Content)) (s : Option JVal) (e : Bool) :
    ∃ ms, sdkCallTool (.result c s e) = .sent ms ∧
      lookup CallToolResult_Content_name ms = some (.arr (encodeContents (c.getD []))) ∧
      contentArrOK (lookup CallToolResult_Content_name ms) = true ∧
      lookup CallToolResult_StructuredContent_name ms = s ∧
      lookup CallToolResult_IsError_name ms = (if e then some (.bool true) else none) := by
  refine ⟨_, rfl, ?_, ?_, lookup_callToolMembers_structured _ _ _, lookup_callToolMembers_isError _ _ _⟩
  · rw [lookup_callToolMembers_content, encContentSlice_normalised]
  · rw [lookup_callToolMembers_content, encContentSlice_normalised]
    exact required_members_present_list _

/-- Why `Server.callTool` has to normalise: a nil `Content` slice marshalled as it is gives
`"content":null`, with or without structured content (the member has no `omitempty`). -/
theorem call_tool_unnormalised_null (s : Option JVal) (e : Bool) :
    lookup CallToolResult_Content_name (callToolMembers none s e) = some .null ∧
    contentArrOK (lookup CallToolResult_Content_name (callToolMembers none s e)) = false := by
  rw [lookup_callToolMembers_content]
  simp [encContentSlice, contentArrOK]

/-- A handler that returns no result and no error is answered like one that returned an empty
result (wire-F30 repaired): whatever the handler returns, nothing without a `content` array — with
every block carrying its required members — is ever sent as a `tools/call` result. -/
theorem call_tool_never_without_content (r : ToolRet) (ms : List (Bytes × JVal)) (h : sdkCallTool r = .sent ms) :
    contentArrOK (lookup CallToolResult_Content_name ms) = true := by
  cases r with
  | result c s e =>
    obtain ⟨ms', h1, _, h3, _⟩ := call_tool_content_present c s e
    rw [h1] at h
    cases h
    exact h3
  | nilResult =>
    obtain ⟨ms', h1, _, h3, _⟩ := call_tool_content_present none none false
    simp only [sdkCallTool] at h h1
    rw [h1] at h
    cases h
    exact h3
  | error => simp [sdkCallTool] at h

/-- the nil result goes out as `"content":[]` -/
example : sdkCallTool .nilResult = .sent [(CallToolResult_Content_name, .arr [])] := rfl

/-! ## list results page by page -/

/-- the list member `listPage` sends, for a paged method and a cursor that decodes -/
theorem listPage_sent (k : RKind) (hk : k.isPaged = true) (item : Bytes → JVal) (keys : List Bytes) (ps : Nat)
    (c : Cursor) (hc : c ≠ .garbage) :
    (listPage k item keys ps c).1 = .sent (.arr (((pageSeq keys c).take ps).map item)) := by
  cases c with
  | garbage => exact absurd rfl hc
  | first =>
    simp only [listPage]
    by_cases h : (pageSeq keys .first).take ps = [] <;> cases k <;>
      simp_all [RKind.isPaged, sdkResultList, nonNil, RList.enc]
  | after uid =>
    simp only [listPage]
    by_cases h : (pageSeq keys (.after uid)).take ps = [] <;> cases k <;>
      simp_all [RKind.isPaged, sdkResultList, nonNil, RList.enc]

/-- `above(uid)` at every position: if the keys split into a part none of which is above `uid` and a
part that is empty or starts with a key above `uid`, the sequence is the second part. -/
theorem keysAbove_split (uid : Bytes) (a b : List Bytes) (ha : ∀ k ∈ a, keyLt uid k = false)
    (hb : ∀ h t, b = h :: t → keyLt uid h = true) : keysAbove uid (a ++ b) = b := by
  unfold keysAbove
  induction a with
  | nil =>
    cases b with
    | nil => rfl
    | cons h t => simp [List.dropWhile, hb h t rfl]
  | cons x xs ih =>
    have hx := ha x (by simp)
    simp only [List.cons_append, List.dropWhile, hx, Bool.not_false, ite_true]
    exact ih (fun k hk => ha k (by simp [hk]))

/-- **required_lists_present, every cursor position.** -/
theorem required_lists_present_paged (k : RKind) (hk : k.isPaged = true) (item : Bytes → JVal) (keys : List Bytes)
    (ps : Nat) (c : Cursor) :
    (c = .garbage ∧ (listPage k item keys ps c).1 = .errorInstead) ∨
    (∃ items, (listPage k item keys ps c).1 = .sent (.arr items) ∧ items.length ≤ ps ∧
      items = ((pageSeq keys c).take ps).map item) := by
  by_cases hc : c = .garbage
  · subst hc; exact Or.inl ⟨rfl, rfl⟩
  · refine Or.inr ⟨_, listPage_sent k hk item keys ps c hc, ?_, rfl⟩
    simp only [List.length_map, List.length_take]
    omega

/-- a registry listed whole goes out as the array of its items, the empty registry as `[]` -/
theorem listAll_sent (item : Bytes → JVal) (keys : List Bytes) :
    listAll .listRoots item keys = .sent (.arr (keys.map item)) := by
  unfold listAll
  by_cases h : keys = []
  · subst h; rfl
  · simp only [h, if_false]; rfl

/-- … in every state a registry can be in -/
theorem listReg_sent (k : RKind) (hk : k.isListed = true) (item : Bytes → JVal) (keys : List Bytes) (ps : Nat)
    (c : Cursor) (hc : c ≠ .garbage) : ∃ items, (listReg k item keys ps c).1 = .sent (.arr items) := by
  unfold listReg
  by_cases hp : k.isPaged = true
  · simp only [hp, if_true]; exact ⟨_, listPage_sent k hp item keys ps c hc⟩
  · have : k = .listRoots := by cases k <;> simp_all [RKind.isListed, RKind.isPaged]
    subst this
    simp only [RKind.isPaged, Bool.false_eq_true, if_false]
    exact ⟨_, listAll_sent item keys⟩

/-- **list_page_beyond_last_is_empty_array.** -/
theorem list_page_beyond_last (k : RKind) (hk : k.isPaged = true) (item : Bytes → JVal) (keys : List Bytes)
    (ps : Nat) (uid : Bytes) (h : ∀ x ∈ keys, keyLt uid x = false) :
    listPage k item keys ps (.after uid) = (.sent (.arr []), none) := by
  have hs : pageSeq keys (.after uid) = [] := by
    have := keysAbove_split uid keys [] h (by intro _ _ hh; cases hh)
    simpa [pageSeq] using this
  have h1 := listPage_sent k hk item keys ps (.after uid) (by simp)
  rw [hs] at h1
  have h2 : (listPage k item keys ps (.after uid)).2 = none := by
    simp [listPage, hs]
  rw [Prod.ext_iff]
  exact ⟨by simpa using h1, h2⟩

theorem list_page_at_position (k : RKind) (hk : k.isPaged = true) (item : Bytes → JVal) (a b : List Bytes)
    (ps : Nat) (uid : Bytes) (ha : ∀ x ∈ a, keyLt uid x = false) (hb : ∀ h t, b = h :: t → keyLt uid h = true) :
    (listPage k item (a ++ b) ps (.after uid)).1 = .sent (.arr ((b.take ps).map item)) := by
  rw [listPage_sent k hk item (a ++ b) ps (.after uid) (by simp)]
  simp only [pageSeq, keysAbove_split uid a b ha hb]

theorem keyLt_irrefl (a : Bytes) : keyLt a a = false := by
  induction a with
  | nil => rfl
  | cons x xs ih => simp [keyLt, ih]

/-- Non-vacuity: three tools, page size 2; the cursor the first page issued ("b"), used after "c" was
removed, is answered with the empty array and no further cursor. -/
example : listPage .listTools (fun k => .str k) [[97], [98], [99]] 2 .first = (.sent (.arr [.str [97], .str [98]]), some [98]) := by
  rfl
example : listPage .listTools (fun k => .str k) [[97], [98]] 2 (.after [98]) = (.sent (.arr []), none) := by rfl

end Wire.L
