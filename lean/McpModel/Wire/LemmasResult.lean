import McpModel.Wire.LemmasContent2
/-!
Proofs about `tools/call` results of raw tool handlers (`Wire.sdkCallTool`).
-/
namespace Wire.L
open Wire Generated.Wire

theorem lookup_callToolMembers_content (c : Option (List Content)) (s : Option JVal) (e : Bool) :
    lookup CallToolResult_Content_name (callToolMembers c s e) = encContentSlice CallToolResult_Content_omit c := by
  cases s <;> cases e <;> cases h : encContentSlice false c <;>
    simp [callToolMembers, members, member, lookup, h]

theorem lookup_callToolMembers_structured (c : Option (List Content)) (s : Option JVal) (e : Bool) :
    lookup CallToolResult_StructuredContent_name (callToolMembers c s e) = s := by
  cases s <;> cases e <;> cases h : encContentSlice false c <;>
    simp [callToolMembers, members, member, lookup, h]

theorem lookup_callToolMembers_isError (c : Option (List Content)) (s : Option JVal) (e : Bool) :
    lookup CallToolResult_IsError_name (callToolMembers c s e) = (if e then some (.bool true) else none) := by
  cases s <;> cases e <;> cases h : encContentSlice false c <;>
    simp [callToolMembers, members, member, lookup, h]

theorem encContentSlice_normalised (c : Option (List Content)) :
    encContentSlice CallToolResult_Content_omit (callToolNormalise c) = some (.arr (encodeContents (c.getD []))) := by
  cases c with
  | none => simp [callToolNormalise, encContentSlice, encodeContents]
  | some l => cases l <;> simp [callToolNormalise, encContentSlice, encodeContents]

/-- **call_tool_content_present.** Whatever a raw tool handler returns as a result — `Content` nil,
empty or not, `StructuredContent` nil or any value, `IsError` either way — the result the SDK sends has
a `content` member that is an ARRAY holding exactly the encodings of the handler's blocks (none for
nil), each with its required members; `structuredContent` is the handler's value, present iff set;
`isError` is present (true) iff set. -/
theorem call_tool_content_present (c : Option (List Content)) (s : Option JVal) (e : Bool) :
    ∃ ms, sdkCallTool (.result c s e) = .sent ms ∧
      lookup CallToolResult_Content_name ms = some (.arr (encodeContents (c.getD []))) ∧
      contentArrOK (lookup CallToolResult_Content_name ms) = true ∧
      lookup CallToolResult_StructuredContent_name ms = s ∧
      lookup CallToolResult_IsError_name ms = (if e then some (.bool true) else none) := by
  refine ⟨_, rfl, ?_, ?_, lookup_callToolMembers_structured _ _ _, lookup_callToolMembers_isError _ _ _⟩
  · rw [lookup_callToolMembers_content, encContentSlice_normalised]
  · rw [lookup_callToolMembers_content, encContentSlice_normalised]
    exact required_members_present_list _

/-- Why `Server.callTool` has to normalise: a nil `Content` slice marshalled as it is gives
`"content":null`, with or without structured content (the member has no `omitempty`). -/
theorem call_tool_unnormalised_null (s : Option JVal) (e : Bool) :
    lookup CallToolResult_Content_name (callToolMembers none s e) = some .null ∧
    contentArrOK (lookup CallToolResult_Content_name (callToolMembers none s e)) = false := by
  rw [lookup_callToolMembers_content]
  simp [encContentSlice, contentArrOK]

/-- A handler that returns no result and no error is answered like one that returned an empty
result (wire-F30 repaired): whatever the handler returns, nothing without a `content` array — with
every block carrying its required members — is ever sent as a `tools/call` result. -/
theorem call_tool_never_without_content (r : ToolRet) (ms : List (Bytes × JVal)) (h : sdkCallTool r = .sent ms) :
    contentArrOK (lookup CallToolResult_Content_name ms) = true := by
  cases r with
  | result c s e =>
    obtain ⟨ms', h1, _, h3, _⟩ := call_tool_content_present c s e
    rw [h1] at h
    cases h
    exact h3
  | nilResult =>
    obtain ⟨ms', h1, _, h3, _⟩ := call_tool_content_present none none false
    simp only [sdkCallTool] at h h1
    rw [h1] at h
    cases h
    exact h3
  | error => simp [sdkCallTool] at h

/-- the nil result goes out as `"content":[]` -/
example : sdkCallTool .nilResult = .sent [(CallToolResult_Content_name, .arr [])] := rfl

end Wire.L
