import McpModel.Wire.Content
/-!
# E2 Wire — required list members of results the SDK sends (`mcp/server.go`, `mcp/client.go`)

The part of the result path that is SDK code: after the feature handler returns, the method handler
replaces a nil list by an empty one ("avoid JSON null") before the result is marshalled.
REPAIRED behaviour (fix F15): `prompts/get` and `completion/complete` normalise too.
Only complete results are modelled (an `input_required` result legitimately carries no list).
-/
namespace Wire

/-- Methods whose result has a required list member. -/
inductive RKind where
  | listTools | listPrompts | listResources | listResourceTemplates | listRoots
  | callTool | getPrompt | complete | readResource
deriving DecidableEq, Repr, Inhabited

/-- The list as the handler / feature registry left it. -/
inductive RList where
  | nil                        -- nil slice
  | items (l : List JVal)      -- non-nil slice
  | noResult                   -- the user handler returned `(nil, nil)`: no result value at all
deriving Repr, Inhabited

/-- `json.Marshal` of a slice member without `omitempty` -/
def RList.enc : RList → JVal
  | .nil => .null
  | .items l => .arr l
  | .noResult => .null

inductive ROut where
  | sent (list : JVal)        -- the result is sent with this value for the list member
  | errorInstead              -- the handler returns an error; no result is sent
deriving Repr, Inhabited

/-- nil slice → empty slice; a missing result is first replaced by a zero result (fix wire-F30) -/
def nonNil : RList → RList
  | .nil => .items []
  | .noResult => .items []
  | l => l

/-- What the SDK's method handler does with the list before the result goes out. -/
def sdkResultList (k : RKind) (l : RList) : ROut :=
  match k with
  | .listTools | .listPrompts | .listResources | .listResourceTemplates =>
    -- built by the SDK from its registry, starting from an empty non-nil slice
    .sent (nonNil l).enc
  | .listRoots => .sent (nonNil l).enc          -- client.go: `roots = []*Root{}`
  | .callTool => .sent (nonNil l).enc           -- server.go: `res2.Content = []Content{}`
  | .getPrompt => .sent (nonNil l).enc          -- fix F15
  | .complete => .sent (nonNil l).enc           -- fix F15
  | .readResource =>
    match l with
    | .nil => .errorInstead                     -- "read handler returned nil information"
    | .noResult => .errorInstead                -- the same message, for a nil result
    | l => .sent l.enc

/-- Member path of the required list in the result object. -/
def RKind.path : RKind → List Bytes
  | .listTools => [[116, 111, 111, 108, 115]]
  | .listPrompts => [[112, 114, 111, 109, 112, 116, 115]]
  | .listResources => [[114, 101, 115, 111, 117, 114, 99, 101, 115]]
  | .listResourceTemplates => [[114, 101, 115, 111, 117, 114, 99, 101, 84, 101, 109, 112, 108, 97, 116, 101, 115]]
  | .listRoots => [[114, 111, 111, 116, 115]]
  | .callTool => [[99, 111, 110, 116, 101, 110, 116]]
  | .getPrompt => [[109, 101, 115, 115, 97, 103, 101, 115]]
  | .complete => [[99, 111, 109, 112, 108, 101, 116, 105, 111, 110], [118, 97, 108, 117, 101, 115]]
  | .readResource => [[99, 111, 110, 116, 101, 110, 116, 115]]

def getPath : List Bytes → JVal → Option JVal
  | [], v => some v
  | k :: t, .obj kvs => match lookup k kvs with
    | some v => getPath t v
    | none => none
  | _, _ => none

def isArrJ : Option JVal → Bool
  | some (.arr _) => true
  | _ => false

/-! ## `tools/call` through a raw `ToolHandler` (`Server.AddTool`, `Server.callTool`)

The low-level handler's result goes out as it is ("without any validation of the output"), except
for what `Server.callTool` does to it.  Modelled: the three members of `CallToolResult` that the
handler determines and that the schema speaks about — `content` (required array), `structuredContent`,
`isError` (tags from `Generated.Wire`); `_meta` and `resultType` depend on the protocol version of the
session and are taken from the implementation. -/

open Generated.Wire in
/-- What a raw tool handler returns. -/
inductive ToolRet where
  | result (content : Option (List Content)) (structured : Option JVal) (isError : Bool)
      -- `Content`: `none` = nil slice; `StructuredContent`: `none` = nil interface
  | nilResult          -- `(nil, nil)`
  | error              -- `(_, err)` with `err != nil`
deriving Repr, Inhabited

/-- `json.Marshal` of the `Content []Content` member with the given `omitempty` flag. -/
def encContentSlice (om : Bool) : Option (List Content) → Option JVal
  | none => if om then none else some .null
  | some [] => if om then none else some (.arr [])
  | some cs => some (.arr (encodeContents cs))

/-- `Server.callTool` on a complete result: `if res.Content == nil { res2.Content = []Content{} }`. -/
def callToolNormalise (content : Option (List Content)) : Option (List Content) := some (content.getD [])

open Generated.Wire in
/-- The members of a `CallToolResult` the handler determines, as `json.Marshal` writes them. -/
def callToolMembers (content : Option (List Content)) (structured : Option JVal) (isError : Bool) :
    List (Bytes × JVal) :=
  members [
    (CallToolResult_Content_name, encContentSlice CallToolResult_Content_omit content),
    member CallToolResult_StructuredContent_name CallToolResult_StructuredContent_omit structured .null,
    member CallToolResult_IsError_name CallToolResult_IsError_omit (if isError then some (.bool true) else none) (.bool false)]

inductive CallOut where
  | sent (members : List (Bytes × JVal))   -- a result carrying (at least) these members
  | errorInstead                           -- an error response
deriving Repr, Inhabited

/-- What the SDK sends for a `tools/call` whose raw handler returned `r`.  A nil result with a nil
error is treated as an empty result (REPAIRED behaviour, fix wire-F30; the typed `AddTool` wrapper
always did that: `if res == nil { res = &CallToolResult{} }`). -/
def sdkCallTool : ToolRet → CallOut
  | .result c s e => .sent (callToolMembers (callToolNormalise c) s e)
  | .nilResult => .sent (callToolMembers (callToolNormalise none) none false)
  | .error => .errorInstead

/-- every block of a `content` array carries its required members -/
def contentArrOK : Option JVal → Bool
  | some (.arr l) => reqList l
  | _ => false

end Wire
