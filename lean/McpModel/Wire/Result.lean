import McpModel.Wire.Content
/-!
# E2 Wire — required list members of results the SDK sends (`mcp/server.go`, `mcp/client.go`)

The part of the result path that is SDK code: after the feature handler returns, the method handler
replaces a nil list by an empty one ("avoid JSON null") before the result is marshalled.
REPAIRED behaviour (fix F15): `prompts/get` and `completion/complete` normalise too.
Only complete results are modelled (an `input_required` result legitimately carries no list).
-/
namespace Wire

/-- Methods whose result has a required list member. -/
inductive RKind where
  | listTools | listPrompts | listResources | listResourceTemplates | listRoots
  | callTool | getPrompt | complete | readResource
deriving DecidableEq, Repr, Inhabited

/-- The list as the handler / feature registry left it. -/
inductive RList where
  | nil                        -- nil slice
  | items (l : List JVal)      -- non-nil slice
  | noResult                   -- the user handler returned `(nil, nil)`: no result value at all
deriving Repr, Inhabited

/-- `json.Marshal` of a slice member without `omitempty` -/
def RList.enc : RList → JVal
  | .nil => .null
  | .items l => .arr l
  | .noResult => .null

inductive ROut where
  | sent (list : JVal)        -- the result is sent with this value for the list member
  | errorInstead              -- the handler returns an error; no result is sent
deriving Repr, Inhabited

/-- nil slice → empty slice; a missing result is first replaced by a zero result (fix wire-F30) -/
def nonNil : RList → RList
  | .nil => .items []
  | .noResult => .items []
  | l => l

/-- What the SDK's method handler does with the list before the result goes out. -/
def sdkResultList (k : RKind) (l : RList) : ROut :=
  match k with
  | .listTools | .listPrompts | .listResources | .listResourceTemplates =>
    -- built by the SDK from its registry, starting from an empty non-nil slice
    .sent (nonNil l).enc
  | .listRoots => .sent (nonNil l).enc          -- client.go: `roots = []*Root{}`
  | .callTool => .sent (nonNil l).enc           -- server.go: `res2.Content = []Content{}`
  | .getPrompt => .sent (nonNil l).enc          -- fix F15
  | .complete => .sent (nonNil l).enc           -- fix F15
  | .readResource =>
    match l with
    | .nil => .errorInstead                     -- "read handler returned nil information"
    | .noResult => .errorInstead                -- the same message, for a nil result
    | l => .sent l.enc

/-- Member path of the required list in the result object. -/
def RKind.path : RKind → List Bytes
  | .listTools => [[116, 111, 111, 108, 115]]
  | .listPrompts => [[112, 114, 111, 109, 112, 116, 115]]
  | .listResources => [[114, 101, 115, 111, 117, 114, 99, 101, 115]]
  | .listResourceTemplates => [[114, 101, 115, 111, 117, 114, 99, 101, 84, 101, 109, 112, 108, 97, 116, 101, 115]]
  | .listRoots => [[114, 111, 111, 116, 115]]
  | .callTool => [[99, 111, 110, 116, 101, 110, 116]]
  | .getPrompt => [[109, 101, 115, 115, 97, 103, 101, 115]]
  | .complete => [[99, 111, 109, 112, 108, 101, 116, 105, 111, 110], [118, 97, 108, 117, 101, 115]]
  | .readResource => [[99, 111, 110, 116, 101, 110, 116, 115]]

def getPath : List Bytes → JVal → Option JVal
  | [], v => some v
  | k :: t, .obj kvs => match lookup k kvs with
    | some v => getPath t v
    | none => none
  | _, _ => none

def isArrJ : Option JVal → Bool
  | some (.arr _) => true
  | _ => false

/-! ## list results page by page (`paginateList`, `featureSet.above`; `mcp/server.go`, `mcp/features.go`)

What a `tools/list` / `prompts/list` / `resources/list` / `resources/templates/list` request is
answered with, as far as the required list member goes, for EVERY registry, page size and cursor: no
cursor, a cursor the server issued earlier (possibly stale: features were removed or added since), a
forged but well-formed one naming any string — below, at, between or beyond the keys.  The cursor
codec (gob + base64) is abstract: a cursor either decodes to a uid or it does not. -/

/-- byte-wise `<` on strings, as Go compares them -/
def keyLt : Bytes → Bytes → Bool
  | [], [] => false
  | [], _ :: _ => true
  | _ :: _, [] => false
  | a :: as, b :: bs => if a < b then true else if b < a then false else keyLt as bs

inductive Cursor where
  | first                 -- no cursor, or the empty string
  | after (uid : Bytes)   -- decodes to a page token naming `uid`
  | garbage               -- does not decode
deriving DecidableEq, Repr, Inhabited

/-- `featureSet.above(uid)` on the sorted key list: from the binary-search position of `uid` on (one
further if found) — i.e. without the leading keys that are not above `uid`. -/
def keysAbove (uid : Bytes) (keys : List Bytes) : List Bytes := keys.dropWhile (fun k => !keyLt uid k)

/-- the sequence `paginateList` ranges over -/
def pageSeq (keys : List Bytes) : Cursor → List Bytes
  | .after uid => keysAbove uid keys
  | _ => keys

/-- `paginateList` + the `setFunc` of the four list handlers: the `features` slice stays nil when the
loop appends nothing; `setFunc` starts from an empty NON-NIL slice ("avoid JSON null") and is reached
on every path that returns a result.  `item` is the wire form of a feature.  Result: what is sent for
the list member, and the uid the next cursor names. -/
def listPage (k : RKind) (item : Bytes → JVal) (keys : List Bytes) (pageSize : Nat) (c : Cursor) : ROut × Option Bytes :=
  match c with
  | .garbage => (.errorInstead, none)            -- `jsonrpc2.ErrInvalidParams`
  | c =>
    let seq := pageSeq keys c
    let feats := seq.take pageSize
    let l : RList := if feats = [] then .nil else .items (feats.map item)
    (sdkResultList k l, if pageSize < seq.length then feats.getLast? else none)

def RKind.isPaged : RKind → Bool
  | .listTools | .listPrompts | .listResources | .listResourceTemplates => true
  | _ => false

/-- insertion into the sorted key list (`featureSet.add`: a map; the sorted index is rebuilt) -/
def keyInsert (k : Bytes) : List Bytes → List Bytes
  | [] => [k]
  | h :: t => if keyLt k h then k :: h :: t else if k = h then h :: t else h :: keyInsert k t

/-! ## a registry listed whole (`Client.listRoots`: `slices.Collect(c.roots.all())`, then "avoid JSON null")

`featureSet.all` yields the features in key order; `slices.Collect` of a sequence that yields nothing
is the NIL slice — whatever happened to the set before (never touched, or filled and emptied again).
The state of a `featureSet` is its key set: `add` inserts, `remove` deletes the named keys that are
there; nothing else of the history survives. -/

/-- an `add(uids…)` / `remove(uids…)` call on a feature set -/
inductive RegOp where
  | add (uids : List Bytes)
  | rm (uids : List Bytes)
deriving Repr, Inhabited

def RegOp.apply (keys : List Bytes) : RegOp → List Bytes
  | .add uids => uids.foldl (fun l u => keyInsert u l) keys
  | .rm uids => keys.filter (fun u => !uids.contains u)

/-- the registry after a history of calls, from the empty set of `newFeatureSet` -/
def regAfter (h : List RegOp) : List Bytes := h.foldl RegOp.apply []

/-- the result of listing the whole registry: the collected slice is nil iff there is no key -/
def listAll (k : RKind) (item : Bytes → JVal) (keys : List Bytes) : ROut :=
  sdkResultList k (if keys = [] then .nil else .items (keys.map item))

/-- registries the harness fills and empties: the server's four paged ones and the client's roots -/
def RKind.isListed (k : RKind) : Bool := k.isPaged || k == .listRoots

/-- a list request against a registry: page by page (server features) or whole (roots; no cursor) -/
def listReg (k : RKind) (item : Bytes → JVal) (keys : List Bytes) (pageSize : Nat) (c : Cursor) : ROut × Option Bytes :=
  if k.isPaged then listPage k item keys pageSize c else (listAll k item keys, none)

/-! ## `tools/call` through a raw `ToolHandler` (`Server.AddTool`, `Server.callTool`)

The low-level handler's result goes out as it is ("without any validation of the output"), except
for what `Server.callTool` does to it.  Modelled: the three members of `CallToolResult` that the
handler determines and that the schema speaks about — `content` (required array), `structuredContent`,
`isError` (tags from `Generated.Wire`); `_meta` and `resultType` depend on the protocol version of the
session and are taken from the implementation. -/

open Generated.Wire in
/-- What a raw tool handler returns. -/
inductive ToolRet where
  | result (content : Option (List Content)) (structured : Option JVal) (isError : Bool)
      -- `Content`: `none` = nil slice; `StructuredContent`: `none` = nil interface
  | nilResult          -- `(nil, nil)`
  | error              -- `(_, err)` with `err != nil`
deriving Repr, Inhabited

/-- `json.Marshal` of the `Content []Content` member with the given `omitempty` flag. -/
def encContentSlice (om : Bool) : Option (List Content) → Option JVal
  | none => if om then none else some .null
  | some [] => if om then none else some (.arr [])
  | some cs => some (.arr (encodeContents cs))

/-- `Server.callTool` on a complete result: `if res.Content == nil { res2.Content = []Content{} }`. -/
def callToolNormalise (content : Option (List Content)) : Option (List Content) := some (content.getD [])

open Generated.Wire in
/-- The members of a `CallToolResult` the handler determines, as `json.Marshal` writes them. -/
def callToolMembers (content : Option (List Content)) (structured : Option JVal) (isError : Bool) :
    List (Bytes × JVal) :=
  members [
    (CallToolResult_Content_name, encContentSlice CallToolResult_Content_omit content),
    member CallToolResult_StructuredContent_name CallToolResult_StructuredContent_omit structured .null,
    member CallToolResult_IsError_name CallToolResult_IsError_omit (if isError then some (.bool true) else none) (.bool false)]

inductive CallOut where
  | sent (members : List (Bytes × JVal))   -- a result carrying (at least) these members
  | errorInstead                           -- an error response
deriving Repr, Inhabited

/-- What the SDK sends for a `tools/call` whose raw handler returned `r`.  A nil result with a nil
error is treated as an empty result (REPAIRED behaviour, fix wire-F30; the typed `AddTool` wrapper
always did that: `if res == nil { res = &CallToolResult{} }`). -/
def sdkCallTool : ToolRet → CallOut
  | .result c s e => .sent (callToolMembers (callToolNormalise c) s e)
  | .nilResult => .sent (callToolMembers (callToolNormalise none) none false)
  | .error => .errorInstead

/-- every block of a `content` array carries its required members -/
def contentArrOK : Option JVal → Bool
  | some (.arr l) => reqList l
  | _ => false

end Wire
