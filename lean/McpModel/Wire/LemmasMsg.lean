import McpModel.Wire.Msg
/-!
# C19 / C02 — message codec theorems (`encodeMsg`, `decodeMsg`, ids, `toWireError`)
All statements are over ALL messages / JSON values; nothing is bounded.
-/
namespace Wire.L
open Wire Generated.Wire

/-- **decode_encode_msg** (C19). Every well-formed message — any id (string incl. empty, any int64),
any params/result value, any error with data — decodes from its own encoding to itself. -/
theorem decode_encode_msg (m : Msg) (h : wfMsg m = true) : decodeMsg (encodeMsg m) = .ok m := by
  cases m with
  | request id method params =>
    simp only [wfMsg, Bool.and_eq_true, decide_eq_true_eq] at h
    obtain ⟨hm, hid⟩ := h
    cases id with
    | none => cases params <;>
        simp [encodeMsg, decodeMsg, members, member, encodeId, lookup, hm, wireVersion, asString, asRaw, asWErr]
    | int n =>
      simp only at hid
      cases params <;>
        simp [encodeMsg, decodeMsg, members, member, encodeId, lookup, hm, wireVersion, asString, asRaw, asWErr, decodeID, hid]
    | str s => cases params <;>
        simp [encodeMsg, decodeMsg, members, member, encodeId, lookup, hm, wireVersion, asString, asRaw, asWErr, decodeID, makeIDFloat]
  | response id result error =>
    simp only [wfMsg, Bool.and_eq_true] at h
    obtain ⟨hid, he⟩ := h
    have herr : ∀ e : WErr, inInt64 e.code = true →
        asWErr (some (encodeErr e)) = .ok (some e) := by
      intro e hc
      obtain ⟨code, msg, data⟩ := e
      simp only at hc
      by_cases h0 : code = 0 <;> by_cases hm : msg = [] <;> cases data <;>
        simp [encodeErr, members, member, asWErr, lookup, asInt64, asString, asRaw, h0, hm, hc]
      all_goals (first | (subst h0; decide) | (simp [inInt64, minInt64, maxInt64]))
    cases id with
    | none => simp at hid
    | int n =>
      simp only at hid
      cases result <;> cases error <;>
        simp [encodeMsg, decodeMsg, members, member, encodeId, lookup, wireVersion, asString, asRaw, decodeID, hid]
      all_goals first
        | (simp [asWErr]; done)
        | (rename_i e; simp [herr e he])
        | (rename_i v e; simp [herr e he])
    | str s =>
      cases result <;> cases error <;>
        simp [encodeMsg, decodeMsg, members, member, encodeId, lookup, wireVersion, asString, asRaw, decodeID, makeIDFloat]
      all_goals first
        | (simp [asWErr]; done)
        | (rename_i e; simp [herr e he])
        | (rename_i v e; simp [herr e he])

/-- A valid `error` member decodes, and its code, message and data are what re-encoding writes. -/
theorem asWErr_valid (ev : Option JVal) (he : validErr ev = true) :
    ∃ we : Option WErr, asWErr ev = .ok we ∧
      errOf (we.map encodeErr) WireError_Code_name = errOf ev WireError_Code_name ∧
      errOf (we.map encodeErr) WireError_Message_name = errOf ev WireError_Message_name ∧
      errOf (we.map encodeErr) WireError_Data_name = errOf ev WireError_Data_name := by
  rcases ev with _ | ej
  · exact ⟨none, by simp [asWErr], by simp [errOf], by simp [errOf], by simp [errOf]⟩
  · cases ej <;> try (simp [validErr] at he; done)
    rename_i e
    simp only [validErr, Bool.and_eq_true] at he
    simp only [asWErr, errOf]
    generalize lookup WireError_Code_name e = cv at *
    generalize lookup WireError_Message_name e = mv at *
    generalize lookup WireError_Data_name e = dv at *
    obtain ⟨hc, hmsg⟩ := he
    rcases cv with _ | cj
    · simp at hc
    cases cj <;> try (simp at hc; done)
    rename_i code
    rcases mv with _ | mj
    · simp at hmsg
    cases mj <;> try (simp at hmsg; done)
    rename_i msg
    simp only at hc
    refine ⟨some ⟨code, msg, dv⟩, by simp [asInt64, asString, asRaw, hc], ?_, ?_, ?_⟩ <;>
      (by_cases h0 : code = 0 <;> by_cases hm0 : msg = [] <;> cases dv <;>
        simp [encodeErr, members, member, lookup, h0, hm0])

/-- **encode_decode_preserves** (C19). Every valid wire message `w` (see `validWire`: any string id,
any int64 id, any params/result value, any error object with int64 code, string message and optional
data, unknown extra members allowed) decodes, and re-encoding the decoded message preserves the
version tag, the id (type and exact value), method, params, result and the error's code, message
and data. -/
theorem encode_decode_preserves (w : JVal) (h : validWire w = true) :
    ∃ m, decodeMsg w = .ok m ∧ proj (encodeMsg m) = proj w := by
  cases w with
  | obj kvs =>
    simp only [validWire] at h
    simp only [decodeMsg, proj, errMember]
    generalize lookup wireDecode_VersionTag_name kvs = tag at *
    generalize lookup wireDecode_ID_name kvs = idv at *
    generalize lookup wireDecode_Method_name kvs = mv at *
    generalize lookup wireDecode_Params_name kvs = pv at *
    generalize lookup wireDecode_Result_name kvs = rv at *
    generalize lookup wireDecode_Error_name kvs = ev at *
    simp only [Bool.and_eq_true] at h
    obtain ⟨⟨h1, h2⟩, h3⟩ := h
    rcases tag with _ | t
    · simp at h1
    cases t <;> try (simp at h1; done)
    rename_i v
    simp only [decide_eq_true_eq] at h1
    subst h1
    rcases mv with _ | mj
    · -- response
      simp only [Bool.and_eq_true, Option.isSome_iff_ne_none, Option.isNone_iff_eq_none] at h3
      obtain ⟨⟨hid, hp⟩, he⟩ := h3
      subst hp
      obtain ⟨we, hw, e1, e2, e3⟩ := asWErr_valid ev he
      rcases idv with _ | ij
      · exact absurd rfl hid
      · cases ij <;> try (simp at h2; done)
        · rename_i n
          simp only at h2
          refine ⟨.response (.int n) rv we, by simp [asString, asRaw, hw, wireVersion, decodeID, h2], ?_⟩
          rw [← e1, ← e2, ← e3]
          cases rv <;> cases we <;> simp [encodeMsg, members, member, lookup, encodeId, wireVersion, errOf]
        · rename_i s
          refine ⟨.response (.str s) rv we, by simp [asString, asRaw, hw, wireVersion, decodeID, makeIDFloat], ?_⟩
          rw [← e1, ← e2, ← e3]
          cases rv <;> cases we <;> simp [encodeMsg, members, member, lookup, encodeId, wireVersion, errOf]
    · cases mj <;> try (simp at h3; done)
      rename_i m
      simp only [Bool.and_eq_true, decide_eq_true_eq, Option.isNone_iff_eq_none] at h3
      obtain ⟨⟨hm, hr⟩, he⟩ := h3
      subst hr; subst he
      rcases idv with _ | ij
      · cases pv <;> simp [asString, asRaw, asWErr, wireVersion, encodeMsg, members, member, lookup, hm, encodeId, errOf]
      · cases ij <;> try (simp at h2; done)
        · rename_i n
          simp only at h2
          cases pv <;> simp [asString, asRaw, asWErr, wireVersion, encodeMsg, members, member, lookup, hm, encodeId, decodeID, h2, errOf]
        · cases pv <;> simp [asString, asRaw, asWErr, wireVersion, encodeMsg, members, member, lookup, hm, encodeId, decodeID, makeIDFloat, errOf]
  | _ => simp [validWire] at h

/-! ## ids -/

/-- **id_echo_exact** (C02/C19), value form: an id the SDK holds — any string, any int64 — is
written and read back unchanged. -/
theorem id_echo_exact (id : Id) (h : ∀ n, id = .int n → inInt64 n = true) :
    (match encodeId id with
      | none => Except.ok Id.none
      | some v => decodeID v) = .ok id := by
  cases id with
  | none => rfl
  | int n => simp [encodeId, decodeID, h n rfl]
  | str s => simp [encodeId, decodeID, makeIDFloat]

/-- **id_echo_exact**, wire form: an id token that is a string or an integer literal anywhere in the
int64 range is decoded and re-encoded to the identical token (same JSON type, same value). -/
theorem id_echo_exact_wire (v : JVal)
    (h : (∃ s, v = .str s) ∨ (∃ n, v = .int n ∧ inInt64 n = true)) :
    (decodeID v).map encodeId = .ok (some v) := by
  rcases h with ⟨s, rfl⟩ | ⟨n, rfl, hn⟩
  · simp [decodeID, makeIDFloat, encodeId, Except.map]
  · simp [decodeID, hn, encodeId, Except.map]

/-- Non-vacuity / the F1 witnesses on the REPAIRED decoder: 2^53+1 and 2^63−1 survive. -/
example : (decodeID (.int 9007199254740993)).map encodeId = .ok (some (.int 9007199254740993)) := by decide
example : (decodeID (.int 9223372036854775807)).map encodeId = .ok (some (.int 9223372036854775807)) := by decide

/-- F1, counter-example on the UNREPAIRED id path (`MakeID` of a `float64`): 2^53+1 ↦ 2^53. -/
theorem f1_counterexample_2p53 : makeIDFloat (.int 9007199254740993) = .ok (.int 9007199254740992) := by decide
/-- F1: 2^63−1 ↦ −2^63 (the float rounds up to 2^63, the conversion overflows). -/
theorem f1_counterexample_maxint64 : makeIDFloat (.int 9223372036854775807) = .ok (.int (-9223372036854775808)) := by decide
/-- Below 2^53 the old path was already exact (spot values; the general statement needs float theory
that the repaired decoder makes unnecessary). -/
example : makeIDFloat (.int 9007199254740992) = .ok (.int 9007199254740992) := by decide
example : makeIDFloat (.int (-9007199254740991)) = .ok (.int (-9007199254740991)) := by decide
/-- The fractional/exponent forms still take the float path: truncation toward zero. -/
example : decodeID (.dec 15 (-1)) = .ok (.int 1) := by decide
example : decodeID (.dec 1 3) = .ok (.int 1000) := by decide
example : decodeID (.dec 99999999999999999 (-17)) = .ok (.int 1) := by decide

/-! ## error wrapping -/

/-- **wire_error_wrap** (C19). A `*WireError` goes out unchanged (code, message, data). Any other error
goes out with ITS OWN text as message, no data, and the code of the first `*WireError` found in its
`Unwrap` tree (pre-order), 0 if there is none. -/
theorem wire_error_wrap (e : GoErr) :
    (∀ w, e = .wire w → toWireError e = w) ∧
    (∀ msg ws, e = .other msg ws →
      (toWireError e).message = msg ∧ (toWireError e).data = none ∧
      (toWireError e).code = (match (GoErr.other msg ws).firstWire with | some w => w.code | none => 0)) := by
  constructor
  · intro w h; subst h; rfl
  · intro msg ws h; subst h
    simp only [toWireError, GoErr.firstWire]
    exact ⟨trivial, trivial, rfl⟩

theorem firstWire_chain (ms : List Bytes) (w : WErr) : (chain ms w).firstWire = some w := by
  induction ms with
  | nil => simp [chain, GoErr.firstWire]
  | cons m ms ih => simp [chain, GoErr.firstWire, firstWireL, ih]

/-- **wire_error_wrap**, chain form: however deep a wire error is wrapped, the code on the wire is
the wrapped wire error's, the message is the outermost error's. -/
theorem wire_error_wrap_chain (m : Bytes) (ms : List Bytes) (w : WErr) :
    toWireError (chain (m :: ms) w) = { code := w.code, message := m, data := none } := by
  have := firstWire_chain ms w
  simp [chain, toWireError, firstWireL, this]

example : toWireError (.other [104, 105] [.other [120] [], .wire ⟨-32602, [112], some .null⟩]) =
    { code := -32602, message := [104, 105], data := none } := by decide

/-! ## case sensitivity and totality -/

theorem lookup_insert_ne (k k' : Bytes) (v : JVal) (a b : List (Bytes × JVal)) (h : k' ≠ k) :
    lookup k (a ++ (k', v) :: b) = lookup k (a ++ b) := by
  induction a with
  | nil => simp only [List.nil_append, lookup, if_neg h]; cases lookup k b <;> rfl
  | cons p a ih => obtain ⟨pk, pv⟩ := p; simp [lookup, ih]

/-- **decode_case_sensitive** (C19). A member whose name is not EXACTLY one of the six wire names —
in particular any name that differs from one of them only in case — has no influence on decoding,
wherever it stands in the object. -/
theorem decode_case_sensitive (k : Bytes) (v : JVal) (a b : List (Bytes × JVal)) (h : k ∉ wireNames) :
    decodeMsg (.obj (a ++ (k, v) :: b)) = decodeMsg (.obj (a ++ b)) := by
  simp only [wireNames, List.mem_cons, List.not_mem_nil, or_false, not_or] at h
  obtain ⟨h1, h2, h3, h4, h5, h6⟩ := h
  simp only [decodeMsg]
  rw [lookup_insert_ne _ k v a b h1, lookup_insert_ne _ k v a b h2, lookup_insert_ne _ k v a b h3,
    lookup_insert_ne _ k v a b h4, lookup_insert_ne _ k v a b h5, lookup_insert_ne _ k v a b h6]

/-- The `error` object is decoded case-sensitively too: a member of it whose name is not EXACTLY `code`,
`message` or `data` has no influence on the decoded error, wherever it stands in the object. -/
theorem asWErr_case_sensitive (k : Bytes) (v : JVal) (ea eb : List (Bytes × JVal)) (h : k ∉ wireErrorNames) :
    asWErr (some (.obj (ea ++ (k, v) :: eb))) = asWErr (some (.obj (ea ++ eb))) := by
  simp only [wireErrorNames, List.mem_cons, List.not_mem_nil, or_false, not_or] at h
  obtain ⟨h1, h2, h3⟩ := h
  simp only [asWErr, asRaw]
  rw [lookup_insert_ne _ k v ea eb h1, lookup_insert_ne _ k v ea eb h2, lookup_insert_ne _ k v ea eb h3]

/-- the member looked up: the last one of that name -/
theorem lookup_at (n : Bytes) (x : JVal) (pre post : List (Bytes × JVal)) :
    lookup n (pre ++ (n, x) :: post) = match lookup n post with | some w => some w | none => some x := by
  induction pre with
  | nil => simp only [List.nil_append, lookup]; cases lookup n post <;> simp
  | cons p pre ih =>
    obtain ⟨pk, pv⟩ := p
    simp only [List.cons_append, lookup, ih]
    cases lookup n post <;> rfl

/-- **decode_error_case_sensitive** (C19). In a message whose `error` member is an object, a member of THAT
object whose name is not exactly `code`, `message` or `data` — e.g. `Code`, `MESSAGE`, `Data` — has no
influence on decoding, wherever it stands in the error object and wherever the error member stands. -/
theorem decode_error_case_sensitive (k : Bytes) (v : JVal) (ea eb pre post : List (Bytes × JVal))
    (h : k ∉ wireErrorNames) :
    decodeMsg (.obj (pre ++ (wireDecode_Error_name, .obj (ea ++ (k, v) :: eb)) :: post)) =
      decodeMsg (.obj (pre ++ (wireDecode_Error_name, .obj (ea ++ eb)) :: post)) := by
  have hne : ∀ k', k' ≠ wireDecode_Error_name → ∀ x,
      lookup k' (pre ++ (wireDecode_Error_name, x) :: post) = lookup k' (pre ++ post) :=
    fun k' hk x => lookup_insert_ne k' _ x pre post (Ne.symm hk)
  have herr : asWErr (lookup wireDecode_Error_name (pre ++ (wireDecode_Error_name, .obj (ea ++ (k, v) :: eb)) :: post)) =
      asWErr (lookup wireDecode_Error_name (pre ++ (wireDecode_Error_name, .obj (ea ++ eb)) :: post)) := by
    rw [lookup_at, lookup_at]
    cases lookup wireDecode_Error_name post with
    | some w => rfl
    | none => exact asWErr_case_sensitive k v ea eb h
  simp only [decodeMsg, asRaw]
  rw [herr]
  simp only [hne wireDecode_VersionTag_name (by decide), hne wireDecode_ID_name (by decide),
    hne wireDecode_Method_name (by decide), hne wireDecode_Params_name (by decide), hne wireDecode_Result_name (by decide)]

/-- `{"jsonrpc":"2.0","id":7,"error":{"code":-32000,"message":"boom","Code":7,"MESSAGE":"decoy"}}` decodes to
the error -32000 "boom"; with only `Code` / `Message` the error is the zero error. -/
example : decodeMsg (.obj [(wireDecode_VersionTag_name, .str wireVersion), (wireDecode_ID_name, .int 7),
    (wireDecode_Error_name, .obj [(WireError_Code_name, .int (-32000)), (WireError_Message_name, .str [98]),
      ([67, 111, 100, 101], .int 7), ([77, 69, 83, 83, 65, 71, 69], .str [100])])]) =
    .ok (.response (.int 7) none (some ⟨-32000, [98], none⟩)) := by decide

example : ([67, 111, 100, 101] : Bytes) ∉ wireErrorNames ∧ ([77, 69, 83, 83, 65, 71, 69] : Bytes) ∉ wireErrorNames ∧
    ([68, 97, 116, 97] : Bytes) ∉ wireErrorNames := by decide

/-- The case variants are indeed not wire names ("ID", "Id", "Method", "JSONRPC", "Params", …). -/
example : ([73, 68] : Bytes) ∉ wireNames ∧ ([73, 100] : Bytes) ∉ wireNames ∧
    ([77, 101, 116, 104, 111, 100] : Bytes) ∉ wireNames ∧ ([74, 83, 79, 78, 82, 80, 67] : Bytes) ∉ wireNames ∧
    ([80, 97, 114, 97, 109, 115] : Bytes) ∉ wireNames := by decide

/-- … so `{"jsonrpc":"2.0","ID":1,"Method":"m"}` is NOT a request: it has neither method nor id. -/
example : decodeMsg (.obj [(wireDecode_VersionTag_name, .str wireVersion), ([73, 68], .int 1),
    ([77, 101, 116, 104, 111, 100], .str [109])]) = .error .noId := by decide

/-- **decode_total** (C19). Decoding returns a message or one of the four error classes for every JSON
value — and it succeeds on every valid wire message (`encode_decode_preserves`), fails with
`unmarshal` on every value that is neither an object nor null. -/
theorem decode_total (w : JVal) :
    (∃ m, decodeMsg w = .ok m) ∨ (∃ e, decodeMsg w = .error e) := by
  cases h : decodeMsg w with
  | ok m => exact .inl ⟨m, rfl⟩
  | error e => exact .inr ⟨e, rfl⟩

theorem decode_non_object (w : JVal) (h1 : w ≠ .null) (h2 : ∀ kvs, w ≠ .obj kvs) :
    decodeMsg w = .error .unmarshal := by
  cases w <;> simp [decodeMsg] at h1 h2 ⊢

/-- A response without id is rejected (−32600), a wrong version tag is rejected. -/
theorem response_needs_id (kvs : List (Bytes × JVal))
    (hv : lookup wireDecode_VersionTag_name kvs = some (.str wireVersion))
    (hm : lookup wireDecode_Method_name kvs = none) (hi : lookup wireDecode_ID_name kvs = none)
    (he : validErr (lookup wireDecode_Error_name kvs) = true) :
    decodeMsg (.obj kvs) = .error .noId := by
  obtain ⟨we, hw, -⟩ := asWErr_valid _ he
  simp only [decodeMsg, hv, hm, hi, hw, asString, asRaw]
  simp

end Wire.L
