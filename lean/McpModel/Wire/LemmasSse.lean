import McpModel.Wire.LemmasFrame
/-!
# C19 — SSE framing as a foreign peer writes it: LF / CRLF line ends, comments, fields in any order,
multi-line data (`Wire.renderStream`, `Wire.FEvent.denote`)
-/
namespace Wire.L
open Wire Generated.Wire

/-! ## line ends -/

theorem splitLines_append_line (l rest : Bytes) (h : LF ∉ l) :
    splitLines (l ++ LF :: rest) = (l :: (splitLines rest).1, (splitLines rest).2) :=
  splitLines_line l rest h

theorem cr_ne_lf : CR ≠ LF := by decide

theorem noLF_cr (l : Bytes) (e : Eol) (h : LF ∉ l) : LF ∉ l ++ e.cr := by
  intro hm
  rcases List.mem_append.mp hm with x | x
  · exact h x
  · cases e with
    | lf => simp [Eol.cr] at x
    | crlf =>
      simp only [Eol.cr, List.mem_cons, List.not_mem_nil, or_false] at x
      exact cr_ne_lf x.symm

theorem line_eol (l : Bytes) (e : Eol) (t : Bytes) : l ++ (e.bytes ++ t) = (l ++ e.cr) ++ LF :: t := by
  cases e <;> simp [Eol.bytes, Eol.cr]

/-- Splitting a rendered stream at LF: the lines, those written with CRLF still carrying their CR. -/
theorem splitLines_render (ls : List (Bytes × Eol)) (rest : Bytes) (h : ∀ p ∈ ls, LF ∉ p.1) :
    splitLines (renderLines ls ++ rest) =
      (ls.map (fun p => p.1 ++ p.2.cr) ++ (splitLines rest).1, (splitLines rest).2) := by
  induction ls with
  | nil => simp [renderLines]
  | cons p ls ih =>
    obtain ⟨l, e⟩ := p
    have hl : LF ∉ l := h (l, e) (by simp)
    have ih' := ih (fun q hq => h q (by simp [hq]))
    simp only [renderLines, List.append_assoc]
    rw [line_eol l e, splitLines_line _ _ (noLF_cr l e hl), ih']
    simp

theorem trimRightCRLF_cr (raw : Bytes) : trimRightCRLF (raw ++ [CR]) = trimRightCRLF raw := by
  simp [trimRightCRLF]

theorem trimRightCRLF_eolcr (raw : Bytes) (e : Eol) : trimRightCRLF (raw ++ e.cr) = trimRightCRLF raw := by
  cases e with
  | lf => simp [Eol.cr]
  | crlf => exact trimRightCRLF_cr raw

/-- The scanner does not see whether a line ended in LF or in CRLF. -/
theorem stepLine_eolcr (a : Scan) (raw : Bytes) (e : Eol) : stepLine a (raw ++ e.cr) = stepLine a raw := by
  simp only [stepLine, trimRightCRLF_eolcr]

theorem foldl_stepLine_eolcr (ls : List (Bytes × Eol)) (a : Scan) :
    (ls.map (fun p => p.1 ++ p.2.cr)).foldl stepLine a = (ls.map (·.1)).foldl stepLine a := by
  induction ls generalizing a with
  | nil => rfl
  | cons p ls ih => simp only [List.map_cons, List.foldl_cons, stepLine_eolcr, ih]

theorem frame_eq_render (ls : List Bytes) : frame ls = renderLines (ls.map (fun l => (l, Eol.lf))) := by
  induction ls with
  | nil => rfl
  | cons l ls ih =>
    have e : frame (l :: ls) = l ++ ([LF] ++ frame ls) := by simp [frame]
    rw [e, ih]; rfl

/-- **sse_eol_irrelevant.** For EVERY list of LF-free lines (well-formed fields or not), every choice
of line end per line, and every unterminated rest: scanning the stream gives the events and the
verdict that scanning the LF-only stream gives. -/
theorem sse_eol_irrelevant (ls : List (Bytes × Eol)) (rest : Bytes) (h : ∀ p ∈ ls, LF ∉ p.1) :
    scanEvents (renderLines ls ++ rest) = scanEvents (frame (ls.map (·.1)) ++ rest) := by
  have h2 : ∀ p ∈ ls.map (fun p => (p.1, Eol.lf)), LF ∉ p.1 := by
    intro p hp
    obtain ⟨q, hq, rfl⟩ := List.mem_map.mp hp
    exact h q hq
  unfold scanEvents
  rw [frame_eq_render, List.map_map, splitLines_render ls rest h]
  have := splitLines_render (ls.map (fun p => (p.1, Eol.lf))) rest h2
  simp only [Function.comp_def]
  rw [this]
  simp only [List.foldl_append, foldl_stepLine_eolcr]
  simp only [List.map_map, Function.comp_def]

/-! ## one line of a foreign event -/

theorem dropWhile_stop {α} (p : α → Bool) (l1 : List α) (c : α) (l2 : List α) (hc : p c = false) :
    (l1 ++ c :: l2).dropWhile p = l1.dropWhile p ++ c :: l2 := by
  induction l1 with
  | nil => simp [List.dropWhile, hc]
  | cons b t ih =>
    by_cases hb : p b = true
    · simp [List.dropWhile, hb, ih]
    · simp [List.dropWhile, hb]

theorem colon_not_crlf : (decide (COLON = CR) || decide (COLON = LF)) = false := by decide

/-- `TrimRight(line, "\r\n")` stops at the colon at the latest. -/
theorem trimRightCRLF_colon (k rest : Bytes) :
    trimRightCRLF (k ++ COLON :: rest) = k ++ COLON :: trimRightCRLF rest := by
  unfold trimRightCRLF
  have : (k ++ COLON :: rest).reverse = rest.reverse ++ COLON :: k.reverse := by simp
  rw [this, dropWhile_stop (fun b => decide (b = CR) || decide (b = LF)) rest.reverse COLON k.reverse colon_not_crlf]
  simp

/-- a value in front of which a pad of spaces/tabs stands, trimmed: the value itself -/
theorem trim_crlf_pad (pad v : Bytes) (hp : ∀ b ∈ pad, b = 32 ∨ b = 9) (hv : trim v = v) :
    trim (trimRightCRLF (pad ++ v)) = v := by
  have key : trimRightCRLF (pad ++ v) = pad ++ v := by
    cases hr : (pad ++ v).reverse with
    | nil =>
      have : pad ++ v = [] := List.reverse_eq_nil_iff.mp hr
      rw [this]; rfl
    | cons b t =>
      have hb : (decide (b = CR) || decide (b = LF)) = false := by
        cases hv' : v.reverse with
        | nil =>
          have hv0 : v = [] := by simpa using hv'
          subst hv0
          simp only [List.append_nil] at hr
          have hmem : b ∈ pad := by
            have : b ∈ pad.reverse := by rw [hr]; simp
            simpa using this
          rcases hp b hmem with rfl | rfl <;> decide
        | cons b' t' =>
          have hb' := trim_last v hv b' t' hv'
          have : b = b' := by
            simp only [List.reverse_append, hv', List.cons_append] at hr
            exact (List.cons.inj hr).1.symm
          subst this
          cases hc : (decide (b = CR) || decide (b = LF)) with
          | false => rfl
          | true =>
            simp only [Bool.or_eq_true, decide_eq_true_eq] at hc
            rcases hc with rfl | rfl <;> simp [isAsciiSpace, CR, LF] at hb'
      unfold trimRightCRLF
      rw [hr]
      simp only [List.dropWhile, hb]
      rw [← hr]; simp
  rw [key, trim_pad pad v hp hv]

theorem applyField_unknown (a : Scan) (k v : Bytes) (h : k ∉ sseKeys) : applyField a k v = a := by
  simp only [sseKeys, List.mem_cons, List.not_mem_nil, or_false, not_or] at h
  simp [applyField, h.1, h.2.1, h.2.2.1, h.2.2.2]

/-- The field-wise effect of one line on the event being collected: a known field is stored with
its value, anything else (comment, unknown field) is skipped. -/
def lineEffect (a : Scan) (l : FLine) : Scan := if l.key ∈ sseKeys then applyField a l.key l.val else a

theorem stepLine_fline (a : Scan) (l : FLine) (h : WfFLine l) (hm : a.malformed = false) :
    stepLine a l.text = lineEffect a l := by
  have hne : l.key ++ COLON :: trimRightCRLF (l.pad ++ l.val) ≠ [] := by simp
  simp only [stepLine, hm, Bool.false_eq_true, ite_false, FLine.text, trimRightCRLF_colon, hne, procLine,
    cutColon_key _ _ h.nocolon, lineEffect]
  by_cases hk : l.key ∈ sseKeys
  · obtain ⟨hp, hv⟩ := h.known hk
    simp only [hk, ite_true, trim_crlf_pad l.pad l.val hp hv]
  · simp only [hk, ite_false, applyField_unknown a l.key _ hk]

theorem stepLine_fline' (evt : Event) (buf : Option Bytes) (out : List Event) (l : FLine) (h : WfFLine l) :
    stepLine ⟨evt, buf, out, false⟩ l.text = lineEffect ⟨evt, buf, out, false⟩ l :=
  stepLine_fline _ l h rfl

/-! ## one event: the accumulated fields -/

def accLast (k : Bytes) (d : Bytes) : List FLine → Bytes
  | [] => d
  | l :: t => accLast k (if l.key = k then l.val else d) t

def accData (b : Option Bytes) : List FLine → Option Bytes
  | [] => b
  | l :: t => accData (if l.key = sse_dataKey then some (match b with | none => l.val | some d => d ++ [LF] ++ l.val) else b) t

theorem keys_mem : sse_eventKey ∈ sseKeys ∧ sse_idKey ∈ sseKeys ∧ sse_retryKey ∈ sseKeys ∧ sse_dataKey ∈ sseKeys := by
  decide

theorem lineEffect_malformed (a : Scan) (l : FLine) : (lineEffect a l).malformed = a.malformed := by
  unfold lineEffect applyField
  repeat' split
  all_goals rfl

/-- folding the lines of one event over the scanner's state -/
theorem fold_lines (ls : List FLine) (evt : Event) (buf : Option Bytes) (out : List Event)
    (h : ∀ l ∈ ls, WfFLine l) :
    (ls.map FLine.text).foldl stepLine ⟨evt, buf, out, false⟩ =
      ⟨{ name := accLast sse_eventKey evt.name ls, id := accLast sse_idKey evt.id ls,
         retry := accLast sse_retryKey evt.retry ls, data := evt.data }, accData buf ls, out, false⟩ := by
  obtain ⟨k1, k2, k3, k4, k5, k6⟩ := keys_distinct
  obtain ⟨m1, m2, m3, m4⟩ := keys_mem
  induction ls generalizing evt buf with
  | nil => simp [accLast, accData]
  | cons l ls ih =>
    have hl := h l (by simp)
    have ih' := fun e b => ih e b (fun x hx => h x (by simp [hx]))
    simp only [List.map_cons, List.foldl_cons, stepLine_fline' _ _ _ l hl, accLast, accData]
    by_cases h1 : l.key = sse_eventKey
    · simp only [lineEffect, h1, m1, ite_true, applyField]
      rw [ih']
      simp [Ne.symm k1, Ne.symm k2, Ne.symm k4]
    · by_cases h2 : l.key = sse_idKey
      · simp only [lineEffect, h2, m2, ite_true, applyField, k1, ite_false]
        rw [ih']
        simp [Ne.symm k3, Ne.symm k5]
      · by_cases h3 : l.key = sse_retryKey
        · simp only [lineEffect, h3, m3, ite_true, applyField, k2, k3, ite_false]
          rw [ih']
          simp [Ne.symm k6]
        · by_cases h4 : l.key = sse_dataKey
          · simp only [lineEffect, h4, m4, ite_true, applyField, k4, k5, k6, ite_false]
            rw [ih']
            simp
            rfl
          · have hk : l.key ∉ sseKeys := by
              simp [sseKeys, h1, h2, h3, h4]
            simp only [lineEffect, hk, ite_false]
            rw [ih']
            simp [h1, h2, h3, h4]

theorem accLast_eq (k d : Bytes) (ls : List FLine) :
    accLast k d ls = (((ls.filter (fun l => l.key = k)).getLast?).map (·.val)).getD d := by
  induction ls generalizing d with
  | nil => simp [accLast]
  | cons l t ih =>
    simp only [accLast, ih]
    by_cases hk : l.key = k
    · simp only [hk, ite_true, List.filter_cons, decide_true, List.getLast?_cons]
      cases (List.filter (fun l => decide (l.key = k)) t).getLast? <;> simp
    · simp [hk]

theorem accData_some (d : Bytes) (ls : List FLine) :
    accData (some d) ls = some (((ls.filter (fun l => l.key = sse_dataKey)).map (·.val)).foldl (fun d x => d ++ LF :: x) d) := by
  induction ls generalizing d with
  | nil => simp [accData]
  | cons l t ih =>
    simp only [accData]
    by_cases hk : l.key = sse_dataKey
    · simp [hk, ih]
    · simp [hk, ih]

theorem accData_none (ls : List FLine) :
    (accData none ls).getD [] = joinLF ((ls.filter (fun l => l.key = sse_dataKey)).map (·.val)) := by
  induction ls with
  | nil => simp [accData, joinLF]
  | cons l t ih =>
    simp only [accData]
    by_cases hk : l.key = sse_dataKey
    · simp [hk, accData_some, joinLF]
    · simpa [hk] using ih

/-- One framed event from a state holding no partial event: its denotation is yielded iff it is not
entirely empty. -/
theorem scan_fevent (e : FEvent) (out : List Event) (h : ∀ l ∈ e.lines, WfFLine l) :
    (e.render.map (·.1)).foldl stepLine ⟨{}, none, out, false⟩ =
      ⟨{}, none, out ++ (if e.denote.isEmpty then [] else [e.denote]), false⟩ := by
  have hd : e.denote = ⟨accLast sse_eventKey [] e.lines, accLast sse_idKey [] e.lines,
      accLast sse_retryKey [] e.lines, (accData none e.lines).getD []⟩ := by
    simp only [FEvent.denote, lastField, accLast_eq, accData_none]
  simp only [FEvent.render, List.map_append, List.map_map, Function.comp_def, List.map_cons, List.map_nil,
    List.foldl_append, List.foldl_cons, List.foldl_nil]
  have := fold_lines e.lines {} none out h
  have e1 : (List.map (fun l => l.text) e.lines) = List.map FLine.text e.lines := rfl
  rw [e1, this, stepLine_blank', hd]
  cases hb : accData none e.lines with
  | none =>
    simp only [yieldEvent, Option.getD]
    split <;> simp_all [Event.isEmpty]
  | some d =>
    simp only [yieldEvent, Option.getD]
    split <;> simp_all [Event.isEmpty]

theorem scan_fevents (es : List FEvent) (out : List Event) (h : ∀ e ∈ es, ∀ l ∈ e.lines, WfFLine l) :
    ((es.flatMap FEvent.render).map (·.1)).foldl stepLine ⟨{}, none, out, false⟩ =
      ⟨{}, none, out ++ (es.map FEvent.denote).filter (fun e => !e.isEmpty), false⟩ := by
  induction es generalizing out with
  | nil => simp
  | cons e es ih =>
    simp only [List.flatMap_cons, List.map_append, List.foldl_append]
    rw [scan_fevent e out (h e (by simp)), ih _ (fun x hx => h x (by simp [hx]))]
    by_cases he : e.denote.isEmpty = true <;> simp [he]

theorem render_noLF (es : List FEvent) (h : ∀ e ∈ es, ∀ l ∈ e.lines, WfFLine l) :
    ∀ p ∈ es.flatMap FEvent.render, LF ∉ p.1 := by
  intro p hp
  obtain ⟨e, he, hpe⟩ := List.mem_flatMap.mp hp
  simp only [FEvent.render, List.mem_append, List.mem_map, List.mem_cons, List.not_mem_nil, or_false] at hpe
  rcases hpe with ⟨l, hl, rfl⟩ | rfl
  · exact (h e he l hl).nolf
  · simp

/-- **sse_roundtrip_any_eol.** -/
theorem sse_roundtrip_any_eol (es : List FEvent) (h : ∀ e ∈ es, ∀ l ∈ e.lines, WfFLine l) :
    scanEvents (renderStream es) = ((es.map FEvent.denote).filter (fun e => !e.isEmpty), false) := by
  have h0 := sse_eol_irrelevant (es.flatMap FEvent.render) [] (render_noLF es h)
  simp only [List.append_nil] at h0
  unfold renderStream
  rw [h0]
  have hl : ∀ l ∈ (es.flatMap FEvent.render).map (·.1), LF ∉ l := by
    intro l hl
    obtain ⟨p, hp, rfl⟩ := List.mem_map.mp hl
    exact render_noLF es h p hp
  unfold scanEvents
  rw [splitLines_frame _ hl]
  simp only [scan_fevents es [] h, finishLine, trimRightCRLF, yieldEvent]
  simp [Event.isEmpty]

theorem wfFLine_spec (l : FLine) (h : wfFLine l = true) : WfFLine l := by
  simp only [wfFLine, Bool.and_eq_true, Bool.not_eq_true', Bool.or_eq_true, List.all_eq_true,
    decide_eq_true_eq] at h
  obtain ⟨⟨h1, h2⟩, h3⟩ := h
  refine ⟨?_, ?_, ?_⟩
  · intro hm; simp [hm] at h1
  · intro hm; simp [hm] at h2
  · intro hk
    rcases h3 with h3 | h3
    · simp [hk] at h3
    · exact ⟨fun b hb => by simpa using h3.1 b hb, h3.2⟩

end Wire.L
