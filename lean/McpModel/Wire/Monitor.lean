import McpModel.Wire.Ref
import McpModel.Wire.Clone
import McpModel.Wire.Ann
import McpModel.Wire.Retry
import McpModel.Wire.Sse
import McpModel.Wire.Result
import McpModel.Wire.Input
import McpModel.Wire.Ndjson
/-!
# E2 Wire — the typed core of the property monitors of the four streams (msg, mcp, ids, batch)

The driver (`Driver.lean`) parses every harness record into a typed operation and a typed observation of
the IMPLEMENTATION, calls one of the monitors below and renders the clause it returns.  Everything that
decides WHETHER a clause of C19 (and of the id / batch parts of C01–C03) is violated, and WHICH one, is in
this file; the token parser, the renderer of the model's observation and the clause texts
(`Driver.clauseText`) stay in the driver (the string layer).

The monitors are the property written as decidable predicates on what the implementation did.  The records
of the streams msg, mcp and ids are independent evaluations: their monitors are stateless functions
`<op>Monitor : operation → observation → Option Clause`.  The `ioConn` records (`io.*`, streams mcp and
batch) form a history: `ioFeed` / `ioVer` / `ioRead` / `ioWrite` thread the monitor's own bookkeeping
`IOMon` (the frames fed and not yet taken, the elements of the accepted frame still to come out of `Read`,
the open batches as slot lists) — independent of the model's `IOState`.

Bridging theorems: `Bridge.lean` (`…_monitor_accepts_model`: no clause on what the model produces, for ALL
operations / label sequences; the known finding F23 is an explicit, decidable exclusion with a
counter-example theorem) and `Sound.lean` (`P_<clause>` on the record from the property text alone,
`sound_<clause>`: reported ⇒ ¬P).
Core Lean only: linked into `drv_wire`.
-/
namespace Wire
namespace Mon
open Generated.Wire

/-! ## JSON values up to member order (the equality of DESIGN §5 C19: "object member order irrelevant") -/

def bytesLt : Bytes → Bytes → Bool
  | [], [] => false
  | [], _ => true
  | _, [] => false
  | a :: as, b :: bs => if a < b then true else if a > b then false else bytesLt as bs

def insertSorted (p : Bytes × JVal) : List (Bytes × JVal) → List (Bytes × JVal)
  | [] => [p]
  | q :: t => if bytesLt p.1 q.1 then p :: q :: t else q :: insertSorted p t

def sortMembers (l : List (Bytes × JVal)) : List (Bytes × JVal) := l.foldl (fun acc p => insertSorted p acc) []

/-- last-wins de-duplication (objects the model builds never have duplicates; inputs might) -/
def dedupLast : List (Bytes × JVal) → List (Bytes × JVal)
  | [] => []
  | (k, v) :: t => if t.any (fun q => q.1 = k) then dedupLast t else (k, v) :: dedupLast t

mutual
/-- the canonical form the line protocol prints (`Driver.showJ`): members de-duplicated (last wins) and sorted -/
def canonJ : JVal → JVal
  | .arr l => .arr (canonL l)
  | .obj kvs => .obj (sortMembers (dedupLast (canonM kvs)))
  | v => v
def canonL : List JVal → List JVal
  | [] => []
  | v :: t => canonJ v :: canonL t
def canonM : List (Bytes × JVal) → List (Bytes × JVal)
  | [] => []
  | (k, v) :: t => (k, canonJ v) :: canonM t
end

/-- equal as JSON values: member order irrelevant -/
def sameJ (a b : JVal) : Bool := canonJ a == canonJ b

def sameOJ : Option JVal → Option JVal → Bool
  | none, none => true
  | some a, some b => sameJ a b
  | _, _ => false

/-! ## shared vocabulary -/

inductive Crash where
  | panic | hang
deriving DecidableEq, Repr, Inhabited

/-- which property the stream is run for (first driver argument) -/
inductive Pid where
  | c19 | c02 | c03
deriving DecidableEq, Repr, Inhabited

def two53 : Int := 9007199254740992

def bigInt : Option JVal → Bool
  | some (.int n) => n > two53 || n < -two53
  | _ => false

def nodupKeysL : List Bytes → Bool
  | [] => true
  | a :: t => !t.contains a && nodupKeysL t

/-- no member name occurs twice (the generators never produce duplicates; the monitors keep to that) -/
def noDupKeys : JVal → Bool
  | .obj kvs => nodupKeysL (kvs.map (·.1)) &&
      (match lookup wireDecode_Error_name kvs with
        | some (.obj e) => nodupKeysL (e.map (·.1))
        | _ => true)
  | _ => true

/-- the members of a wire message C19 names -/
inductive Field where
  | id | method | params | result | errCode | errMessage | errData | tag | shape
deriving DecidableEq, Repr, Inhabited

/-- The projections named by C19 of two wire objects agree; returns the first differing member. -/
def wireDiff (w w' : JVal) : Option Field :=
  match proj w, proj w' with
  | some a, some b =>
    if a.id != b.id then some .id
    else if a.method != b.method then some .method
    else if a.params != b.params then some .params
    else if a.result != b.result then some .result
    else if a.errCode != b.errCode then some .errCode
    else if a.errMessage != b.errMessage then some .errMessage
    else if a.errData != b.errData then some .errData
    else if a.tag != b.tag then some .tag
    else none
  | _, _ => some .shape

/-- Does a message (as the implementation reports it) carry the members of wire value `w`? -/
def msgMatchesWire (m : Msg) (w : JVal) : Bool := (wireDiff w (encodeMsg m)).isNone

def idOfWire : JVal → Option JVal
  | .obj kvs => lookup wireDecode_ID_name kvs
  | _ => none

def DErr.cls : DErr → String
  | .unmarshal => "unmarshal" | .version => "version" | .idType => "idtype" | .noId => "noid"

/-- what a decoder returned, as the harness prints it -/
inductive DecObs where
  | ok (m : Msg)
  | err (code : Int) (cls : String)
  | other (raw : String)
deriving DecidableEq, Repr, Inhabited

def DecObs.ofModel : Except DErr Msg → DecObs
  | .ok m => .ok m
  | .error e => .err e.code (DErr.cls e)

/-! ## structural equality of content values (`Content` nests `List Content`) -/

mutual
def beqC : Content → Content → Bool
  | .text t m a, .text t' m' a' => t == t' && m == m' && a == a'
  | .image d mi m a, .image d' mi' m' a' => d == d' && mi == mi' && m == m' && a == a'
  | .audio d mi m a, .audio d' mi' m' a' => d == d' && mi == mi' && m == m' && a == a'
  | .link u n t d mi sz m a ic, .link u' n' t' d' mi' sz' m' a' ic' =>
    u == u' && n == n' && t == t' && d == d' && mi == mi' && sz == sz' && m == m' && a == a' && ic == ic'
  | .resource r m a, .resource r' m' a' => r == r' && m == m' && a == a'
  | .toolUse i n inp m, .toolUse i' n' inp' m' => i == i' && n == n' && inp == inp' && m == m'
  | .toolResult t cs st ie m, .toolResult t' cs' st' ie' m' => t == t' && beqCL cs cs' && st == st' && ie == ie' && m == m'
  | _, _ => false
def beqCL : List Content → List Content → Bool
  | [], [] => true
  | a :: as, b :: bs => beqC a b && beqCL as bs
  | _, _ => false
end

/-! ## the clauses -/

inductive EolMix where
  | allLF | allCRLF | mixed
deriving DecidableEq, Repr, Inhabited

/-- what a foreign stream exercises (for the clause text) -/
structure Features where
  mix : EolMix
  comments : Bool
  multiData : Bool
  retry : Bool
  unknown : Bool
  oddPad : Bool
deriving DecidableEq, Repr, Inhabited

inductive NilKind where
  | sentNull | panicked | nothing
deriving DecidableEq, Repr, Inhabited

inductive ContentKind where
  | nilC | emptyC | someC
deriving DecidableEq, Repr, Inhabited

inductive Which where
  | next | first
deriving DecidableEq, Repr, Inhabited

/-- What a monitor reports (texts: `Driver.clauseText`). -/
inductive Clause where
  -- message codec
  | encdecF1 | encdecNotBack | encdecNoEncoding
  | respNeedsId
  | edpRejected | edpIdF1 | edpId | edpMember (f : Field) | edpReencFailed
  | badObservation
  | caseMatched | caseMatchedErr
  | werrCode | werrMessage | werrNoObject
  | dtDecodeMessage
  -- id echo
  | idRejected | idStrNotExact | idIntF1 | idIntDiff
  -- SSE
  | dtScan (c : Crash)
  | sseRoundtrip
  | sseEolIrrelevant (mix : EolMix) (reportsMalformed : Bool)
  | sseAnyEol (feat : Features) (reportsMalformed : Bool)
  -- content
  | f23
  | f8Nested | contentLacks | contentNoMarshal | resourceNoMarshal
  | contentRoundtrip
  | dtContentCtx (ctx : String)
  | dtContentFuzz
  | protoValueChanged
  -- results
  | nilResult (method : String) (k : NilKind)
  | callContentNull (c : ContentKind) (sc ie : Bool)
  | callBlockLacks | callContentDiffers | callStructuredDiffers | callIsErrorDiffers | callPanicked | callNoResult
  | reqListNull (method : String) (f15 : Bool)
  | zeroNoResult
  | pgNull (k : RKind) (keys : List Bytes) (c : Cursor) (ps : Nat) (emptyPage : Bool)
  | pgMissing (k : RKind) (keys : List Bytes) (c : Cursor) (ps : Nat)
  | pgNotArray (k : RKind) (keys : List Bytes) (c : Cursor) (ps : Nat)
  -- ioConn
  | readGone02 (c : Crash) (frame : Option JVal)
  | dtRead (c : Crash) (frame : Option JVal)
  | order19 | order03
  | sameIdF1 (w : Which) | sameId (w : Which) | sameMember (f : Field) (w : Which)
  | readFailedQueued | readAtEnd
  | queued19 (n q : Nat)
  | lost (n q : Nat)
  | rejectedF2_19 | rejected19 | rejectedF2_02 | rejected02
  | dtWrite | badFrame | writtenDiffers
  | cwCrash (c : Crash) | cwGarbled (n : Nat) | cwLost (m : Msg)
  | logDiffers (passed logged : Nat)
  | retryResponsesAltered | retryStateAltered | retryNotDecodedAlike
  | toolAnnHintLost | toolAnnChanged | cloneAliased | cloneDiffers | extNotStored
  | refRefused | refChanged | refInconsistentWritten | refInconsistentAccepted | refReencDiffers
  | dtNdReader (c : Crash) | ndNotValueByValue
  | writePanic02 | flushedEarly | notOnItsOwn | arrayNotExact | withheld (hasNotif : Bool) | lastOnItsOwn
  -- frames through the other readers
  | dtReadBatch (raw : JVal) | rbAcceptedEmpty (raw : JVal)
  | dtPost (c : Crash) (path : String) (raw : JVal)
  | dtLiveIo (c : Crash) (raw : JVal)
  | dtLiveCli (c : Crash) (kind : String) (raw : JVal)
  | sseCliFailed (framing : String)
  -- decode fuzz of the protocol types
  | f32Null | dtNearValid (ty : String) | dtCase (ty name : String)
  | caseF32 (ty name : String) | caseDeclared (ty name : String)
  | dtIrm | caseIrm
deriving DecidableEq, Repr, Inhabited

/-! ## message codec (streams msg, ids) -/

/-- `encdec`: the implementation's decode of its own encoding (`none`: no `<encoding> | <decoded>` pair). -/
def encdecMonitor (m : Msg) (back : Option DecObs) : Option Clause :=
  if wfMsg m then
    match back with
    | some b =>
      if b = .ok m then none
      else if bigInt (encodeId m.id) then some .encdecF1
      else some .encdecNotBack
    | none => some .encdecNoEncoding
  else none

/-- `decenc`: what `DecodeMessage` then `EncodeMessage` made of a wire value. -/
structure DecEncObs where
  accepted : Bool              -- DecodeMessage returned a message
  paired : Bool                -- the observation has the form `<decoded> | <re-encoding>`
  reenc : Option JVal          -- the re-encoding, if it is a JSON value
deriving Repr, Inhabited

/-- a response (no `method`) without id: must be rejected -/
def respNoId : JVal → Bool
  | .obj kvs => noDupKeys (.obj kvs) && lookup wireDecode_VersionTag_name kvs == some (.str wireVersion) &&
      (lookup wireDecode_Method_name kvs).isNone && (lookup wireDecode_ID_name kvs).isNone &&
      validErr (lookup wireDecode_Error_name kvs)
  | _ => false

def decencMonitor (w : JVal) (o : DecEncObs) : Option Clause :=
  if respNoId w then (if o.accepted then some .respNeedsId else none)
  else if validWire w && noDupKeys w then
    if !o.paired then some .badObservation
    else if !o.accepted then some .edpRejected
    else match o.reenc with
      | some w' =>
        match wireDiff w w' with
        | none => none
        | some .id => if bigInt (idOfWire w) then some .edpIdF1 else some .edpId
        | some f => some (.edpMember f)
      | none => some .edpReencFailed
  else none

/-- `casedec`: the object with ONE member name changed in case, and the object without that member, decoded. -/
def casedecMonitor (obs : Option (DecObs × DecObs)) : Option Clause :=
  match obs with
  | some (a, b) => if a = b then none else some .caseMatched
  | none => some .badObservation

/-- the message whose error object(s) lost every member named `nm` (what `casedec.err` decodes second) -/
def dropErrMember (nm : Bytes) : List (Bytes × JVal) → List (Bytes × JVal)
  | [] => []
  | (k, .obj e) :: t =>
    (if k = wireDecode_Error_name then (k, .obj (e.filter (fun p => p.1 ≠ nm))) else (k, .obj e)) :: dropErrMember nm t
  | p :: t => p :: dropErrMember nm t

/-- `casedec.err`: a response whose error object has a member differing from `code` / `message` / `data` in
case only, and the same response without that member, decoded. -/
def casedecErrMonitor (obs : Option (DecObs × DecObs)) : Option Clause :=
  match obs with
  | some (a, b) => if a = b then none else some .caseMatchedErr
  | none => some .badObservation

/-- the code `toWireError` must put on the wire: that of the first wrapped wire error (pre-order), else 0 -/
def expectedCode : GoErr → Int
  | .wire w => w.code
  | .other _ ws => match firstWireL ws with | some w => w.code | none => 0

def expectedMessage : GoErr → Bytes
  | .wire w => w.message
  | .other m _ => m

/-- `werr`: the members of the error object written for a Go error (`none`: no object). -/
def werrMonitor (e : GoErr) (obs : Option (List (Bytes × JVal))) : Option Clause :=
  match obs with
  | some kvs =>
    if lookup WireError_Code_name kvs != some (.int (expectedCode e)) then some .werrCode
    else if lookup WireError_Message_name kvs != some (.str (expectedMessage e)) then some .werrMessage
    else none
  | none => some .werrNoObject

def fuzzdecMonitor (panicked : Bool) : Option Clause := if panicked then some .dtDecodeMessage else none

/-- `idecho`: the id of the response to a call carrying id token `idv`. -/
inductive IdObs where
  | echoed (v : Option JVal)
  | rejected
  | other
deriving Repr, Inhabited

def idechoMonitor (idv : JVal) (o : IdObs) : Option Clause :=
  let exact : Bool := match o with | .echoed (some v) => v == idv | _ => false
  match idv with
  | .str _ =>
    if exact then none
    else match o with
      | .rejected => some .idRejected
      | _ => some .idStrNotExact
  | .int n =>
    if inInt64 n then
      if exact then none
      else if n > two53 || n < -two53 then some .idIntF1
      else some .idIntDiff
    else none
  | _ => none

/-! ## SSE -/

/-- a scan result as the harness prints it -/
inductive ScanRes where
  | scan (es : List Event) (malformed : Bool)
  | garbled (txt : String)
deriving DecidableEq, Repr, Inhabited

def ScanRes.reportsMalformed : ScanRes → Bool
  | .scan _ m => m
  | .garbled _ => false

inductive ScanObs where
  | crash (c : Crash)
  | res (r : ScanRes)
  | missing
deriving Repr, Inhabited

def cleanField (v : Bytes) : Bool := trim v = v && !v.contains LF

def cleanEvent (e : Event) : Bool :=
  cleanField e.name && cleanField e.id && cleanField e.retry && cleanField e.data && !e.isEmpty

def scanPanicMonitor (panicked : Bool) : Option Clause := if panicked then some (.dtScan .panic) else none

/-- `sse.rt`: the scan of the bytes `writeEvent` wrote for `es`. -/
def sseRtMonitor (es : List Event) (o : ScanObs) : Option Clause :=
  if es.all cleanEvent then
    match o with
    | .missing => some .badObservation
    | .res (.scan es' false) => if es' = es then none else some .sseRoundtrip
    | _ => some .sseRoundtrip
  else none

def eolMix (es : List Eol) : EolMix :=
  if es.all (· == .lf) then .allLF
  else if es.all (· == .crlf) then .allCRLF
  else .mixed

/-- `sse.lines`: the scan of the stream as framed and of the same lines ended by LF. -/
inductive LinesObs where
  | crash (c : Crash)
  | pair (framed lf : ScanRes)
  | garbled
deriving Repr, Inhabited

def sseLinesMonitor (ls : List (Bytes × Eol)) (rest : Bytes) (o : LinesObs) : Option Clause :=
  match o with
  | .crash c => some (.dtScan c)
  | o =>
    if ls.all (fun p => !p.1.contains LF) && !rest.contains LF then
      match o with
      | .pair a b =>
        if a = b then none
        else some (.sseEolIrrelevant (eolMix (ls.map (·.2))) (a.reportsMalformed && !b.reportsMalformed))
      | _ => some .badObservation
    else none

def fstreamEols (es : List FEvent) : List Eol := es.flatMap (fun e => e.lines.map (·.eol) ++ [e.endEol])

def fstreamFeatures (es : List FEvent) : Features :=
  let ls := es.flatMap (·.lines)
  { mix := eolMix (fstreamEols es)
    comments := ls.any (fun l => l.key == [])
    multiData := es.any (fun e => (e.lines.filter (fun l => l.key == sse_dataKey)).length > 1)
    retry := ls.any (fun l => l.key == sse_retryKey)
    unknown := ls.any (fun l => !sseKeys.contains l.key && l.key != [])
    oddPad := ls.any (fun l => sseKeys.contains l.key && l.pad != ([32] : Bytes)) }

/-- the events a foreign stream denotes -/
def denoted (es : List FEvent) : List Event := (es.map FEvent.denote).filter (fun e => !e.isEmpty)

/-- `sse.frn`: the scan of a stream a foreign peer framed. -/
def sseFrnMonitor (es : List FEvent) (o : ScanObs) : Option Clause :=
  match o with
  | .crash c => some (.dtScan c)
  | o =>
    if es.all (fun e => e.lines.all wfFLine) then
      match o with
      | .missing => some .badObservation
      | .res (.scan es' false) =>
        if es' = denoted es then none else some (.sseAnyEol (fstreamFeatures es) false)
      | .res r => some (.sseAnyEol (fstreamFeatures es) r.reportsMalformed)
      | .crash c => some (.dtScan c)
    else none

/-! ## content -/

/-- the required members of the TOP block are present (a failure of `reqOK` then lies in a nested block) -/
def reqTopOK : JVal → Bool
  | .obj kvs =>
    let ty := lookup wireContent_Type_name kvs
    (if ty = some (.str kText) then isStr (lookup wireContent_Text_name kvs) else true) &&
    (if ty = some (.str kImage) ∨ ty = some (.str kAudio) then isStr (lookup wireContent_Data_name kvs) else true) &&
    (if ty = some (.str kToolResult) then hasArr kvs else true)
  | _ => true

/-- the resource member of a block of type `resource` carries `text` or `blob` -/
def embeddedTopOK (kvs : List (Bytes × JVal)) : Bool :=
  match lookup wireContent_Type_name kvs, lookup wireContent_Resource_name kvs with
  | some (.str ty), some r => if ty = kResource then resourceOK r else true
  | _, _ => true

mutual
/-- every embedded resource of a content block (and of the blocks nested in it) is `resourceOK` -/
def embeddedOK : JVal → Bool
  | .obj kvs => embeddedTopOK kvs && embNested kvs
  | _ => true
/-- the LAST member named `content`, if it holds an array, holds only blocks that are `embeddedOK` -/
def embNested : List (Bytes × JVal) → Bool
  | [] => true
  | (k, v) :: t =>
    if hasArrLater t then embNested t
    else (if k = wireContent_NestedContent_name then embArr v else true)
def embArr : JVal → Bool
  | .arr l => embList l
  | _ => true
def embList : List JVal → Bool
  | [] => true
  | v :: t => embeddedOK v && embList t
end

/-- `c.enc`: `MarshalJSON` of a content value (`none`: it did not marshal to a JSON value). -/
def cencMonitor (obs : Option JVal) : Option Clause :=
  match obs with
  | some ji =>
    if reqOK ji then (if embeddedOK ji then none else some .f23)
    else if reqTopOK ji then some .f8Nested
    else some .contentLacks
  | none => some .contentNoMarshal

/-- `c.res`: `json.Marshal(&ResourceContents{…})`. -/
def cresMonitor (obs : Option JVal) : Option Clause :=
  match obs with
  | some ji => if resourceOK ji then none else some .f23
  | none => some .resourceNoMarshal

/-- contexts in which content is decoded -/
inductive Shape where | one | list | oneOrMany
deriving DecidableEq, Repr, Inhabited

/-- decode the `content` member of a wrapper -/
def decodeIn (sh : Shape) (allow : Option (List Bytes)) (j : Option JVal) : Except CErr (List Content) :=
  match sh with
  | .one => match j with
    | none => .error .nilContent
    | some v => (decodeContent allow v).map ([·])
  | .list => match j with
    | none => .ok []
    | some v => decodeContentList allow v
  | .oneOrMany => unmarshalContent allow j

/-- encode the `content` member of a wrapper (SamplingMessageV2 / CreateMessageWithToolsResult
write a single block as an object) -/
def encodeIn (sh : Shape) (cs : List Content) : JVal :=
  match sh, cs with
  | .oneOrMany, [c] => encodeContent c
  | .one, [c] => encodeContent c
  | _, cs => .arr (encodeContents cs)

def crtDomain (sh : Shape) (allow : Option (List Bytes)) (cs : List Content) : Bool :=
  cs.all (fun c => wfContent c && allowed allow c.kind) &&
  (match sh with | .one => cs.length = 1 | .oneOrMany => cs ≠ [] | .list => true)

/-- `c.rt`: a wrapper's content marshalled then unmarshalled (`none`: no pair; inner `none`: not decoded). -/
def crtMonitor (sh : Shape) (allow : Option (List Bytes)) (cs : List Content) (obs : Option (Option (List Content))) : Option Clause :=
  if crtDomain sh allow cs then
    match obs with
    | some (some cs') => if beqCL cs' cs then none else some .contentRoundtrip
    | some none => some .contentRoundtrip
    | none => some .badObservation
  else none

def cdecMonitor (ctx : String) (panicked : Bool) : Option Clause := if panicked then some (.dtContentCtx ctx) else none
def cfuzzMonitor (panicked : Bool) : Option Clause := if panicked then some .dtContentFuzz else none

/-- `r.rt`: marshal → unmarshal → marshal of a protocol value whose first marshalling was `j1`. -/
def rrtMonitor (j1 : JVal) (obs : Option JVal) : Option Clause :=
  if obs = some j1 then none else some .protoValueChanged

/-! ## results -/

/-- what was seen instead of a result object -/
inductive ResObs where
  | obj (kvs : List (Bytes × JVal))
  | val (j : JVal)          -- a JSON value that is no object (`null` = `"result":null`)
  | panic
  | other
deriving Repr, Inhabited

/-- a user handler returned `(nil, nil)`: what must not happen (wire-F30) -/
def nilResultViol (method : String) : ResObs → Clause
  | .val .null => .nilResult method .sentNull
  | .panic => .nilResult method .panicked
  | _ => .nilResult method .nothing

def contentKind : Option (List Content) → ContentKind
  | none => .nilC
  | some [] => .emptyC
  | some _ => .someC

def methodCallTool : String := "tools/call"

/-- `r.call`: the result sent for a `tools/call` whose raw handler returned `ret` (not an error). -/
def rcallMonitor (ret : ToolRet) (o : ResObs) : Option Clause :=
  match ret with
  | .error => none
  | ret =>
    let isNilRes := match ret with | .nilResult => true | _ => false
    let (c, sc, ie) : Option (List Content) × Option JVal × Bool := match ret with
      | .result c sc ie => (c, sc, ie)
      | _ => (none, none, false)
    match o with
    | .obj kvs =>
      let cur := lookup CallToolResult_Content_name kvs
      if isNilRes && !isArrJ cur then some (nilResultViol methodCallTool o)
      else if !isArrJ cur then some (.callContentNull (contentKind c) sc.isSome ie)
      else if !contentArrOK cur then some .callBlockLacks
      else if (match cur with | some (.arr l) => !embList l | _ => false) then some .f23
      else if !sameOJ cur (some (.arr (encodeContents (c.getD [])))) then some .callContentDiffers
      else if !sameOJ (lookup CallToolResult_StructuredContent_name kvs) sc then some .callStructuredDiffers
      else if lookup CallToolResult_IsError_name kvs != (if ie then some (.bool true) else none) then some .callIsErrorDiffers
      else none
    | o =>
      if isNilRes then some (nilResultViol methodCallTool o)
      else match o with
        | .panic => some .callPanicked
        | _ => some .callNoResult

/-- `r.zero`: the result of a method with a required list whose handler left the list nil / empty, or
returned `(nil, nil)`; `none` when the SDK answers with an error instead. -/
def rzeroMonitor (k : RKind) (method : String) (nilres : Bool) (o : ResObs) : Option Clause :=
  let judge (ji : JVal) : Option Clause :=
    let cur := getPath k.path ji
    if nilres && !isArrJ cur then some (nilResultViol method o)
    else if !isArrJ cur then some (.reqListNull method (k == .getPrompt || k == .complete))
    else if k == .readResource && (match cur with | some (.arr l) => !l.all resourceOK | _ => false) then some .f23
    else none
  match o with
  | .obj kvs => judge (.obj kvs)
  | .val j => judge j
  | o => if nilres then some (nilResultViol method o) else some .zeroNoResult

/-- `r.pg.list`: the list member of the result as written on the wire. -/
inductive PgObs where
  | null | missing | notArray | fine
deriving DecidableEq, Repr, Inhabited

def rpgMonitor (k : RKind) (keys : List Bytes) (ps : Nat) (c : Cursor) (o : PgObs) : Option Clause :=
  match o with
  | .null => some (.pgNull k keys c ps (pageSeq keys c).isEmpty)
  | .missing => some (.pgMissing k keys c ps)
  | .notArray => some (.pgNotArray k keys c ps)
  | .fine => none

/-! ## ioConn: the monitor's bookkeeping (independent of the model state) -/

structure MBatch where
  slots : Slots
  hasNotif : Bool := false
deriving Repr, Inhabited

structure IOMon where
  outCap : Nat := 0                -- capacity of the outgoing batch the connection was built with
  mwire : List JVal := []          -- frames fed, not yet taken
  mopen : List MBatch := []        -- accepted batches with unanswered calls
  mexpect : List JVal := []        -- elements of the accepted frame still to be returned by Read
  mnoBatch : Bool := false
deriving Repr, Inhabited

def frameElems : JVal → List JVal × Bool
  | .arr l => (l, true)
  | v => ([v], false)

def isCallW : JVal → Option Id
  | .obj kvs => match lookup wireDecode_Method_name kvs, lookup wireDecode_ID_name kvs with
    | some _, some (.int n) => some (.int n)
    | some _, some (.str s) => some (.str s)
    | _, _ => none
  | _ => none

def isNotifW : JVal → Bool
  | .obj kvs => (lookup wireDecode_Method_name kvs).isSome &&
      (match lookup wireDecode_ID_name kvs with | none => true | some .null => true | _ => false)
  | _ => false

/-- a frame the property speaks about: non-empty, every element a valid wire message, the call ids pairwise
distinct and none of them still unanswered in an open batch -/
def wellFormedBatch (mopen : List MBatch) (elems : List JVal) : Bool :=
  let calls := elems.filterMap isCallW
  elems ≠ [] && elems.all (fun e => validWire e && noDupKeys e) && nodupB calls &&
  calls.all (fun c => mopen.all (fun b => !slotPending b.slots c))

/-- the open batches after a response closed one: the first batch with that id pending is gone -/
def dropPending (id : Id) : List MBatch → List MBatch
  | [] => []
  | b :: t => if slotPending b.slots id then t else b :: dropPending id t

/-- monitor step for a message written through `ioConn.Write`: what the abstract spec (`specWrite`,
the one `batch_exactly_once` is proved against) expects; also whether the batch concerned held a
notification (to name F2). -/
def monWrite (open_ : List MBatch) (msg : Msg) : List MBatch × SOut × Bool :=
  let r := specWrite (open_.map (·.slots)) msg
  let hasNotif := match msg with
    | .response id _ _ => ((open_.find? (fun b => slotPending b.slots id)).map (·.hasNotif)).getD false
    | _ => false
  -- re-attach the flags: a closed batch disappears, a filled one keeps its place
  let open' : List MBatch :=
    if r.1.length = open_.length then (List.zip r.1 open_).map (fun p => { p.2 with slots := p.1 })
    else match msg with
      | .response id _ _ => dropPending id open_
      | _ => open_
  (open', r.2, hasNotif)

/-- the monitor's "is this message that wire element" -/
def sameMsgWire (m : Msg) (e : JVal) : Bool := validWire e && (wireDiff e (encodeMsg m)).isNone

inductive ErrKind where
  | eof | dup | seen | other
deriving DecidableEq, Repr, Inhabited

/-- what `ioConn.Read` did: the message returned (`none`: not readable as one) or the class of the error,
and the number of messages it left queued for the following reads -/
inductive ReadObs where
  | crash (c : Crash)
  | msg (m : Option Msg) (q : Nat)
  | err (k : ErrKind) (q : Nat)
deriving Repr, Inhabited

def ReadObs.q : ReadObs → Nat
  | .msg _ q => q
  | .err _ q => q
  | .crash _ => 0

def ReadObs.msg? : ReadObs → Option Msg
  | .msg m _ => m
  | _ => none

structure Verd where
  v19 : Option Clause := none
  v02 : Option Clause := none
  v03 : Option Clause := none
deriving Repr, Inhabited

/-- the clause reported under property `pid` (`also03`: the stream also judges C03) -/
def Verd.select (v : Verd) (pid : Pid) (also03 : Bool) : Option Clause :=
  match pid with
  | .c02 => if also03 then v.v02.orElse (fun _ => v.v03) else v.v02
  | .c03 => v.v03
  | .c19 => v.v19

/-- the message returned is (by its C19 members) the wire element `e` -/
def sameElem (m : Msg) (e : JVal) (w : Which) : Option Clause :=
  if !validWire e then none else
  match wireDiff e (encodeMsg m) with
  | none => none
  | some .id => if bigInt (idOfWire e) then some (.sameIdF1 w) else some (.sameId w)
  | some f => some (.sameMember f w)

def ioFeed (mon : IOMon) (w : JVal) : IOMon := { mon with mwire := mon.mwire ++ [w] }
def ioVer (mon : IOMon) (noBatch : Bool) : IOMon := { mon with mnoBatch := noBatch }

/-- `io.read` -/
def ioRead (mon : IOMon) (obs : ReadObs) : IOMon × Verd :=
  match obs with
  | .crash c =>
    -- the reader of the connection is gone (or stuck): everything after this frame is lost
    let fr : Option JVal := match mon.mexpect, mon.mwire with
      | [], raw :: _ => some raw
      | _, _ => none
    let mon1 := match mon.mexpect, mon.mwire with
      | [], _ :: w => { mon with mwire := w }
      | _ :: rest, _ => { mon with mexpect := rest }
      | _, _ => mon
    (mon1, { v19 := some (.dtRead c fr), v02 := some (.readGone02 c fr) })
  | obs =>
    let implMsg := obs.msg?
    let q := obs.q
    match mon.mexpect with
    | e :: rest =>
      -- a message of an already accepted frame; judged only when the next element written is a valid wire
      -- message (what an invalid one decodes to is the model's business, not the order clause's)
      let ooo := match implMsg with
        | some m => validWire e && outOfOrder sameMsgWire (e :: rest) m
        | none => false
      let v := match implMsg with
        | some m => if ooo then some .order19 else sameElem m e .next
        | none => some .readFailedQueued
      ({ mon with mexpect := rest }, { v19 := v, v03 := if ooo then some .order03 else none })
    | [] =>
      match mon.mwire with
      | [] =>
        (mon, { v19 := match obs with | .err .eof _ => none | _ => some .readAtEnd })
      | raw :: w =>
        let mon := { mon with mwire := w }
        let elems := (frameElems raw).1
        let isBatch := (frameElems raw).2
        let wf := wellFormedBatch mon.mopen elems && !(isBatch && mon.mnoBatch)
        let calls := elems.filterMap isCallW
        let hasNotif := elems.any isNotifW
        match obs with
        | .msg _ _ =>
          let ooo := match implMsg, elems with
            | some m, e :: _ => validWire e && outOfOrder sameMsgWire elems m
            | _, _ => false
          let v := match implMsg, elems with
            | some m, e :: _ => if ooo then some .order19 else sameElem m e .first
            | _, _ => none
          let v := if v.isNone && q != elems.length - 1 then some (.queued19 elems.length q) else v
          -- messages of an accepted frame that never come out of Read are lost for every property that
          -- speaks about them: a lost response leaves its call blocked (C01), a lost call is never
          -- answered (C02), a lost notification is never dispatched (C03)
          let vLost : Option Clause := if q != elems.length - 1 then some (.lost elems.length q) else none
          let mon := { mon with mexpect := (elems.drop 1).take q }
          let mon := if isBatch && calls ≠ [] then
              { mon with mopen := mon.mopen ++ [{ slots := calls.map (fun c => (c, none)), hasNotif := hasNotif }] }
            else mon
          (mon, { v19 := v, v02 := vLost, v03 := if ooo then some .order03 else none })
        | obs =>
          let f2 := isBatch && hasNotif && (match obs with | .err .dup _ => true | .err .seen _ => true | _ => false)
          let v19 := if !wf then none else if f2 then some .rejectedF2_19 else some .rejected19
          let v02 := if !wf then none else if f2 then some .rejectedF2_02 else some .rejected02
          ({ mon with mexpect := (elems.drop 1).take q }, { v19 := v19, v02 := v02 })

inductive WKind where
  | nothing | single | array | panic | badframe | other
deriving DecidableEq, Repr, Inhabited

/-- what `ioConn.Write` put on the stream -/
structure WriteObs where
  kind : WKind
  vals : List JVal := []
deriving Repr, Inhabited

/-- `io.write` -/
def ioWrite (mon : IOMon) (m : Msg) (o : WriteObs) : IOMon × Verd :=
  let r := monWrite mon.mopen m
  let exp := r.2.1
  let hasNotif := r.2.2
  -- C19: what is written is a well-framed encoding of the message(s) given
  let v19 : Option Clause :=
    match o.kind with
    | .panic => some .dtWrite
    | .badframe => some .badFrame
    | .single =>
      (match o.vals with
        | [v] => if (wireDiff v (encodeMsg m)).isNone then none else some .writtenDiffers
        | _ => some .badObservation)
    | _ => none
  -- C02: batch replies
  let v02 : Option Clause :=
    if o.kind = .panic then some .writePanic02
    else match exp with
      | .nothing => if o.kind = .nothing then none else some .flushedEarly
      | .single _ =>
        if o.kind = .single then none
        else if mon.outCap > 0 && (o.kind = .nothing || o.kind = .array) then none
        else some .notOnItsOwn
      | .array ms =>
        if o.kind = .array then
          if o.vals.length = ms.length && (List.zip ms o.vals).all (fun p => msgMatchesWire p.1 p.2) then none
          else some .arrayNotExact
        else if o.kind = .nothing then some (.withheld hasNotif)
        else some .lastOnItsOwn
  ({ mon with mopen := r.1 }, { v19 := v19, v02 := v02 })

/-- for `io.write` the C02 stream reports `v02`, every other `v19` -/
def Verd.selectWrite (v : Verd) (pid : Pid) : Option Clause :=
  match pid with
  | .c02 => v.v02
  | _ => v.v19

/-! ## concurrent writers on one connection -/

/-- `io.cw`: the lines of the stream after several goroutines called `Write` at the same time (in any
order; `none`: a line that is no JSON value on its own) -/
inductive CwObs where
  | crash (c : Crash)
  | lines (l : List (Option JVal))
  | other
deriving Repr, Inhabited

/-- messages that are never held back or merged: calls and notifications on a connection without
outgoing batching (responses may be parked in the reply to an incoming batch) -/
def onItsOwn (outCap : Nat) : Msg → Bool
  | .request .. => outCap == 0
  | _ => false

def lineIs (m : Msg) : Option JVal → Bool
  | some v => (wireDiff v (encodeMsg m)).isNone
  | none => false

/-- every line of the stream is a JSON value of its own — the frames of the writers do not run into each
other — and every message that goes out on its own is one of the lines, as given -/
def cwMonitor (outCap : Nat) (msgs : List Msg) (o : CwObs) : Option Clause :=
  match o with
  | .crash c => some (.cwCrash c)
  | .other => some .badObservation
  | .lines l =>
    if l.any Option.isNone then some (.cwGarbled (l.filter Option.isNone).length)
    else match msgs.find? (fun m => onItsOwn outCap m && !l.any (lineIs m)) with
      | some m => some (.cwLost m)
      | none => none

/-! ## a connection behind a `LoggingTransport` -/

/-- what the harness saw pass through the wrapper -/
inductive Passed where
  | read (m : Msg) | readErr | write (m : Msg)
deriving Repr, Inhabited

inductive LogObs where
  | entries (l : List (Option LogEntry))    -- `none`: a line that is no log entry
  | other
deriving Repr, Inhabited

def entryIs : Passed → Option LogEntry → Bool
  | .read m, some (.read v) => (wireDiff v (encodeMsg m)).isNone
  | .readErr, some .readErr => true
  | .write m, some (.write v) => (wireDiff v (encodeMsg m)).isNone
  | _, _ => false

def entriesAre : List Passed → List (Option LogEntry) → Bool
  | [], [] => true
  | p :: ps, e :: es => entryIs p e && entriesAre ps es
  | _, _ => false

/-- `io.log`: the log shows what passed, in order: every message as an encoding of THAT message -/
def logMonitor (passed : List Passed) (o : LogObs) : Option Clause :=
  match o with
  | .other => some .badObservation
  | .entries l => if entriesAre passed l then none else some (.logDiffers passed.length l.length)

/-! ## what a retried request carries (multi round trip) -/

/-- `mrtr.retry`: the two members of the params the client sends again, and what the server's decoder made of them -/
structure RetryObs where
  sentResp : Option JVal
  sentState : Option JVal
  back : Option (List (Bytes × RespKind) × Bytes)
deriving Repr, Inhabited

def kindD (v : JVal) : RespKind := match respKindOf v with | .ok k => k | .error _ => .roots

def allDiscriminated (rs : List (Bytes × JVal)) : Bool := rs.all (fun p => match respKindOf p.2 with | .ok _ => true | .error _ => false)

def respIntact (rs : List (Bytes × JVal)) (o : RetryObs) : Bool :=
  match o.sentResp with
  | none => rs.isEmpty
  | some v => !rs.isEmpty && sameJ v (.obj rs)

def stateIntact (state : Bytes) (o : RetryObs) : Bool :=
  match o.sentState with
  | none => state.isEmpty
  | some v => !state.isEmpty && v == .str state

def backAlike (rs : List (Bytes × JVal)) (state : Bytes) (o : RetryObs) : Bool :=
  !allDiscriminated rs ||
  (match o.back with
    | none => false
    | some (ks, s) => s == state && ks.length == rs.length && rs.all (fun p => ks.contains (p.1, kindD p.2)))

def retryMonitor (rs : List (Bytes × JVal)) (state : Bytes) (o : RetryObs) : Option Clause :=
  if !respIntact rs o then some .retryResponsesAltered
  else if !stateIntact state o then some .retryStateAltered
  else if !backAlike rs state o then some .retryNotDecodedAlike
  else none

/-! ## `ToolAnnotations` -/

/-- `ann.rt`: what `json.Marshal` wrote for the annotations, and what `json.Unmarshal` made of it -/
structure AnnObs where
  written : Option JVal
  back : Option ToolAnn
deriving Repr, Inhabited

def hintsPresent : Option JVal → Bool
  | some (.obj kvs) =>
    (match lookup ToolAnnotations_ReadOnlyHint_name kvs with | some (.bool _) => true | _ => false) &&
    (match lookup ToolAnnotations_IdempotentHint_name kvs with | some (.bool _) => true | _ => false)
  | _ => false

def annMonitor (compat : Bool) (a : ToolAnn) (o : AnnObs) : Option Clause :=
  if !compat && !hintsPresent o.written then some .toolAnnHintLost
  else if o.back ≠ some a then some .toolAnnChanged
  else none

/-! ## capabilities clones -/

/-- `caps.clone`: does the clone encode like the original; in how many cells a write through one showed in the other;
did `AddExtension` on the clone store the (empty, non-nil) settings without touching the original -/
structure CloneObs where
  same : Bool
  aliased : Nat
  ext : Option Bool       -- `none`: the original changed (aliased); `some false`: not stored
deriving Repr, Inhabited

def cloneMonitor (o : CloneObs) : Option Clause :=
  if !o.same then some .cloneDiffers
  else if o.aliased ≠ 0 || o.ext = none then some .cloneAliased
  else if o.ext = some false then some .extNotStored
  else none

/-- the writes the harness tries, on the model: through every cell of the clone (is the original's encoding
changed?) and through every cell of the original (is the clone's?) -/
def showsInOriginal (v : CSlots) (h : Heap) (x : JVal) : Option Nat → Bool
  | some a => encSlots v (writeCell (cloneV v h).2 a x) != encSlots v h
  | none => false

def showsInClone (v : CSlots) (h : Heap) (x : JVal) : Option Nat → Bool
  | some a => encSlots (cloneV v h).1 (writeCell (cloneV v h).2 a x) != encSlots (cloneV v h).1 (cloneV v h).2
  | none => false

def aliasCount (v : CSlots) (h : Heap) (x : JVal) : Nat :=
  ((cloneV v h).1.filter (showsInOriginal v h x)).length + (v.filter (showsInClone v h x)).length

/-- what `caps.clone` observes of the model -/
def modelClone (v : CSlots) (h : Heap) (x : JVal) : CloneObs :=
  { same := encSlots (cloneV v h).1 (cloneV v h).2 == encSlots v h, aliased := aliasCount v h x, ext := some true }

/-! ## the `CompleteReference` codec -/

/-- `ref.rt`: what `json.Marshal` of a reference gave, and what `json.Unmarshal` made of the text -/
inductive RefRtObs where
  | refused
  | written (v : JVal) (back : Option CRef)
  | other
deriving Repr, Inhabited

def refRtMonitor (r : CRef) (o : RefRtObs) : Option Clause :=
  match o with
  | .other => some .badObservation
  | .refused => if refCheck r = .ok () then some .refRefused else none
  | .written _ back =>
    if refCheck r = .ok () then (if back = some r then none else some .refChanged)
    else some .refInconsistentWritten

/-- `ref.dec`: what `json.Unmarshal` made of a JSON value, and what `json.Marshal` wrote for the result -/
inductive RefDecObs where
  | rejected
  | accepted (r : CRef) (reenc : Option JVal)
  | other
deriving Repr, Inhabited

def refDecMonitor (o : RefDecObs) : Option Clause :=
  match o with
  | .other => some .badObservation
  | .rejected => none
  | .accepted r reenc =>
    if refCheck r = .ok () then
      (match reenc, encodeRef r with
        | some w, .ok v => if sameJ w v then none else some .refReencDiffers
        | _, _ => some .refReencDiffers)
    else some .refInconsistentAccepted

/-! ## the byte stream of an io connection through its reader goroutine -/

inductive NdObs where
  | crash (c : Crash)
  | read (vals : List Bytes) (fin : StreamEnd)
  | garbled
deriving DecidableEq, Repr, Inhabited

/-- `nd.split`: values (objects / arrays) each followed by a separator, through the reader of `newIOConn`.  Where
every value is `framed` and every separator is white space beginning with LF or CR (`lineSep`: what `ioConn.Write`
and every line-oriented peer put there), the reader hands on exactly those values, in order, up to the end. -/
def ndSplitMonitor (l : List (Bytes × Bytes)) (o : NdObs) : Option Clause :=
  match o with
  | .crash c => some (.dtNdReader c)
  | o =>
    if l.all (fun q => framed q.1 && lineSep q.2) then
      match o with
      | .read vals fin => if vals = l.map (·.1) && fin = .eof then none else some .ndNotValueByValue
      | _ => some .badObservation
    else none

/-! ## frames through the other readers -/

inductive RbObs where
  | panic
  | ok (n : Nat)
  | other
deriving DecidableEq, Repr, Inhabited

/-- `io.rb`: `readBatch` alone (`ok n`: it returned `n` messages). -/
def rbMonitor (raw : JVal) (o : RbObs) : Option Clause :=
  match o with
  | .panic => some (.dtReadBatch raw)
  | .ok 0 => some (.rbAcceptedEmpty raw)
  | _ => none

/-- `h.post`: the frame as the body of a POST. -/
def postMonitor (path : String) (raw : JVal) (crash : Option Crash) : Option Clause :=
  crash.map (fun c => .dtPost c path raw)

/-- `live.io`: a real server session on an io transport. -/
def liveIoMonitor (raw : JVal) (crash : Option Crash) : Option Clause :=
  crash.map (fun c => .dtLiveIo c raw)

inductive CliObs where
  | crash (c : Crash)
  | error
  | other
deriving DecidableEq, Repr, Inhabited

/-- `live.cli`: a real streamable client whose ping is answered with the frame (`framing`: the foreign
SSE framing the answer arrived in, if any). -/
def liveCliMonitor (kind : String) (framing : Option String) (raw : JVal) (o : CliObs) : Option Clause :=
  match o with
  | .crash c => some (.dtLiveCli c kind raw)
  | .error =>
    match framing, decodeMsg raw with
    | some f, .ok _ => some (.sseCliFailed f)
    | _, _ => none
  | .other => none

/-! ## decode fuzz of the protocol types -/

mutual
/-- some `inputRequests` member somewhere in the value has a `null` entry -/
def hasNullInputRequest : JVal → Bool
  | .obj kvs => hasNullIRM kvs
  | .arr l => hasNullIRL l
  | _ => false
def hasNullIRM : List (Bytes × JVal) → Bool
  | [] => false
  | (k, v) :: t =>
    (k == CallToolResult_InputRequests_name && (match v with | .obj es => es.any (fun e => e.2 == .null) | _ => false)) ||
    hasNullInputRequest v || hasNullIRM t
def hasNullIRL : List JVal → Bool
  | [] => false
  | v :: t => hasNullInputRequest v || hasNullIRL t
end

def rfuzzMonitor (ty : String) (j : JVal) (panicked : Bool) : Option Clause :=
  if !panicked then none
  else if hasNullInputRequest j then some .f32Null
  else some (.dtNearValid ty)

/-- the member names on the way to the node a path (child indices) points to -/
def pathKeys : JVal → List Nat → List Bytes
  | _, [] => []
  | .obj kvs, i :: t => match kvs[i]? with
    | some (k, v) => k :: pathKeys v t
    | none => []
  | .arr l, i :: t => match l[i]? with
    | some v => pathKeys v t
    | none => []
  | _, _ => []

def inputResponsesName : Bytes := [105, 110, 112, 117, 116, 82, 101, 115, 112, 111, 110, 115, 101, 115]

inductive CaseObs where
  | panic | structDiffer | other
deriving DecidableEq, Repr, Inhabited

/-- `r.case`: one member name changed in case somewhere in a valid value (`j`: the value, if it was given;
`idx`: the path to the member). -/
def rcaseMonitor (ty name : String) (j : Option JVal) (idx : List Nat) (o : CaseObs) : Option Clause :=
  match o with
  | .panic => some (.dtCase ty name)
  | .structDiffer =>
    let above := match j with
      | some j => (pathKeys j idx).dropLast
      | none => []
    if above.contains CallToolResult_InputRequests_name || above.contains inputResponsesName then some (.caseF32 ty name)
    else some (.caseDeclared ty name)
  | .other => none

def lowerB (b : UInt8) : UInt8 := if 65 ≤ b && b ≤ 90 then b + 32 else b

/-- `k` is not `name` but equals it when case is ignored -/
def caseVariant (name k : Bytes) : Bool := k != name && k.map lowerB == name.map lowerB

inductive IrmObs where
  | panic | ok | other
deriving DecidableEq, Repr, Inhabited

/-- `r.irm`: `InputRequestMap.UnmarshalJSON` on a near-valid value. -/
def rirmMonitor (j : JVal) (o : IrmObs) : Option Clause :=
  let entries : List JVal := match j with | .obj kvs => kvs.map (·.2) | _ => []
  let caseVar := entries.any (fun e => match e with
    | .obj mem => mem.any (fun p => caseVariant irmRaw_Method_name p.1 || caseVariant irmRaw_Params_name p.1)
    | _ => false)
  match o with
  | .panic => if entries.any (· == .null) then some .f32Null else some .dtIrm
  | .ok =>
    (match decodeInputRequests j with
      | .error _ => if caseVar then some .caseIrm else none
      | .ok _ => none)
  | .other => none

end Mon
end Wire
