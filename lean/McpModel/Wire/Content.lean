import McpModel.Wire.Msg
/-!
# E2 Wire — content ⇄ `wireContent` (`mcp/content.go`)

`encodeContent` mirrors the seven `MarshalJSON` methods (each with the struct it really marshals:
`textWire`, `imageAudioWire`, `wireContent`, `toolUseWire`, `toolResultWire` — member names and
`omitempty` flags regenerated from the struct tags).  `wcOfJson` mirrors unmarshalling into
`wireContent`, `contentFromWire` the type switch with its allow lists.
Nested content of a `tool_result` is the REPAIRED encoding (fix F8: each block's own `MarshalJSON`
output); `reencodeViaWire` is the unrepaired path (own output → `wireContent` → `omitempty`).

Plain tagged sub-structs without SDK code of their own (`Annotations`, `Icon`, `ResourceContents`)
and `any`-typed members (`_meta`, `input`, `structuredContent`) are opaque JSON values here: their
(de)serialisation is `encoding/json`'s (trusted); only their JSON kind is checked on decoding.
`[]byte` members are modelled by their base64 text.
-/
namespace Wire
open Generated.Wire

abbrev Meta := List (Bytes × JVal)

inductive Content where
  | text (text : Bytes) (mta : Meta) (ann : Option JVal)
  | image (data mime : Bytes) (mta : Meta) (ann : Option JVal)
  | audio (data mime : Bytes) (mta : Meta) (ann : Option JVal)
  | link (uri name title description mime : Bytes) (size : Option Int) (mta : Meta) (ann : Option JVal) (icons : List JVal)
  | resource (res : Option JVal) (mta : Meta) (ann : Option JVal)
  | toolUse (id name : Bytes) (input : Meta) (mta : Meta)
  | toolResult (toolUseId : Bytes) (content : List Content) (structured : Option JVal) (isError : Bool) (mta : Meta)
deriving Repr, Inhabited

def kText : Bytes := [116, 101, 120, 116]
def kImage : Bytes := [105, 109, 97, 103, 101]
def kAudio : Bytes := [97, 117, 100, 105, 111]
def kLink : Bytes := [114, 101, 115, 111, 117, 114, 99, 101, 95, 108, 105, 110, 107]
def kResource : Bytes := [114, 101, 115, 111, 117, 114, 99, 101]
def kToolUse : Bytes := [116, 111, 111, 108, 95, 117, 115, 101]
def kToolResult : Bytes := [116, 111, 111, 108, 95, 114, 101, 115, 117, 108, 116]

def Content.kind : Content → Bytes
  | .text .. => kText
  | .image .. => kImage
  | .audio .. => kAudio
  | .link .. => kLink
  | .resource .. => kResource
  | .toolUse .. => kToolUse
  | .toolResult .. => kToolResult

/-! ## Encoding -/

def optStr (s : Bytes) : Option JVal := if s = [] then none else some (.str s)
def optObj (m : Meta) : Option JVal := if m = [] then none else some (.obj m)
def optArr (l : List JVal) : Option JVal := if l = [] then none else some (.arr l)
def optBool (b : Bool) : Option JVal := if b then some (.bool true) else none

mutual
/-- `MarshalJSON` of each content type (repaired nesting). -/
def encodeContent : Content → JVal
  | .text t m a => .obj (members [
      member textWire_Type_name textWire_Type_omit (optStr kText) (.str []),
      member textWire_Text_name textWire_Text_omit (optStr t) (.str []),
      member textWire_Meta_name textWire_Meta_omit (optObj m) .null,
      member textWire_Annotations_name textWire_Annotations_omit a .null])
  | .image d mime m a => .obj (members [
      member imageAudioWire_Type_name imageAudioWire_Type_omit (optStr kImage) (.str []),
      member imageAudioWire_MIMEType_name imageAudioWire_MIMEType_omit (optStr mime) (.str []),
      member imageAudioWire_Data_name imageAudioWire_Data_omit (optStr d) (.str []),
      member imageAudioWire_Meta_name imageAudioWire_Meta_omit (optObj m) .null,
      member imageAudioWire_Annotations_name imageAudioWire_Annotations_omit a .null])
  | .audio d mime m a => .obj (members [
      member imageAudioWire_Type_name imageAudioWire_Type_omit (optStr kAudio) (.str []),
      member imageAudioWire_MIMEType_name imageAudioWire_MIMEType_omit (optStr mime) (.str []),
      member imageAudioWire_Data_name imageAudioWire_Data_omit (optStr d) (.str []),
      member imageAudioWire_Meta_name imageAudioWire_Meta_omit (optObj m) .null,
      member imageAudioWire_Annotations_name imageAudioWire_Annotations_omit a .null])
  | .link uri name title desc mime size m a icons => .obj (members [
      member wireContent_Type_name wireContent_Type_omit (optStr kLink) (.str []),
      member wireContent_MIMEType_name wireContent_MIMEType_omit (optStr mime) (.str []),
      member wireContent_URI_name wireContent_URI_omit (optStr uri) (.str []),
      member wireContent_Name_name wireContent_Name_omit (optStr name) (.str []),
      member wireContent_Title_name wireContent_Title_omit (optStr title) (.str []),
      member wireContent_Description_name wireContent_Description_omit (optStr desc) (.str []),
      member wireContent_Size_name wireContent_Size_omit (size.map .int) .null,
      member wireContent_Meta_name wireContent_Meta_omit (optObj m) .null,
      member wireContent_Annotations_name wireContent_Annotations_omit a .null,
      member wireContent_Icons_name wireContent_Icons_omit (optArr icons) .null])
  | .resource r m a => .obj (members [
      member wireContent_Type_name wireContent_Type_omit (optStr kResource) (.str []),
      member wireContent_Resource_name wireContent_Resource_omit r .null,
      member wireContent_Meta_name wireContent_Meta_omit (optObj m) .null,
      member wireContent_Annotations_name wireContent_Annotations_omit a .null])
  | .toolUse id name input m => .obj (members [
      member toolUseWire_Type_name toolUseWire_Type_omit (optStr kToolUse) (.str []),
      member toolUseWire_ID_name toolUseWire_ID_omit (optStr id) (.str []),
      member toolUseWire_Name_name toolUseWire_Name_omit (optStr name) (.str []),
      -- nil map is replaced by an empty one before marshalling: never null
      (toolUseWire_Input_name, if input = [] ∧ toolUseWire_Input_omit then none else some (.obj input)),
      member toolUseWire_Meta_name toolUseWire_Meta_omit (optObj m) .null])
  | .toolResult tid cs st isErr m => .obj (members [
      member toolResultWire_Type_name toolResultWire_Type_omit (optStr kToolResult) (.str []),
      member toolResultWire_ToolUseID_name toolResultWire_ToolUseID_omit (optStr tid) (.str []),
      -- nil slice is replaced by an empty one: never null
      (toolResultWire_Content_name, if cs = [] ∧ toolResultWire_Content_omit then none else some (.arr (encodeContents cs))),
      member toolResultWire_StructuredContent_name toolResultWire_StructuredContent_omit st .null,
      member toolResultWire_IsError_name toolResultWire_IsError_omit (optBool isErr) (.bool false),
      member toolResultWire_Meta_name toolResultWire_Meta_omit (optObj m) .null])
def encodeContents : List Content → List JVal
  | [] => []
  | c :: t => encodeContent c :: encodeContents t
end

/-! ## Decoding -/

inductive CErr where
  | unmarshal       -- JSON does not fit `wireContent`
  | nilContent      -- "nil content"
  | notAllowed      -- "invalid content type" (allow list)
  | unrecognized    -- "unrecognized content type"
deriving DecidableEq, Repr, Inhabited

/-- The non-recursive members of `wireContent`. -/
structure WCS where
  type : Bytes := []
  text : Bytes := []
  mime : Bytes := []
  data : Bytes := []
  resource : Option JVal := none
  uri : Bytes := []
  name : Bytes := []
  title : Bytes := []
  description : Bytes := []
  size : Option Int := none
  mta : Meta := []
  ann : Option JVal := none
  icons : List JVal := []
  id : Bytes := []
  input : Meta := []
  toolUseId : Bytes := []
  structured : Option JVal := none
  isError : Bool := false
deriving Repr, Inhabited

/-- `wireContent`; `nested = none` is a nil `NestedContent` slice, elements `none` are nil pointers. -/
inductive WC where
  | mk (s : WCS) (nested : Option (List (Option WC)))
deriving Repr, Inhabited

def cString : JVal → Except CErr Bytes
  | .null => .ok []
  | .str s => .ok s
  | _ => .error .unmarshal

/-- pointer-to-struct / map members: object or null -/
def cObjOpt : JVal → Except CErr (Option JVal)
  | .null => .ok none
  | .obj kvs => .ok (some (.obj kvs))
  | _ => .error .unmarshal

def cMap : JVal → Except CErr Meta
  | .null => .ok []
  | .obj kvs => .ok kvs
  | _ => .error .unmarshal

def cAllObj : List JVal → Bool
  | [] => true
  | .obj _ :: t => cAllObj t
  | _ => false

/-- The zero `Icon` as `encoding/json` writes it (a `null` array element leaves the zero struct). -/
def zeroIcon : JVal :=
  .obj (members [
    member Icon_Source_name Icon_Source_omit none (.str []),
    member Icon_MIMEType_name Icon_MIMEType_omit none (.str []),
    member Icon_Sizes_name Icon_Sizes_omit none .null,
    member Icon_Theme_name Icon_Theme_omit none (.str [])])

def cIconList : List JVal → Except CErr (List JVal)
  | [] => .ok []
  | .obj kvs :: t => (cIconList t).map (.obj kvs :: ·)
  | .null :: t => (cIconList t).map (zeroIcon :: ·)
  | _ => .error .unmarshal

/-- `[]Icon`: array of objects (or nulls), or null -/
def cIcons : JVal → Except CErr (List JVal)
  | .null => .ok []
  | .arr l => cIconList l
  | _ => .error .unmarshal

/-- `[]byte`: a base64 string (kept as its text), null, or an empty array.  The array-of-numbers
form and non-canonical base64 text belong to the JSON library and are outside this model. -/
def cBytes : JVal → Except CErr Bytes
  | .null => .ok []
  | .str s => .ok s
  | .arr [] => .ok []
  | _ => .error .unmarshal

def cSize : JVal → Except CErr (Option Int)
  | .null => .ok none
  | .int n => if inInt64 n then .ok (some n) else .error .unmarshal
  | _ => .error .unmarshal

def cBool : JVal → Except CErr Bool
  | .null => .ok false
  | .bool b => .ok b
  | _ => .error .unmarshal

/-- `any`: null leaves nil -/
def cAny : JVal → Option JVal
  | .null => none
  | v => some v

/-- One scalar member applied to the struct being filled (unknown names are ignored; names are
compared exactly — `DontMatchCaseInsensitiveStructFields`). -/
def setScalar (k : Bytes) (v : JVal) (w : WCS) : Except CErr WCS :=
  if k = wireContent_Type_name then do let s ← cString v; .ok { w with type := if v = .null then w.type else s }
  else if k = wireContent_Text_name then do let s ← cString v; .ok { w with text := if v = .null then w.text else s }
  else if k = wireContent_MIMEType_name then do let s ← cString v; .ok { w with mime := if v = .null then w.mime else s }
  else if k = wireContent_Data_name then do let s ← cBytes v; .ok { w with data := s }
  else if k = wireContent_Resource_name then do let s ← cObjOpt v; .ok { w with resource := s }
  else if k = wireContent_URI_name then do let s ← cString v; .ok { w with uri := if v = .null then w.uri else s }
  else if k = wireContent_Name_name then do let s ← cString v; .ok { w with name := if v = .null then w.name else s }
  else if k = wireContent_Title_name then do let s ← cString v; .ok { w with title := if v = .null then w.title else s }
  else if k = wireContent_Description_name then do let s ← cString v; .ok { w with description := if v = .null then w.description else s }
  else if k = wireContent_Size_name then do let s ← cSize v; .ok { w with size := s }
  else if k = wireContent_Meta_name then do let s ← cMap v; .ok { w with mta := s }
  else if k = wireContent_Annotations_name then do let s ← cObjOpt v; .ok { w with ann := s }
  else if k = wireContent_Icons_name then do let s ← cIcons v; .ok { w with icons := s }
  else if k = wireContent_ID_name then do let s ← cString v; .ok { w with id := if v = .null then w.id else s }
  else if k = wireContent_Input_name then do let s ← cMap v; .ok { w with input := s }
  else if k = wireContent_ToolUseID_name then do let s ← cString v; .ok { w with toolUseId := if v = .null then w.toolUseId else s }
  else if k = wireContent_StructuredContent_name then .ok { w with structured := cAny v }
  else if k = wireContent_IsError_name then do let s ← cBool v; .ok { w with isError := if v = .null then w.isError else s }
  else .ok w

mutual
/-- Unmarshal into `*wireContent` (`none` = JSON null = nil pointer). -/
def wcOfJson : JVal → Except CErr (Option WC)
  | .null => .ok none
  | .obj kvs => do
    let (s, n) ← wcFields kvs ({}, none)
    .ok (some (.mk s n))
  | _ => .error .unmarshal
/-- Members in document order; a later member overwrites an earlier one of the same name. -/
def wcFields : List (Bytes × JVal) → WCS × Option (List (Option WC)) → Except CErr (WCS × Option (List (Option WC)))
  | [], acc => .ok acc
  | (k, v) :: t, (s, n) =>
    if k = wireContent_NestedContent_name then do
      let n' ← wcNested v
      wcFields t (s, n')
    else do
      let s' ← setScalar k v s
      wcFields t (s', n)
def wcNested : JVal → Except CErr (Option (List (Option WC)))
  | .null => .ok none
  | .arr l => do
    let ws ← wcList l
    .ok (some ws)
  | _ => .error .unmarshal
def wcList : List JVal → Except CErr (List (Option WC))
  | [] => .ok []
  | v :: t => do
    let w ← wcOfJson v
    let ws ← wcList t
    .ok (w :: ws)
end

def allowed (allow : Option (List Bytes)) (k : Bytes) : Bool :=
  match allow with
  | none => true
  | some l => l.contains k

mutual
/-- `contentFromWire` -/
def contentFromWire (allow : Option (List Bytes)) : Option WC → Except CErr Content
  | none => .error .nilContent
  | some (.mk w nested) =>
    if !allowed allow w.type then .error .notAllowed
    else if w.type = kText then .ok (.text w.text w.mta w.ann)
    else if w.type = kImage then .ok (.image w.data w.mime w.mta w.ann)
    else if w.type = kAudio then .ok (.audio w.data w.mime w.mta w.ann)
    else if w.type = kLink then .ok (.link w.uri w.name w.title w.description w.mime w.size w.mta w.ann w.icons)
    else if w.type = kResource then .ok (.resource w.resource w.mta w.ann)
    else if w.type = kToolUse then .ok (.toolUse w.id w.name w.input w.mta)
    else if w.type = kToolResult then
      match nested with
      | none => .ok (.toolResult w.toolUseId [] w.structured w.isError w.mta)
      | some ws => do
        let cs ← contentsFromWire allowNested ws
        .ok (.toolResult w.toolUseId cs w.structured w.isError w.mta)
    else .error .unrecognized
/-- `contentsFromWire` -/
def contentsFromWire (allow : Option (List Bytes)) : List (Option WC) → Except CErr (List Content)
  | [] => .ok []
  | w :: t => do
    let c ← contentFromWire allow w
    let cs ← contentsFromWire allow t
    .ok (c :: cs)
end

/-! ## Well-formed content values (the domain of `content_roundtrip`) -/

/-- an optional plain sub-struct (`*Annotations`, `*ResourceContents`): absent or a JSON object -/
def isObjOpt : Option JVal → Bool
  | none => true
  | some (.obj _) => true
  | _ => false

mutual
/-- A content value as the Go types can hold it: sub-structs are objects, `size` is an int64, a
non-nil `structuredContent` does not marshal to `null`, and the blocks nested in a tool_result are
of the kinds `contentFromWire` admits there (regenerated `allowNested`). -/
def wfContent : Content → Bool
  | .text _ _ a => isObjOpt a
  | .image _ _ _ a => isObjOpt a
  | .audio _ _ _ a => isObjOpt a
  | .link _ _ _ _ _ sz _ a ic => isObjOpt a && cAllObj ic && (match sz with | some n => inInt64 n | none => true)
  | .resource r _ a => isObjOpt a && isObjOpt r
  | .toolUse .. => true
  | .toolResult _ cs st _ _ => (match st with | some .null => false | _ => true) && wfNested cs
def wfNested : List Content → Bool
  | [] => true
  | c :: t => wfContent c && allowed allowNested c.kind && wfNested t
end

mutual
/-- The `wireContent` value a content value unmarshals to. -/
def toWC : Content → WC
  | .text t m a => .mk { type := kText, text := t, mta := m, ann := a } none
  | .image d mi m a => .mk { type := kImage, data := d, mime := mi, mta := m, ann := a } none
  | .audio d mi m a => .mk { type := kAudio, data := d, mime := mi, mta := m, ann := a } none
  | .link u nm t d mi sz m a ic =>
    .mk { type := kLink, uri := u, name := nm, title := t, description := d, mime := mi, size := sz, mta := m, ann := a, icons := ic } none
  | .resource r m a => .mk { type := kResource, resource := r, mta := m, ann := a } none
  | .toolUse id nm inp m => .mk { type := kToolUse, id := id, name := nm, input := inp, mta := m } none
  | .toolResult tid cs st ie m =>
    .mk { type := kToolResult, toolUseId := tid, structured := st, isError := ie, mta := m } (some (toWCs cs))
def toWCs : List Content → List (Option WC)
  | [] => []
  | c :: t => some (toWC c) :: toWCs t
end

/-- Unmarshal one content object (`*wireContent` member) and convert it. -/
def decodeContent (allow : Option (List Bytes)) (j : JVal) : Except CErr Content := do
  let w ← wcOfJson j
  contentFromWire allow w

/-- `[]*wireContent` member (CallToolResult): array or null. -/
def decodeContentList (allow : Option (List Bytes)) (j : JVal) : Except CErr (List Content) := do
  match ← wcNested j with
  | none => .ok []
  | some ws => contentsFromWire allow ws

/-- `unmarshalContent`: absent/null ⇒ "nil content"; an array, else a single object. -/
def unmarshalContent (allow : Option (List Bytes)) : Option JVal → Except CErr (List Content)
  | none => .error .nilContent
  | some .null => .error .nilContent
  | some (.arr l) => do
    -- array first; if the array does not unmarshal, the single-object attempt fails too
    let ws ← wcList l
    contentsFromWire allow ws
  | some j => do
    let c ← decodeContent allow j
    .ok [c]

/-! ## The unrepaired nesting (F8) -/

/-- `json.Marshal(&wireContent)`: every member with its `omitempty` flag. -/
def wcsToJson (w : WCS) (nested : Option JVal) : JVal :=
  .obj (members [
    member wireContent_Type_name wireContent_Type_omit (optStr w.type) (.str []),
    member wireContent_Text_name wireContent_Text_omit (optStr w.text) (.str []),
    member wireContent_MIMEType_name wireContent_MIMEType_omit (optStr w.mime) (.str []),
    member wireContent_Data_name wireContent_Data_omit (optStr w.data) .null,
    member wireContent_Resource_name wireContent_Resource_omit w.resource .null,
    member wireContent_URI_name wireContent_URI_omit (optStr w.uri) (.str []),
    member wireContent_Name_name wireContent_Name_omit (optStr w.name) (.str []),
    member wireContent_Title_name wireContent_Title_omit (optStr w.title) (.str []),
    member wireContent_Description_name wireContent_Description_omit (optStr w.description) (.str []),
    member wireContent_Size_name wireContent_Size_omit (w.size.map .int) .null,
    member wireContent_Meta_name wireContent_Meta_omit (optObj w.mta) .null,
    member wireContent_Annotations_name wireContent_Annotations_omit w.ann .null,
    member wireContent_Icons_name wireContent_Icons_omit (optArr w.icons) .null,
    member wireContent_ID_name wireContent_ID_omit (optStr w.id) (.str []),
    member wireContent_Input_name wireContent_Input_omit (optObj w.input) .null,
    member wireContent_ToolUseID_name wireContent_ToolUseID_omit (optStr w.toolUseId) (.str []),
    member wireContent_NestedContent_name wireContent_NestedContent_omit nested .null,
    member wireContent_StructuredContent_name wireContent_StructuredContent_omit w.structured .null,
    member wireContent_IsError_name wireContent_IsError_omit (optBool w.isError) (.bool false)])

/-- What the unrepaired `ToolResultContent.MarshalJSON` put into `content` for a (non-nested)
block: its own output, unmarshalled into `wireContent` and marshalled again. -/
def reencodeViaWire (c : Content) : Option JVal :=
  match wcOfJson (encodeContent c) with
  | .ok (some (.mk w _)) => some (wcsToJson w none)
  | _ => none

/-! ## `ResourceContents` (plain tagged struct; only its required-member question is modelled) -/

/-- `json.Marshal(ResourceContents)` with the regenerated tags: `text` has `omitempty`, `blob` has
`omitzero` (a nil slice is dropped, an empty non-nil one is written as ""). -/
def encodeResource (uri mime text : Bytes) (blob : Option Bytes) (m : Meta) : JVal :=
  .obj (members [
    member ResourceContents_URI_name ResourceContents_URI_omit (optStr uri) (.str []),
    member ResourceContents_MIMEType_name ResourceContents_MIMEType_omit (optStr mime) (.str []),
    member ResourceContents_Text_name ResourceContents_Text_omit (optStr text) (.str []),
    member ResourceContents_Blob_name ResourceContents_Blob_omit (blob.map .str) .null,
    member ResourceContents_Meta_name ResourceContents_Meta_omit (optObj m) .null])

def isStr : Option JVal → Bool
  | some (.str _) => true
  | _ => false

/-- A resource contents object carries `text` or `blob` (TextResourceContents / BlobResourceContents). -/
def resourceOK : JVal → Bool
  | .obj kvs => isStr (lookup ResourceContents_Text_name kvs) || isStr (lookup ResourceContents_Blob_name kvs)
  | _ => true

/-! ## Required members (monitor and theorem share this predicate) -/

mutual
/-- Required members of a content object are present and non-null: `text` for text, `data` for
image/audio, a `content` array for tool_result — recursively inside that array. -/
def reqOK : JVal → Bool
  | .obj kvs =>
    let ty := lookup wireContent_Type_name kvs
    (if ty = some (.str kText) then isStr (lookup wireContent_Text_name kvs) else true) &&
    (if ty = some (.str kImage) ∨ ty = some (.str kAudio) then isStr (lookup wireContent_Data_name kvs) else true) &&
    (if ty = some (.str kToolResult) then hasArr kvs else true) &&
    reqMembers kvs
  | _ => true
/-- every member named `content` that holds an array holds only blocks that are `reqOK` -/
def reqMembers : List (Bytes × JVal) → Bool
  | [] => true
  | (k, v) :: t => (if k = wireContent_NestedContent_name then reqArr v else true) && reqMembers t
def reqArr : JVal → Bool
  | .arr l => reqList l
  | _ => true
def reqList : List JVal → Bool
  | [] => true
  | v :: t => reqOK v && reqList t
/-- a member named `content` exists and the last one is an array -/
def hasArr : List (Bytes × JVal) → Bool
  | [] => false
  | (k, v) :: t => if hasArrLater t then hasArr t else (k = wireContent_NestedContent_name && isArr v)
def hasArrLater : List (Bytes × JVal) → Bool
  | [] => false
  | (k, _) :: t => k = wireContent_NestedContent_name || hasArrLater t
def isArr : JVal → Bool
  | .arr _ => true
  | _ => false
end

end Wire
