import McpModel.Wire.Props
import McpModel.Wire.Monitor
import McpModel.Wire.Bridge
/-!
# C19 (and the id / batch parts of C01–C03) — clause soundness of the typed monitors (`Monitor.lean`)

For every clause a monitor can report, the corresponding clause of the property is stated as a predicate `P_…` on the
RECORD alone — the typed operation (the message / wire value / event list / content value / frame) and the typed
observation of the implementation — written from the property text: no model function decides it (the vocabulary
shared with the model is the vocabulary of the property itself: `wfMsg`, `validWire`, `proj` = "id, method, params,
result, error code, message, data", `CleanEvent`, `WfFLine`, `FEvent.denote`, `reqOK` / `resourceOK` = "required
members present", the slot specification `specWrite` = "one array with exactly one response per call").
`sound_<clause>`: whenever the monitor reports the clause, the predicate is false on that record.

The records of the streams msg, mcp (codec part) and ids are independent evaluations (stateless monitors): an
observation trace is one record.  The `ioConn` clauses are judged against the monitor's bookkeeping `IOMon`, whose
fields are functions of the observed history alone (frames fed and not yet taken, elements of the accepted frame
not yet handed out, open batches as slot lists); their predicates are stated on `(IOMon, observation)`.
-/
namespace Wire
namespace Mon
open Generated.Wire

/-! ## structural equality of content values is equality -/

mutual
theorem eq_of_beqC : ∀ (a b : Content), beqC a b = true → a = b
  | .text .., .text .., h => by simp [beqC] at h; simp [h]
  | .image .., .image .., h => by simp [beqC] at h; simp [h]
  | .audio .., .audio .., h => by simp [beqC] at h; simp [h]
  | .link .., .link .., h => by simp [beqC] at h; simp [h]
  | .resource .., .resource .., h => by simp [beqC] at h; simp [h]
  | .toolUse .., .toolUse .., h => by simp [beqC] at h; simp [h]
  | .toolResult _ cs _ _ _, .toolResult _ cs' _ _ _, h => by
    simp [beqC] at h
    have := eq_of_beqCL cs cs' h.1.1.1.2
    simp [h, this]
  | .text .., .image .., h | .text .., .audio .., h | .text .., .link .., h | .text .., .resource .., h
  | .text .., .toolUse .., h | .text .., .toolResult .., h => by simp [beqC] at h
  | .image .., .text .., h | .image .., .audio .., h | .image .., .link .., h | .image .., .resource .., h
  | .image .., .toolUse .., h | .image .., .toolResult .., h => by simp [beqC] at h
  | .audio .., .text .., h | .audio .., .image .., h | .audio .., .link .., h | .audio .., .resource .., h
  | .audio .., .toolUse .., h | .audio .., .toolResult .., h => by simp [beqC] at h
  | .link .., .text .., h | .link .., .image .., h | .link .., .audio .., h | .link .., .resource .., h
  | .link .., .toolUse .., h | .link .., .toolResult .., h => by simp [beqC] at h
  | .resource .., .text .., h | .resource .., .image .., h | .resource .., .audio .., h | .resource .., .link .., h
  | .resource .., .toolUse .., h | .resource .., .toolResult .., h => by simp [beqC] at h
  | .toolUse .., .text .., h | .toolUse .., .image .., h | .toolUse .., .audio .., h | .toolUse .., .link .., h
  | .toolUse .., .resource .., h | .toolUse .., .toolResult .., h => by simp [beqC] at h
  | .toolResult .., .text .., h | .toolResult .., .image .., h | .toolResult .., .audio .., h | .toolResult .., .link .., h
  | .toolResult .., .resource .., h | .toolResult .., .toolUse .., h => by simp [beqC] at h
theorem eq_of_beqCL : ∀ (a b : List Content), beqCL a b = true → a = b
  | [], [], _ => rfl
  | x :: xs, y :: ys, h => by
    simp [beqCL] at h
    rw [eq_of_beqC x y h.1, eq_of_beqCL xs ys h.2]
  | [], _ :: _, h => by simp [beqCL] at h
  | _ :: _, [], h => by simp [beqCL] at h
end

/-! ## message codec -/

/-- "Encoding any JSON-RPC message and decoding it again yields an equal value." -/
def P_roundtrip_msg (m : Msg) (back : Option DecObs) : Prop := wfMsg m = true → back = some (.ok m)

theorem sound_encdec (m : Msg) (back : Option DecObs) (c : Clause) (h : encdecMonitor m back = some c) :
    ¬ P_roundtrip_msg m back := by
  intro hp
  unfold encdecMonitor at h
  by_cases hw : wfMsg m = true
  · simp [hw, hp hw] at h
  · simp [hw] at h

theorem sound_encdecF1 (m : Msg) (back : Option DecObs) (h : encdecMonitor m back = some .encdecF1) :
    ¬ P_roundtrip_msg m back := sound_encdec m back _ h
theorem sound_encdecNotBack (m : Msg) (back : Option DecObs) (h : encdecMonitor m back = some .encdecNotBack) :
    ¬ P_roundtrip_msg m back := sound_encdec m back _ h
theorem sound_encdecNoEncoding (m : Msg) (back : Option DecObs) (h : encdecMonitor m back = some .encdecNoEncoding) :
    ¬ P_roundtrip_msg m back := sound_encdec m back _ h

/-- the F1 label is attached only where the id is an integer beyond ±2^53 -/
theorem encdecF1_only_big (m : Msg) (back : Option DecObs) (h : encdecMonitor m back = some .encdecF1) :
    ∃ n, m.id = .int n ∧ (n > 9007199254740992 ∨ n < -9007199254740992) := by
  unfold encdecMonitor at h
  by_cases hw : wfMsg m = true
  · simp only [hw, ite_true] at h
    cases back with
    | none => simp at h
    | some b =>
      simp only at h
      by_cases hb : b = .ok m
      · simp [hb] at h
      · simp only [hb, ite_false] at h
        by_cases hbig : bigInt (encodeId m.id) = true
        · cases hid : m.id with
          | int n =>
            simp only [hid, encodeId, bigInt, two53, Bool.or_eq_true, decide_eq_true_eq] at hbig
            rcases hbig with hb | hb
            · exact ⟨n, rfl, Or.inl (by simpa using hb)⟩
            · exact ⟨n, rfl, Or.inr (of_decide_eq_true hb)⟩
          | none => simp [hid, encodeId, bigInt] at hbig
          | str s => simp [hid, encodeId, bigInt] at hbig
        · simp [hbig] at h
  · simp [hw] at h

/-- "A response carries an id" (a valid wire message without method has one): one without is not accepted. -/
def P_respNeedsId (w : JVal) (o : DecEncObs) : Prop := respNoId w = true → o.accepted = false

theorem sound_respNeedsId (w : JVal) (o : DecEncObs) (h : decencMonitor w o = some .respNeedsId) :
    ¬ P_respNeedsId w o := by
  intro hp
  unfold decencMonitor at h
  by_cases h1 : respNoId w = true
  · simp [h1, hp h1] at h
  · simp only [h1, Bool.false_eq_true, ite_false] at h
    split at h
    · repeat' split at h
      all_goals first | cases h | skip
      all_goals simp at h
    · cases h

/-- "Decoding any valid wire message and re-encoding it preserves its id (type and exact integer value), method,
params, result and error code, message and data": the message is accepted and the re-encoding has the same
projection (`proj` lists exactly those members, and the version tag). -/
def P_preserves (w : JVal) (o : DecEncObs) : Prop :=
  validWire w = true → noDupKeys w = true →
    o.paired = true ∧ o.accepted = true ∧ ∃ w', o.reenc = some w' ∧ ∃ a, proj w = some a ∧ proj w' = some a

theorem wireDiff_some_of_ne (w w' : JVal) (f : Field) (h : wireDiff w w' = some f) :
    ¬ ∃ a, proj w = some a ∧ proj w' = some a := by
  rintro ⟨a, h1, h2⟩
  rw [wireDiff_none_of_proj w w' a h1 h2] at h
  cases h

/-- every `encode_decode_preserves` clause (and `bad-observation` of this record kind) refutes the clause -/
theorem sound_preserves (w : JVal) (o : DecEncObs) (c : Clause) (hc : c ≠ .respNeedsId)
    (h : decencMonitor w o = some c) : ¬ P_preserves w o := by
  intro hp
  unfold decencMonitor at h
  by_cases h1 : respNoId w = true
  · simp only [h1, ite_true] at h
    split at h
    · cases h; exact hc rfl
    · cases h
  · simp only [h1, Bool.false_eq_true, ite_false] at h
    by_cases h2 : (validWire w && noDupKeys w) = true
    · rw [Bool.and_eq_true] at h2
      obtain ⟨p1, p2, w', p3, p4⟩ := hp h2.1 h2.2
      simp only [h2.1, h2.2, Bool.and_self, ite_true, p1, p2, p3, Bool.not_true, Bool.false_eq_true, ite_false] at h
      cases hd : wireDiff w w' with
      | none => simp [hd] at h
      | some f => exact wireDiff_some_of_ne w w' f hd p4
    · simp [h2] at h

theorem sound_edpRejected (w : JVal) (o : DecEncObs) (h : decencMonitor w o = some .edpRejected) : ¬ P_preserves w o :=
  sound_preserves w o _ (by decide) h
theorem sound_edpIdF1 (w : JVal) (o : DecEncObs) (h : decencMonitor w o = some .edpIdF1) : ¬ P_preserves w o :=
  sound_preserves w o _ (by decide) h
theorem sound_edpId (w : JVal) (o : DecEncObs) (h : decencMonitor w o = some .edpId) : ¬ P_preserves w o :=
  sound_preserves w o _ (by decide) h
theorem sound_edpMember (w : JVal) (o : DecEncObs) (f : Field) (h : decencMonitor w o = some (.edpMember f)) :
    ¬ P_preserves w o := sound_preserves w o _ (by simp) h
theorem sound_edpReencFailed (w : JVal) (o : DecEncObs) (h : decencMonitor w o = some .edpReencFailed) :
    ¬ P_preserves w o := sound_preserves w o _ (by decide) h

/-- "Decoding is case-sensitive": the object with a member whose name differs in case only from a wire name decodes
like the object without that member. -/
def P_caseSensitive (obs : Option (DecObs × DecObs)) : Prop := ∃ a, obs = some (a, a)

theorem sound_caseMatched (obs : Option (DecObs × DecObs)) (c : Clause) (h : casedecMonitor obs = some c) :
    ¬ P_caseSensitive obs := by
  rintro ⟨a, rfl⟩
  simp [casedecMonitor] at h

theorem sound_caseMatchedErr (obs : Option (DecObs × DecObs)) (c : Clause) (h : casedecErrMonitor obs = some c) :
    ¬ P_caseSensitive obs := by
  rintro ⟨a, rfl⟩
  simp [casedecErrMonitor] at h

/-- "error code, message": the error object written for a Go error carries the code of the first wire error it
wraps (0 if none) and the outermost error's text. -/
def P_wireErrorWrap (e : GoErr) (obs : Option (List (Bytes × JVal))) : Prop :=
  ∃ kvs, obs = some kvs ∧ lookup WireError_Code_name kvs = some (.int (expectedCode e)) ∧
    lookup WireError_Message_name kvs = some (.str (expectedMessage e))

theorem sound_werr (e : GoErr) (obs : Option (List (Bytes × JVal))) (c : Clause) (h : werrMonitor e obs = some c) :
    ¬ P_wireErrorWrap e obs := by
  rintro ⟨kvs, rfl, h1, h2⟩
  simp only [werrMonitor, h1, h2] at h
  simp at h

/-- "never panics on arbitrary bytes" (and does not hang): the decoder returned. -/
def P_returns (crashed : Bool) : Prop := crashed = false

theorem sound_dtDecodeMessage (p : Bool) (c : Clause) (h : fuzzdecMonitor p = some c) : ¬ P_returns p := by
  intro hp; unfold P_returns at hp; subst hp; simp [fuzzdecMonitor] at h
theorem sound_dtScanPanic (p : Bool) (c : Clause) (h : scanPanicMonitor p = some c) : ¬ P_returns p := by
  intro hp; unfold P_returns at hp; simp [scanPanicMonitor, hp] at h
theorem sound_dtContentCtx (ctx : String) (p : Bool) (c : Clause) (h : cdecMonitor ctx p = some c) : ¬ P_returns p := by
  intro hp; unfold P_returns at hp; simp [cdecMonitor, hp] at h
theorem sound_dtContentFuzz (p : Bool) (c : Clause) (h : cfuzzMonitor p = some c) : ¬ P_returns p := by
  intro hp; unfold P_returns at hp; simp [cfuzzMonitor, hp] at h
theorem sound_dtNearValid (ty : String) (j : JVal) (p : Bool) (c : Clause) (h : rfuzzMonitor ty j p = some c) :
    ¬ P_returns p := by
  intro hp; unfold P_returns at hp; simp [rfuzzMonitor, hp] at h

/-- the same for the readers observed with a crash class -/
def P_noCrash (crash : Option Crash) : Prop := crash = none

theorem sound_dtPost (path : String) (raw : JVal) (cr : Option Crash) (c : Clause) (h : postMonitor path raw cr = some c) :
    ¬ P_noCrash cr := by
  intro hp; unfold P_noCrash at hp; simp [postMonitor, hp] at h
theorem sound_dtLiveIo (raw : JVal) (cr : Option Crash) (c : Clause) (h : liveIoMonitor raw cr = some c) : ¬ P_noCrash cr := by
  intro hp; unfold P_noCrash at hp; simp [liveIoMonitor, hp] at h

/-! ## id echo (C02) -/

/-- "exactly one response bearing that same id (same JSON type and value)", for ids that are strings or integers
in the int64 range. -/
def P_idEcho (idv : JVal) (o : IdObs) : Prop :=
  ((∃ s, idv = .str s) ∨ (∃ n, idv = .int n ∧ inInt64 n = true)) → ∃ v, o = .echoed (some v) ∧ v = idv

theorem sound_idEcho (idv : JVal) (o : IdObs) (c : Clause) (h : idechoMonitor idv o = some c) : ¬ P_idEcho idv o := by
  intro hp
  cases idv with
  | str s =>
    obtain ⟨v, rfl, rfl⟩ := hp (Or.inl ⟨s, rfl⟩)
    simp [idechoMonitor] at h
  | int n =>
    by_cases hn : inInt64 n = true
    · obtain ⟨v, rfl, rfl⟩ := hp (Or.inr ⟨n, rfl, hn⟩)
      simp [idechoMonitor, hn] at h
    · simp [idechoMonitor, hn] at h
  | _ => simp [idechoMonitor] at h

theorem sound_idRejected (idv : JVal) (o : IdObs) (h : idechoMonitor idv o = some .idRejected) : ¬ P_idEcho idv o :=
  sound_idEcho idv o _ h
theorem sound_idStrNotExact (idv : JVal) (o : IdObs) (h : idechoMonitor idv o = some .idStrNotExact) : ¬ P_idEcho idv o :=
  sound_idEcho idv o _ h
theorem sound_idIntF1 (idv : JVal) (o : IdObs) (h : idechoMonitor idv o = some .idIntF1) : ¬ P_idEcho idv o :=
  sound_idEcho idv o _ h
theorem sound_idIntDiff (idv : JVal) (o : IdObs) (h : idechoMonitor idv o = some .idIntDiff) : ¬ P_idEcho idv o :=
  sound_idEcho idv o _ h

/-! ## SSE framing -/

/-- "the same holds through SSE framing for every payload": scanning what `writeEvent` wrote for clean events
returns exactly those events, without error. -/
def P_sseRoundtrip (es : List Event) (o : ScanObs) : Prop :=
  (∀ e ∈ es, CleanEvent e) → o = .res (.scan es false)

theorem sound_sseRoundtrip (es : List Event) (o : ScanObs) (c : Clause) (h : sseRtMonitor es o = some c) :
    ¬ P_sseRoundtrip es o := by
  intro hp
  unfold sseRtMonitor at h
  by_cases hc : es.all cleanEvent = true
  · have := hp (fun e he => cleanEvent_spec e (List.all_eq_true.mp hc e he))
    subst this
    simp [hc] at h
  · simp [hc] at h

/-- the scanner does not see whether a line ended in LF or CRLF: both scans return, with the same result -/
def P_eolIrrelevant (ls : List (Bytes × Eol)) (rest : Bytes) (o : LinesObs) : Prop :=
  (∀ c, o ≠ .crash c) ∧ ((∀ p ∈ ls, LF ∉ p.1) → LF ∉ rest → ∃ r, o = .pair r r)

theorem sound_sseLines (ls : List (Bytes × Eol)) (rest : Bytes) (o : LinesObs) (c : Clause)
    (h : sseLinesMonitor ls rest o = some c) : ¬ P_eolIrrelevant ls rest o := by
  rintro ⟨hp1, hp2⟩
  cases o with
  | crash cr => exact hp1 cr rfl
  | garbled =>
    simp only [sseLinesMonitor] at h
    split at h
    · next hc =>
      rw [Bool.and_eq_true] at hc
      obtain ⟨r, hr⟩ := hp2 (fun p hp => by simpa using List.all_eq_true.mp hc.1 p hp) (by simpa using hc.2)
      cases hr
    · cases h
  | pair a b =>
    simp only [sseLinesMonitor] at h
    split at h
    · next hc =>
      rw [Bool.and_eq_true] at hc
      obtain ⟨r, hr⟩ := hp2 (fun p hp => by simpa using List.all_eq_true.mp hc.1 p hp) (by simpa using hc.2)
      cases hr
      simp at h
    · cases h

/-- an event stream as any conforming peer frames it is scanned, without error, to the events it denotes -/
def P_anyEol (es : List FEvent) (o : ScanObs) : Prop :=
  (∀ c, o ≠ .crash c) ∧ ((∀ e ∈ es, ∀ l ∈ e.lines, WfFLine l) → o = .res (.scan (denoted es) false))

theorem sound_sseFrn (es : List FEvent) (o : ScanObs) (c : Clause) (h : sseFrnMonitor es o = some c) :
    ¬ P_anyEol es o := by
  rintro ⟨hp1, hp2⟩
  cases o with
  | crash cr => exact hp1 cr rfl
  | missing =>
    simp only [sseFrnMonitor] at h
    split at h
    · next hc =>
      have := hp2 (fun e he l hl => L.wfFLine_spec l (List.all_eq_true.mp (List.all_eq_true.mp hc e he) l hl))
      cases this
    · cases h
  | res r =>
    simp only [sseFrnMonitor] at h
    split at h
    · next hc =>
      have := hp2 (fun e he l hl => L.wfFLine_spec l (List.all_eq_true.mp (List.all_eq_true.mp hc e he) l hl))
      cases this
      simp at h
    · cases h

/-- "the same holds through newline-delimited framing for every payload", reader side at the byte level: the values
(objects / arrays), each followed by LF or CRLF (or any white space beginning with one of them), come out of the
connection's reader one by one, as written, and the reader returns. -/
def P_valueByValue (l : List (Bytes × Bytes)) (o : NdObs) : Prop :=
  (∀ c, o ≠ .crash c) ∧ ((∀ q ∈ l, framed q.1 = true ∧ lineSep q.2 = true) → o = .read (l.map (·.1)) .eof)

theorem sound_ndSplit (l : List (Bytes × Bytes)) (o : NdObs) (c : Clause) (h : ndSplitMonitor l o = some c) :
    ¬ P_valueByValue l o := by
  rintro ⟨h1, h2⟩
  cases o with
  | crash cr => exact h1 cr rfl
  | garbled =>
    simp only [ndSplitMonitor] at h
    split at h
    · next hc =>
      have := h2 (fun q hq => by have := List.all_eq_true.mp hc q hq; rwa [Bool.and_eq_true] at this)
      cases this
    · cases h
  | read vals fin =>
    simp only [ndSplitMonitor] at h
    split at h
    · next hc =>
      have := h2 (fun q hq => by have := List.all_eq_true.mp hc q hq; rwa [Bool.and_eq_true] at this)
      cases this
      simp at h
    · cases h

/-! ## content and results: required members -/

/-- "required members (content arrays, text, data) are present and non-null", at every nesting depth, and an
embedded resource carries `text` or `blob`. -/
def P_required (obs : Option JVal) : Prop := ∃ ji, obs = some ji ∧ reqOK ji = true ∧ embeddedOK ji = true

theorem sound_cenc (obs : Option JVal) (c : Clause) (h : cencMonitor obs = some c) : ¬ P_required obs := by
  rintro ⟨ji, rfl, h1, h2⟩
  simp [cencMonitor, h1, h2] at h

theorem sound_f8Nested (obs : Option JVal) (h : cencMonitor obs = some .f8Nested) : ¬ P_required obs := sound_cenc obs _ h
theorem sound_contentLacks (obs : Option JVal) (h : cencMonitor obs = some .contentLacks) : ¬ P_required obs := sound_cenc obs _ h
theorem sound_contentNoMarshal (obs : Option JVal) (h : cencMonitor obs = some .contentNoMarshal) : ¬ P_required obs :=
  sound_cenc obs _ h
theorem sound_f23_content (obs : Option JVal) (h : cencMonitor obs = some .f23) : ¬ P_required obs := sound_cenc obs _ h

/-- resource contents carry `text` or `blob` -/
def P_resource (obs : Option JVal) : Prop := ∃ ji, obs = some ji ∧ resourceOK ji = true

theorem sound_cres (obs : Option JVal) (c : Clause) (h : cresMonitor obs = some c) : ¬ P_resource obs := by
  rintro ⟨ji, rfl, h1⟩
  simp [cresMonitor, h1] at h

/-- "Encoding any MCP protocol value and decoding it again yields an equal value", for well-formed content in a
context that admits its kinds. -/
def P_contentRoundtrip (sh : Shape) (allow : Option (List Bytes)) (cs : List Content) (obs : Option (Option (List Content))) : Prop :=
  crtDomain sh allow cs = true → obs = some (some cs)

theorem sound_crt (sh : Shape) (allow : Option (List Bytes)) (cs : List Content) (obs : Option (Option (List Content)))
    (c : Clause) (h : crtMonitor sh allow cs obs = some c) : ¬ P_contentRoundtrip sh allow cs obs := by
  intro hp
  unfold crtMonitor at h
  by_cases hd : crtDomain sh allow cs = true
  · rw [hp hd] at h
    simp [hd, beqCL_refl] at h
  · simp [hd] at h

/-- marshal → unmarshal → marshal leaves a protocol value as it was -/
def P_protoStable (j1 : JVal) (obs : Option JVal) : Prop := obs = some j1

theorem sound_rrt (j1 : JVal) (obs : Option JVal) (c : Clause) (h : rrtMonitor j1 obs = some c) : ¬ P_protoStable j1 obs := by
  intro hp; unfold P_protoStable at hp; subst hp; simp [rrtMonitor] at h

/-- `tools/call` through a raw handler: the result sent has a `content` ARRAY of exactly the handler's blocks, each
with its required members, `structuredContent` = the handler's value, `isError` iff set. -/
def P_callResult (c : Option (List Content)) (sc : Option JVal) (ie : Bool) (o : ResObs) : Prop :=
  ∃ kvs, o = .obj kvs ∧ ∃ l, lookup CallToolResult_Content_name kvs = some (.arr l) ∧
    reqList l = true ∧ embList l = true ∧
    sameJ (.arr l) (.arr (encodeContents (c.getD []))) = true ∧
    sameOJ (lookup CallToolResult_StructuredContent_name kvs) sc = true ∧
    lookup CallToolResult_IsError_name kvs = (if ie then some (.bool true) else none)

theorem sound_rcall (c : Option (List Content)) (sc : Option JVal) (ie : Bool) (o : ResObs) (cl : Clause)
    (h : rcallMonitor (.result c sc ie) o = some cl) : ¬ P_callResult c sc ie o := by
  rintro ⟨kvs, rfl, l, h1, h2, h3, h4, h5, h6⟩
  have h4' : sameOJ (some (.arr l)) (some (.arr (encodeContents (Option.getD _ [])))) = true := h4
  simp only [rcallMonitor, h1, isArrJ, contentArrOK, h2, h3, h4', h5, h6] at h
  simp at h

/-- a handler that returned `(nil, nil)` is answered like one that returned an empty result -/
theorem sound_rcall_nil (o : ResObs) (cl : Clause) (h : rcallMonitor .nilResult o = some cl) :
    ¬ P_callResult none none false o := by
  rintro ⟨kvs, rfl, l, h1, h2, h3, h4, h5, h6⟩
  have h4' : sameOJ (some (.arr l)) (some (.arr (encodeContents (Option.getD _ [])))) = true := h4
  simp only [rcallMonitor, h1, isArrJ, contentArrOK, h2, h3, h4', h5, h6] at h
  simp at h

/-- "list arrays are present and non-null": the required list member of the result is an array (for `resources/read`
of contents that carry `text` or `blob`). -/
def P_requiredList (k : RKind) (o : ResObs) : Prop :=
  ∃ ji, (o = .val ji ∨ ∃ kvs, ji = .obj kvs ∧ o = .obj kvs) ∧ ∃ items, getPath k.path ji = some (.arr items) ∧
    (k = .readResource → items.all resourceOK = true)

theorem sound_rzero (k : RKind) (method : String) (nilres : Bool) (o : ResObs) (c : Clause)
    (h : rzeroMonitor k method nilres o = some c) : ¬ P_requiredList k o := by
  rintro ⟨ji, hji, items, h1, h2⟩
  rcases hji with rfl | ⟨kvs, rfl, rfl⟩
  · simp only [rzeroMonitor, h1, isArrJ] at h
    by_cases hk : k = .readResource
    · simp [hk, h2 hk] at h
    · simp [hk] at h
  · simp only [rzeroMonitor, h1, isArrJ] at h
    by_cases hk : k = .readResource
    · simp [hk, h2 hk] at h
    · simp [hk] at h

/-- the list member of a paged list result, as written on the wire, is an array (or the request is refused) -/
def P_pagedList (o : PgObs) : Prop := o = .fine

theorem sound_rpg (k : RKind) (keys : List Bytes) (ps : Nat) (cur : Cursor) (o : PgObs) (c : Clause)
    (h : rpgMonitor k keys ps cur o = some c) : ¬ P_pagedList o := by
  intro hp; unfold P_pagedList at hp; subst hp; simp [rpgMonitor] at h

/-! ## frames without a message; live sessions; decode fuzz -/

/-- whatever `readBatch` accepts carries a message, and it returns -/
def P_readBatch (o : RbObs) : Prop := o ≠ .panic ∧ o ≠ .ok 0

theorem sound_rb (raw : JVal) (o : RbObs) (c : Clause) (h : rbMonitor raw o = some c) : ¬ P_readBatch o := by
  rintro ⟨h1, h2⟩
  cases o with
  | panic => exact h1 rfl
  | ok n => cases n with
    | zero => exact h2 rfl
    | succ n => simp [rbMonitor] at h
  | other => simp [rbMonitor] at h

/-- a live streamable client returns, and a response its own decoder accepts is delivered when it arrives in a
well-formed event stream of a foreign peer -/
def P_liveCli (framing : Option String) (raw : JVal) (o : CliObs) : Prop :=
  (∀ c, o ≠ .crash c) ∧ (framing.isSome = true → (∃ m, decodeMsg raw = .ok m) → o ≠ .error)

theorem sound_liveCli (kind : String) (framing : Option String) (raw : JVal) (o : CliObs) (c : Clause)
    (h : liveCliMonitor kind framing raw o = some c) : ¬ P_liveCli framing raw o := by
  rintro ⟨h1, h2⟩
  cases o with
  | crash cr => exact h1 cr rfl
  | other => simp [liveCliMonitor] at h
  | error =>
    simp only [liveCliMonitor] at h
    cases framing with
    | none => simp at h
    | some f =>
      cases hd : decodeMsg raw with
      | error e => simp [hd] at h
      | ok m => exact h2 rfl ⟨m, hd⟩ rfl

/-- a member name in another case is ignored wherever a foreign member name is, and the decoder returns -/
def P_caseIgnored (o : CaseObs) : Prop := o = .other

theorem sound_rcase (ty name : String) (j : Option JVal) (idx : List Nat) (o : CaseObs) (c : Clause)
    (h : rcaseMonitor ty name j idx o = some c) : ¬ P_caseIgnored o := by
  intro hp; unfold P_caseIgnored at hp; subst hp; simp [rcaseMonitor] at h

/-- `InputRequestMap.UnmarshalJSON` returns, and accepts nothing its case-sensitive reading rejects -/
def P_inputRequests (j : JVal) (o : IrmObs) : Prop :=
  o ≠ .panic ∧ (o = .ok → ∃ l, decodeInputRequests j = .ok l)

theorem sound_rirm (j : JVal) (o : IrmObs) (c : Clause) (h : rirmMonitor j o = some c) : ¬ P_inputRequests j o := by
  rintro ⟨h1, h2⟩
  cases o with
  | panic => exact h1 rfl
  | other => simp [rirmMonitor] at h
  | ok =>
    obtain ⟨l, hl⟩ := h2 rfl
    simp [rirmMonitor, hl] at h

/-! ## the `CompleteReference` codec -/

/-- marshal → unmarshal of a reference: a consistent one is written and comes back as itself, an inconsistent one is
refused -/
def P_refRoundtrip (r : CRef) (o : RefRtObs) : Prop :=
  (refCheck r = .ok () → ∃ v, o = .written v (some r)) ∧ (refCheck r ≠ .ok () → o = .refused)

theorem sound_refRt (r : CRef) (o : RefRtObs) (c : Clause) (h : refRtMonitor r o = some c) : ¬ P_refRoundtrip r o := by
  rintro ⟨h1, h2⟩
  by_cases hc : refCheck r = .ok ()
  · obtain ⟨v, rfl⟩ := h1 hc
    simp [refRtMonitor, hc] at h
  · rw [h2 hc] at h
    simp [refRtMonitor, hc] at h

/-- unmarshal → marshal: what is accepted is consistent, and is written again as the encoding of that reference -/
def P_refAccepted (o : RefDecObs) : Prop :=
  o = .rejected ∨ ∃ r w v, o = .accepted r (some w) ∧ refCheck r = .ok () ∧ encodeRef r = .ok v ∧ sameJ w v = true

theorem sound_refDec (o : RefDecObs) (c : Clause) (h : refDecMonitor o = some c) : ¬ P_refAccepted o := by
  rintro (rfl | ⟨r, w, v, rfl, hc, hw, hs⟩)
  · simp [refDecMonitor] at h
  · simp [refDecMonitor, hc, hw, hs] at h

/-! ## what a retried request carries -/

/-- the retried request carries the fulfilled responses and the request state intact, and the server's decoder reads
them as the same keys, each with the kind of its response, and the same state -/
def P_retryIntact (rs : List (Bytes × JVal)) (state : Bytes) (o : RetryObs) : Prop :=
  respIntact rs o = true ∧ stateIntact state o = true ∧ backAlike rs state o = true

theorem sound_retry (rs : List (Bytes × JVal)) (state : Bytes) (o : RetryObs) (c : Clause)
    (h : retryMonitor rs state o = some c) : ¬ P_retryIntact rs state o := by
  rintro ⟨h1, h2, h3⟩
  simp [retryMonitor, h1, h2, h3] at h

/-! ## `ToolAnnotations` -/

/-- annotations come back as themselves, and the default encoding carries both boolean hints -/
def P_annRoundtrip (compat : Bool) (a : ToolAnn) (o : AnnObs) : Prop :=
  o.back = some a ∧ (compat = false → hintsPresent o.written = true)

theorem sound_ann (compat : Bool) (a : ToolAnn) (o : AnnObs) (c : Clause) (h : annMonitor compat a o = some c) :
    ¬ P_annRoundtrip compat a o := by
  rintro ⟨h1, h2⟩
  cases compat
  · simp [annMonitor, h1, h2 rfl] at h
  · simp [annMonitor, h1] at h

/-! ## capabilities clones -/

/-- the clone encodes like the original, no write through one shows in the other, and an extension added to the
clone is stored there only -/
def P_cloneIndependent (o : CloneObs) : Prop := o.same = true ∧ o.aliased = 0 ∧ o.ext = some true

theorem sound_clone (o : CloneObs) (c : Clause) (h : cloneMonitor o = some c) : ¬ P_cloneIndependent o := by
  rintro ⟨h1, h2, h3⟩
  simp [cloneMonitor, h1, h2, h3] at h

end Mon
end Wire
