import McpModel.Wire.Msg
namespace Wire
open Generated.Wire

/-! # `CompleteReference` (`mcp/protocol.go`): a codec with rules of its own

`MarshalJSON` refuses a reference whose `Type` is not one of the two the protocol knows, a prompt
reference with a `URI` and a resource reference with a `Name`; otherwise it writes the tagged struct
(`name`, `uri` omitted when empty).  `UnmarshalJSON` decodes the tagged struct with the SDK's
case-sensitive decoder and applies the same three rules to what it got. -/

structure CRef where
  typ : Bytes
  name : Bytes
  uri : Bytes
deriving DecidableEq, Repr, Inhabited

inductive RefErr where
  | unknownType | promptWithURI | resourceWithName
  | notStruct           -- the JSON library refuses the value: no object, or a member of another type
deriving DecidableEq, Repr, Inhabited

/-- the rules both directions apply -/
def refCheck (r : CRef) : Except RefErr Unit :=
  if r.typ = refPromptType then (if r.uri ≠ [] then .error .promptWithURI else .ok ())
  else if r.typ = refResourceType then (if r.name ≠ [] then .error .resourceWithName else .ok ())
  else .error .unknownType

/-- the reference, if the rules allow it -/
def checked (r : CRef) : Except RefErr CRef :=
  match refCheck r with
  | .error e => .error e
  | .ok () => .ok r

/-- `json.Marshal` of a string member with the given `omitempty` flag -/
def strMember (om : Bool) (s : Bytes) : Option JVal := if om && s = [] then none else some (.str s)

def encodeRef (r : CRef) : Except RefErr JVal :=
  match refCheck r with
  | .error e => .error e
  | .ok () => .ok (.obj (members [
      (CompleteReference_Type_name, strMember CompleteReference_Type_omit r.typ),
      (CompleteReference_Name_name, strMember CompleteReference_Name_omit r.name),
      (CompleteReference_URI_name, strMember CompleteReference_URI_omit r.uri)]))

/-- a string member of a struct: absent and `null` leave the zero value -/
def strField (k : Bytes) (kvs : List (Bytes × JVal)) : Except RefErr Bytes :=
  match lookup k kvs with
  | none => .ok []
  | some .null => .ok []
  | some (.str s) => .ok s
  | some _ => .error .notStruct

def decodeRef : JVal → Except RefErr CRef
  | .obj kvs =>
    match strField CompleteReference_Type_name kvs, strField CompleteReference_Name_name kvs,
        strField CompleteReference_URI_name kvs with
    | .ok t, .ok n, .ok u =>
      checked ⟨t, n, u⟩
    | _, _, _ => .error .notStruct
  | .null => .error .unknownType        -- `null` leaves the zero struct: type ""
  | _ => .error .notStruct

end Wire
