import McpModel.Wire.LemmasBatch
/-!
# E2 Wire — `ioConn.Read` hands the messages of the stream out in the order in which they were written

Accounting invariant: `s.pendingMsgs` (unread rest of the last frame ++ messages of the frames not yet
taken).  A feed appends the frame's messages at the end, a successful `Read` removes the head, a
`Write` and a version change leave it alone.
-/
namespace Wire
namespace L

theorem opWrite_keeps (s : IOState) (m : Msg) :
    (opWrite s m).1.queue = s.queue ∧ (opWrite s m).1.wire = s.wire := by
  unfold opWrite
  dsimp only
  repeat' split
  all_goals exact ⟨rfl, rfl⟩

theorem addBatch_keeps (s s' : IOState) (b : Batch) (h : addBatch s b = .ok s') :
    s'.queue = s.queue ∧ s'.wire = s.wire := by
  unfold addBatch at h
  split at h
  · cases h
  · cases h; exact ⟨rfl, rfl⟩

theorem frameMsgs_of_ok (raw : JVal) (ms : List Msg) (b : Bool) (h : readBatch raw = .ok (ms, b)) :
    frameMsgs raw = ms := by
  simp [frameMsgs, h]

/-- a successful `Read` returns the head of what is pending and leaves the rest pending -/
theorem opRead_msg' (s s' : IOState) (m : Msg) (h : opRead false s = (s', .msg m)) :
    s.pendingMsgs = m :: s'.pendingMsgs := by
  cases hq : s.queue with
  | cons m0 q =>
    simp [opRead, hq] at h
    obtain ⟨rfl, rfl⟩ := h
    simp [IOState.pendingMsgs, hq]
  | nil =>
    cases hw : s.wire with
    | nil => simp [opRead, hq, hw] at h
    | cons raw w =>
      cases hr : readBatch raw with
      | error e => simp [opRead, hq, hw, hr] at h
      | ok p =>
        obtain ⟨msgs, batch⟩ := p
        have hf := frameMsgs_of_ok raw msgs batch hr
        cases msgs with
        | nil =>
          by_cases hnb : (batch && s.noBatch) = true <;> simp [opRead, hq, hw, hr, hnb] at h
        | cons m0 rest =>
          cases batch with
          | false =>
            simp [opRead, hq, hw, hr] at h
            obtain ⟨rfl, rfl⟩ := h
            simp [IOState.pendingMsgs, hq, hw, hf]
          | true =>
            cases hnb : s.noBatch with
            | true => simp [opRead, hq, hw, hr, hnb] at h
            | false =>
              cases ht : trackLoop false (m0 :: rest) { unresolved := [], responses := [] } with
              | error e => simp [opRead, hq, hw, hr, hnb, ht] at h
              | ok b =>
                by_cases he : b.responses.isEmpty = true
                · simp [opRead, hq, hw, hr, hnb, ht, he] at h
                  obtain ⟨rfl, rfl⟩ := h
                  simp [IOState.pendingMsgs, hq, hw, hf]
                · cases ha : addBatch { s with wire := w, queue := rest } b with
                  | error e =>
                    rw [hnb] at ha
                    simp [opRead, hq, hw, hr, hnb, ht, he, ha] at h
                  | ok s2 =>
                    rw [hnb] at ha
                    simp [opRead, hq, hw, hr, hnb, ht, he, ha] at h
                    obtain ⟨rfl, rfl⟩ := h
                    have hk := addBatch_keeps _ _ _ ha
                    simp [IOState.pendingMsgs, hk.1, hk.2, hq, hw, hf]

theorem opRead_msg (s : IOState) (m : Msg) (h : (opRead false s).2 = .msg m) :
    s.pendingMsgs = m :: (opRead false s).1.pendingMsgs :=
  opRead_msg' s _ m (by rw [← h])

theorem ioStep_pending_feed (s : IOState) (raw : JVal) :
    (ioStep s (.feed raw)).pendingMsgs = s.pendingMsgs ++ frameMsgs raw := by
  simp [ioStep, IOState.pendingMsgs]

theorem ioStep_pending_ver (s : IOState) (b : Bool) : (ioStep s (.setNoBatch b)).pendingMsgs = s.pendingMsgs := rfl

theorem ioStep_pending_write (s : IOState) (m : Msg) : (ioStep s (.write m)).pendingMsgs = s.pendingMsgs := by
  have h := opWrite_keeps s m
  simp [ioStep, IOState.pendingMsgs, h.1, h.2]

/-- the messages returned before the first failing `Read` are a prefix of what the peer wrote -/
theorem batch_read_order_prefix (s : IOState) (ops : List IOOp) :
    ∃ rest, s.pendingMsgs ++ (fedFrames ops).flatMap frameMsgs = msgsUntilErr (readResults s ops) ++ rest := by
  induction ops generalizing s with
  | nil => exact ⟨s.pendingMsgs, by simp [fedFrames, readResults, msgsUntilErr]⟩
  | cons op t ih =>
    cases op with
    | feed raw =>
      obtain ⟨rest, h⟩ := ih (ioStep s (.feed raw))
      refine ⟨rest, ?_⟩
      rw [ioStep_pending_feed] at h
      simpa [fedFrames, readResults, List.append_assoc] using h
    | setNoBatch b =>
      obtain ⟨rest, h⟩ := ih (ioStep s (.setNoBatch b))
      exact ⟨rest, by simpa [fedFrames, readResults, ioStep_pending_ver] using h⟩
    | write m =>
      obtain ⟨rest, h⟩ := ih (ioStep s (.write m))
      exact ⟨rest, by simpa [fedFrames, readResults, ioStep_pending_write] using h⟩
    | read =>
      cases hr : (opRead false s).2 with
      | err e => exact ⟨s.pendingMsgs ++ (fedFrames (.read :: t)).flatMap frameMsgs, by simp [readResults, hr, msgsUntilErr]⟩
      | msg m =>
        obtain ⟨rest, h⟩ := ih (opRead false s).1
        refine ⟨rest, ?_⟩
        have hp := opRead_msg s m hr
        simp only [fedFrames, readResults, hr, msgsUntilErr, hp, List.cons_append]
        rw [h]

/-- conservation: while no `Read` fails, returned ++ still pending = initially pending ++ fed -/
theorem batch_read_order (s : IOState) (ops : List IOOp)
    (hok : ∀ r ∈ readResults s ops, ∃ m, r = .msg m) :
    (readResults s ops).filterMap ReadOut.msg? ++ (ioRun s ops).pendingMsgs =
      s.pendingMsgs ++ (fedFrames ops).flatMap frameMsgs := by
  induction ops generalizing s with
  | nil => simp [fedFrames, readResults, ioRun]
  | cons op t ih =>
    cases op with
    | feed raw =>
      have h := ih (ioStep s (.feed raw)) (by simpa [readResults] using hok)
      rw [ioStep_pending_feed] at h
      simpa [fedFrames, readResults, ioRun, List.append_assoc] using h
    | setNoBatch b =>
      have h := ih (ioStep s (.setNoBatch b)) (by simpa [readResults] using hok)
      simpa [fedFrames, readResults, ioRun, ioStep_pending_ver] using h
    | write m =>
      have h := ih (ioStep s (.write m)) (by simpa [readResults] using hok)
      simpa [fedFrames, readResults, ioRun, ioStep_pending_write] using h
    | read =>
      obtain ⟨m, hm⟩ := hok (opRead false s).2 (by simp [readResults])
      have h := ih (opRead false s).1 (fun r hr => hok r (by simp [readResults, hr]))
      have hp := opRead_msg s m hm
      simp only [fedFrames, readResults, ioRun, ioStep, hm, List.filterMap_cons, ReadOut.msg?, hp, List.cons_append]
      rw [h]

/-- the monitor's order judgement never fires on what the model does: `Read` on an accepted frame
returns the NEXT element, so "not the next but a later one" is impossible -/
theorem outOfOrder_next (same : Msg → JVal → Bool) (e : JVal) (rest : List JVal) (m : Msg) (h : same m e = true) :
    outOfOrder same (e :: rest) m = false := by
  simp [outOfOrder, h]

/-! ## frames that carry no message -/

theorem decodeAll_length (l : List JVal) (ms : List Msg) (h : decodeAll l = .ok ms) : ms.length = l.length := by
  induction l generalizing ms with
  | nil => simp [decodeAll] at h; simp [← h]
  | cons v t ih =>
    simp only [decodeAll] at h
    cases hv : decodeMsg v with
    | error e => simp [hv, bind, Except.bind] at h
    | ok m =>
      cases ht : decodeAll t with
      | error e => simp [hv, ht, bind, Except.bind] at h
      | ok ms' =>
        simp [hv, ht, bind, Except.bind] at h
        subst h
        simp [ih ms' ht]

/-- `readBatch` never accepts a frame without a message: what `ioConn.Read` relies on when it takes
`msgs[0]` / `msgs[1:]` -/
theorem readBatch_nonempty (raw : JVal) (ms : List Msg) (b : Bool) (h : readBatch raw = .ok (ms, b)) : ms ≠ [] := by
  unfold readBatch at h
  split at h
  · simp at h
  · simp at h
  · rename_i l hne
    split at h
    · rename_i ms' hd
      simp only [Except.ok.injEq, Prod.mk.injEq] at h
      obtain ⟨rfl, _⟩ := h
      have hl := decodeAll_length l ms' hd
      intro hnil
      subst hnil
      cases l with
      | nil => exact hne rfl
      | cons a t => simp at hl
    · simp at h
  · split at h
    · simp only [Except.ok.injEq, Prod.mk.injEq] at h
      obtain ⟨rfl, _⟩ := h
      simp
    · simp at h

theorem decodeMsg_notMsgShaped (v : JVal) (h : notMsgShaped v = true) : ∃ e, decodeMsg v = .error e := by
  cases v <;> simp [notMsgShaped] at h <;> simp [decodeMsg]

/-- the degenerate frames: `null`, `[]`, an array whose first element is not an object (`[null]`,
`[[]]`, `[[],[]]`, `[0]`, `[""]` …), a bare non-object — all are REJECTED with an error -/
theorem degenerate_frames_rejected (raw : JVal)
    (h : raw = .null ∨ raw = .arr [] ∨ (∃ e t, raw = .arr (e :: t) ∧ notMsgShaped e = true) ∨
      (notMsgShaped raw = true ∧ ∀ l, raw ≠ .arr l)) :
    ∃ e, readBatch raw = .error e := by
  rcases h with rfl | rfl | ⟨e, t, rfl, he⟩ | ⟨hn, hna⟩
  · exact ⟨_, rfl⟩
  · exact ⟨_, rfl⟩
  · obtain ⟨de, hde⟩ := decodeMsg_notMsgShaped e he
    exact ⟨.decode de, by simp [readBatch, decodeAll, hde, bind, Except.bind]⟩
  · cases raw with
    | arr l => exact absurd rfl (hna l)
    | null => exact ⟨_, rfl⟩
    | obj kvs => simp [notMsgShaped] at hn
    | _ => exact ⟨_, rfl⟩

/-- so a `Read` that takes a degenerate frame returns an error and leaves the machine as it was
(nothing queued, nothing tracked, no panic state) -/
theorem read_degenerate_frame (s : IOState) (raw : JVal) (w : List JVal) (hq : s.queue = []) (hw : s.wire = raw :: w)
    (e : RErr) (h : readBatch raw = .error e) :
    opRead false s = ({ s with wire := w }, .err e) := by
  simp [opRead, hq, hw, h]

end L
end Wire
