import McpModel.Wire.Bridge
/-!
# E2 Wire — `io_monitor_accepts_model`: the stateful `ioConn` monitor raises no clause on the model

The monitor's bookkeeping `IOMon` (frames fed and not yet taken, elements of the accepted frame still to
come out of `Read`, open batches as slot lists) runs beside the model's `IOState` and the slot
specification (`specRead` / `specWrite`, `batch_exactly_once`).  For EVERY sequence of labels on a fresh
connection — frames of any shape, reads, writes of any message in any order, version changes — none of the
three verdicts (`v19`, `v02`, `v03`) of `ioRead` / `ioWrite` is raised on the typed observation of the model.

Invariant `Inv`: the refinement relation `L.Rel` (model ↔ slot specification) plus monitor ↔ model:
`mwire` = the model's unread frames, the slot lists of `mopen` = the specification's open batches, the
elements still expected decode to the model's queue.

Explicit hypotheses, each decidable:
* `frameCallsAgree raw` for every fed frame: on every element the model decodes, the monitor's reading of
  "this is a call with id i" (`isCallW`: a `method` member and an id that is a string or an integer literal)
  agrees with the model's.  It is what one expects of frames of valid wire messages (ids that are strings or
  integer literals in the int64 range are decoded exactly, `id_echo_exact_wire`; the `example` below); it
  fails for ids in fractional / exponent / out-of-range form, which `MakeID` truncates to some integer and
  about which the property does not speak.  `io_monitor_needs_calls_agree` shows the hypothesis is needed:
  on `[{"jsonrpc":"2.0","id":1.5,"method":"m"}]`, read, then the response to id 1 written, the monitor
  reports `notOnItsOwn` on the model's own behaviour (a latent false alarm outside the generators' range).
* the connection is built without an outgoing batch (`outCap = 0`, as in `L.Rel`; the SDK sets a capacity
  only in its own tests).
-/
namespace Wire
namespace Mon
open Generated.Wire

/-! ## typed observations of the model -/

def errKind : RErr → ErrKind
  | .eof => .eof
  | .dupInBatch => .dup
  | .seenId => .seen
  | _ => .other

def modelRead (s : IOState) : ReadObs :=
  match (opRead false s).2 with
  | .msg m => .msg (some m) (opRead false s).1.queue.length
  | .err e => .err (errKind e) (opRead false s).1.queue.length

def wobs : WriteOut → WriteObs
  | .nothing => { kind := .nothing }
  | .single v => { kind := .single, vals := [v] }
  | .array vs => { kind := .array, vals := vs }
  | .panic => { kind := .panic }

def modelWrite (s : IOState) (m : Msg) : WriteObs := wobs (opWrite s m).2

/-! ## the hypothesis on frames -/

/-- on an element the model decodes, the monitor reads the same call id as the model -/
def callAgrees (e : JVal) : Bool :=
  match decodeMsg e with
  | .ok (.request id _ _) => isCallW e == (if id ≠ .none then some id else none)
  | .ok (.response ..) => isCallW e == none
  | .error _ => true

def frameCallsAgree (raw : JVal) : Bool := (frameElems raw).1.all callAgrees

/-! ## model, specification and monitor side by side -/

structure St where
  s : IOState := {}
  sp : List Slots := []
  mon : IOMon := {}

def stepAll (st : St) : IOOp → St × Verd
  | .feed raw => ({ s := ioStep st.s (.feed raw), sp := st.sp, mon := ioFeed st.mon raw }, {})
  | .setNoBatch b => ({ s := ioStep st.s (.setNoBatch b), sp := st.sp, mon := ioVer st.mon b }, {})
  | .read =>
    ({ s := (opRead false st.s).1, sp := (specRead st.sp st.s).1, mon := (ioRead st.mon (modelRead st.s)).1 },
      (ioRead st.mon (modelRead st.s)).2)
  | .write m =>
    ({ s := (opWrite st.s m).1, sp := (specWrite st.sp m).1, mon := (ioWrite st.mon m (modelWrite st.s m)).1 },
      (ioWrite st.mon m (modelWrite st.s m)).2)

/-- the verdicts of the monitor along a run of the model -/
def runAll (st : St) : List IOOp → List Verd
  | [] => []
  | op :: t => (stepAll st op).2 :: runAll (stepAll st op).1 t

def Verd.clean (v : Verd) : Prop := v.v19 = none ∧ v.v02 = none ∧ v.v03 = none

structure Inv (st : St) : Prop where
  rel : L.Rel st.s st.sp
  wire : st.mon.mwire = st.s.wire
  open_ : st.mon.mopen.map (·.slots) = st.sp
  expect : decodeAll st.mon.mexpect = .ok st.s.queue
  noBatch : st.mon.mnoBatch = st.s.noBatch
  cap : st.mon.outCap = 0
  agree : ∀ raw ∈ st.s.wire, frameCallsAgree raw = true

/-! ## decoding lists of elements -/

theorem decodeAll_cons (v : JVal) (t : List JVal) :
    decodeAll (v :: t) = (decodeMsg v >>= fun m => decodeAll t >>= fun ms => .ok (m :: ms)) := rfl

theorem decodeAll_cons_inv (l : List JVal) (m : Msg) (q : List Msg) (h : decodeAll l = .ok (m :: q)) :
    ∃ e rest, l = e :: rest ∧ decodeMsg e = .ok m ∧ decodeAll rest = .ok q := by
  cases l with
  | nil => simp [decodeAll] at h
  | cons e rest =>
    rw [decodeAll_cons] at h
    cases he : decodeMsg e with
    | error x => simp [he] at h
    | ok m' =>
      cases hr : decodeAll rest with
      | error x => simp [he, hr] at h
      | ok q' =>
        simp [he, hr] at h
        exact ⟨e, rest, rfl, h.1 ▸ he, h.2 ▸ hr⟩

theorem decodeAll_nil_inv (l : List JVal) (h : decodeAll l = .ok []) : l = [] := by
  have := L.decodeAll_length l [] h
  cases l with
  | nil => rfl
  | cons _ _ => simp at this

theorem decodeAll_valid (l : List JVal) (h : ∀ e ∈ l, validWire e = true) : ∃ ms, decodeAll l = .ok ms := by
  induction l with
  | nil => exact ⟨[], rfl⟩
  | cons e t ih =>
    obtain ⟨m, hm, _⟩ := encode_decode_preserves e (h e (by simp))
    obtain ⟨ms, hms⟩ := ih (fun x hx => h x (by simp [hx]))
    exact ⟨m :: ms, by rw [decodeAll_cons, hm, hms]; rfl⟩

/-- what `readBatch` accepts is the monitor's element list, decoded -/
theorem readBatch_elems (raw : JVal) (msgs : List Msg) (b : Bool) (h : readBatch raw = .ok (msgs, b)) :
    b = (frameElems raw).2 ∧ decodeAll (frameElems raw).1 = .ok msgs := by
  cases raw with
  | arr l =>
    cases l with
    | nil => simp [readBatch] at h
    | cons e t =>
      simp only [readBatch] at h
      cases hd : decodeAll (e :: t) with
      | error x => simp [hd] at h
      | ok ms =>
        simp [hd] at h
        exact ⟨h.2, by simp [frameElems, hd, h.1]⟩
  | null => simp [readBatch] at h
  | bool x =>
    simp only [readBatch] at h
    cases hd : decodeMsg (.bool x) with
    | error e => simp [hd] at h
    | ok m => simp [hd] at h; exact ⟨h.2, by simp [frameElems, decodeAll_cons, hd, decodeAll, h.1]⟩
  | int x =>
    simp only [readBatch] at h
    cases hd : decodeMsg (.int x) with
    | error e => simp [hd] at h
    | ok m => simp [hd] at h; exact ⟨h.2, by simp [frameElems, decodeAll_cons, hd, decodeAll, h.1]⟩
  | dec x y =>
    simp only [readBatch] at h
    cases hd : decodeMsg (.dec x y) with
    | error e => simp [hd] at h
    | ok m => simp [hd] at h; exact ⟨h.2, by simp [frameElems, decodeAll_cons, hd, decodeAll, h.1]⟩
  | str x =>
    simp only [readBatch] at h
    cases hd : decodeMsg (.str x) with
    | error e => simp [hd] at h
    | ok m => simp [hd] at h; exact ⟨h.2, by simp [frameElems, decodeAll_cons, hd, decodeAll, h.1]⟩
  | obj x =>
    simp only [readBatch] at h
    cases hd : decodeMsg (.obj x) with
    | error e => simp [hd] at h
    | ok m => simp [hd] at h; exact ⟨h.2, by simp [frameElems, decodeAll_cons, hd, decodeAll, h.1]⟩

/-- a frame the monitor calls well-formed is accepted by `readBatch` -/
theorem wf_readBatch (raw : JVal) (mopen : List MBatch) (h : wellFormedBatch mopen (frameElems raw).1 = true) :
    ∃ msgs, readBatch raw = .ok (msgs, (frameElems raw).2) := by
  simp only [wellFormedBatch, Bool.and_eq_true, decide_eq_true_eq, List.all_eq_true] at h
  obtain ⟨⟨⟨hne, hv⟩, _⟩, _⟩ := h
  have hv' : ∀ e ∈ (frameElems raw).1, validWire e = true := fun e he => (hv e he).1
  obtain ⟨ms, hms⟩ := decodeAll_valid _ hv'
  cases raw with
  | arr l =>
    cases l with
    | nil => simp [frameElems] at hne
    | cons e t =>
      simp only [frameElems] at hms
      exact ⟨ms, by simp [readBatch, hms, frameElems]⟩
  | obj kvs =>
    simp only [frameElems] at hms
    obtain ⟨m, rest, hl, hm, hr⟩ : ∃ m rest, ms = m :: rest ∧ decodeMsg (.obj kvs) = .ok m ∧ decodeAll [] = .ok rest := by
      rw [decodeAll_cons] at hms
      cases hd : decodeMsg (.obj kvs) with
      | error x => simp [hd] at hms
      | ok m => simp [hd, decodeAll] at hms; exact ⟨m, [], hms.symm, rfl, rfl⟩
    exact ⟨[m], by simp [readBatch, hm, frameElems]⟩
  | null => have := hv' .null (by simp [frameElems]); simp [validWire] at this
  | bool x => have := hv' (.bool x) (by simp [frameElems]); simp [validWire] at this
  | int x => have := hv' (.int x) (by simp [frameElems]); simp [validWire] at this
  | dec x y => have := hv' (.dec x y) (by simp [frameElems]); simp [validWire] at this
  | str x => have := hv' (.str x) (by simp [frameElems]); simp [validWire] at this

/-! ## the per-message judgements on what the model returns -/

theorem sameElem_ok (e : JVal) (m : Msg) (w : Which) (h : decodeMsg e = .ok m) : sameElem m e w = none := by
  unfold sameElem
  by_cases hv : validWire e = true
  · simp [hv, wireDiff_valid e hv m h]
  · simp [hv]

theorem ooo_false (e : JVal) (rest : List JVal) (m : Msg) (h : decodeMsg e = .ok m) :
    (validWire e && outOfOrder sameMsgWire (e :: rest) m) = false := by
  by_cases hv : validWire e = true
  · simp [hv, outOfOrder, sameMsgWire, wireDiff_valid e hv m h]
  · simp [hv]

/-- the calls the monitor reads off the elements are the calls of the decoded messages -/
theorem calls_agree (elems : List JVal) (msgs : List Msg) (hd : decodeAll elems = .ok msgs)
    (ha : elems.all callAgrees = true) : elems.filterMap isCallW = callIds msgs := by
  induction elems generalizing msgs with
  | nil => simp [decodeAll] at hd; subst hd; rfl
  | cons e t ih =>
    cases msgs with
    | nil => have := L.decodeAll_length _ _ hd; simp at this
    | cons m q =>
      obtain ⟨e', rest', hl, hm, hr⟩ := decodeAll_cons_inv _ _ _ hd
      cases hl
      simp only [List.all_cons, Bool.and_eq_true] at ha
      have iht := ih q hr ha.2
      have hc := ha.1
      simp only [callAgrees, hm] at hc
      cases m with
      | request id meth p =>
        simp only [beq_iff_eq] at hc
        by_cases hid : id = .none
        · simp [hid] at hc
          simp [List.filterMap_cons, hc, callIds, hid, iht]
        · simp [hid] at hc
          simp [List.filterMap_cons, hc, callIds, hid, iht]
      | response id r er =>
        simp only [beq_iff_eq] at hc
        simp [List.filterMap_cons, hc, callIds, iht]

/-! ## the write step -/

theorem zip_slots (l1 : List Slots) (l2 : List MBatch) (h : l1.length = l2.length) :
    ((List.zip l1 l2).map (fun p => ({ p.2 with slots := p.1 } : MBatch))).map (·.slots) = l1 := by
  induction l1 generalizing l2 with
  | nil => simp
  | cons a t ih =>
    cases l2 with
    | nil => simp at h
    | cons b u => simp [List.zip_cons_cons, ih u (by simpa using h)]

theorem specWrite_resp_shape (open_ : List MBatch) (id : Id) (r : Option JVal) (e : Option WErr) :
    (specWrite (open_.map (·.slots)) (.response id r e)).1.length = open_.length ∨
    ((specWrite (open_.map (·.slots)) (.response id r e)).1.length + 1 = open_.length ∧
      (specWrite (open_.map (·.slots)) (.response id r e)).1 = (dropPending id open_).map (·.slots)) := by
  induction open_ with
  | nil => left; rfl
  | cons b bs ih =>
    simp only [List.map_cons, specWrite, Msg.id]
    by_cases hp : slotPending b.slots id = true
    · simp only [hp, ite_true]
      by_cases hc : slotsComplete (fillSlot id (.response id r e) b.slots) = true
      · right
        simp [hc, dropPending, hp]
      · left
        simp [hc]
    · simp only [hp, Bool.false_eq_true, ite_false]
      rcases ih with h | ⟨h1, h2⟩
      · left; simp [h]
      · right
        refine ⟨by simp [h1], ?_⟩
        simp [dropPending, hp, h2]

theorem monWrite_slots (open_ : List MBatch) (msg : Msg) :
    (monWrite open_ msg).1.map (·.slots) = (specWrite (open_.map (·.slots)) msg).1 := by
  unfold monWrite
  simp only
  split
  · next h => exact zip_slots _ _ h
  · next h =>
    cases msg with
    | request id m p => exact absurd (by simp [specWrite]) h
    | response id r e =>
      rcases specWrite_resp_shape open_ id r e with h' | ⟨_, h2⟩
      · exact absurd h' h
      · simp only [h2]

theorem specWrite_single_msg (sp : List Slots) (m m' : Msg) (h : (specWrite sp m).2 = .single m') : m' = m := by
  induction sp with
  | nil => cases m <;> simp [specWrite] at h <;> rw [← h]
  | cons b t ih =>
    cases m with
    | request id me p => simp [specWrite] at h; rw [← h]
    | response id r e =>
      simp only [specWrite, Msg.id] at h
      by_cases hp : slotPending b id = true
      · by_cases hc : slotsComplete (fillSlot id (.response id r e) b) = true <;> simp [hp, hc] at h
      · simp only [hp, Bool.false_eq_true, ite_false] at h
        exact ih h

theorem zip_all_matches (ms : List Msg) :
    (List.zip ms (ms.map encodeMsg)).all (fun p => msgMatchesWire p.1 p.2) = true := by
  induction ms with
  | nil => rfl
  | cons m t ih =>
    simp only [List.map_cons, List.zip_cons_cons, List.all_cons, ih, Bool.and_true]
    simp [msgMatchesWire, wireDiff_self_encode]

theorem opWrite_noBatch (s : IOState) (m : Msg) : (opWrite s m).1.noBatch = s.noBatch := by
  unfold opWrite
  dsimp only
  repeat' split
  all_goals rfl

theorem ioWrite_clean' (mon : IOMon) (sp : List Slots) (m : Msg) (x : WriteOut) (ho : mon.mopen.map (·.slots) = sp)
    (hm : x.matches (specWrite sp m).2 = true) : (ioWrite mon m (wobs x)).2.clean := by
  have hexp : (monWrite mon.mopen m).2.1 = (specWrite sp m).2 := by
    simp [monWrite, ho]
  cases x with
  | nothing =>
    cases hs : (specWrite sp m).2 <;> simp [hs, WriteOut.matches] at hm
    simp [ioWrite, hexp, hs, wobs, Verd.clean]
  | single v =>
    cases hs : (specWrite sp m).2 with
    | single m' =>
      simp [hs, WriteOut.matches] at hm
      have := specWrite_single_msg sp m m' hs
      subst this
      simp [ioWrite, hexp, hs, wobs, Verd.clean, hm, wireDiff_self_encode]
    | _ => simp [hs, WriteOut.matches] at hm
  | array vs =>
    cases hs : (specWrite sp m).2 with
    | array ms =>
      simp [hs, WriteOut.matches] at hm
      subst hm
      simp [ioWrite, hexp, hs, wobs, Verd.clean, zip_all_matches]
    | _ => simp [hs, WriteOut.matches] at hm
  | panic =>
    cases hs : (specWrite sp m).2 <;> simp [hs, WriteOut.matches] at hm

/-- the verdicts of `ioWrite` on what the model wrote, given that it wrote what the slot specification prescribes -/
theorem ioWrite_clean (mon : IOMon) (sp : List Slots) (s : IOState) (m : Msg) (ho : mon.mopen.map (·.slots) = sp)
    (hm : (opWrite s m).2.matches (specWrite sp m).2 = true) :
    (ioWrite mon m (modelWrite s m)).2.clean :=
  ioWrite_clean' mon sp m _ ho hm

theorem ioWrite_mon (mon : IOMon) (m : Msg) (o : WriteObs) :
    (ioWrite mon m o).1 = { mon with mopen := (monWrite mon.mopen m).1 } := rfl

/-! ## the read step -/

theorem addBatch_fields (s s' : IOState) (b : Batch) (h : addBatch s b = .ok s') :
    s'.queue = s.queue ∧ s'.wire = s.wire ∧ s'.noBatch = s.noBatch := by
  unfold addBatch at h
  split at h
  · cases h
  · cases h; exact ⟨rfl, rfl, rfl⟩

/-- what `Read` leaves behind when it takes a frame -/
theorem opRead_taken (s : IOState) (raw : JVal) (w : List JVal) (hq : s.queue = []) (hw : s.wire = raw :: w) :
    (opRead false s).1.wire = w ∧ (opRead false s).1.noBatch = s.noBatch ∧
    (opRead false s).1.queue = (match readBatch raw with
      | .ok (_ :: rest, b) => if (b && s.noBatch) = true then [] else rest
      | _ => []) := by
  unfold opRead
  simp only [hq, hw]
  cases hrb : readBatch raw with
  | error e => simp [hq]
  | ok r =>
    obtain ⟨msgs, b⟩ := r
    by_cases hnb : (b && s.noBatch) = true
    · cases msgs <;> simp [hnb, hq]
    · cases msgs with
      | nil => simp [hnb, hq]
      | cons m0 rest =>
        simp only [hnb]
        cases b with
        | false => simp
        | true =>
          simp only [ite_true]
          split
          · simp
          · split
            · simp
            · split
              · simp
              · rename_i bb _ _
                cases hab : addBatch { s with wire := w, queue := rest } bb with
                | error e => simp
                | ok s' =>
                  have := addBatch_fields _ _ _ hab
                  simp [this]

theorem opRead_noBatch (s : IOState) : (opRead false s).1.noBatch = s.noBatch := by
  cases hq : s.queue with
  | cons m q => rw [read_queue_in_order s m q hq]
  | nil =>
    cases hw : s.wire with
    | nil => simp [opRead, hq, hw]
    | cons raw w => exact (opRead_taken s raw w hq hw).2.1

theorem specRead_taken (sp : List Slots) (s : IOState) (raw : JVal) (w : List JVal) (hq : s.queue = []) (hw : s.wire = raw :: w) :
    specRead sp s = (match readBatch raw with
      | .error e => (sp, .err e)
      | .ok (msgs, batch) =>
        if (batch && s.noBatch) = true then (sp, .err .noBatching) else
        match msgs with
        | [] => (sp, .err .emptyBatch)
        | m0 :: _ =>
          if batch = true then
            match specAccept sp msgs with
            | .error e => (sp, .err e)
            | .ok sp' => (sp', .msg m0)
          else (sp, .msg m0)) := by
  simp only [specRead, hq, hw]
  rfl

theorem ioRead_queued (mon : IOMon) (e : JVal) (rest : List JVal) (m : Msg) (q : Nat)
    (hexp : mon.mexpect = e :: rest) (hm : decodeMsg e = .ok m) :
    ioRead mon (.msg (some m) q) = ({ mon with mexpect := rest }, {}) := by
  simp only [ioRead, hexp, ReadObs.msg?, ooo_false e rest m hm, sameElem_ok e m .next hm]
  rfl

theorem ioRead_end (mon : IOMon) (q : Nat) (hexp : mon.mexpect = []) (hw : mon.mwire = []) :
    ioRead mon (.err .eof q) = (mon, {}) := by
  simp only [ioRead, hexp, hw]

/-- `Read` took a frame and the model returned its first message -/
theorem ioRead_taken_msg (mon : IOMon) (raw : JVal) (w : List JVal) (e0 : JVal) (erest : List JVal) (m0 : Msg)
    (hexp : mon.mexpect = []) (hw : mon.mwire = raw :: w) (hel : (frameElems raw).1 = e0 :: erest)
    (hm : decodeMsg e0 = .ok m0) :
    (ioRead mon (.msg (some m0) erest.length)).2 = {} ∧
    (ioRead mon (.msg (some m0) erest.length)).1.mwire = w ∧
    (ioRead mon (.msg (some m0) erest.length)).1.mexpect = erest ∧
    (ioRead mon (.msg (some m0) erest.length)).1.mnoBatch = mon.mnoBatch ∧
    (ioRead mon (.msg (some m0) erest.length)).1.outCap = mon.outCap ∧
    (ioRead mon (.msg (some m0) erest.length)).1.mopen.map (·.slots) =
      (if ((frameElems raw).2 && decide ((e0 :: erest).filterMap isCallW ≠ [])) = true
        then mon.mopen.map (·.slots) ++ [((e0 :: erest).filterMap isCallW).map (fun c => (c, none))]
        else mon.mopen.map (·.slots)) := by
  have h1 : (validWire e0 && outOfOrder sameMsgWire (e0 :: erest) m0) = false := ooo_false e0 erest m0 hm
  simp only [ioRead, hexp, hw, hel, ReadObs.msg?, ReadObs.q, h1, sameElem_ok e0 m0 .first hm, List.length_cons,
    Nat.add_sub_cancel, bne_self_eq_false, Bool.and_false, Bool.false_eq_true, ite_false, List.drop_succ_cons, List.drop_zero,
    List.take_length, Option.isNone_none]
  split <;> simp

/-- `Read` took a frame and the model returned an error: nothing is reported unless the frame is well-formed -/
theorem ioRead_taken_err (mon : IOMon) (raw : JVal) (w : List JVal) (k : ErrKind) (q : Nat)
    (hexp : mon.mexpect = []) (hw : mon.mwire = raw :: w)
    (hwf : (wellFormedBatch mon.mopen (frameElems raw).1 && !((frameElems raw).2 && mon.mnoBatch)) = false) :
    (ioRead mon (.err k q)).2 = {} ∧
    (ioRead mon (.err k q)).1 = { mon with mwire := w, mexpect := ((frameElems raw).1.drop 1).take q } := by
  simp only [ioRead, hexp, hw, hwf, ReadObs.q]
  simp

/-! ## the invariant is kept by every label, and no verdict is raised -/

theorem clean_empty : ({} : Verd).clean := ⟨rfl, rfl, rfl⟩

theorem feed_inv (st : St) (h : Inv st) (raw : JVal) (ha : frameCallsAgree raw = true) :
    Inv (stepAll st (.feed raw)).1 ∧ (stepAll st (.feed raw)).2.clean := by
  refine ⟨⟨(L.step_refines (st.s, st.sp) h.rel (.feed raw)).1, ?_, h.open_, h.expect, h.noBatch, h.cap, ?_⟩, clean_empty⟩
  · simp [stepAll, ioFeed, ioStep, h.wire]
  · intro r hr
    simp only [stepAll, ioStep, List.mem_append, List.mem_singleton] at hr
    rcases hr with hr | rfl
    · exact h.agree r hr
    · exact ha

theorem ver_inv (st : St) (h : Inv st) (b : Bool) :
    Inv (stepAll st (.setNoBatch b)).1 ∧ (stepAll st (.setNoBatch b)).2.clean :=
  ⟨⟨(L.step_refines (st.s, st.sp) h.rel (.setNoBatch b)).1, h.wire, h.open_, h.expect, rfl, h.cap, h.agree⟩, clean_empty⟩

theorem write_inv (st : St) (h : Inv st) (m : Msg) :
    Inv (stepAll st (.write m)).1 ∧ (stepAll st (.write m)).2.clean := by
  obtain ⟨w1, w2⟩ := L.write_refines st.s st.sp h.rel m
  obtain ⟨k1, k2⟩ := L.opWrite_keeps st.s m
  refine ⟨⟨w1, ?_, ?_, ?_, ?_, h.cap, ?_⟩, ioWrite_clean st.mon st.sp st.s m h.open_ w2⟩
  · show (ioWrite st.mon m (modelWrite st.s m)).1.mwire = (opWrite st.s m).1.wire
    rw [ioWrite_mon, k2]; exact h.wire
  · show (ioWrite st.mon m (modelWrite st.s m)).1.mopen.map (·.slots) = (specWrite st.sp m).1
    rw [ioWrite_mon, ← h.open_]; exact monWrite_slots st.mon.mopen m
  · show decodeAll (ioWrite st.mon m (modelWrite st.s m)).1.mexpect = .ok (opWrite st.s m).1.queue
    rw [ioWrite_mon, k1]; exact h.expect
  · show (ioWrite st.mon m (modelWrite st.s m)).1.mnoBatch = (opWrite st.s m).1.noBatch
    rw [ioWrite_mon, opWrite_noBatch]; exact h.noBatch
  · intro r hr
    have : r ∈ (opWrite st.s m).1.wire := hr
    rw [k2] at this
    exact h.agree r this

theorem pending_all (mopen : List MBatch) (c : Id) :
    mopen.all (fun b => !slotPending b.slots c) = !(mopen.map (·.slots)).any (fun sl => slotPending sl c) := by
  induction mopen with
  | nil => rfl
  | cons b u ihu => simp only [List.all_cons, List.map_cons, List.any_cons, Bool.not_or, ihu]

/-- the monitor's "some call of the frame is still unanswered in an open batch" is the specification's -/
theorem pending_any (mopen : List MBatch) (calls : List Id) :
    calls.all (fun c => mopen.all (fun b => !slotPending b.slots c)) =
      !calls.any (fun c => (mopen.map (·.slots)).any (fun sl => slotPending sl c)) := by
  induction calls with
  | nil => rfl
  | cons c t ih =>
    rw [List.all_cons, List.any_cons, ih, Bool.not_or, pending_all]

theorem read_inv (st : St) (h : Inv st) : Inv (stepAll st .read).1 ∧ (stepAll st .read).2.clean := by
  obtain ⟨r1, r2⟩ := L.read_refines st.s st.sp h.rel
  cases hq : st.s.queue with
  | cons m q =>
    have hop := read_queue_in_order st.s m q hq
    have hex := h.expect
    rw [hq] at hex
    obtain ⟨e, rest, hl, hm, hr⟩ := decodeAll_cons_inv _ _ _ hex
    have hmr : modelRead st.s = .msg (some m) q.length := by simp [modelRead, hop]
    have hsp : (specRead st.sp st.s).1 = st.sp := by simp [specRead, hq]
    have hio := ioRead_queued st.mon e rest m q.length hl hm
    refine ⟨⟨r1, ?_, ?_, ?_, ?_, ?_, ?_⟩, ?_⟩
    · show (ioRead st.mon (modelRead st.s)).1.mwire = (opRead false st.s).1.wire
      rw [hmr, hio, hop]; exact h.wire
    · show (ioRead st.mon (modelRead st.s)).1.mopen.map (·.slots) = (specRead st.sp st.s).1
      rw [hmr, hio, hsp]; exact h.open_
    · show decodeAll (ioRead st.mon (modelRead st.s)).1.mexpect = .ok (opRead false st.s).1.queue
      rw [hmr, hio, hop]; exact hr
    · show (ioRead st.mon (modelRead st.s)).1.mnoBatch = (opRead false st.s).1.noBatch
      rw [hmr, hio, hop]; exact h.noBatch
    · show (ioRead st.mon (modelRead st.s)).1.outCap = 0
      rw [hmr, hio]; exact h.cap
    · intro r hr'
      have : r ∈ (opRead false st.s).1.wire := hr'
      rw [hop] at this
      exact h.agree r this
    · show (ioRead st.mon (modelRead st.s)).2.clean
      rw [hmr, hio]; exact clean_empty
  | nil =>
    have hexp : st.mon.mexpect = [] := decodeAll_nil_inv _ (hq ▸ h.expect)
    cases hw : st.s.wire with
    | nil =>
      have hop : opRead false st.s = (st.s, .err .eof) := by simp [opRead, hq, hw]
      have hmr : modelRead st.s = .err .eof 0 := by simp [modelRead, hop, errKind, hq]
      have hsp : (specRead st.sp st.s).1 = st.sp := by simp [specRead, hq, hw]
      have hio := ioRead_end st.mon 0 hexp (by rw [h.wire, hw])
      refine ⟨⟨r1, ?_, ?_, ?_, ?_, ?_, ?_⟩, ?_⟩
      · show (ioRead st.mon (modelRead st.s)).1.mwire = (opRead false st.s).1.wire
        rw [hmr, hio, hop]; exact h.wire
      · show (ioRead st.mon (modelRead st.s)).1.mopen.map (·.slots) = (specRead st.sp st.s).1
        rw [hmr, hio, hsp]; exact h.open_
      · show decodeAll (ioRead st.mon (modelRead st.s)).1.mexpect = .ok (opRead false st.s).1.queue
        rw [hmr, hio, hop]; exact h.expect
      · show (ioRead st.mon (modelRead st.s)).1.mnoBatch = (opRead false st.s).1.noBatch
        rw [hmr, hio, hop]; exact h.noBatch
      · show (ioRead st.mon (modelRead st.s)).1.outCap = 0
        rw [hmr, hio]; exact h.cap
      · intro r hr'
        have : r ∈ (opRead false st.s).1.wire := hr'
        rw [hop] at this
        exact h.agree r this
      · show (ioRead st.mon (modelRead st.s)).2.clean
        rw [hmr, hio]; exact clean_empty
    | cons raw w =>
      obtain ⟨t1, t2, t3⟩ := opRead_taken st.s raw w hq hw
      have hsr := specRead_taken st.sp st.s raw w hq hw
      have hmw : st.mon.mwire = raw :: w := by rw [h.wire, hw]
      have hag : frameCallsAgree raw = true := h.agree raw (by simp [hw])
      have hagw : ∀ r ∈ (opRead false st.s).1.wire, frameCallsAgree r = true := by
        intro r hr'; rw [t1] at hr'; exact h.agree r (by simp [hw, hr'])
      -- the two shapes of the step: the model returned an error on a frame the monitor does not call
      -- well-formed; the model returned the first message of the frame
      have errCase : ∀ (e : RErr), (opRead false st.s).2 = .err e → (specRead st.sp st.s).1 = st.sp →
          (wellFormedBatch st.mon.mopen (frameElems raw).1 && !((frameElems raw).2 && st.mon.mnoBatch)) = false →
          decodeAll (((frameElems raw).1.drop 1).take (opRead false st.s).1.queue.length) = .ok (opRead false st.s).1.queue →
          Inv (stepAll st .read).1 ∧ (stepAll st .read).2.clean := by
        intro e hout hsp hwf hdq
        have hmr : modelRead st.s = .err (errKind e) (opRead false st.s).1.queue.length := by simp [modelRead, hout]
        obtain ⟨c1, c2⟩ := ioRead_taken_err st.mon raw w (errKind e) (opRead false st.s).1.queue.length hexp hmw hwf
        refine ⟨⟨r1, ?_, ?_, ?_, ?_, ?_, hagw⟩, ?_⟩
        · show (ioRead st.mon (modelRead st.s)).1.mwire = (opRead false st.s).1.wire
          rw [hmr, c2, t1]
        · show (ioRead st.mon (modelRead st.s)).1.mopen.map (·.slots) = (specRead st.sp st.s).1
          rw [hmr, c2, hsp]; exact h.open_
        · show decodeAll (ioRead st.mon (modelRead st.s)).1.mexpect = .ok (opRead false st.s).1.queue
          rw [hmr, c2]; exact hdq
        · show (ioRead st.mon (modelRead st.s)).1.mnoBatch = (opRead false st.s).1.noBatch
          rw [hmr, c2, t2]; exact h.noBatch
        · show (ioRead st.mon (modelRead st.s)).1.outCap = 0
          rw [hmr, c2]; exact h.cap
        · show (ioRead st.mon (modelRead st.s)).2.clean
          rw [hmr, c1]; exact clean_empty
      cases hrb : readBatch raw with
      | error e =>
        have hqn : (opRead false st.s).1.queue = [] := by rw [t3, hrb]
        refine errCase e (by rw [r2, hsr, hrb]) (by rw [hsr, hrb]) ?_ (by rw [hqn]; rfl)
        cases hc : wellFormedBatch st.mon.mopen (frameElems raw).1 with
        | false => rfl
        | true =>
          obtain ⟨msgs, hm⟩ := wf_readBatch raw st.mon.mopen hc
          rw [hrb] at hm; cases hm
      | ok r =>
        obtain ⟨msgs, b⟩ := r
        obtain ⟨hb, hdec⟩ := readBatch_elems raw msgs b hrb
        have hne := read_batch_nonempty raw msgs b hrb
        cases msgs with
        | nil => exact absurd rfl hne
        | cons m0 rest =>
          obtain ⟨e0, erest, hel, hm0, hrest⟩ := decodeAll_cons_inv _ _ _ hdec
          have hlen : rest.length = erest.length := L.decodeAll_length erest rest hrest
          have hcalls : (frameElems raw).1.filterMap isCallW = callIds (m0 :: rest) := calls_agree _ _ hdec hag
          have hdrop : ((frameElems raw).1.drop 1).take rest.length = erest := by
            rw [hel, hlen]; simp
          by_cases hnb : (b && st.s.noBatch) = true
          · have hqn : (opRead false st.s).1.queue = [] := by rw [t3, hrb]; simp [hnb]
            refine errCase .noBatching (by rw [r2, hsr, hrb]; simp [hnb]) (by rw [hsr, hrb]; simp [hnb]) ?_ (by rw [hqn]; rfl)
            rw [← hb, h.noBatch, hnb]; simp
          · have hqn : (opRead false st.s).1.queue = rest := by rw [t3, hrb]; simp [hnb]
            have msgCase : (opRead false st.s).2 = .msg m0 →
                (specRead st.sp st.s).1 = (if ((frameElems raw).2 && decide ((e0 :: erest).filterMap isCallW ≠ [])) = true
                  then st.sp ++ [((e0 :: erest).filterMap isCallW).map (fun c => (c, none))] else st.sp) →
                Inv (stepAll st .read).1 ∧ (stepAll st .read).2.clean := by
              intro hout hsp
              have hmr : modelRead st.s = .msg (some m0) erest.length := by simp [modelRead, hout, hqn, hlen]
              obtain ⟨c1, c2, c3, c4, c5, c6⟩ := ioRead_taken_msg st.mon raw w e0 erest m0 hexp hmw hel hm0
              refine ⟨⟨r1, ?_, ?_, ?_, ?_, ?_, hagw⟩, ?_⟩
              · show (ioRead st.mon (modelRead st.s)).1.mwire = (opRead false st.s).1.wire
                rw [hmr, c2, t1]
              · show (ioRead st.mon (modelRead st.s)).1.mopen.map (·.slots) = (specRead st.sp st.s).1
                rw [hmr, c6, hsp, h.open_]
              · show decodeAll (ioRead st.mon (modelRead st.s)).1.mexpect = .ok (opRead false st.s).1.queue
                rw [hmr, c3, hqn]; exact hrest
              · show (ioRead st.mon (modelRead st.s)).1.mnoBatch = (opRead false st.s).1.noBatch
                rw [hmr, c4, t2]; exact h.noBatch
              · show (ioRead st.mon (modelRead st.s)).1.outCap = 0
                rw [hmr, c5]; exact h.cap
              · show (ioRead st.mon (modelRead st.s)).2.clean
                rw [hmr, c1]; exact clean_empty
            cases b with
            | false =>
              refine msgCase (by rw [r2, hsr, hrb]; simp [hnb]) ?_
              rw [hsr, hrb, ← hb]; simp [hnb]
            | true =>
              have hnb' : st.s.noBatch = false := by simpa using hnb
              rw [hel] at hcalls
              cases hacc : specAccept st.sp (m0 :: rest) with
              | error e =>
                refine errCase e (by rw [r2, hsr, hrb]; simp [hnb', hacc]) (by rw [hsr, hrb]; simp [hnb', hacc]) ?_
                  (by rw [hqn, hdrop]; exact hrest)
                -- the monitor does not call the frame well-formed: two calls share an id, or one is still pending
                have hwf : wellFormedBatch st.mon.mopen (frameElems raw).1 = false := by
                  simp only [wellFormedBatch, hel, hcalls, pending_any, h.open_]
                  simp only [specAccept] at hacc
                  by_cases hd : nodupB (callIds (m0 :: rest)) = true
                  · simp only [hd, Bool.not_true, Bool.false_eq_true, ite_false] at hacc
                    by_cases hs : (callIds (m0 :: rest)).any (fun c => st.sp.any (fun sl => slotPending sl c)) = true
                    · simp [hs]
                    · simp [hs] at hacc
                  · simp [hd]
                rw [hwf]; rfl
              | ok sp' =>
                have hacc' := hacc
                refine msgCase (by rw [r2, hsr, hrb]; simp [hnb', hacc]) ?_
                rw [hsr, hrb, ← hb, hcalls]
                simp only [hnb', hacc, Bool.and_false, Bool.false_eq_true, ite_false, ite_true, Bool.true_and]
                simp only [specAccept] at hacc'
                by_cases hd : nodupB (callIds (m0 :: rest)) = true
                · simp only [hd, Bool.not_true, Bool.false_eq_true, ite_false] at hacc'
                  by_cases hs : (callIds (m0 :: rest)).any (fun c => st.sp.any (fun sl => slotPending sl c)) = true
                  · simp [hs] at hacc'
                  · simp only [hs, Bool.false_eq_true, ite_false, Except.ok.injEq] at hacc'
                    rw [← hacc']
                    cases hc : callIds (m0 :: rest) <;> simp
                · simp [hd] at hacc'

theorem step_inv (st : St) (h : Inv st) (op : IOOp) (ha : ∀ raw, op = .feed raw → frameCallsAgree raw = true) :
    Inv (stepAll st op).1 ∧ (stepAll st op).2.clean := by
  cases op with
  | feed raw => exact feed_inv st h raw (ha raw rfl)
  | setNoBatch b => exact ver_inv st h b
  | read => exact read_inv st h
  | write m => exact write_inv st h m

theorem inv_init : Inv {} :=
  ⟨L.rel_init, rfl, rfl, rfl, rfl, rfl, by intro r hr; simp at hr⟩

/-- **io_monitor_accepts_model** (C19 `batch_roundtrip` / `ndjson_roundtrip` / `decode_total`, C02
`batch_exactly_once`, C03 `batch_read_order`, and the C01+C02+C03 clause on lost messages).  For EVERY
sequence of labels on a fresh `ioConn` — frames of any shape and number, `Read`s, `Write`s of any message in
any order, version changes — in which every fed frame satisfies `frameCallsAgree` (the monitor reads the call
ids of the frame as the model decodes them), the stateful monitor
raises NONE of its verdicts on the typed observations of the model: not under C19, not under C02, not under
C03. -/
theorem io_monitor_accepts_model (ops : List IOOp) (hops : ∀ raw ∈ fedFrames ops, frameCallsAgree raw = true) :
    ∀ v ∈ runAll {} ops, v.clean := by
  have key : ∀ (ops : List IOOp) (st : St), Inv st → (∀ raw ∈ fedFrames ops, frameCallsAgree raw = true) →
      ∀ v ∈ runAll st ops, v.clean := by
    intro ops
    induction ops with
    | nil => intro st _ _ v hv; simp [runAll] at hv
    | cons op t ih =>
      intro st h hf v hv
      obtain ⟨h1, h2⟩ := step_inv st h op (by
        intro raw he; subst he; exact hf raw (by simp [fedFrames]))
      simp only [runAll, List.mem_cons] at hv
      rcases hv with rfl | hv
      · exact h2
      · refine ih _ h1 ?_ v hv
        intro raw hr
        cases op <;> simp only [fedFrames] at hf <;> first | exact hf raw (by simp [hr]) | exact hf raw hr
  exact key ops {} inv_init hops

/-- whichever property the stream is run for, nothing is reported -/
theorem io_monitor_silent (ops : List IOOp) (hops : ∀ raw ∈ fedFrames ops, frameCallsAgree raw = true)
    (pid : Pid) (also03 : Bool) : ∀ v ∈ runAll {} ops, v.select pid also03 = none ∧ v.selectWrite pid = none := by
  intro v hv
  obtain ⟨h1, h2, h3⟩ := io_monitor_accepts_model ops hops v hv
  cases pid <;> cases also03 <;> simp [Verd.select, Verd.selectWrite, h1, h2, h3]

/-! ## the hypothesis is needed, and satisfiable -/

def w15 : JVal :=
  .obj [(wireDecode_VersionTag_name, .str wireVersion), (wireDecode_ID_name, .dec 15 (-1)), (wireDecode_Method_name, .str [109])]

/-- `[{"jsonrpc":"2.0","id":1.5,"method":"m"}]`, read, then the response to id 1: `MakeID` truncates 1.5 to 1, the
model tracks call 1 and flushes the array; the monitor saw no call (1.5 is no integer literal) and reports
`notOnItsOwn` — on the model's own behaviour.  Outside the property's domain (ids are strings or integers). -/
theorem io_monitor_needs_calls_agree :
    frameCallsAgree (.arr [w15]) = false ∧
    (runAll {} [.feed (.arr [w15]), .read, .write (.response (.int 1) (some .null) none)]).map (·.v02) =
      [none, none, some .notOnItsOwn] := by
  decide

example : frameCallsAgree (.arr [wNotif, wCall5, .null, .arr []]) = true := by decide

/-! ## concurrent writers -/

/-- what `io.cw` observes of the model: the frames of the calls, each a line of its own -/
def modelCw (s : IOState) (msgs : List Msg) : CwObs :=
  if (cwRun s msgs).2.contains .panic then .crash .panic
  else .lines ((cwLines (cwRun s msgs).2).map some)

theorem opWrite_request_single (s : IOState) (hp : s.panicked = false) (hc : s.outCap = 0) (id : Id) (me : Bytes) (p : Option JVal) :
    opWrite s (.request id me p) = (s, .single (encodeMsg (.request id me p))) := by
  simp [opWrite, hp, hc]

theorem opWrite_outCap (s : IOState) (m : Msg) : (opWrite s m).1.outCap = s.outCap := by
  unfold opWrite
  repeat' split
  all_goals first | rfl | (simp only []; repeat' split) <;> rfl

theorem opWrite_panicked (s : IOState) (m : Msg) (h : (opWrite s m).2 ≠ .panic) (hp : s.panicked = false) :
    (opWrite s m).1.panicked = false := by
  unfold opWrite at h ⊢
  repeat' split
  all_goals first | (simp_all; done) | (simp only [] at h ⊢; repeat' split) <;> simp_all

/-- in a run without a panic every call / notification is one of the lines (no outgoing batching) -/
theorem cwRun_request_mem (msgs : List Msg) : ∀ (s : IOState), s.panicked = false → s.outCap = 0 →
    (cwRun s msgs).2.contains .panic = false →
    ∀ m ∈ msgs, onItsOwn 0 m = true → encodeMsg m ∈ cwLines (cwRun s msgs).2 := by
  induction msgs with
  | nil => intro s _ _ _ m hm; cases hm
  | cons a t ih =>
    intro s hp hc hnp m hm ho
    simp only [cwRun, List.contains_cons, Bool.or_eq_false_iff] at hnp
    have ha : (opWrite s a).2 ≠ .panic := by
      intro h; rw [h] at hnp; simp at hnp
    have ih' := ih (opWrite s a).1 (opWrite_panicked s a ha hp) (by rw [opWrite_outCap, hc]) hnp.2
    simp only [cwRun, cwLines, List.filterMap_cons]
    rcases List.mem_cons.mp hm with rfl | hm
    · cases m with
      | request id me p =>
        rw [opWrite_request_single s hp hc]
        simp [WriteOut.frame]
      | response => simp [onItsOwn] at ho
    · have := ih' m hm ho
      unfold cwLines at this
      cases hf : (opWrite s a).2.frame <;> simp [this]

theorem cw_monitor_accepts_model (s : IOState) (hp : s.panicked = false) (hc : s.outCap = 0) (msgs : List Msg)
    (hnp : (cwRun s msgs).2.contains .panic = false) :
    cwMonitor 0 msgs (modelCw s msgs) = none := by
  simp only [modelCw, hnp, cwMonitor]
  have h1 : ((cwLines (cwRun s msgs).2).map some).any Option.isNone = false := by
    simp [List.any_eq_false]
  have h2 : msgs.find? (fun m => onItsOwn 0 m && !((cwLines (cwRun s msgs).2).map some).any (lineIs m)) = none := by
    rw [List.find?_eq_none]
    intro m hm
    simp only [Bool.and_eq_true, Bool.not_eq_true', not_and, Bool.not_eq_false]
    intro ho
    rw [List.any_eq_true]
    exact ⟨some (encodeMsg m), List.mem_map.mpr ⟨_, cwRun_request_mem msgs s hp hc hnp m hm ho, rfl⟩,
      by simp [lineIs, wireDiff_self_encode]⟩
  simp only [Bool.false_eq_true, if_false, h1, h2]

/-! ## `LoggingTransport` -/

/-- what the monitor's bookkeeping holds when the implementation does what the model does -/
def passedOf : List LogEv → List Passed
  | [] => []
  | .read (.msg m) :: t => .read m :: passedOf t
  | .read (.err _) :: t => .readErr :: passedOf t
  | .write m o :: t => if o = .panic then passedOf t else .write m :: passedOf t

theorem log_monitor_accepts_model (evs : List LogEv) :
    logMonitor (passedOf evs) (.entries ((logOf evs).map some)) = none := by
  have h : entriesAre (passedOf evs) ((logOf evs).map some) = true := by
    induction evs with
    | nil => rfl
    | cons e t ih =>
      cases e with
      | read o => cases o <;> simp [passedOf, logOf, logRead, entriesAre, entryIs, wireDiff_self_encode, ih]
      | write m o =>
        by_cases hp : o = .panic
        · simp [passedOf, logOf, logWrite, hp, ih]
        · simp [passedOf, logOf, logWrite, hp, entriesAre, entryIs, wireDiff_self_encode, ih]
  simp [logMonitor, h]

end Mon
end Wire
