import McpModel.Wire.Props
import McpModel.Wire.Monitor
/-!
# E2 Wire — `monitor_accepts_model`: the typed monitors raise no clause on what the model produces

For every record kind of the four streams: the typed observation the MODEL yields for an operation
(`model…` below — the typed counterpart of the string the driver prints as the model's observation) is
accepted by the monitor of `Monitor.lean`, for ALL operations (messages, JSON values, byte payloads, event
lists, content values, frames, registries, cursors) — no alarm on conforming behaviour, by theorem.

Explicit, decidable exclusions:
* **F23** (known finding): the model describes what `/repo` does — a text resource with EMPTY text is
  written without `text` and without `blob` — and the property forbids it, so the monitor DOES fire on the
  model there.  The exclusions are `noF23` (content values), `text ≠ [] ∨ blob.isSome` (resource contents),
  `l.all resourceOK` (the contents list of `resources/read`); `f23_fires_on_model_*` are the
  counter-example theorems (the monitor fires on the model's own observation of the excluded shape).
* `casedec`: the changed member name is not one of the six wire names (`nm ∉ wireNames`; the harness flips
  the case of a wire name); `casedec_needs_foreign_name` shows the hypothesis is needed.

The stateful `ioConn` monitor is in `BridgeIO.lean`.
Trusted remainder: the string layer of the driver (token parser, `show…` renderers, `clauseText`).
-/
namespace Wire
namespace Mon
open Generated.Wire

/-! ## helpers -/

theorem sameJ_refl (a : JVal) : sameJ a a = true := by simp [sameJ]

theorem sameOJ_refl (a : Option JVal) : sameOJ a a = true := by
  cases a <;> simp [sameOJ, sameJ_refl]

mutual
theorem beqC_refl : ∀ (c : Content), beqC c c = true
  | .text .. => by simp [beqC]
  | .image .. => by simp [beqC]
  | .audio .. => by simp [beqC]
  | .link .. => by simp [beqC]
  | .resource .. => by simp [beqC]
  | .toolUse .. => by simp [beqC]
  | .toolResult _ cs _ _ _ => by simp [beqC, beqCL_refl cs]
theorem beqCL_refl : ∀ (cs : List Content), beqCL cs cs = true
  | [] => by simp [beqCL]
  | c :: t => by simp [beqCL, beqC_refl c, beqCL_refl t]
end

/-- two wire objects with the same C19 projection do not differ -/
theorem wireDiff_none_of_proj (w w' : JVal) (a : Proj) (h1 : proj w = some a) (h2 : proj w' = some a) :
    wireDiff w w' = none := by
  simp [wireDiff, h1, h2]

theorem proj_obj (kvs : List (Bytes × JVal)) : ∃ a, proj (.obj kvs) = some a := ⟨_, rfl⟩

theorem validWire_obj (w : JVal) (h : validWire w = true) : ∃ kvs, w = .obj kvs := by
  cases w <;> simp [validWire] at h
  exact ⟨_, rfl⟩

theorem encodeMsg_obj (m : Msg) : ∃ kvs, encodeMsg m = .obj kvs := by
  cases m <;> exact ⟨_, rfl⟩

theorem wireDiff_self_encode (m : Msg) : wireDiff (encodeMsg m) (encodeMsg m) = none := by
  obtain ⟨kvs, h⟩ := encodeMsg_obj m
  rw [h]
  exact wireDiff_none_of_proj _ _ _ rfl rfl

/-- a valid wire value and the re-encoding of its decoding do not differ (`encode_decode_preserves`) -/
theorem wireDiff_valid (w : JVal) (h : validWire w = true) (m : Msg) (hm : decodeMsg w = .ok m) :
    wireDiff w (encodeMsg m) = none := by
  obtain ⟨m', hm', hp⟩ := encode_decode_preserves w h
  rw [hm] at hm'
  cases hm'
  obtain ⟨kvs, rfl⟩ := validWire_obj w h
  exact wireDiff_none_of_proj _ _ _ rfl hp

/-! ## message codec -/

def modelEncdec (m : Msg) : Option DecObs := some (DecObs.ofModel (decodeMsg (encodeMsg m)))

theorem encdec_monitor_accepts_model (m : Msg) : encdecMonitor m (modelEncdec m) = none := by
  unfold encdecMonitor modelEncdec
  by_cases h : wfMsg m = true
  · simp [h, decode_encode_msg m h, DecObs.ofModel]
  · simp [h]

def modelDecenc (w : JVal) : DecEncObs :=
  match decodeMsg w with
  | .ok m => { accepted := true, paired := true, reenc := some (encodeMsg m) }
  | .error _ => { accepted := false, paired := true, reenc := none }

theorem respNoId_rejected (w : JVal) (h : respNoId w = true) : ∃ e, decodeMsg w = .error e := by
  cases w with
  | obj kvs =>
    simp only [respNoId, Bool.and_eq_true, beq_iff_eq, Option.isNone_iff_eq_none] at h
    obtain ⟨⟨⟨⟨_, hv⟩, hm⟩, hi⟩, he⟩ := h
    exact ⟨_, response_needs_id kvs hv hm hi he⟩
  | _ => simp [respNoId] at h

theorem decenc_monitor_accepts_model (w : JVal) : decencMonitor w (modelDecenc w) = none := by
  unfold decencMonitor
  by_cases h1 : respNoId w = true
  · obtain ⟨e, he⟩ := respNoId_rejected w h1
    simp [h1, modelDecenc, he]
  · by_cases h2 : (validWire w && noDupKeys w) = true
    · have hv : validWire w = true := by
        rw [Bool.and_eq_true] at h2; exact h2.1
      obtain ⟨m, hm, _⟩ := encode_decode_preserves w hv
      simp [h1, h2, modelDecenc, hm, wireDiff_valid w hv m hm]
    · simp [h1, h2]

theorem lookup_filter_ne (k nm : Bytes) (kvs : List (Bytes × JVal)) (h : k ≠ nm) :
    lookup k (kvs.filter (fun p => p.1 ≠ nm)) = lookup k kvs := by
  induction kvs with
  | nil => rfl
  | cons p t ih =>
    obtain ⟨k', v⟩ := p
    by_cases hk : k' = nm
    · have hne : k' ≠ k := by rw [hk]; exact fun e => h e.symm
      rw [List.filter_cons_of_neg (by simp [hk]), ih]
      simp only [lookup, if_neg hne]
      cases lookup k t <;> rfl
    · rw [List.filter_cons_of_pos (by simp [hk])]
      simp only [lookup, ih]

/-- what the model shows for `casedec <name> <object>` -/
def modelCasedec (nm : Bytes) (kvs : List (Bytes × JVal)) : Option (DecObs × DecObs) :=
  some (DecObs.ofModel (decodeMsg (.obj kvs)), DecObs.ofModel (decodeMsg (.obj (kvs.filter (fun p => p.1 ≠ nm)))))

theorem decodeMsg_filter_foreign (nm : Bytes) (kvs : List (Bytes × JVal)) (h : nm ∉ wireNames) :
    decodeMsg (.obj (kvs.filter (fun p => p.1 ≠ nm))) = decodeMsg (.obj kvs) := by
  simp only [wireNames, List.mem_cons, List.not_mem_nil, or_false, not_or] at h
  obtain ⟨h1, h2, h3, h4, h5, h6⟩ := h
  simp only [decodeMsg, asRaw]
  rw [lookup_filter_ne _ nm kvs (Ne.symm h1), lookup_filter_ne _ nm kvs (Ne.symm h2), lookup_filter_ne _ nm kvs (Ne.symm h3),
    lookup_filter_ne _ nm kvs (Ne.symm h4), lookup_filter_ne _ nm kvs (Ne.symm h5), lookup_filter_ne _ nm kvs (Ne.symm h6)]

theorem casedec_monitor_accepts_model (nm : Bytes) (kvs : List (Bytes × JVal)) (h : nm ∉ wireNames) :
    casedecMonitor (modelCasedec nm kvs) = none := by
  rw [modelCasedec, decodeMsg_filter_foreign nm kvs h]
  simp [casedecMonitor]

/-- the hypothesis is needed: dropping a member under one of the six wire names changes the decoding -/
theorem casedec_needs_foreign_name :
    casedecMonitor (modelCasedec wireDecode_Method_name
      [(wireDecode_VersionTag_name, .str wireVersion), (wireDecode_Method_name, .str [112])]) = some .caseMatched := by
  decide

example : ([73, 68] : Bytes) ∉ wireNames := by decide

/-! `casedec.err`: the same inside the error object -/

theorem asWErr_filter_foreign (nm : Bytes) (e : List (Bytes × JVal)) (h : nm ∉ wireErrorNames) :
    asWErr (some (.obj (e.filter (fun p => p.1 ≠ nm)))) = asWErr (some (.obj e)) := by
  simp only [wireErrorNames, List.mem_cons, List.not_mem_nil, or_false, not_or] at h
  obtain ⟨h1, h2, h3⟩ := h
  simp only [asWErr, asRaw]
  rw [lookup_filter_ne _ nm e (Ne.symm h1), lookup_filter_ne _ nm e (Ne.symm h2), lookup_filter_ne _ nm e (Ne.symm h3)]

/-- an error object without its members named `nm` -/
def dropIn (nm : Bytes) : JVal → JVal
  | .obj e => .obj (e.filter (fun p => p.1 ≠ nm))
  | v => v

theorem dropErr_cons (nm k' : Bytes) (v : JVal) (t : List (Bytes × JVal)) :
    dropErrMember nm ((k', v) :: t) =
      (k', if k' = wireDecode_Error_name then dropIn nm v else v) :: dropErrMember nm t := by
  cases v <;> simp only [dropErrMember, dropIn] <;> split <;> rfl

theorem lookup_dropErr_ne (k nm : Bytes) (kvs : List (Bytes × JVal)) (h : k ≠ wireDecode_Error_name) :
    lookup k (dropErrMember nm kvs) = lookup k kvs := by
  induction kvs with
  | nil => rfl
  | cons p t ih =>
    obtain ⟨k', v⟩ := p
    rw [dropErr_cons]
    simp only [lookup, ih]
    by_cases hk : k' = wireDecode_Error_name
    · have : k' ≠ k := by rw [hk]; exact Ne.symm h
      simp [this]
    · simp only [if_neg hk]

theorem lookup_dropErr (nm : Bytes) (kvs : List (Bytes × JVal)) :
    lookup wireDecode_Error_name (dropErrMember nm kvs) = (lookup wireDecode_Error_name kvs).map (dropIn nm) := by
  induction kvs with
  | nil => rfl
  | cons p t ih =>
    obtain ⟨k', v⟩ := p
    rw [dropErr_cons]
    simp only [lookup, ih]
    cases lookup wireDecode_Error_name t with
    | some w => rfl
    | none =>
      by_cases hk : k' = wireDecode_Error_name
      · simp only [if_pos hk]; rfl
      · simp only [if_neg hk]; rfl

theorem asWErr_dropIn (nm : Bytes) (ov : Option JVal) (h : nm ∉ wireErrorNames) :
    asWErr (ov.map (dropIn nm)) = asWErr ov := by
  cases ov with
  | none => rfl
  | some v =>
    cases v with
    | obj e => exact asWErr_filter_foreign nm e h
    | _ => rfl

theorem decodeMsg_dropErr_foreign (nm : Bytes) (kvs : List (Bytes × JVal)) (h : nm ∉ wireErrorNames) :
    decodeMsg (.obj (dropErrMember nm kvs)) = decodeMsg (.obj kvs) := by
  simp only [decodeMsg, asRaw]
  rw [lookup_dropErr, asWErr_dropIn nm _ h, lookup_dropErr_ne _ nm kvs (by decide), lookup_dropErr_ne _ nm kvs (by decide),
    lookup_dropErr_ne _ nm kvs (by decide), lookup_dropErr_ne _ nm kvs (by decide), lookup_dropErr_ne _ nm kvs (by decide)]

/-- what the model shows for `casedec.err <name> <object>` -/
def modelCasedecErr (nm : Bytes) (kvs : List (Bytes × JVal)) : Option (DecObs × DecObs) :=
  some (DecObs.ofModel (decodeMsg (.obj kvs)), DecObs.ofModel (decodeMsg (.obj (dropErrMember nm kvs))))

theorem casedecErr_monitor_accepts_model (nm : Bytes) (kvs : List (Bytes × JVal)) (h : nm ∉ wireErrorNames) :
    casedecErrMonitor (modelCasedecErr nm kvs) = none := by
  rw [modelCasedecErr, decodeMsg_dropErr_foreign nm kvs h]
  simp [casedecErrMonitor]

/-- the hypothesis is needed: dropping the real `code` member changes the decoded error -/
theorem casedecErr_needs_foreign_name :
    casedecErrMonitor (modelCasedecErr WireError_Code_name
      [(wireDecode_VersionTag_name, .str wireVersion), (wireDecode_ID_name, .int 1),
       (wireDecode_Error_name, .obj [(WireError_Code_name, .int 5), (WireError_Message_name, .str [109])])]) =
      some .caseMatchedErr := by
  decide

/-- the members of the error object the model writes for a Go error -/
def modelWerr (e : GoErr) : Option (List (Bytes × JVal)) :=
  match encodeErr (toWireError e) with
  | .obj kvs => some kvs
  | _ => none

theorem toWireError_code (e : GoErr) : (toWireError e).code = expectedCode e := by
  cases e <;> rfl

theorem toWireError_message (e : GoErr) : (toWireError e).message = expectedMessage e := by
  cases e <;> rfl

theorem encodeErr_members (we : WErr) :
    ∃ kvs, encodeErr we = .obj kvs ∧ lookup WireError_Code_name kvs = some (.int we.code) ∧
      lookup WireError_Message_name kvs = some (.str we.message) := by
  refine ⟨_, rfl, ?_, ?_⟩
  · by_cases hc : we.code = 0 <;> by_cases hm : we.message = [] <;> cases hd : we.data <;>
      simp [members, member, lookup, hc, hm]
  · by_cases hc : we.code = 0 <;> by_cases hm : we.message = [] <;> cases hd : we.data <;>
      simp [members, member, lookup, hc, hm]

theorem werr_monitor_accepts_model (e : GoErr) : werrMonitor e (modelWerr e) = none := by
  obtain ⟨kvs, h1, h2, h3⟩ := encodeErr_members (toWireError e)
  simp only [werrMonitor, modelWerr, h1, h2, h3, toWireError_code, toWireError_message]
  simp

/-- the model never panics: every decoder is a total function (`decode_total`) -/
theorem fuzzdec_monitor_accepts_model : fuzzdecMonitor false = none := rfl

def modelIdecho (idv : JVal) : IdObs :=
  match decodeID idv with
  | .ok id => .echoed (encodeId id)
  | .error _ => .rejected

theorem idecho_monitor_accepts_model (idv : JVal) : idechoMonitor idv (modelIdecho idv) = none := by
  cases idv with
  | str s => simp [idechoMonitor, modelIdecho, decodeID, makeIDFloat, encodeId]
  | int n =>
    by_cases h : inInt64 n = true
    · simp [idechoMonitor, modelIdecho, decodeID, h, encodeId]
    · simp [idechoMonitor, h]
  | _ => simp [idechoMonitor]

/-! ## SSE -/

def modelScan (bs : Bytes) : ScanObs := .res (.scan (scanEvents bs).1 (scanEvents bs).2)

theorem scan_monitor_accepts_model : scanPanicMonitor false = none := rfl

theorem cleanField_spec (v : Bytes) (h : cleanField v = true) : Clean v := by
  simp only [cleanField, Bool.and_eq_true, decide_eq_true_eq, Bool.not_eq_true', List.contains_eq_mem,
    decide_eq_false_iff_not] at h
  exact ⟨h.1, h.2⟩

theorem cleanEvent_spec (e : Event) (h : cleanEvent e = true) : CleanEvent e := by
  simp only [cleanEvent, Bool.and_eq_true, Bool.not_eq_true'] at h
  obtain ⟨⟨⟨⟨h1, h2⟩, h3⟩, h4⟩, h5⟩ := h
  exact ⟨cleanField_spec _ h1, cleanField_spec _ h2, cleanField_spec _ h3, cleanField_spec _ h4, h5⟩

theorem sseRt_monitor_accepts_model (es : List Event) : sseRtMonitor es (modelScan (es.flatMap writeEvent)) = none := by
  unfold sseRtMonitor
  by_cases h : es.all cleanEvent = true
  · have hc : ∀ e ∈ es, CleanEvent e := fun e he => cleanEvent_spec e (List.all_eq_true.mp h e he)
    simp [h, modelScan, sse_roundtrip es hc]
  · simp [h]

def scanRes (bs : Bytes) : ScanRes := .scan (scanEvents bs).1 (scanEvents bs).2

def modelLines (ls : List (Bytes × Eol)) (rest : Bytes) : LinesObs :=
  .pair (scanRes (renderLines ls ++ rest)) (scanRes (frame (ls.map (·.1)) ++ rest))

theorem sseLines_monitor_accepts_model (ls : List (Bytes × Eol)) (rest : Bytes) :
    sseLinesMonitor ls rest (modelLines ls rest) = none := by
  simp only [sseLinesMonitor, modelLines]
  split
  · next h =>
    have hl : ∀ p ∈ ls, LF ∉ p.1 := by
      rw [Bool.and_eq_true] at h
      intro p hp
      have := List.all_eq_true.mp h.1 p hp
      simpa using this
    simp [scanRes, sse_eol_irrelevant ls rest hl]
  · rfl

theorem sseFrn_monitor_accepts_model (es : List FEvent) : sseFrnMonitor es (modelScan (renderStream es)) = none := by
  unfold sseFrnMonitor modelScan
  by_cases h : es.all (fun e => e.lines.all wfFLine) = true
  · have hw : ∀ e ∈ es, ∀ l ∈ e.lines, WfFLine l := fun e he l hl =>
      L.wfFLine_spec l (List.all_eq_true.mp (List.all_eq_true.mp h e he) l hl)
    simp [h, sse_roundtrip_any_eol es hw, denoted]
  · simp [h]

/-! ## content -/

mutual
/-- the F23 exclusion on content values: no embedded resource (at any depth) lacks both `text` and `blob` -/
def noF23 : Content → Bool
  | .resource (some r) _ _ => resourceOK r
  | .toolResult _ cs _ _ _ => noF23L cs
  | _ => true
def noF23L : List Content → Bool
  | [] => true
  | c :: t => noF23 c && noF23L t
end

theorem emb_text (t : Bytes) (m : Meta) (a : Option JVal) : embeddedOK (encodeContent (.text t m a)) = true := by
  by_cases ht : t = [] <;> by_cases hm : m = [] <;> cases a <;>
    simp [encodeContent, embeddedOK, embeddedTopOK, embNested, hasArrLater, members, member, optStr, optObj, lookup, kText, kResource, ht, hm]

theorem emb_image (d mi : Bytes) (m : Meta) (a : Option JVal) : embeddedOK (encodeContent (.image d mi m a)) = true := by
  by_cases hd : d = [] <;> by_cases hmi : mi = [] <;> by_cases hm : m = [] <;> cases a <;>
    simp [encodeContent, embeddedOK, embeddedTopOK, embNested, hasArrLater, members, member, optStr, optObj, lookup, kImage, kResource, hd, hmi, hm]

theorem emb_audio (d mi : Bytes) (m : Meta) (a : Option JVal) : embeddedOK (encodeContent (.audio d mi m a)) = true := by
  by_cases hd : d = [] <;> by_cases hmi : mi = [] <;> by_cases hm : m = [] <;> cases a <;>
    simp [encodeContent, embeddedOK, embeddedTopOK, embNested, hasArrLater, members, member, optStr, optObj, lookup, kAudio, kResource, hd, hmi, hm]

theorem embNested_members (fs : List (Bytes × Option JVal)) (h : ∀ p ∈ fs, p.1 ≠ wireContent_NestedContent_name) :
    embNested (members fs) = true := by
  induction fs with
  | nil => rfl
  | cons p t ih =>
    obtain ⟨k', ov⟩ := p
    have hk : k' ≠ wireContent_NestedContent_name := h (k', ov) (by simp)
    have := ih (fun q hq => h q (by simp [hq]))
    cases ov with
    | none => simpa [members_cons] using this
    | some v =>
      simp only [members_cons, List.cons_append, List.nil_append, embNested, this, if_neg hk]
      split <;> rfl

theorem emb_link (uri name title desc mime : Bytes) (size : Option Int) (m : Meta) (a : Option JVal) (icons : List JVal) :
    embeddedOK (encodeContent (.link uri name title desc mime size m a icons)) = true := by
  simp only [encodeContent, embeddedOK, embeddedTopOK]
  have hty : lookup wireContent_Type_name (members [
      member wireContent_Type_name wireContent_Type_omit (optStr kLink) (.str []),
      member wireContent_MIMEType_name wireContent_MIMEType_omit (optStr mime) (.str []),
      member wireContent_URI_name wireContent_URI_omit (optStr uri) (.str []),
      member wireContent_Name_name wireContent_Name_omit (optStr name) (.str []),
      member wireContent_Title_name wireContent_Title_omit (optStr title) (.str []),
      member wireContent_Description_name wireContent_Description_omit (optStr desc) (.str []),
      member wireContent_Size_name wireContent_Size_omit (size.map .int) .null,
      member wireContent_Meta_name wireContent_Meta_omit (optObj m) .null,
      member wireContent_Annotations_name wireContent_Annotations_omit a .null,
      member wireContent_Icons_name wireContent_Icons_omit (optArr icons) .null]) = some (.str kLink) := by
    rw [show member wireContent_Type_name wireContent_Type_omit (optStr kLink) (.str []) =
      (wireContent_Type_name, some (.str kLink)) from rfl, L.lookup_members_cons, L.lookup_members_none]
    · simp
    · intro p hp
      simp only [List.mem_cons, List.not_mem_nil, or_false] at hp
      rcases hp with rfl | rfl | rfl | rfl | rfl | rfl | rfl | rfl | rfl <;> (rw [L.member_fst]; decide)
  rw [hty]
  have hn := embNested_members [
      member wireContent_Type_name wireContent_Type_omit (optStr kLink) (.str []),
      member wireContent_MIMEType_name wireContent_MIMEType_omit (optStr mime) (.str []),
      member wireContent_URI_name wireContent_URI_omit (optStr uri) (.str []),
      member wireContent_Name_name wireContent_Name_omit (optStr name) (.str []),
      member wireContent_Title_name wireContent_Title_omit (optStr title) (.str []),
      member wireContent_Description_name wireContent_Description_omit (optStr desc) (.str []),
      member wireContent_Size_name wireContent_Size_omit (size.map .int) .null,
      member wireContent_Meta_name wireContent_Meta_omit (optObj m) .null,
      member wireContent_Annotations_name wireContent_Annotations_omit a .null,
      member wireContent_Icons_name wireContent_Icons_omit (optArr icons) .null] (by
    intro p hp
    simp only [List.mem_cons, List.not_mem_nil, or_false] at hp
    rcases hp with rfl | rfl | rfl | rfl | rfl | rfl | rfl | rfl | rfl | rfl <;> (rw [L.member_fst]; decide))
  rw [hn]
  generalize lookup wireContent_Resource_name _ = x
  cases x <;> simp [kLink, kResource]

theorem emb_resource (r : Option JVal) (m : Meta) (a : Option JVal)
    (h : ∀ v, r = some v → resourceOK v = true) : embeddedOK (encodeContent (.resource r m a)) = true := by
  cases r with
  | none =>
    by_cases hm : m = [] <;> cases a <;>
      simp [encodeContent, embeddedOK, embeddedTopOK, embNested, hasArrLater, members, member, optStr, optObj, lookup, kResource, hm]
  | some v =>
    have hv := h v rfl
    by_cases hm : m = [] <;> cases a <;>
      simp [encodeContent, embeddedOK, embeddedTopOK, embNested, hasArrLater, members, member, optStr, optObj, lookup, kResource, hm, hv]

theorem emb_toolUse (id name : Bytes) (input m : Meta) : embeddedOK (encodeContent (.toolUse id name input m)) = true := by
  by_cases h1 : id = [] <;> by_cases h2 : name = [] <;> by_cases hm : m = [] <;>
    simp [encodeContent, embeddedOK, embeddedTopOK, embNested, hasArrLater, members, member, optStr, optObj, lookup, kToolUse, kResource, h1, h2, hm]

theorem emb_toolResult (tid : Bytes) (cs : List Content) (st : Option JVal) (ie : Bool) (m : Meta)
    (ih : embList (encodeContents cs) = true) : embeddedOK (encodeContent (.toolResult tid cs st ie m)) = true := by
  by_cases h1 : tid = [] <;> cases st <;> cases ie <;> by_cases hm : m = [] <;>
    simp [encodeContent, embeddedOK, embeddedTopOK, embNested, embArr, hasArrLater, members, member, optStr, optObj, optBool, lookup,
      kToolResult, kResource, h1, hm, ih]

mutual
theorem embeddedOK_encode : ∀ (c : Content), noF23 c = true → embeddedOK (encodeContent c) = true
  | .text t m a, _ => emb_text t m a
  | .image d mi m a, _ => emb_image d mi m a
  | .audio d mi m a, _ => emb_audio d mi m a
  | .link u n t d mi sz m a ic, _ => emb_link u n t d mi sz m a ic
  | .resource r m a, h => emb_resource r m a (by
      intro v hv; subst hv; simpa [noF23] using h)
  | .toolUse id n inp m, _ => emb_toolUse id n inp m
  | .toolResult tid cs st ie m, h => emb_toolResult tid cs st ie m (embList_encode cs (by simpa [noF23] using h))
theorem embList_encode : ∀ (cs : List Content), noF23L cs = true → embList (encodeContents cs) = true
  | [], _ => rfl
  | c :: t, h => by
    simp only [noF23L, Bool.and_eq_true] at h
    simp only [encodeContents, embList, embeddedOK_encode c h.1, embList_encode t h.2, Bool.and_self]
end

def modelCenc (c : Content) : Option JVal := some (encodeContent c)

theorem cenc_monitor_accepts_model (c : Content) (h : noF23 c = true) : cencMonitor (modelCenc c) = none := by
  simp [cencMonitor, modelCenc, required_members_present c, embeddedOK_encode c h]

/-- F23 counter-example: on an embedded text resource with empty text the monitor fires on the model's own output -/
theorem f23_fires_on_model_content :
    cencMonitor (modelCenc (.resource (some (encodeResource [117] [] [] none [])) [] none)) = some .f23 := by
  decide

example : noF23 (.resource (some (encodeResource [117] [] [116] none [])) [] none) = true := by decide

def modelCres (uri mime text : Bytes) (blob : Option Bytes) (m : Meta) : Option JVal :=
  some (encodeResource uri mime text blob m)

theorem cres_monitor_accepts_model (uri mime text : Bytes) (blob : Option Bytes) (m : Meta)
    (h : text ≠ [] ∨ blob.isSome = true) : cresMonitor (modelCres uri mime text blob m) = none := by
  simp [cresMonitor, modelCres, resource_text_present_partial uri mime text blob m h]

theorem f23_fires_on_model_resource : cresMonitor (modelCres [117] [] [] none []) = some .f23 := by decide

def modelCrt (sh : Shape) (allow : Option (List Bytes)) (cs : List Content) : Option (Option (List Content)) :=
  some (match decodeIn sh allow (some (encodeIn sh cs)) with
    | .ok cs' => some cs'
    | .error _ => none)

theorem encodeContent_obj (c : Content) : ∃ kvs, encodeContent c = .obj kvs := by
  cases c <;> (simp only [encodeContent]; exact ⟨_, rfl⟩)

theorem decodeIn_encodeIn (sh : Shape) (allow : Option (List Bytes)) (cs : List Content)
    (h : crtDomain sh allow cs = true) : decodeIn sh allow (some (encodeIn sh cs)) = .ok cs := by
  simp only [crtDomain, Bool.and_eq_true, List.all_eq_true] at h
  obtain ⟨hall, hshape⟩ := h
  cases sh with
  | one =>
    simp only [decide_eq_true_eq] at hshape
    match cs, hshape with
    | [c], _ =>
      have := hall c (by simp)
      simp only [decodeIn, encodeIn, content_roundtrip allow c this.1 this.2]
      rfl
  | list =>
    have hl := contents_roundtrip allow cs hall
    simp only [decodeIn, encodeIn]
    exact hl
  | oneOrMany =>
    match cs, hshape with
    | [c], _ =>
      have := hall c (by simp)
      obtain ⟨kvs, hk⟩ := encodeContent_obj c
      have hr := content_roundtrip allow c this.1 this.2
      simp only [decodeIn, encodeIn]
      rw [hk] at hr ⊢
      simp only [unmarshalContent, hr]
      rfl
    | c1 :: c2 :: t, _ =>
      have hl := contents_roundtrip allow (c1 :: c2 :: t) hall
      simp only [decodeIn, encodeIn, unmarshalContent]
      simpa [decodeContentList, wcNested] using hl
    | [], hs => simp at hs

theorem crt_monitor_accepts_model (sh : Shape) (allow : Option (List Bytes)) (cs : List Content) :
    crtMonitor sh allow cs (modelCrt sh allow cs) = none := by
  unfold crtMonitor
  by_cases h : crtDomain sh allow cs = true
  · simp [h, modelCrt, decodeIn_encodeIn sh allow cs h, beqCL_refl]
  · simp [h]

theorem cdec_monitor_accepts_model (ctx : String) : cdecMonitor ctx false = none := rfl
theorem cfuzz_monitor_accepts_model : cfuzzMonitor false = none := rfl

/-- marshal → unmarshal → marshal of plain tagged structs is the JSON library's identity: the model's observation is `j1` -/
theorem rrt_monitor_accepts_model (j1 : JVal) : rrtMonitor j1 (some j1) = none := by simp [rrtMonitor]

/-! ## results -/

/-- what the model shows for `tools/call`: the members it prescribes, after whatever other members
(`_meta`, `resultType`) the result carries -/
def modelRcall (extra ms : List (Bytes × JVal)) : ResObs := .obj (extra ++ ms)

theorem lookup_append (k : Bytes) (a b : List (Bytes × JVal)) :
    lookup k (a ++ b) = match lookup k b with | some w => some w | none => lookup k a := by
  induction a with
  | nil => simp [lookup]; cases lookup k b <;> rfl
  | cons p t ih =>
    obtain ⟨k', v⟩ := p
    simp only [List.cons_append, lookup, ih]
    cases lookup k b <;> rfl

theorem lookup_none_of_not_mem (k : Bytes) (a : List (Bytes × JVal)) (h : ∀ p ∈ a, p.1 ≠ k) : lookup k a = none := by
  induction a with
  | nil => rfl
  | cons p t ih =>
    obtain ⟨k', v⟩ := p
    have : k' ≠ k := h (k', v) (by simp)
    simp [lookup, ih (fun q hq => h q (by simp [hq])), this]

/-- the `tools/call` names the model prescribes -/
def callNames : List Bytes := [CallToolResult_Content_name, CallToolResult_StructuredContent_name, CallToolResult_IsError_name]

theorem rcall_monitor_accepts_model (c : Option (List Content)) (s : Option JVal) (e : Bool)
    (extra ms : List (Bytes × JVal)) (hx : ∀ p ∈ extra, p.1 ∉ callNames)
    (hms : sdkCallTool (.result c s e) = .sent ms) (hf : noF23L (c.getD []) = true) :
    rcallMonitor (.result c s e) (modelRcall extra ms) = none := by
  obtain ⟨ms', h0, h1, h2, h3, h4⟩ := call_tool_content_present c s e
  rw [hms] at h0
  cases h0
  have x1 : lookup CallToolResult_Content_name extra = none :=
    lookup_none_of_not_mem _ _ (fun p hp e => hx p hp (by simp [callNames, e]))
  have x2 : lookup CallToolResult_StructuredContent_name extra = none :=
    lookup_none_of_not_mem _ _ (fun p hp e => hx p hp (by simp [callNames, e]))
  have x3 : lookup CallToolResult_IsError_name extra = none :=
    lookup_none_of_not_mem _ _ (fun p hp e => hx p hp (by simp [callNames, e]))
  have l1 : lookup CallToolResult_Content_name (extra ++ ms) = some (.arr (encodeContents (c.getD []))) := by
    rw [lookup_append, h1]
  have l2 : lookup CallToolResult_StructuredContent_name (extra ++ ms) = s := by
    rw [lookup_append, h3, x2]; cases s <;> rfl
  have l3 : lookup CallToolResult_IsError_name (extra ++ ms) = (if e then some (.bool true) else none) := by
    rw [lookup_append, h4, x3]; cases e <;> rfl
  rw [h1] at h2
  simp only [rcallMonitor, modelRcall, l1, l2, l3, isArrJ, h2, sameOJ_refl, embList_encode _ hf]
  simp

theorem rcall_nil_monitor_accepts_model (extra ms : List (Bytes × JVal)) (hx : ∀ p ∈ extra, p.1 ∉ callNames)
    (hms : sdkCallTool .nilResult = .sent ms) : rcallMonitor .nilResult (modelRcall extra ms) = none := by
  have hms' : sdkCallTool (.result none none false) = .sent ms := hms
  obtain ⟨ms', h0, h1, h2, h3, h4⟩ := call_tool_content_present none none false
  rw [hms'] at h0
  cases h0
  have x2 : lookup CallToolResult_StructuredContent_name extra = none :=
    lookup_none_of_not_mem _ _ (fun p hp e => hx p hp (by simp [callNames, e]))
  have x3 : lookup CallToolResult_IsError_name extra = none :=
    lookup_none_of_not_mem _ _ (fun p hp e => hx p hp (by simp [callNames, e]))
  have l1 : lookup CallToolResult_Content_name (extra ++ ms) = some (.arr (encodeContents [])) := by
    rw [lookup_append, h1]; rfl
  have l2 : lookup CallToolResult_StructuredContent_name (extra ++ ms) = none := by
    rw [lookup_append, h3, x2]
  have l3 : lookup CallToolResult_IsError_name (extra ++ ms) = none := by
    rw [lookup_append, h4, x3]; rfl
  simp only [rcallMonitor, modelRcall, l1, l2, l3, isArrJ, encodeContents, contentArrOK, reqList, embList, sameOJ_refl]
  simp [sameOJ, encodeContents, sameJ_refl]

/-- `r.zero`: any result whose required list member is what the model prescribes (the other members are the
implementation's) is accepted; `resources/read` under the F23 exclusion on the contents the handler returned -/
theorem rzero_monitor_accepts_model (k : RKind) (method : String) (nilres : Bool) (l : RList) (lv : JVal)
    (kvs : List (Bytes × JVal)) (hs : sdkResultList k l = .sent lv) (hp : getPath k.path (.obj kvs) = some lv)
    (hf : k = .readResource → ∀ items, lv = .arr items → items.all resourceOK = true) :
    rzeroMonitor k method nilres (.obj kvs) = none := by
  obtain ⟨items, rfl⟩ := required_lists_present k l lv hs
  simp only [rzeroMonitor, hp, isArrJ]
  by_cases hk : k = .readResource
  · simp [hk, hf hk items rfl]
  · simp [hk]

/-- F23 counter-example: `resources/read` of an empty text file -/
theorem f23_fires_on_model_read :
    rzeroMonitor .readResource "resources/read" false
      (.obj [([99, 111, 110, 116, 101, 110, 116, 115], .arr [encodeResource [117] [] [] none []])]) = some .f23 := by
  decide

def modelPg (k : RKind) (keys : List Bytes) (ps : Nat) (c : Cursor) : PgObs :=
  match (listPage k (fun u => .str u) keys ps c).1 with
  | .errorInstead => .fine
  | .sent (.arr _) => .fine
  | .sent _ => .null

theorem rpg_monitor_accepts_model (k : RKind) (hk : k.isPaged = true) (keys : List Bytes) (ps : Nat) (c : Cursor) :
    rpgMonitor k keys ps c (modelPg k keys ps c) = none := by
  rcases required_lists_present_paged k hk (fun u => .str u) keys ps c with ⟨_, h⟩ | ⟨items, h, _, _⟩ <;>
    simp [rpgMonitor, modelPg, h]

/-- what the driver's `r.pg.list` arm observes of the model for ANY listed registry (paged or whole) -/
def modelReg (k : RKind) (keys : List Bytes) (ps : Nat) (c : Cursor) : PgObs :=
  match (listReg k (fun u => .str u) keys ps c).1 with
  | .errorInstead => .fine
  | .sent (.arr _) => .fine
  | .sent _ => .null

theorem rreg_monitor_accepts_model (k : RKind) (hk : k.isListed = true) (keys : List Bytes) (ps : Nat) (c : Cursor) :
    rpgMonitor k keys ps c (modelReg k keys ps c) = none := by
  by_cases hp : k.isPaged = true
  · have : modelReg k keys ps c = modelPg k keys ps c := by simp [modelReg, modelPg, listReg, hp]
    rw [this]; exact rpg_monitor_accepts_model k hp keys ps c
  · have hr : k = .listRoots := by cases k <;> simp_all [RKind.isListed, RKind.isPaged]
    subst hr
    simp [rpgMonitor, modelReg, listReg, RKind.isPaged, L.listAll_sent]

/-! ## the byte stream of an io connection -/

def modelNd (l : List (Bytes × Bytes)) : NdObs := .read (readStream (joinWs l)).1 (readStream (joinWs l)).2

theorem ndSplit_monitor_accepts_model (l : List (Bytes × Bytes)) : ndSplitMonitor l (modelNd l) = none := by
  simp only [ndSplitMonitor, modelNd]
  split
  · next h =>
    have hf : ∀ q ∈ l, framed q.1 = true := fun q hq => by
      have := List.all_eq_true.mp h q hq; rw [Bool.and_eq_true] at this; exact this.1
    have hw : ∀ q ∈ l, lineSep q.2 = true := fun q hq => by
      have := List.all_eq_true.mp h q hq; rw [Bool.and_eq_true] at this; exact this.2
    simp [ndjson_stream_roundtrip l hf hw]
  · rfl

/-! ## frames through the other readers -/

def modelRb (raw : JVal) : RbObs :=
  match readBatch raw with
  | .ok (ms, _) => .ok ms.length
  | .error _ => .other

theorem rb_monitor_accepts_model (raw : JVal) : rbMonitor raw (modelRb raw) = none := by
  unfold modelRb
  cases h : readBatch raw with
  | error e => rfl
  | ok r =>
    obtain ⟨ms, b⟩ := r
    have := read_batch_nonempty raw ms b h
    cases ms with
    | nil => exact absurd rfl this
    | cons m t => rfl

theorem post_monitor_accepts_model (path : String) (raw : JVal) : postMonitor path raw none = none := rfl
theorem liveIo_monitor_accepts_model (raw : JVal) : liveIoMonitor raw none = none := rfl

def modelCli (raw : JVal) : CliObs :=
  match decodeMsg raw with
  | .ok _ => .other
  | .error _ => .error

theorem liveCli_monitor_accepts_model (kind : String) (framing : Option String) (raw : JVal) :
    liveCliMonitor kind framing raw (modelCli raw) = none := by
  unfold liveCliMonitor modelCli
  cases h : decodeMsg raw <;> cases framing <;> simp [h]

/-! ## decode fuzz -/

theorem rfuzz_monitor_accepts_model (ty : String) (j : JVal) : rfuzzMonitor ty j false = none := rfl

theorem rcase_monitor_accepts_model (ty name : String) (j : Option JVal) (idx : List Nat) :
    rcaseMonitor ty name j idx .other = none := rfl

def modelIrm (j : JVal) : IrmObs :=
  match decodeInputRequests j with
  | .ok _ => .ok
  | .error _ => .other

theorem rirm_monitor_accepts_model (j : JVal) : rirmMonitor j (modelIrm j) = none := by
  unfold rirmMonitor modelIrm
  cases h : decodeInputRequests j <;> simp [h]

/-! ## the `CompleteReference` codec -/

def modelRefRt (r : CRef) : RefRtObs :=
  match encodeRef r with
  | .error _ => .refused
  | .ok v => .written v (match decodeRef v with | .ok r' => some r' | .error _ => none)

def modelRefDec (v : JVal) : RefDecObs :=
  match decodeRef v with
  | .error _ => .rejected
  | .ok r => .accepted r (match encodeRef r with | .ok w => some w | .error _ => none)

theorem encodeRef_ok_of_check (r : CRef) (h : refCheck r = .ok ()) : ∃ v, encodeRef r = .ok v := by
  simp [encodeRef, h]

theorem refRt_monitor_accepts_model (r : CRef) : refRtMonitor r (modelRefRt r) = none := by
  unfold modelRefRt
  cases he : encodeRef r with
  | error e =>
    have : refCheck r ≠ .ok () := by
      intro hc; obtain ⟨v, hv⟩ := encodeRef_ok_of_check r hc; rw [hv] at he; cases he
    simp [refRtMonitor, this]
  | ok v =>
    have hc : refCheck r = .ok () := by
      unfold encodeRef at he
      cases hc : refCheck r with
      | error e => simp [hc] at he
      | ok _ => rfl
    simp [refRtMonitor, hc, ref_roundtrip r v he]

theorem refDec_monitor_accepts_model (v : JVal) : refDecMonitor (modelRefDec v) = none := by
  unfold modelRefDec
  cases hd : decodeRef v with
  | error e => rfl
  | ok r =>
    obtain ⟨w, hw, _⟩ := ref_decode_validates v r hd
    have hc : refCheck r = .ok () := by
      unfold encodeRef at hw
      cases hc : refCheck r with
      | error e => simp [hc] at hw
      | ok _ => rfl
    simp [refDecMonitor, hc, hw, sameJ_refl]

/-! ## what a retried request carries -/

def modelRetry (rs : List (Bytes × JVal)) (state : Bytes) : RetryObs :=
  { sentResp := lookup retry_InputResponses_name (retryParams [] rs state),
    sentState := lookup retry_RequestState_name (retryParams [] rs state),
    back := match decodeRetry (retryParams [] rs state) with | .ok r => some r | .error _ => none }

theorem containsPair (ks : List (Bytes × RespKind)) (x : Bytes × RespKind) (h : x ∈ ks) : ks.contains x = true := by
  simp [h]

theorem retry_monitor_accepts_model (rs : List (Bytes × JVal)) (state : Bytes) :
    retryMonitor rs state (modelRetry rs state) = none := by
  obtain ⟨e1, e2⟩ := L.retry_members [] rs state rfl rfl
  have r1 : respIntact rs (modelRetry rs state) = true := by
    simp only [respIntact, modelRetry, e1]
    by_cases hr : rs = [] <;> simp [hr, sameJ_refl]
  have r2 : stateIntact state (modelRetry rs state) = true := by
    simp only [stateIntact, modelRetry, e2]
    by_cases hs : state = [] <;> simp [hs]
  have r3 : backAlike rs state (modelRetry rs state) = true := by
    unfold backAlike
    by_cases hd : allDiscriminated rs = true
    · have hk : ∀ p ∈ rs, respKindOf p.2 = .ok (kindD p.2) := by
        intro p hp
        have := List.all_eq_true.mp hd p hp
        unfold kindD
        cases h : respKindOf p.2 <;> simp_all
      have hb := (L.retry_roundtrip [] rs state kindD rfl rfl hk).2.2
      simp only [modelRetry, hb, hd, Bool.not_true, Bool.false_or, beq_self_eq_true, List.length_map, Bool.true_and]
      rw [List.all_eq_true]
      intro p hp
      exact containsPair _ _ (List.mem_map.mpr ⟨p, hp, rfl⟩)
    · simp [hd]
  simp [retryMonitor, r1, r2, r3]

/-! ## `ToolAnnotations` -/

def modelAnn (compat : Bool) (a : ToolAnn) : AnnObs :=
  { written := some (encodeAnn compat a),
    back := match decodeAnn (encodeAnn compat a) with | .ok b => some b | .error _ => none }

theorem ann_monitor_accepts_model (compat : Bool) (a : ToolAnn) : annMonitor compat a (modelAnn compat a) = none := by
  have hb : (modelAnn compat a).back = some a := by simp [modelAnn, tool_annotations_roundtrip]
  cases compat
  · obtain ⟨kvs, he, h1, h2⟩ := tool_annotations_hints_present a
    have hp : hintsPresent (modelAnn false a).written = true := by
      simp only [modelAnn, he, hintsPresent, h1, h2]; rfl
    simp [annMonitor, hb, hp]
  · simp [annMonitor, hb]

/-! ## capabilities clones -/

theorem aliasCount_zero (v : CSlots) (h : Heap) (hw : wfSlots v h) (x : JVal) : aliasCount v h x = 0 := by
  unfold aliasCount
  have h1 : (cloneV v h).1.filter (showsInOriginal v h x) = [] := by
    rw [List.filter_eq_nil_iff]
    intro s hs
    cases s with
    | none => simp [showsInOriginal]
    | some a => simp [showsInOriginal, clone_no_alias v h hw a x hs]
  have h2 : v.filter (showsInClone v h x) = [] := by
    rw [List.filter_eq_nil_iff]
    intro s hs
    cases s with
    | none => simp [showsInClone]
    | some a => simp [showsInClone, clone_no_alias_rev v h hw a x hs]
  rw [h1, h2]; rfl

theorem clone_monitor_accepts_model (v : CSlots) (h : Heap) (hw : wfSlots v h) (x : JVal) :
    cloneMonitor (modelClone v h x) = none := by
  simp [cloneMonitor, modelClone, clone_same_encoding v h hw, aliasCount_zero v h hw x]

end Mon
end Wire
