/-!
# E2 Wire — JSON values (`JVal`)

The model starts at the *value* level: JSON text ⇄ value is the trusted library (DESIGN §3).
Strings are byte lists (Go strings are byte strings; the harness sends them hex-encoded).
Numbers keep the one syntactic distinction the code under study depends on: an integer literal
(`int`) versus a fractional/exponent form (`dec m e` = m·10^e) — the repaired id decoder parses the
former exactly and sends the latter through `float64`.
Core Lean only (linked into the driver).
-/
namespace Wire

abbrev Bytes := List UInt8

inductive JVal where
  | null
  | bool (b : Bool)
  | int (n : Int)
  | dec (m e : Int)
  | str (s : Bytes)
  | arr (l : List JVal)
  | obj (kvs : List (Bytes × JVal))
deriving Repr, Inhabited

namespace JVal

mutual
def beq : JVal → JVal → Bool
  | .null, .null => true
  | .bool a, .bool b => a == b
  | .int a, .int b => a == b
  | .dec a b, .dec c d => a == c && b == d
  | .str a, .str b => a == b
  | .arr a, .arr b => beqL a b
  | .obj a, .obj b => beqM a b
  | _, _ => false
def beqL : List JVal → List JVal → Bool
  | [], [] => true
  | a :: as, b :: bs => a.beq b && beqL as bs
  | _, _ => false
def beqM : List (Bytes × JVal) → List (Bytes × JVal) → Bool
  | [], [] => true
  | (k, a) :: as, (k', b) :: bs => k == k' && a.beq b && beqM as bs
  | _, _ => false
end

mutual
theorem eq_of_beq : ∀ (a b : JVal), a.beq b = true → a = b
  | .null, b, h => by cases b <;> simp [beq] at h ⊢
  | .bool x, b, h => by cases b <;> simp [beq] at h ⊢; exact h
  | .int x, b, h => by cases b <;> simp [beq] at h ⊢; exact h
  | .dec x y, b, h => by cases b <;> simp [beq] at h ⊢; exact h
  | .str x, b, h => by cases b <;> simp [beq] at h ⊢; exact h
  | .arr x, b, h => by
    cases b <;> simp [beq] at h ⊢
    exact eqL_of_beq _ _ h
  | .obj x, b, h => by
    cases b <;> simp [beq] at h ⊢
    exact eqM_of_beq _ _ h
theorem eqL_of_beq : ∀ (a b : List JVal), beqL a b = true → a = b
  | [], b, h => by cases b <;> simp [beqL] at h ⊢
  | x :: xs, b, h => by
    cases b with
    | nil => simp [beqL] at h
    | cons y ys =>
      simp [beqL] at h
      rw [eq_of_beq x y h.1, eqL_of_beq xs ys h.2]
theorem eqM_of_beq : ∀ (a b : List (Bytes × JVal)), beqM a b = true → a = b
  | [], b, h => by cases b <;> simp [beqM] at h ⊢
  | (k, x) :: xs, b, h => by
    cases b with
    | nil => simp [beqM] at h
    | cons y ys =>
      obtain ⟨k', y⟩ := y
      simp [beqM] at h
      rw [h.1.1, eq_of_beq x y h.1.2, eqM_of_beq xs ys h.2]
end

mutual
theorem beq_refl : ∀ (a : JVal), a.beq a = true
  | .null => by simp [beq]
  | .bool _ => by simp [beq]
  | .int _ => by simp [beq]
  | .dec _ _ => by simp [beq]
  | .str _ => by simp [beq]
  | .arr l => by simp [beq]; exact beqL_refl l
  | .obj m => by simp [beq]; exact beqM_refl m
theorem beqL_refl : ∀ (a : List JVal), beqL a a = true
  | [] => by simp [beqL]
  | x :: xs => by simp [beqL]; exact ⟨beq_refl x, beqL_refl xs⟩
theorem beqM_refl : ∀ (a : List (Bytes × JVal)), beqM a a = true
  | [] => by simp [beqM]
  | (k, x) :: xs => by simp [beqM]; exact ⟨beq_refl x, beqM_refl xs⟩
end

instance : DecidableEq JVal := fun a b =>
  if h : a.beq b = true then isTrue (eq_of_beq a b h)
  else isFalse (fun e => h (e ▸ beq_refl a))

instance : BEq JVal := ⟨beq⟩

instance : LawfulBEq JVal where
  rfl := beq_refl _
  eq_of_beq := eq_of_beq _ _

end JVal

instance {ε α : Type} [DecidableEq ε] [DecidableEq α] : DecidableEq (Except ε α) := fun a b =>
  match a, b with
  | .ok x, .ok y => if h : x = y then isTrue (by rw [h]) else isFalse (by intro e; injection e; contradiction)
  | .error x, .error y => if h : x = y then isTrue (by rw [h]) else isFalse (by intro e; injection e; contradiction)
  | .ok _, .error _ => isFalse (by intro e; cases e)
  | .error _, .ok _ => isFalse (by intro e; cases e)

@[simp] theorem ok_bind {ε α β : Type} (a : α) (f : α → Except ε β) : (Except.ok a >>= f) = f a := rfl
@[simp] theorem error_bind {ε α β : Type} (e : ε) (f : α → Except ε β) :
    ((Except.error e : Except ε α) >>= f) = Except.error e := rfl

/-- Object member lookup by exact (case-sensitive) key; the LAST occurrence wins, as in Go's
decoders (probed: `{"id":1,"id":2}` decodes to id 2). -/
def lookup (k : Bytes) : List (Bytes × JVal) → Option JVal
  | [] => none
  | (k', v) :: t =>
    match lookup k t with
    | some w => some w
    | none => if k' = k then some v else none

/-- Members of a struct encoding: `none` = omitted. -/
def members (fs : List (Bytes × Option JVal)) : List (Bytes × JVal) :=
  fs.filterMap fun p => p.2.map fun v => (p.1, v)

end Wire
