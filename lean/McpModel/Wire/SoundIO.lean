import McpModel.Wire.Sound
/-!
# C19 / C01–C03 — clause soundness of the stateful `ioConn` monitor (`Mon.ioRead`, `Mon.ioWrite`)

The predicates are stated on the monitor's bookkeeping `IOMon` — every field of which is a function of the
OBSERVED history alone: `mwire` = the frames the harness fed that no `Read` has taken yet, `mexpect` = the elements
of the frame last taken that no `Read` has returned yet, `mopen` = per accepted batch the slot list (one slot per
call, filled by the responses written), `mnoBatch` / `outCap` = how the connection was configured — and on the
observation of the step.  No `IOState`, no `opRead` / `opWrite`.

`expected mon` = the wire elements the next `Read`s have to return, in the order the peer wrote them.
-/
namespace Wire
namespace Mon
open Generated.Wire

/-- the elements that have to come out of `Read` next, in the order written: the rest of the frame last taken, else
the elements of the next frame -/
def expected (mon : IOMon) : List JVal :=
  match mon.mexpect with
  | _ :: _ => mon.mexpect
  | [] =>
    match mon.mwire with
    | raw :: _ => (frameElems raw).1
    | [] => []

/-! ## `Read` -/

/-- C19 "never panics", C02 "a reader that is gone answers no call": `Read` returns. -/
def P_readReturns (obs : ReadObs) : Prop := ∀ c, obs ≠ .crash c

/-- a crash of the reader is reported under C19 and under C02, naming the frame it happened on -/
theorem crash_reported (mon : IOMon) (c : Crash) :
    ∃ fr, (ioRead mon (.crash c)).2.v19 = some (.dtRead c fr) ∧ (ioRead mon (.crash c)).2.v02 = some (.readGone02 c fr) :=
  ⟨_, rfl, rfl⟩

theorem sound_readCrash (c : Crash) : ¬ P_readReturns (.crash c) := fun h => h c rfl

/-- C03 (and C19 `batch_roundtrip`): the messages of a frame come out of `Read` in the order in which they were
written — the message returned is never one of the LATER elements while it is not the next one. -/
def P_inOrder (mon : IOMon) (obs : ReadObs) : Prop :=
  ∀ m e rest, obs.msg? = some m → expected mon = e :: rest → validWire e = true →
    ¬ (sameMsgWire m e = false ∧ rest.any (sameMsgWire m) = true)

/-- **sound_order03**: whenever the C03 verdict is raised, the messages were handed out of order. -/
theorem sound_order03 (mon : IOMon) (obs : ReadObs) (c : Clause) (h : (ioRead mon obs).2.v03 = some c) :
    ¬ P_inOrder mon obs := by
  intro hp
  cases obs with
  | crash cr => simp [ioRead] at h
  | msg mo q =>
    cases hexp : mon.mexpect with
    | cons e rest =>
      simp only [ioRead, hexp, ReadObs.msg?] at h
      cases mo with
      | none => simp at h
      | some m =>
        simp only at h
        by_cases ho : (validWire e && outOfOrder sameMsgWire (e :: rest) m) = true
        · rw [Bool.and_eq_true] at ho
          simp only [outOfOrder, Bool.and_eq_true, Bool.not_eq_true'] at ho
          exact hp m e rest rfl (by simp [expected, hexp]) ho.1 ho.2
        · simp [ho] at h
    | nil =>
      cases hw : mon.mwire with
      | nil => simp [ioRead, hexp, hw] at h
      | cons raw w =>
        simp only [ioRead, hexp, hw, ReadObs.msg?] at h
        cases mo with
        | none => simp at h
        | some m =>
          cases hel : (frameElems raw).1 with
          | nil => simp [hel] at h
          | cons e rest =>
            simp only [hel] at h
            by_cases ho : (validWire e && outOfOrder sameMsgWire (e :: rest) m) = true
            · rw [Bool.and_eq_true] at ho
              simp only [outOfOrder, Bool.and_eq_true, Bool.not_eq_true'] at ho
              exact hp m e rest rfl (by simp [expected, hexp, hw, hel]) ho.1 ho.2
            · simp [ho] at h
  | err k q =>
    cases hexp : mon.mexpect with
    | cons e rest => simp [ioRead, hexp, ReadObs.msg?] at h
    | nil =>
      cases hw : mon.mwire with
      | nil => simp [ioRead, hexp, hw] at h
      | cons raw w => simp [ioRead, hexp, hw] at h

/-- C01+C02+C03: every message of a frame `Read` takes is handed to the connection — the first at once, the others
queued for the following reads; none is lost. -/
def P_nothingLost (mon : IOMon) (obs : ReadObs) : Prop :=
  mon.mexpect = [] → ∀ raw w, mon.mwire = raw :: w → ∀ m q, obs = .msg m q → q = (frameElems raw).1.length - 1

/-- C02: a well-formed frame (every element a valid wire message, call ids pairwise distinct and none still
unanswered in an open batch; no batch where batching is off) is accepted. -/
def P_acceptsWellFormed (mon : IOMon) (obs : ReadObs) : Prop :=
  mon.mexpect = [] → ∀ raw w, mon.mwire = raw :: w →
    wellFormedBatch mon.mopen (frameElems raw).1 = true → ((frameElems raw).2 && mon.mnoBatch) = false →
    ∃ m q, obs = .msg m q

/-- **sound_read02**: whenever the C02 verdict of a `Read` is raised, the reader crashed, a message of the frame was
lost, or a well-formed frame was rejected. -/
theorem sound_read02 (mon : IOMon) (obs : ReadObs) (c : Clause) (h : (ioRead mon obs).2.v02 = some c) :
    ¬ (P_readReturns obs ∧ P_nothingLost mon obs ∧ P_acceptsWellFormed mon obs) := by
  rintro ⟨hp1, hp2, hp3⟩
  cases obs with
  | crash cr => exact hp1 cr rfl
  | msg mo q =>
    cases hexp : mon.mexpect with
    | cons e rest => simp [ioRead, hexp] at h
    | nil =>
      cases hw : mon.mwire with
      | nil => simp [ioRead, hexp, hw] at h
      | cons raw w =>
        have := hp2 hexp raw w hw mo q rfl
        simp only [ioRead, hexp, hw, ReadObs.q, this] at h
        simp at h
  | err k q =>
    cases hexp : mon.mexpect with
    | cons e rest => simp [ioRead, hexp] at h
    | nil =>
      cases hw : mon.mwire with
      | nil => simp [ioRead, hexp, hw] at h
      | cons raw w =>
        by_cases hwf : (wellFormedBatch mon.mopen (frameElems raw).1 && !((frameElems raw).2 && mon.mnoBatch)) = true
        · rw [Bool.and_eq_true] at hwf
          have hb : ((frameElems raw).2 && mon.mnoBatch) = false := by
            cases hh : ((frameElems raw).2 && mon.mnoBatch) <;> simp [hh] at hwf ⊢
          obtain ⟨m, q', hq⟩ := hp3 hexp raw w hw hwf.1 hb
          cases hq
        · have hwf' : (wellFormedBatch mon.mopen (frameElems raw).1 && !((frameElems raw).2 && mon.mnoBatch)) = false := by
            simpa using hwf
          simp only [ioRead, hexp, hw, hwf'] at h
          simp at h

theorem sound_lost (mon : IOMon) (obs : ReadObs) (n q : Nat) (h : (ioRead mon obs).2.v02 = some (.lost n q)) :
    ¬ P_nothingLost mon obs := by
  intro hp2
  cases obs with
  | crash cr => simp [ioRead] at h
  | msg mo q' =>
    cases hexp : mon.mexpect with
    | cons e rest => simp [ioRead, hexp] at h
    | nil =>
      cases hw : mon.mwire with
      | nil => simp [ioRead, hexp, hw] at h
      | cons raw w =>
        have := hp2 hexp raw w hw mo q' rfl
        simp only [ioRead, hexp, hw, ReadObs.q, this] at h
        simp at h
  | err k q' =>
    cases hexp : mon.mexpect with
    | cons e rest => simp [ioRead, hexp] at h
    | nil =>
      cases hw : mon.mwire with
      | nil => simp [ioRead, hexp, hw] at h
      | cons raw w =>
        simp only [ioRead, hexp, hw] at h
        repeat' split at h
        all_goals simp at h

/-- C19 `batch_roundtrip`: the message returned carries the members of the element written (id, method, params,
result, error code / message / data); a queued message is returned; at the end of the input `Read` reports the end. -/
def P_sameMessage (mon : IOMon) (obs : ReadObs) : Prop :=
  ∀ m e rest, obs.msg? = some m → expected mon = e :: rest → validWire e = true →
    ∃ a, proj e = some a ∧ proj (encodeMsg m) = some a

def P_queuedReturned (mon : IOMon) (obs : ReadObs) : Prop :=
  mon.mexpect ≠ [] → ∃ m q, obs = .msg (some m) q

def P_endReported (mon : IOMon) (obs : ReadObs) : Prop :=
  mon.mexpect = [] → mon.mwire = [] → ∃ q, obs = .err .eof q

theorem sameElem_some (m : Msg) (e : JVal) (w : Which) (c : Clause) (h : sameElem m e w = some c) :
    validWire e = true ∧ ¬ ∃ a, proj e = some a ∧ proj (encodeMsg m) = some a := by
  unfold sameElem at h
  by_cases hv : validWire e = true
  · refine ⟨hv, ?_⟩
    simp only [hv, Bool.not_true, Bool.false_eq_true, ite_false] at h
    cases hd : wireDiff e (encodeMsg m) with
    | none => simp [hd] at h
    | some f => exact wireDiff_some_of_ne e (encodeMsg m) f hd
  · simp [hv] at h

/-- **sound_read19**: whenever the C19 verdict of a `Read` is raised, one of the demands on `Read` is violated. -/
theorem sound_read19 (mon : IOMon) (obs : ReadObs) (c : Clause) (h : (ioRead mon obs).2.v19 = some c) :
    ¬ (P_readReturns obs ∧ P_inOrder mon obs ∧ P_sameMessage mon obs ∧ P_queuedReturned mon obs ∧
       P_endReported mon obs ∧ P_nothingLost mon obs ∧ P_acceptsWellFormed mon obs) := by
  rintro ⟨hp1, hp2, hp3, hp4, hp5, hp6, hp7⟩
  cases obs with
  | crash cr => exact hp1 cr rfl
  | msg mo q =>
    cases hexp : mon.mexpect with
    | cons e rest =>
      obtain ⟨m, q', hq⟩ := hp4 (by simp [hexp])
      cases hq
      simp only [ioRead, hexp, ReadObs.msg?] at h
      by_cases ho : (validWire e && outOfOrder sameMsgWire (e :: rest) m) = true
      · rw [Bool.and_eq_true] at ho
        simp only [outOfOrder, Bool.and_eq_true, Bool.not_eq_true'] at ho
        exact hp2 m e rest rfl (by simp [expected, hexp]) ho.1 ho.2
      · simp only [ho, Bool.false_eq_true, ite_false] at h
        obtain ⟨hv, hn⟩ := sameElem_some m e .next c h
        exact hn (hp3 m e rest rfl (by simp [expected, hexp]) hv)
    | nil =>
      cases hw : mon.mwire with
      | nil =>
        obtain ⟨q', hq⟩ := hp5 hexp hw
        cases hq
      | cons raw w =>
        have hq := hp6 hexp raw w hw mo q rfl
        simp only [ioRead, hexp, hw, ReadObs.msg?, ReadObs.q, hq] at h
        cases mo with
        | none => simp at h
        | some m =>
          cases hel : (frameElems raw).1 with
          | nil => simp [hel] at h
          | cons e rest =>
            simp only [hel] at h
            by_cases ho : (validWire e && outOfOrder sameMsgWire (e :: rest) m) = true
            · rw [Bool.and_eq_true] at ho
              simp only [outOfOrder, Bool.and_eq_true, Bool.not_eq_true'] at ho
              exact hp2 m e rest rfl (by simp [expected, hexp, hw, hel]) ho.1 ho.2
            · cases hs : sameElem m e .first with
              | none => simp [ho, hs] at h
              | some c' =>
                obtain ⟨hv, hn⟩ := sameElem_some m e .first c' hs
                exact hn (hp3 m e rest rfl (by simp [expected, hexp, hw, hel]) hv)
  | err k q =>
    cases hexp : mon.mexpect with
    | cons e rest =>
      obtain ⟨m, q', hq⟩ := hp4 (by simp [hexp])
      cases hq
    | nil =>
      cases hw : mon.mwire with
      | nil =>
        obtain ⟨q', hq⟩ := hp5 hexp hw
        cases hq
        simp [ioRead, hexp, hw] at h
      | cons raw w =>
        by_cases hwf : (wellFormedBatch mon.mopen (frameElems raw).1 && !((frameElems raw).2 && mon.mnoBatch)) = true
        · rw [Bool.and_eq_true] at hwf
          have hb : ((frameElems raw).2 && mon.mnoBatch) = false := by
            cases hh : ((frameElems raw).2 && mon.mnoBatch) <;> simp [hh] at hwf ⊢
          obtain ⟨m, q', hq⟩ := hp7 hexp raw w hw hwf.1 hb
          cases hq
        · have hwf' : (wellFormedBatch mon.mopen (frameElems raw).1 && !((frameElems raw).2 && mon.mnoBatch)) = false := by
            simpa using hwf
          simp only [ioRead, hexp, hw, hwf'] at h
          simp at h

/-! ## `Write` -/

/-- C02 "exactly one response per call, batches answered as batches" (the slot specification) and C19 "what is
written is a well-framed encoding of the message given": with `exp` what the slot specification prescribes for the
monitor's open batches —
nothing is written while another call of the batch is unanswered; ONE array with exactly one response per call of
the batch, in call order, when the last call is answered; the message on its own otherwise (unless the connection
collects outgoing messages into batches of its own); never a panic, never a broken frame. -/
def P_batchReply (mon : IOMon) (m : Msg) (o : WriteObs) : Prop :=
  o.kind ≠ .panic ∧
  (match (specWrite (mon.mopen.map (·.slots)) m).2 with
    | .nothing => o.kind = .nothing
    | .single _ => o.kind = .single ∨ (mon.outCap > 0 ∧ (o.kind = .nothing ∨ o.kind = .array))
    | .array ms => o.kind = .array ∧ o.vals.length = ms.length ∧
        (List.zip ms o.vals).all (fun p => msgMatchesWire p.1 p.2) = true)

/-- **sound_write02**: whenever the C02 verdict of a `Write` is raised, the batch reply is not what the slot
specification prescribes. -/
theorem sound_write02 (mon : IOMon) (m : Msg) (o : WriteObs) (c : Clause) (h : (ioWrite mon m o).2.v02 = some c) :
    ¬ P_batchReply mon m o := by
  rintro ⟨hp1, hp2⟩
  have hexp : (monWrite mon.mopen m).2.1 = (specWrite (mon.mopen.map (·.slots)) m).2 := rfl
  simp only [ioWrite, hexp, hp1, ite_false] at h
  cases hs : (specWrite (mon.mopen.map (·.slots)) m).2 with
  | nothing =>
    rw [hs] at hp2
    simp [hs, hp2] at h
  | single m' =>
    rw [hs] at hp2
    simp only [hs] at h
    rcases hp2 with hk | ⟨hc, hk⟩
    · simp [hk] at h
    · rcases hk with hk | hk <;> simp [hk, hc] at h
  | array ms =>
    rw [hs] at hp2
    obtain ⟨h1, h2, h3⟩ := hp2
    simp [hs, h1, h2, h3] at h

/-- C19: a message written on its own is written as the encoding of the message given, in one well-formed frame -/
def P_writtenAsGiven (m : Msg) (o : WriteObs) : Prop :=
  o.kind ≠ .panic ∧ o.kind ≠ .badframe ∧
  (o.kind = .single → ∃ v, o.vals = [v] ∧ ∃ a, proj v = some a ∧ proj (encodeMsg m) = some a)

theorem sound_write19 (mon : IOMon) (m : Msg) (o : WriteObs) (c : Clause) (h : (ioWrite mon m o).2.v19 = some c) :
    ¬ P_writtenAsGiven m o := by
  rintro ⟨hp1, hp2, hp3⟩
  simp only [ioWrite] at h
  cases hk : o.kind with
  | panic => exact hp1 hk
  | badframe => exact hp2 hk
  | single =>
    obtain ⟨v, hv, a, h1, h2⟩ := hp3 hk
    simp [hk, hv, wireDiff_none_of_proj v (encodeMsg m) a h1 h2] at h
  | nothing => simp [hk] at h
  | array => simp [hk] at h
  | other => simp [hk] at h

/-! ## concurrent writers -/

/-- the property on the stream after concurrent writes: `Write` returned in every goroutine, every line is
a JSON value of its own, and every message that goes out on its own is one of them, as given -/
def P_concurrentFramed (outCap : Nat) (msgs : List Msg) (o : CwObs) : Prop :=
  ∃ l, o = .lines l ∧ (∀ x ∈ l, x.isSome = true) ∧
    ∀ m ∈ msgs, onItsOwn outCap m = true → ∃ v, some v ∈ l ∧ ∃ a, proj v = some a ∧ proj (encodeMsg m) = some a

theorem sound_cw (outCap : Nat) (msgs : List Msg) (o : CwObs) (c : Clause) (h : cwMonitor outCap msgs o = some c) :
    ¬ P_concurrentFramed outCap msgs o := by
  rintro ⟨l, rfl, hall, hmem⟩
  simp only [cwMonitor] at h
  have h1 : l.any Option.isNone = false := by
    rw [List.any_eq_false]; intro x hx; have := hall x hx; cases x <;> simp at this ⊢
  simp only [h1] at h
  cases hf : msgs.find? (fun m => onItsOwn outCap m && !l.any (lineIs m)) with
  | none => simp [hf] at h
  | some m =>
    have hm := List.mem_of_find?_eq_some hf
    have hpr := List.find?_some hf
    simp only [Bool.and_eq_true, Bool.not_eq_true'] at hpr
    obtain ⟨v, hv, a, h1, h2⟩ := hmem m hm hpr.1
    have : l.any (lineIs m) = true := by
      rw [List.any_eq_true]
      exact ⟨some v, hv, by simp [lineIs, wireDiff_none_of_proj v (encodeMsg m) a h1 h2]⟩
    rw [this] at hpr; exact absurd hpr.2 (by simp)

/-! ## `LoggingTransport` -/

/-- the log of a logging connection: one entry per message that passed, in order, each carrying an encoding
that agrees with the message in id, method, params, result and error -/
def P_logShows (passed : List Passed) (o : LogObs) : Prop :=
  ∃ l, o = .entries l ∧ l.length = passed.length ∧
    ∀ (i : Nat) (h1 : i < passed.length) (h2 : i < l.length), entryIs passed[i] l[i] = true

theorem entriesAre_of_pointwise : ∀ (ps : List Passed) (l : List (Option LogEntry)), l.length = ps.length →
    (∀ (i : Nat) (h1 : i < ps.length) (h2 : i < l.length), entryIs ps[i] l[i] = true) → entriesAre ps l = true
  | [], [], _, _ => rfl
  | [], _ :: _, hl, _ => by simp at hl
  | _ :: _, [], hl, _ => by simp at hl
  | p :: ps, e :: es, hl, h => by
    have h0 := h 0 (by simp) (by simp)
    have ht := entriesAre_of_pointwise ps es (by simpa using hl)
      (fun i h1 h2 => by
        have := h (i + 1) (by simpa using h1) (by simpa using h2)
        simpa only [List.getElem_cons_succ] using this)
    simp only [List.getElem_cons_zero] at h0
    simp [entriesAre, h0, ht]

theorem sound_log (passed : List Passed) (o : LogObs) (c : Clause) (h : logMonitor passed o = some c) :
    ¬ P_logShows passed o := by
  rintro ⟨l, rfl, hl, hf⟩
  simp [logMonitor, entriesAre_of_pointwise passed l hl hf] at h

end Mon
end Wire
