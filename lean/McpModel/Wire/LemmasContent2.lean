import McpModel.Wire.LemmasContent
import McpModel.Wire.Result
/-!
# C19 — content theorems: `content_roundtrip`, `required_members_present`
-/
namespace Wire.L
open Wire Generated.Wire

/-- one string member: rewrite with `step_str`, then evaluate `setScalar` -/
macro "wstr" : tactic => `(tactic| (
  rw [step_str _ _ _ _ _ _ (by decide) (by intro _; simp only [set_type, set_text, set_mime, set_uri, set_name, set_title, set_description, set_id, set_toolUseId, set_data]; first | done | rfl)]
  simp only [set_type, set_text, set_mime, set_uri, set_name, set_title, set_description, set_id, set_toolUseId, set_data, ok_bind]))

theorem sizeK : wireContent_Size_name ≠ wireContent_NestedContent_name := by decide
theorem metaK : wireContent_Meta_name ≠ wireContent_NestedContent_name := by decide
theorem annK : wireContent_Annotations_name ≠ wireContent_NestedContent_name := by decide
theorem iconsK : wireContent_Icons_name ≠ wireContent_NestedContent_name := by decide
theorem resourceK : wireContent_Resource_name ≠ wireContent_NestedContent_name := by decide
theorem inputK : wireContent_Input_name ≠ wireContent_NestedContent_name := by decide
theorem structuredK : wireContent_StructuredContent_name ≠ wireContent_NestedContent_name := by decide
theorem isErrorK : wireContent_IsError_name ≠ wireContent_NestedContent_name := by decide

/-- a member given as a raw pair that is present -/
theorem step_raw (k : Bytes) (v : JVal) (fs : List (Bytes × Option JVal)) (s : WCS)
    (n : Option (List (Option WC))) (hk : k ≠ wireContent_NestedContent_name) :
    wcFields (members ((k, some v) :: fs)) (s, n) = (setScalar k v s >>= fun s' => wcFields (members fs) (s', n)) := by
  simp only [members_cons, List.cons_append, List.nil_append, wcFields_cons, if_neg hk]

theorem step_content (v : JVal) (fs : List (Bytes × Option JVal)) (s : WCS) (n : Option (List (Option WC))) :
    wcFields (members ((wireContent_NestedContent_name, some v) :: fs)) (s, n) =
      (wcNested v >>= fun n' => wcFields (members fs) (s, n')) := by
  simp only [members_cons, List.cons_append, List.nil_append, wcFields_cons, ite_true]

/-- the non-string members, once their presence is decided by case analysis -/
macro "wrest" : tactic => `(tactic| (
  simp only [optObj, optArr, optBool, Option.map, wireContent_Size_omit, wireContent_Meta_omit, wireContent_Annotations_omit,
    wireContent_Icons_omit, wireContent_Resource_omit, textWire_Meta_omit, textWire_Annotations_omit,
    imageAudioWire_Meta_omit, imageAudioWire_Annotations_omit, toolUseWire_Meta_omit, toolUseWire_Input_omit,
    toolResultWire_Meta_omit, toolResultWire_StructuredContent_omit, toolResultWire_IsError_omit, toolResultWire_Content_omit,
    names_agree.2.2.1, names_agree.2.2.2.1, names_agree.2.2.2.2.2.2.2.2.1, names_agree.2.2.2.2.2.2.2.1,
    step_none, members_nil, wcFields_nil, ok_bind,
    step_some _ _ _ _ _ _ _ sizeK, step_some _ _ _ _ _ _ _ metaK, step_some _ _ _ _ _ _ _ annK, step_some _ _ _ _ _ _ _ iconsK,
    step_some _ _ _ _ _ _ _ resourceK, step_some _ _ _ _ _ _ _ structuredK, step_some _ _ _ _ _ _ _ isErrorK,
    set_meta, set_ann, set_icons, set_size, set_resource, set_isError, ite_true, ite_false, if_pos, if_neg,
    Bool.false_eq_true, and_false, and_true, *]))

theorem cIconList_of_allObj (l : List JVal) (h : cAllObj l = true) : cIconList l = .ok l := by
  induction l with
  | nil => rfl
  | cons v t ih =>
    cases v <;> simp [cAllObj] at h
    simp [cIconList, ih h, Except.map]

theorem isObjOpt_cases (a : Option JVal) (h : isObjOpt a = true) : a = none ∨ ∃ kvs, a = some (.obj kvs) := by
  cases a with
  | none => exact .inl rfl
  | some j => cases j <;> simp [isObjOpt] at h; exact .inr ⟨_, rfl⟩

/-! ## step 1: the encoding unmarshals to `toWC` -/

theorem wc_text (t : Bytes) (m : Meta) (a : Option JVal) (ha : isObjOpt a = true) :
    wcOfJson (encodeContent (.text t m a)) = .ok (some (toWC (.text t m a))) := by
  simp only [encodeContent, wcOfJson, names_agree.1, names_agree.2.1]
  wstr; wstr
  rcases isObjOpt_cases a ha with rfl | ⟨kvs, rfl⟩ <;> by_cases hm : m = [] <;> wrest <;> simp [toWC]

theorem wc_image (d mi : Bytes) (m : Meta) (a : Option JVal) (ha : isObjOpt a = true) :
    wcOfJson (encodeContent (.image d mi m a)) = .ok (some (toWC (.image d mi m a))) := by
  simp only [encodeContent, wcOfJson, names_agree.2.2.2.2.1, names_agree.2.2.2.2.2.1, names_agree.2.2.2.2.2.2.1]
  wstr; wstr; wstr
  rcases isObjOpt_cases a ha with rfl | ⟨kvs, rfl⟩ <;> by_cases hm : m = [] <;> wrest <;> simp [toWC]

theorem wc_audio (d mi : Bytes) (m : Meta) (a : Option JVal) (ha : isObjOpt a = true) :
    wcOfJson (encodeContent (.audio d mi m a)) = .ok (some (toWC (.audio d mi m a))) := by
  simp only [encodeContent, wcOfJson, names_agree.2.2.2.2.1, names_agree.2.2.2.2.2.1, names_agree.2.2.2.2.2.2.1]
  wstr; wstr; wstr
  rcases isObjOpt_cases a ha with rfl | ⟨kvs, rfl⟩ <;> by_cases hm : m = [] <;> wrest <;> simp [toWC]

theorem wc_link (uri name title desc mime : Bytes) (size : Option Int) (m : Meta) (a : Option JVal) (icons : List JVal)
    (ha : isObjOpt a = true) (hs : ∀ n, size = some n → inInt64 n = true) (hi : cAllObj icons = true) :
    wcOfJson (encodeContent (.link uri name title desc mime size m a icons)) =
      .ok (some (toWC (.link uri name title desc mime size m a icons))) := by
  have hi' := cIconList_of_allObj icons hi
  simp only [encodeContent, wcOfJson]
  wstr; wstr; wstr; wstr; wstr; wstr
  rcases isObjOpt_cases a ha with rfl | ⟨kvs, rfl⟩ <;> cases size <;> by_cases hm : m = [] <;> by_cases hic : icons = [] <;>
    wrest <;> simp [toWC, *]

theorem wc_resource (r : Option JVal) (m : Meta) (a : Option JVal) (ha : isObjOpt a = true) (hr : isObjOpt r = true) :
    wcOfJson (encodeContent (.resource r m a)) = .ok (some (toWC (.resource r m a))) := by
  simp only [encodeContent, wcOfJson]
  wstr
  rcases isObjOpt_cases a ha with rfl | ⟨kvs, rfl⟩ <;> rcases isObjOpt_cases r hr with rfl | ⟨rk, rfl⟩ <;>
    by_cases hm : m = [] <;> wrest <;> simp [toWC]

theorem wc_toolUse (id name : Bytes) (input m : Meta) :
    wcOfJson (encodeContent (.toolUse id name input m)) = .ok (some (toWC (.toolUse id name input m))) := by
  simp only [encodeContent, wcOfJson, names_agree.2.2.2.2.2.2.2.2.2.1, names_agree.2.2.2.2.2.2.2.2.2.2.1,
    names_agree.2.2.2.2.2.2.2.2.2.2.2.1, names_agree.2.2.2.2.2.2.2.2.2.2.2.2.1, names_agree.2.2.2.2.2.2.2.2.2.2.2.2.2.1]
  wstr; wstr; wstr
  simp only [toolUseWire_Input_omit, Bool.false_eq_true, and_false, ite_false, step_raw _ _ _ _ _ inputK, set_input, ok_bind]
  by_cases hm : m = [] <;> wrest <;> simp [toWC]

theorem wc_toolResult (tid : Bytes) (cs : List Content) (st : Option JVal) (ie : Bool) (m : Meta)
    (hst : ∀ v, st = some v → v ≠ .null) (ih : wcList (encodeContents cs) = .ok (toWCs cs)) :
    wcOfJson (encodeContent (.toolResult tid cs st ie m)) = .ok (some (toWC (.toolResult tid cs st ie m))) := by
  simp only [encodeContent, wcOfJson, names_agree.2.2.2.2.2.2.2.2.2.2.2.2.2.2.1, names_agree.2.2.2.2.2.2.2.2.2.2.2.2.2.2.2.1,
    names_agree.2.2.2.2.2.2.2.2.2.2.2.2.2.2.2.2.1, names_agree.2.2.2.2.2.2.2.2.2.2.2.2.2.2.2.2.2.1,
    names_agree.2.2.2.2.2.2.2.2.2.2.2.2.2.2.2.2.2.2.1, names_agree.2.2.2.2.2.2.2.2.2.2.2.2.2.2.2.2.2.2.2]
  wstr; wstr
  simp only [toolResultWire_Content_omit, Bool.false_eq_true, and_false, ite_false, step_content, wcNested, ih, ok_bind]
  cases st with
  | none => cases ie <;> by_cases hm : m = [] <;> wrest <;> simp [toWC]
  | some v =>
    have hv := hst v rfl
    rw [step_some _ _ _ _ _ _ _ structuredK, set_structured _ _ hv]
    simp only [ok_bind]
    cases ie <;> by_cases hm : m = [] <;> wrest <;> simp [toWC]

mutual
/-- Step 1 of the round trip: the encoding of a well-formed content value unmarshals into the
`wireContent` value `toWC c` — at every nesting depth. -/
theorem wc_of_encode : ∀ (c : Content), wfContent c = true → wcOfJson (encodeContent c) = .ok (some (toWC c))
  | .text t m a, h => wc_text t m a (by simpa [wfContent] using h)
  | .image d mi m a, h => wc_image d mi m a (by simpa [wfContent] using h)
  | .audio d mi m a, h => wc_audio d mi m a (by simpa [wfContent] using h)
  | .link u n t d mi sz m a ic, h => by
    simp only [wfContent, Bool.and_eq_true] at h
    refine wc_link u n t d mi sz m a ic h.1.1 ?_ h.1.2
    intro k hk; subst hk; exact h.2
  | .resource r m a, h => by
    simp only [wfContent, Bool.and_eq_true] at h
    exact wc_resource r m a h.1 h.2
  | .toolUse id n inp m, _ => wc_toolUse id n inp m
  | .toolResult tid cs st ie m, h => by
    simp only [wfContent, Bool.and_eq_true] at h
    refine wc_toolResult tid cs st ie m ?_ (wcs_of_encode cs h.2)
    intro v hv hn; subst hv; subst hn; simp at h
theorem wcs_of_encode : ∀ (cs : List Content), wfNested cs = true → wcList (encodeContents cs) = .ok (toWCs cs)
  | [], _ => rfl
  | c :: t, h => by
    simp only [wfNested, Bool.and_eq_true] at h
    simp only [encodeContents, wcList, wc_of_encode c h.1.1, wcs_of_encode t h.2, ok_bind, toWCs]
end

/-! ## step 2: `contentFromWire` gives the value back -/

theorem kinds_distinct : [kText, kImage, kAudio, kLink, kResource, kToolUse, kToolResult].Nodup := by decide

mutual
theorem fromWire_toWC : ∀ (allow : Option (List Bytes)) (c : Content), wfContent c = true →
    allowed allow c.kind = true → contentFromWire allow (some (toWC c)) = .ok c
  | allow, .text t m a, _, hal => by
    simp only [Content.kind] at hal
    simp [toWC, contentFromWire, hal]
    try exact hal
  | allow, .image d mi m a, _, hal => by
    simp only [Content.kind] at hal
    simp [toWC, contentFromWire, hal, kImage, kText]
    try exact hal
  | allow, .audio d mi m a, _, hal => by
    simp only [Content.kind] at hal
    simp [toWC, contentFromWire, hal, kImage, kText, kAudio]
    try exact hal
  | allow, .link u n t d mi sz m a ic, _, hal => by
    simp only [Content.kind] at hal
    simp [toWC, contentFromWire, hal, kImage, kText, kAudio, kLink]
    try exact hal
  | allow, .resource r m a, _, hal => by
    simp only [Content.kind] at hal
    simp [toWC, contentFromWire, hal, kImage, kText, kAudio, kLink, kResource]
    try exact hal
  | allow, .toolUse id n inp m, _, hal => by
    simp only [Content.kind] at hal
    simp [toWC, contentFromWire, hal, kImage, kText, kAudio, kLink, kResource, kToolUse]
    try exact hal
  | allow, .toolResult tid cs st ie m, h, hal => by
    simp only [Content.kind] at hal
    simp only [wfContent, Bool.and_eq_true] at h
    have ih := fromWires_toWCs cs h.2
    simp [toWC, contentFromWire, hal, kImage, kText, kAudio, kLink, kResource, kToolUse, kToolResult, ih]
    try exact hal
theorem fromWires_toWCs : ∀ (cs : List Content), wfNested cs = true →
    contentsFromWire allowNested (toWCs cs) = .ok cs
  | [], _ => by simp [toWCs, contentsFromWire]
  | c :: t, h => by
    simp only [wfNested, Bool.and_eq_true] at h
    simp only [toWCs, contentsFromWire, fromWire_toWC allowNested c h.1.1 h.1.2, fromWires_toWCs t h.2, ok_bind]
end

/-- **content_roundtrip** (C19). Every well-formed content value — every kind, every combination of
empty and non-empty members, `_meta`, annotations, and blocks nested in a tool_result — decodes from
its own encoding to itself, in every context whose allow list admits its kind (`allow = none`:
`CallToolResult`, `PromptMessage`). -/
theorem content_roundtrip (allow : Option (List Bytes)) (c : Content) (h : wfContent c = true)
    (hal : allowed allow c.kind = true) : decodeContent allow (encodeContent c) = .ok c := by
  simp only [decodeContent, wc_of_encode c h, ok_bind, fromWire_toWC allow c h hal]

/-- … for lists of blocks (`CallToolResult.content`, the array form of `unmarshalContent`). -/
theorem contents_roundtrip (allow : Option (List Bytes)) :
    ∀ (cs : List Content), (∀ c ∈ cs, wfContent c = true ∧ allowed allow c.kind = true) →
      decodeContentList allow (.arr (encodeContents cs)) = .ok cs := by
  have key : ∀ (cs : List Content), (∀ c ∈ cs, wfContent c = true ∧ allowed allow c.kind = true) →
      wcList (encodeContents cs) = .ok (toWCs cs) ∧ contentsFromWire allow (toWCs cs) = .ok cs := by
    intro cs
    induction cs with
    | nil => intro _; exact ⟨rfl, by simp [toWCs, contentsFromWire]⟩
    | cons c t ih =>
      intro h
      obtain ⟨h1, h2⟩ := h c (by simp)
      obtain ⟨i1, i2⟩ := ih (fun x hx => h x (by simp [hx]))
      constructor
      · simp only [encodeContents, wcList, wc_of_encode c h1, i1, ok_bind, toWCs]
      · simp only [toWCs, contentsFromWire, fromWire_toWC allow c h1 h2, i2, ok_bind]
  intro cs h
  obtain ⟨k1, k2⟩ := key cs h
  simp only [decodeContentList, wcNested, k1, ok_bind, k2]

/-- Non-vacuity: an empty text nested in a tool_result next to an image without data. -/
example : wfContent (.toolResult [105] [.text [] [] none, .image [] [] [] none] none false []) = true := by decide

/-- What the domain excludes is really rejected: tool_use nested in tool_result. -/
example : decodeContent none (encodeContent (.toolResult [] [.toolUse [] [] [] []] none false [])) = .error .notAllowed := by
  have h1 := wc_toolUse [] [] [] []
  have h2 : wcList (encodeContents [.toolUse [] [] [] []]) = .ok (toWCs [.toolUse [] [] [] []]) := by
    simp only [encodeContents, wcList, h1, ok_bind, toWCs]
  have h3 := wc_toolResult [] [.toolUse [] [] [] []] none false [] (by intro v h; cases h) h2
  simp [decodeContent, h3, toWC, toWCs, contentFromWire, contentsFromWire, allowed, allowNested, kToolResult, kToolUse, kText,
    kImage, kAudio, kLink, kResource]

/-! ## required members -/

theorem member_fst (k : Bytes) (om : Bool) (ov : Option JVal) (d : JVal) : (member k om ov d).1 = k := rfl

theorem lookup_members_cons (k k' : Bytes) (ov : Option JVal) (fs : List (Bytes × Option JVal)) :
    lookup k (members ((k', ov) :: fs)) =
      match lookup k (members fs) with
      | some w => some w
      | none => if k' = k then ov else none := by
  cases ov with
  | none => simp only [members_cons, List.nil_append]; cases lookup k (members fs) <;> simp
  | some v => simp only [members_cons, List.cons_append, List.nil_append, lookup]; rfl

theorem lookup_members_none (k : Bytes) (fs : List (Bytes × Option JVal)) (h : ∀ p ∈ fs, p.1 ≠ k) :
    lookup k (members fs) = none := by
  induction fs with
  | nil => rfl
  | cons p t ih =>
    obtain ⟨k', ov⟩ := p
    rw [lookup_members_cons, ih (fun q hq => h q (by simp [hq]))]
    have : k' ≠ k := h (k', ov) (by simp)
    simp [this]

theorem reqMembers_members (fs : List (Bytes × Option JVal)) (h : ∀ p ∈ fs, p.1 ≠ wireContent_NestedContent_name) :
    reqMembers (members fs) = true := by
  induction fs with
  | nil => rfl
  | cons p t ih =>
    obtain ⟨k', ov⟩ := p
    have hk : k' ≠ wireContent_NestedContent_name := h (k', ov) (by simp)
    have := ih (fun q hq => h q (by simp [hq]))
    cases ov with
    | none => simpa [members_cons] using this
    | some v => simp only [members_cons, List.cons_append, List.nil_append, reqMembers, if_neg hk, this, Bool.and_self]

/-- `link`: the type is found, nothing else is required of it at this level, nothing is nested. -/
theorem req_link (uri name title desc mime : Bytes) (size : Option Int) (m : Meta) (a : Option JVal) (icons : List JVal) :
    reqOK (encodeContent (.link uri name title desc mime size m a icons)) = true := by
  simp only [encodeContent, reqOK]
  have hty : lookup wireContent_Type_name (members [
      member wireContent_Type_name wireContent_Type_omit (optStr kLink) (.str []),
      member wireContent_MIMEType_name wireContent_MIMEType_omit (optStr mime) (.str []),
      member wireContent_URI_name wireContent_URI_omit (optStr uri) (.str []),
      member wireContent_Name_name wireContent_Name_omit (optStr name) (.str []),
      member wireContent_Title_name wireContent_Title_omit (optStr title) (.str []),
      member wireContent_Description_name wireContent_Description_omit (optStr desc) (.str []),
      member wireContent_Size_name wireContent_Size_omit (size.map .int) .null,
      member wireContent_Meta_name wireContent_Meta_omit (optObj m) .null,
      member wireContent_Annotations_name wireContent_Annotations_omit a .null,
      member wireContent_Icons_name wireContent_Icons_omit (optArr icons) .null]) = some (.str kLink) := by
    rw [show member wireContent_Type_name wireContent_Type_omit (optStr kLink) (.str []) =
      (wireContent_Type_name, some (.str kLink)) from rfl, lookup_members_cons, lookup_members_none]
    · simp
    · intro p hp
      simp only [List.mem_cons, List.not_mem_nil, or_false] at hp
      rcases hp with rfl | rfl | rfl | rfl | rfl | rfl | rfl | rfl | rfl <;> (rw [member_fst]; decide)
  rw [hty]
  have hreq := reqMembers_members [
      member wireContent_Type_name wireContent_Type_omit (optStr kLink) (.str []),
      member wireContent_MIMEType_name wireContent_MIMEType_omit (optStr mime) (.str []),
      member wireContent_URI_name wireContent_URI_omit (optStr uri) (.str []),
      member wireContent_Name_name wireContent_Name_omit (optStr name) (.str []),
      member wireContent_Title_name wireContent_Title_omit (optStr title) (.str []),
      member wireContent_Description_name wireContent_Description_omit (optStr desc) (.str []),
      member wireContent_Size_name wireContent_Size_omit (size.map .int) .null,
      member wireContent_Meta_name wireContent_Meta_omit (optObj m) .null,
      member wireContent_Annotations_name wireContent_Annotations_omit a .null,
      member wireContent_Icons_name wireContent_Icons_omit (optArr icons) .null] (by
    intro p hp
    simp only [List.mem_cons, List.not_mem_nil, or_false] at hp
    rcases hp with rfl | rfl | rfl | rfl | rfl | rfl | rfl | rfl | rfl | rfl <;> (rw [member_fst]; decide))
  rw [hreq]
  simp [kLink, kText, kImage, kAudio, kToolResult]

theorem req_text (t : Bytes) (m : Meta) (a : Option JVal) : reqOK (encodeContent (.text t m a)) = true := by
  by_cases ht : t = [] <;> by_cases hm : m = [] <;> cases a <;>
    simp [encodeContent, reqOK, members, member, optStr, optObj, lookup, reqMembers, isStr, kText, kImage, kAudio, kLink, kResource, kToolUse, kToolResult, ht, hm]

theorem req_image (d mi : Bytes) (m : Meta) (a : Option JVal) : reqOK (encodeContent (.image d mi m a)) = true := by
  by_cases hd : d = [] <;> by_cases hmi : mi = [] <;> by_cases hm : m = [] <;> cases a <;>
    simp [encodeContent, reqOK, members, member, optStr, optObj, lookup, reqMembers, isStr, kText, kImage, kAudio, kLink, kResource, kToolUse, kToolResult, hd, hmi, hm]

theorem req_audio (d mi : Bytes) (m : Meta) (a : Option JVal) : reqOK (encodeContent (.audio d mi m a)) = true := by
  by_cases hd : d = [] <;> by_cases hmi : mi = [] <;> by_cases hm : m = [] <;> cases a <;>
    simp [encodeContent, reqOK, members, member, optStr, optObj, lookup, reqMembers, isStr, kText, kImage, kAudio, kLink, kResource, kToolUse, kToolResult, hd, hmi, hm]

theorem req_resource (r : Option JVal) (m : Meta) (a : Option JVal) : reqOK (encodeContent (.resource r m a)) = true := by
  cases r <;> by_cases hm : m = [] <;> cases a <;>
    simp [encodeContent, reqOK, members, member, optStr, optObj, lookup, reqMembers, isStr, kText, kImage, kAudio, kLink, kResource, kToolUse, kToolResult,
      kToolResult, hm]

theorem req_toolUse (id name : Bytes) (input m : Meta) : reqOK (encodeContent (.toolUse id name input m)) = true := by
  by_cases h1 : id = [] <;> by_cases h2 : name = [] <;> by_cases hm : m = [] <;>
    simp [encodeContent, reqOK, members, member, optStr, optObj, lookup, reqMembers, isStr, kText, kImage, kAudio, kLink, kResource, kToolUse, kToolResult,
      kToolResult, h1, h2, hm]

theorem req_toolResult (tid : Bytes) (cs : List Content) (st : Option JVal) (ie : Bool) (m : Meta)
    (ih : reqList (encodeContents cs) = true) : reqOK (encodeContent (.toolResult tid cs st ie m)) = true := by
  by_cases h1 : tid = [] <;> cases st <;> cases ie <;> by_cases hm : m = [] <;>
    simp [encodeContent, reqOK, members, member, optStr, optObj, optBool, lookup, reqMembers, reqArr, hasArr, hasArrLater, isArr,
      isStr, kText, kImage, kAudio, kLink, kResource, kToolUse, kToolResult, h1, hm, ih]

mutual
/-- **required_members_present** (C19), content part. In the encoding of EVERY content value — no
well-formedness assumed, every nesting depth — `text` is present in a text block (also when empty),
`data` in image and audio blocks (also when nil), `content` is a (non-null) array in a tool_result,
and the same holds for every block inside that array. -/
theorem required_members_present : ∀ (c : Content), reqOK (encodeContent c) = true
  | .text t m a => req_text t m a
  | .image d mi m a => req_image d mi m a
  | .audio d mi m a => req_audio d mi m a
  | .link u n t d mi sz m a ic => req_link u n t d mi sz m a ic
  | .resource r m a => req_resource r m a
  | .toolUse id n inp m => req_toolUse id n inp m
  | .toolResult tid cs st ie m => req_toolResult tid cs st ie m (required_members_present_list cs)
theorem required_members_present_list : ∀ (cs : List Content), reqList (encodeContents cs) = true
  | [] => rfl
  | c :: t => by simp only [encodeContents, reqList, required_members_present c, required_members_present_list t, Bool.and_self]
end

/-- F8, counter-example on the UNREPAIRED nesting (own output → `wireContent` → `omitempty`): an
empty text block loses `text`, an image without data loses `data`. -/
theorem f8_counterexample_text : (reencodeViaWire (.text [] [] none)).map reqOK = some false := by
  have h := wc_text [] [] none rfl
  simp [reencodeViaWire, h, toWC, wcsToJson, members, member, optStr, optObj, optArr, optBool, reqOK, lookup, isStr, kText]

theorem f8_counterexample_image : (reencodeViaWire (.image [] [105] [] none)).map reqOK = some false := by
  have h := wc_image [] [105] [] none rfl
  simp [reencodeViaWire, h, toWC, wcsToJson, members, member, optStr, optObj, optArr, optBool, reqOK, lookup, isStr, kText, kImage]

/-- **required_members_present**, result part (F15 repaired): whatever list the handler or the
registry left — nil included — a result that is sent carries an array, never `null`. -/
theorem required_lists_present (k : RKind) (l : RList) (v : JVal) (h : sdkResultList k l = .sent v) :
    ∃ items, v = .arr items := by
  cases k <;> cases l <;> simp [sdkResultList, nonNil, RList.enc] at h <;> exact ⟨_, h.symm⟩

/-- The one case in which nothing is sent: `resources/read` with nil contents is an error. -/
example : (match sdkResultList .readResource .nil with | .errorInstead => true | _ => false) = true := rfl

/-! ## F23 (known finding): the `text` member of an empty text resource -/

/-- `resource_text_present_partial`: a resource with non-empty text, or with a (possibly empty,
non-nil) blob, carries `text` or `blob`. -/
theorem resource_text_present_partial (uri mime text : Bytes) (blob : Option Bytes) (m : Meta)
    (h : text ≠ [] ∨ blob.isSome = true) : resourceOK (encodeResource uri mime text blob m) = true := by
  by_cases h1 : uri = [] <;> by_cases h2 : mime = [] <;> by_cases h3 : text = [] <;> cases blob <;>
    by_cases hm : m = [] <;>
    simp [encodeResource, resourceOK, members, member, optStr, optObj, lookup, isStr, h1, h2, h3, hm] at h ⊢

/-- F23, counter-example: an empty text resource is written as `{"uri":…}` — neither `text` nor `blob`. -/
theorem f23_counterexample : resourceOK (encodeResource [117] [] [] none []) = false := by decide

end Wire.L
