import McpModel.Wire.Json
import McpModel.Generated.WireGen
/-!
# E2 Wire — JSON-RPC message codec (`internal/jsonrpc2/messages.go`, `wire.go`)

`encodeMsg` mirrors `EncodeMessage` (`wireCombined` + `omitempty`), `decodeMsg` mirrors
`DecodeMessage` (`wireDecode`: method presence by key, version tag, id coercion, response needs id).
The id decoder is the REPAIRED one (fix F1: integer literals in the int64 range are parsed exactly;
everything else goes through `float64` as before).  The unrepaired conversion `f64ToInt64` is kept:
it is still what fractional/exponent/out-of-range forms go through, and it states the F1
counter-examples.
Member names and `omitempty` flags come from `Generated.Wire` (regenerated from the struct tags).
-/
namespace Wire
open Generated.Wire

/-- `jsonrpc2.ID`: `ID{}` (invalid / notification), an int64, or a string. -/
inductive Id where
  | none
  | int (n : Int)
  | str (s : Bytes)
deriving DecidableEq, Repr, Inhabited

def minInt64 : Int := -9223372036854775808
def maxInt64 : Int := 9223372036854775807
def inInt64 (n : Int) : Bool := minInt64 ≤ n && n ≤ maxInt64

/-- `WireError` -/
structure WErr where
  code : Int
  message : Bytes
  data : Option JVal        -- json.RawMessage: `none` = empty (omitted)
deriving DecidableEq, Repr, Inhabited

/-- `*Request` / `*Response`.  `json.RawMessage` fields are `Option JVal` (`none` = no bytes). -/
inductive Msg where
  | request (id : Id) (method : Bytes) (params : Option JVal)
  | response (id : Id) (result : Option JVal) (error : Option WErr)
deriving DecidableEq, Repr, Inhabited

def Msg.id : Msg → Id
  | .request i _ _ => i
  | .response i _ _ => i

def Msg.isCall : Msg → Bool
  | .request i _ _ => i != .none
  | _ => false

/-! ## Encoding -/

def encodeId : Id → Option JVal
  | .none => none
  | .int n => some (.int n)
  | .str s => some (.str s)

/-- A struct member with the `omitempty` flag of the regenerated tag table: when the flag is set an
empty value is dropped, otherwise the empty value's encoding `dflt` is written. -/
def member (name : Bytes) (om : Bool) (v : Option JVal) (dflt : JVal) : Bytes × Option JVal :=
  (name, match v with
    | some x => some x
    | none => if om then none else some dflt)

def encodeErr (e : WErr) : JVal :=
  .obj (members [
    member WireError_Code_name WireError_Code_omit (if e.code = 0 then none else some (.int e.code)) (.int 0),
    member WireError_Message_name WireError_Message_omit (if e.message = [] then none else some (.str e.message)) (.str []),
    member WireError_Data_name WireError_Data_omit e.data .null])

/-- `EncodeMessage`: `wireCombined{VersionTag: "2.0"}` filled by `marshal`, then `json.Marshal`. -/
def encodeMsg : Msg → JVal
  | .request id method params =>
    .obj (members [
      member wireCombined_VersionTag_name wireCombined_VersionTag_omit (some (.str wireVersion)) (.str []),
      member wireCombined_ID_name wireCombined_ID_omit (encodeId id) .null,
      member wireCombined_Method_name wireCombined_Method_omit (if method = [] then none else some (.str method)) (.str []),
      member wireCombined_Params_name wireCombined_Params_omit params .null,
      member wireCombined_Result_name wireCombined_Result_omit none .null,
      member wireCombined_Error_name wireCombined_Error_omit none .null])
  | .response id result error =>
    .obj (members [
      member wireCombined_VersionTag_name wireCombined_VersionTag_omit (some (.str wireVersion)) (.str []),
      member wireCombined_ID_name wireCombined_ID_omit (encodeId id) .null,
      member wireCombined_Method_name wireCombined_Method_omit none (.str []),
      member wireCombined_Params_name wireCombined_Params_omit none .null,
      member wireCombined_Result_name wireCombined_Result_omit result .null,
      member wireCombined_Error_name wireCombined_Error_omit (error.map encodeErr) .null])

/-! ## Id coercion -/

/-- ⌊log₂ n⌋ for n > 0 (0 for 0). -/
def log2 (n : Nat) : Nat := Nat.log2 n

/-- Round the positive rational p/q to the nearest integer, ties to even. -/
def roundHalfEven (p q : Nat) : Nat :=
  let d := p / q
  let r := p % q
  if 2 * r < q then d else if 2 * r > q then d + 1 else if d % 2 = 0 then d else d + 1

/-- The `float64` nearest to the positive rational p/q, as (mantissa n, binary exponent k): value
n·2^k with n < 2^53 (n ≥ 2^52 unless subnormal).  `none` when it overflows to +Inf. -/
def toF64 (p q : Nat) : Option (Nat × Int) :=
  if p = 0 then some (0, 0) else
  -- estimate k with 2^52 ≤ p/(q·2^k) < 2^53, then correct
  let k0 : Int := (log2 p : Int) - (log2 q : Int) - 52
  let scaled (k : Int) : Nat × Nat := if k ≥ 0 then (p, q * 2 ^ k.toNat) else (p * 2 ^ (-k).toNat, q)
  let fix (k : Int) : Int :=
    let (a, b) := scaled k
    if a / b ≥ 2 ^ 53 then k + 1 else if a / b < 2 ^ 52 then k - 1 else k
  let k1 := fix (fix k0)
  let k := if k1 < -1074 then -1074 else k1
  let (a, b) := scaled k
  let n := roundHalfEven a b
  let (n, k) := if n = 2 ^ 53 then (2 ^ 52, k + 1) else (n, k)
  if k > 971 then none else some (n, k)

/-- Go's `int64(f)` on amd64: truncation toward zero; out of range gives the "integer indefinite"
value −2^63. -/
def truncToInt64 (neg : Bool) (n : Nat) (k : Int) : Int :=
  let mag : Nat := if k ≥ 0 then n * 2 ^ k.toNat else n / 2 ^ (-k).toNat
  let v : Int := if neg then -(mag : Int) else mag
  if inInt64 v then v else minInt64

/-- `int64(float64(m·10^e))`, the conversion `MakeID` applies to a JSON number decoded into `any`.
`none` = the number does not fit a `float64` (the decoder rejects it). -/
def f64ToInt64 (m e : Int) : Option Int :=
  let neg := m < 0
  let a := m.natAbs
  let (p, q) : Nat × Nat := if e ≥ 0 then (a * 10 ^ e.toNat, 1) else (a, 10 ^ (-e).toNat)
  (toF64 p q).map fun (n, k) => truncToInt64 neg n k

/-- Errors of `DecodeMessage`, as the harness classifies them (`code` = what `toWireError` would
put on the wire). -/
inductive DErr where
  | unmarshal      -- the JSON does not fit `wireDecode` (wrong member types, not an object …)
  | version        -- jsonrpc ≠ "2.0"
  | idType         -- id is a bool/array/object: wraps ErrParse
  | noId           -- no method and no id: ErrInvalidRequest
deriving DecidableEq, Repr, Inhabited

def DErr.code : DErr → Int
  | .unmarshal => 0
  | .version => 0
  | .idType => codeParse
  | .noId => codeInvalidRequest

/-- `MakeID` on the value Go's decoder produces for an `any`: every number is a `float64`.
This is the id path of the UNREPAIRED `DecodeMessage` (kept to state F1). -/
def makeIDFloat : JVal → Except DErr Id
  | .null => .ok .none
  | .int n => match f64ToInt64 n 0 with
    | some v => .ok (.int v)
    | none => .error .unmarshal
  | .dec m e => match f64ToInt64 m e with
    | some v => .ok (.int v)
    | none => .error .unmarshal
  | .str s => .ok (.str s)
  | _ => .error .idType

/-- The repaired id decoder (`decodeID`, fix F1): an integer literal in the int64 range is parsed
exactly (`strconv.ParseInt`); everything else takes the old path. -/
def decodeID : JVal → Except DErr Id
  | .int n => if inInt64 n then .ok (.int n) else makeIDFloat (.int n)
  | v => makeIDFloat v

/-! ## Decoding -/

/-- A `string` struct field: JSON string, or null (leaves ""); anything else is a type error. -/
def asString : Option JVal → Except DErr Bytes
  | none => .ok []
  | some .null => .ok []
  | some (.str s) => .ok s
  | some _ => .error .unmarshal

/-- A `json.RawMessage` field keeps whatever value is there, including `null`. -/
def asRaw (v : Option JVal) : Option JVal := v

/-- `int64` struct field: integer literal in range, or null (leaves 0). -/
def asInt64 : Option JVal → Except DErr Int
  | none => .ok 0
  | some .null => .ok 0
  | some (.int n) => if inInt64 n then .ok n else .error .unmarshal
  | some _ => .error .unmarshal

/-- `*WireError` field -/
def asWErr : Option JVal → Except DErr (Option WErr)
  | none => .ok none
  | some .null => .ok none
  | some (.obj kvs) => do
    let code ← asInt64 (lookup WireError_Code_name kvs)
    let msg ← asString (lookup WireError_Message_name kvs)
    .ok (some { code := code, message := msg, data := asRaw (lookup WireError_Data_name kvs) })
  | some _ => .error .unmarshal

/-- What "unmarshal into `any`" rejects: numbers that overflow float64 (checked during the
struct decode, before the version tag is looked at). Only relevant for the unrepaired id path; the
repaired one keeps the raw token and fails later, in `decodeID` — same class. -/
def decodeMsg (w : JVal) : Except DErr Msg :=
  match w with
  | .null =>
    -- `null` leaves the zero wireDecode: the version check fails
    .error .version
  | .obj kvs => do
    -- 1. internaljson.Unmarshal(data, &msg): member types
    let ver ← asString (lookup wireDecode_VersionTag_name kvs)
    let idv := lookup wireDecode_ID_name kvs
    let methodRaw := asRaw (lookup wireDecode_Method_name kvs)
    let params := asRaw (lookup wireDecode_Params_name kvs)
    let result := asRaw (lookup wireDecode_Result_name kvs)
    let err ← asWErr (lookup wireDecode_Error_name kvs)
    -- 2. version tag
    if ver ≠ wireVersion then .error .version else
    -- 3. id
    let id ← match idv with
      | none => .ok Id.none
      | some v => decodeID v
    -- 4. request iff the "method" key was present
    match methodRaw with
    | some mv =>
      let method ← asString (some mv)
      .ok (.request id method params)
    | none =>
      if id = .none then .error .noId
      else .ok (.response id result err)
  | _ => .error .unmarshal

/-! ## Domains of the round-trip laws (shared by the theorems and the monitors) -/

/-- A message for which `decodeMsg (encodeMsg m) = ok m` is claimed: a request/notification has a
non-empty method, a response has an id, integers are int64 values. -/
def wfMsg : Msg → Bool
  | .request id m _ => m ≠ [] && (match id with | .int n => inInt64 n | _ => true)
  | .response id _ e => (match id with | .none => false | .int n => inInt64 n | .str _ => true) &&
      (match e with | some e => inInt64 e.code | none => true)

/-- A valid `error` member: an object with an int64 `code` and a string `message`. -/
def validErr : Option JVal → Bool
  | none => true
  | some (.obj e) =>
    (match lookup WireError_Code_name e with | some (.int n) => inInt64 n | _ => false) &&
    (match lookup WireError_Message_name e with | some (.str _) => true | _ => false)
  | _ => false

/-- A valid wire message as C19/C02 quantify: an object with `jsonrpc:"2.0"`, an id that is a
string, an integer in the int64 range, or absent, and the member combination of a request or
notification (non-empty string method, no result/error) or of a response (id, no params, optional
result, optional valid error). -/
def validWire : JVal → Bool
  | .obj kvs =>
    (match lookup wireDecode_VersionTag_name kvs with | some (.str v) => v = wireVersion | _ => false) &&
    (match lookup wireDecode_ID_name kvs with
      | none => true
      | some (.str _) => true
      | some (.int n) => inInt64 n
      | _ => false) &&
    (match lookup wireDecode_Method_name kvs with
      | some (.str m) => m ≠ [] && (lookup wireDecode_Result_name kvs).isNone && (lookup wireDecode_Error_name kvs).isNone
      | some _ => false
      | none => (lookup wireDecode_ID_name kvs).isSome && (lookup wireDecode_Params_name kvs).isNone &&
          validErr (lookup wireDecode_Error_name kvs))
  | _ => false

/-- Member `k` of an `error` value. -/
def errOf (ev : Option JVal) (k : Bytes) : Option JVal :=
  match ev with
  | some (.obj e) => lookup k e
  | _ => none

/-- Member `k` of the `error` object of a wire message. -/
def errMember (k : Bytes) (w : List (Bytes × JVal)) : Option JVal :=
  errOf (lookup wireDecode_Error_name w) k

/-- The members C19 names: id, method, params, result, error code/message/data (and the tag). -/
structure Proj where
  tag : Option JVal
  id : Option JVal
  method : Option JVal
  params : Option JVal
  result : Option JVal
  errCode : Option JVal
  errMessage : Option JVal
  errData : Option JVal
deriving DecidableEq, Repr

def proj : JVal → Option Proj
  | .obj a => some {
      tag := lookup wireDecode_VersionTag_name a
      id := lookup wireDecode_ID_name a
      method := lookup wireDecode_Method_name a
      params := lookup wireDecode_Params_name a
      result := lookup wireDecode_Result_name a
      errCode := errMember WireError_Code_name a
      errMessage := errMember WireError_Message_name a
      errData := errMember WireError_Data_name a }
  | _ => none

/-! ## Error wrapping (`toWireError`) -/

/-- A Go error value as far as `toWireError` can see it: a `*WireError`, or any other error with
its full `Error()` text and the errors it wraps (`Unwrap() error` / `Unwrap() []error`). -/
inductive GoErr where
  | wire (w : WErr)
  | other (msg : Bytes) (wraps : List GoErr)
deriving Repr, Inhabited

mutual
/-- `errors.As(err, &*WireError)`: pre-order, depth-first. -/
def GoErr.firstWire : GoErr → Option WErr
  | .wire w => some w
  | .other _ ws => firstWireL ws
def firstWireL : List GoErr → Option WErr
  | [] => none
  | e :: t => match e.firstWire with
    | some w => some w
    | none => firstWireL t
end

def toWireError : GoErr → WErr
  | .wire w => w
  | .other msg ws =>
    { code := match firstWireL ws with
        | some w => w.code
        | none => 0
      message := msg, data := none }

/-- A linear chain `fmt.Errorf("m₁: %w", fmt.Errorf("m₂: %w", … wireErr))`. -/
def chain : List Bytes → WErr → GoErr
  | [], w => .wire w
  | m :: ms, w => .other m [chain ms w]


/-- The six member names `DecodeMessage` looks at. -/
def wireNames : List Bytes :=
  [wireDecode_VersionTag_name, wireDecode_ID_name, wireDecode_Method_name, wireDecode_Params_name,
   wireDecode_Result_name, wireDecode_Error_name]

/-- The three member names `DecodeMessage` looks at inside the `error` object. -/
def wireErrorNames : List Bytes := [WireError_Code_name, WireError_Message_name, WireError_Data_name]

end Wire
