import McpModel.Base.Proto
import McpModel.Wire.Sse
import McpModel.Wire.Result
import McpModel.Wire.Spell
import McpModel.Wire.Input
import McpModel.Wire.Monitor
/-!
Driver for E2 `Wire` (C19, and the id / batch streams of C02).

Every harness record is one operation on one of the pure functions of the model (`enc`, `dec`,
`werr`, `idecho`, `sse.*`, `c.*`, `r.*`) or one label of the `ioConn` machine (`io.*`).  The driver
computes the model's observation in the same canonical token form, parses the IMPLEMENTATION's
observation into the typed records of `Monitor.lean` and evaluates the typed property monitors
(`Mon.<op>Monitor`, `Mon.ioRead` / `Mon.ioWrite`) on them; what is left here is the string layer: token
parsing, rendering of the model's observation, and the clause texts (`clauseText`).  Monitors are selected by the first command-line
argument (`C19` default, `C02`), clause texts carry the property id; further arguments name
properties the same stream serves as well (`C02 C03`: the batch stream also judges the order in which
`Read` hands the messages of a batch out, clause prefix `C03:`).

Frame ops (`io.feed`, `io.rb` = readBatch alone, `h.post <stateless|stateful|sse>` = the frame as a
POST body, `live.io <old|new>` = a real server session on an io transport, `live.cli <json|sse>` = a
real streamable client answered with the frame) take a JSON value and an optional trailing layout
token `L<k>` (white space the harness put into the text; not modelled).  An implementation
observation `panic` / `hang` of any of them is a `decode_total` violation naming the reader and the
frame.  `r.fuzz` / `r.case` are the structured decode fuzz of the protocol types (no panic; a member
name in another case is ignored wherever a foreign member name is), `r.irm` compares
`InputRequestMap.UnmarshalJSON` with `decodeInputRequests`.

`sse.frn ( <s<key> s<pad> x<value> <l|c>>* ) <l|c> …` is an event stream as a FOREIGN peer frames it (the
harness writes it: per line LF or CRLF, comments = empty key, any field order, several data lines): the
monitor `sse_roundtrip_any_eol` compares the implementation's scan with what the stream denotes
(`FEvent.denote`).  `sse.lines <x<line> <l|c>>* [e x<rest>]` scans arbitrary LF-free lines as framed
and again ended by LF: `sse_eol_irrelevant` demands equal scans.  `live.cli sse.<framing>` answers a live
streamable client in one of the harness' foreign framings (a valid response must be accepted).
`r.pg.new <pagesize>` / `r.pg.add|rm <method> s<uid>…` / `r.pg.list <method> <-|c<uid>|g<string>>` drive a
real server + session; the driver keeps the registries (sorted keys) and `listPage` gives the page; the
observation is the list member AS WRITTEN (`arr n uids nc uid` / `null` / `missing` / `error`), judged by
`required_lists_present` with the cursor's position in the clause.

Token forms (blank-separated): JVal `z t f i<int> d<m>e<e> s<hex> a[ … ] o{ <hexkey> v … }`
(object members sorted by key; a string or a member name may instead be `q<hex of the literal's body>`:
the spelling a foreign peer put on the wire, which the driver turns into the string it denotes with the
model's `unquote`); Id `- i<n> s<hex>`; Msg `req <id> s<method> <params|->` /
`resp <id> <result|-> <err|->` with err `e<code> s<msg> <data|->`.
-/
namespace Wire
open Proto Generated.Wire Mon

/-! ## printing -/

def hexB (b : Bytes) : String := bytesToHex b

partial def showJ : JVal → String
  | .null => "z"
  | .bool true => "t"
  | .bool false => "f"
  | .int n => s!"i{n}"
  | .dec m e => s!"d{m}e{e}"
  | .str s => "s" ++ hexB s
  | .arr l => " ".intercalate (["a["] ++ l.map showJ ++ ["]"])
  | .obj kvs => " ".intercalate (["o{"] ++ (sortMembers (dedupLast kvs)).flatMap (fun p => [hexB p.1, showJ p.2]) ++ ["}"])

def showOJ : Option JVal → String
  | none => "-"
  | some v => showJ v

def showId : Id → String
  | .none => "-"
  | .int n => s!"i{n}"
  | .str s => "s" ++ hexB s

def showErr : Option WErr → String
  | none => "-"
  | some e => s!"e{e.code} s{hexB e.message} {showOJ e.data}"

def showMsg : Msg → String
  | .request id m p => s!"req {showId id} s{hexB m} {showOJ p}"
  | .response id r e => s!"resp {showId id} {showOJ r} {showErr e}"

def showDErr (e : DErr) : String :=
  let cls := match e with
    | .unmarshal => "unmarshal" | .version => "version" | .idType => "idtype" | .noId => "noid"
  s!"err {e.code} {cls}"

/-! ## parsing -/

abbrev P (α : Type) := List String → Option (α × List String)

def pHexTok (pre : String) (t : String) : Option Bytes :=
  if t.startsWith pre then hexToBytes (t.drop pre.length).toString else none

partial def pJ : P JVal
  | [] => none
  | t :: rest =>
    if t == "z" then some (.null, rest)
    else if t == "t" then some (.bool true, rest)
    else if t == "f" then some (.bool false, rest)
    else if t == "a[" then
      let rec items (acc : List JVal) : P JVal
        | "]" :: r => some (.arr acc.reverse, r)
        | ts => match pJ ts with
          | some (v, r) => items (v :: acc) r
          | none => none
      items [] rest
    else if t == "o{" then
      let rec mems (acc : List (Bytes × JVal)) : P JVal
        | "}" :: r => some (.obj acc.reverse, r)
        | k :: ts =>
          let key : Option Bytes := if k.startsWith "q" then (pHexTok "q" k).bind unquote else hexToBytes k
          match key, pJ ts with
          | some kb, some (v, r) => mems ((kb, v) :: acc) r
          | _, _ => none
        | [] => none
      mems [] rest
    else if t.startsWith "i" then (t.drop 1).toString.toInt?.map (fun n => (.int n, rest))
    else if t.startsWith "d" then
      match (t.drop 1).toString.splitOn "e" with
      | [m, e] => match m.toInt?, e.toInt? with
        | some m, some e => some (.dec m e, rest)
        | _, _ => none
      | _ => none
    else if t.startsWith "s" then (pHexTok "s" t).map (fun b => (.str b, rest))
    else if t.startsWith "q" then ((pHexTok "q" t).bind unquote).map (fun b => (.str b, rest))
    else none

/-- apply `p` until it fails; returns what was parsed and the rest -/
partial def pMany {α : Type} (p : P α) (ts : List String) (acc : List α := []) : List α × List String :=
  match p ts with
  | some (v, r) => pMany p r (v :: acc)
  | none => (acc.reverse, ts)

def pOJ : P (Option JVal)
  | "-" :: r => some (none, r)
  | ts => (pJ ts).map (fun (v, r) => (some v, r))

def pId : P Id
  | "-" :: r => some (.none, r)
  | t :: r =>
    if t.startsWith "i" then (t.drop 1).toString.toInt?.map (fun n => (.int n, r))
    else if t.startsWith "s" then (pHexTok "s" t).map (fun b => (.str b, r))
    else none
  | [] => none

def pStr : P Bytes
  | t :: r => (pHexTok "s" t).map (fun b => (b, r))
  | [] => none

def pErr : P (Option WErr)
  | "-" :: r => some (none, r)
  | t :: r =>
    if t.startsWith "e" then do
      let code ← (t.drop 1).toString.toInt?
      let (msg, r) ← pStr r
      let (d, r) ← pOJ r
      some (some { code := code, message := msg, data := d }, r)
    else none
  | [] => none

def pMsg : P Msg
  | "req" :: r => do
    let (id, r) ← pId r
    let (m, r) ← pStr r
    let (p, r) ← pOJ r
    some (.request id m p, r)
  | "resp" :: r => do
    let (id, r) ← pId r
    let (res, r) ← pOJ r
    let (e, r) ← pErr r
    some (.response id res e, r)
  | _ => none

partial def pGoErr : P GoErr
  | "W" :: t :: r =>
    if t.startsWith "e" then do
      let code ← (t.drop 1).toString.toInt?
      let (msg, r) ← pStr r
      let (d, r) ← pOJ r
      some (.wire { code := code, message := msg, data := d }, r)
    else none
  | "E" :: r => do
    let (msg, r) ← pStr r
    match r with
    | "(" :: r =>
      let rec kids (acc : List GoErr) : P GoErr
        | ")" :: r => some (.other msg acc.reverse, r)
        | ts => match pGoErr ts with
          | some (e, r) => kids (e :: acc) r
          | none => none
      kids [] r
    | _ => none
  | _ => none

/-! ## content tokens -/

def showMeta (m : Meta) : String := showJ (.obj m)

partial def showC : Content → String
  | .text t m a => s!"T s{hexB t} {showMeta m} {showOJ a}"
  | .image d mi m a => s!"I s{hexB d} s{hexB mi} {showMeta m} {showOJ a}"
  | .audio d mi m a => s!"A s{hexB d} s{hexB mi} {showMeta m} {showOJ a}"
  | .link u n t d mi sz m a ic =>
    let szs := match sz with | none => "-" | some n => s!"i{n}"
    s!"L s{hexB u} s{hexB n} s{hexB t} s{hexB d} s{hexB mi} {szs} {showMeta m} {showOJ a} {showJ (.arr ic)}"
  | .resource r m a => s!"R {showOJ r} {showMeta m} {showOJ a}"
  | .toolUse id n inp m => s!"U s{hexB id} s{hexB n} {showMeta inp} {showMeta m}"
  | .toolResult tid cs st ie m =>
    let inner := " ".intercalate (["("] ++ cs.map showC ++ [")"])
    s!"X s{hexB tid} {inner} {showOJ st} {if ie then "1" else "0"} {showMeta m}"

def pMeta : P Meta := fun ts => match pJ ts with
  | some (.obj kvs, r) => some (kvs, r)
  | _ => none

def pArr : P (List JVal) := fun ts => match pJ ts with
  | some (.arr l, r) => some (l, r)
  | _ => none

partial def pC : P Content
  | "T" :: r => do
    let (t, r) ← pStr r; let (m, r) ← pMeta r; let (a, r) ← pOJ r
    some (.text t m a, r)
  | "I" :: r => do
    let (d, r) ← pStr r; let (mi, r) ← pStr r; let (m, r) ← pMeta r; let (a, r) ← pOJ r
    some (.image d mi m a, r)
  | "A" :: r => do
    let (d, r) ← pStr r; let (mi, r) ← pStr r; let (m, r) ← pMeta r; let (a, r) ← pOJ r
    some (.audio d mi m a, r)
  | "L" :: r => do
    let (u, r) ← pStr r; let (n, r) ← pStr r; let (t, r) ← pStr r; let (d, r) ← pStr r; let (mi, r) ← pStr r
    let (sz, r) ← (match r with
      | "-" :: r => some (none, r)
      | t :: r => if t.startsWith "i" then (t.drop 1).toString.toInt?.map (fun n => (some n, r)) else none
      | [] => none : Option (Option Int × List String))
    let (m, r) ← pMeta r; let (a, r) ← pOJ r; let (ic, r) ← pArr r
    some (.link u n t d mi sz m a ic, r)
  | "R" :: r => do
    let (res, r) ← pOJ r; let (m, r) ← pMeta r; let (a, r) ← pOJ r
    some (.resource res m a, r)
  | "U" :: r => do
    let (id, r) ← pStr r; let (n, r) ← pStr r; let (inp, r) ← pMeta r; let (m, r) ← pMeta r
    some (.toolUse id n inp m, r)
  | "X" :: r => do
    let (tid, r) ← pStr r
    match r with
    | "(" :: r =>
      let rec kids (acc : List Content) : P (List Content)
        | ")" :: r => some (acc.reverse, r)
        | ts => match pC ts with
          | some (c, r) => kids (c :: acc) r
          | none => none
      let (cs, r) ← kids [] r
      let (st, r) ← pOJ r
      let (ie, r) ← (match r with
        | "0" :: r => some (false, r)
        | "1" :: r => some (true, r)
        | _ => none : Option (Bool × List String))
      let (m, r) ← pMeta r
      some (.toolResult tid cs st ie m, r)
    | _ => none
  | _ => none

def pCList : P (List Content)
  | "(" :: r =>
    match pMany pC r with
    | (cs, ")" :: r) => some (cs, r)
    | _ => none
  | _ => none

def showCList (cs : List Content) : String := " ".intercalate (["("] ++ cs.map showC ++ [")"])

def showCErr : CErr → String
  | .unmarshal => "err unmarshal"
  | .nilContent => "err nil"
  | .notAllowed => "err notallowed"
  | .unrecognized => "err unrecognized"

/-! ## SSE tokens -/

def pEvent : P Event := fun ts => do
  let (n, r) ← pStr ts; let (i, r) ← pStr r; let (rt, r) ← pStr r; let (d, r) ← pStr r
  some ({ name := n, id := i, retry := rt, data := d }, r)

def showEvent (e : Event) : String := s!"s{hexB e.name} s{hexB e.id} s{hexB e.retry} s{hexB e.data}"

def showScan (r : List Event × Bool) : String :=
  " ".intercalate ([s!"ev{r.1.length}"] ++ r.1.map showEvent ++ [if r.2 then "malformed" else "ok"])

/-! ## foreign SSE framing, paged lists: parsing and describing -/

def pEol : P Eol
  | "l" :: r => some (.lf, r)
  | "c" :: r => some (.crlf, r)
  | _ => none

/-- `x<hex> <l|c>` -/
def pRawLine : P (Bytes × Eol) := fun ts =>
  match ts with
  | t :: r => do
    let b ← pHexTok "x" t
    let (e, r) ← pEol r
    some ((b, e), r)
  | [] => none

/-- `s<key> s<pad> x<val> <l|c>` -/
def pFLine : P FLine := fun ts => do
  let (k, r) ← pStr ts
  let (pad, r) ← pStr r
  match r with
  | t :: r => do
    let v ← pHexTok "x" t
    let (e, r) ← pEol r
    some ({ key := k, pad := pad, val := v, eol := e }, r)
  | [] => none

/-- `( <line>* ) <l|c>` -/
def pFEvent : P FEvent
  | "(" :: r =>
    match pMany pFLine r with
    | (ls, ")" :: r) => (pEol r).map (fun (e, r) => ({ lines := ls, endEol := e }, r))
    | _ => none
  | _ => none

structure PgState where
  ps : Nat := 1
  tools : List Bytes := []
  prompts : List Bytes := []
  resources : List Bytes := []
  templates : List Bytes := []
  roots : List Bytes := []         -- the CLIENT's registry (listed whole)
deriving Inhabited

def PgState.get (p : PgState) : RKind → List Bytes
  | .listTools => p.tools
  | .listPrompts => p.prompts
  | .listResources => p.resources
  | .listResourceTemplates => p.templates
  | .listRoots => p.roots
  | _ => []

def PgState.set (p : PgState) (k : RKind) (l : List Bytes) : PgState :=
  match k with
  | .listTools => { p with tools := l }
  | .listPrompts => { p with prompts := l }
  | .listResources => { p with resources := l }
  | .listResourceTemplates => { p with templates := l }
  | .listRoots => { p with roots := l }
  | _ => p

def pCursor : String → Option Cursor
  | "-" => some .first
  | t =>
    if t.startsWith "c" then (pHexTok "c" t).map .after
    else if t.startsWith "g" then (pHexTok "g" t).map (fun b => if b == [] then .first else .garbage)
    else none

/-- where a cursor stands relative to the registry, for the clause text -/
def cursorPos (keys : List Bytes) : Cursor → String
  | .first => if keys.isEmpty then "a request without cursor against an EMPTY registry" else "a request without cursor"
  | .garbage => "a cursor that does not decode"
  | .after uid =>
    let n := keys.length
    let below := (keys.filter (fun k => !keyLt uid k)).length   -- keys not above uid
    if n == 0 then "a well-formed cursor against an empty registry"
    else if below == n then
      (if keys.getLast? == some uid then s!"a cursor naming the last of {n} keys (nothing above it: the page is empty)"
       else s!"a cursor naming a uid beyond the last of {n} keys (the page is empty)")
    else if keys.contains uid then s!"a cursor naming key {below} of {n}"
    else if below == 0 then s!"a cursor naming a uid below the first of {n} keys"
    else s!"a cursor naming a uid between keys {below} and {below + 1} of {n}"

def showPage (r : ROut × Option Bytes) : String :=
  match r.1 with
  | .errorInstead => "error"
  | .sent (.arr items) =>
    " ".intercalate (["arr", toString items.length] ++ items.map (fun v => match v with | .str b => "s" ++ hexB b | _ => "?") ++
      ["nc", match r.2 with | some u => "s" ++ hexB u | none => "-"])
  | .sent _ => "null"

def memberName (k : RKind) : String :=
  match k with
  | .listTools => "tools" | .listPrompts => "prompts" | .listResources => "resources"
  | .listResourceTemplates => "resourceTemplates" | .listRoots => "roots" | _ => "?"

/-! ## contexts in which content is decoded -/

def ctxOf : String → Option (Shape × Option (List Bytes))
  | "tool" => some (.list, allowCallToolResult)
  | "prompt" => some (.one, allowPromptMessage)
  | "samp" => some (.one, allowSamplingMessage)
  | "sampv2" => some (.oneOrMany, allowSamplingMessageV2)
  | "cmr" => some (.one, allowCreateMessageResult)
  | "cmwt" => some (.oneOrMany, allowCreateMessageWithToolsResult)
  | _ => none

def rkindOf : String → Option RKind
  | "tools/list" => some .listTools
  | "prompts/list" => some .listPrompts
  | "resources/list" => some .listResources
  | "resources/templates/list" => some .listResourceTemplates
  | "roots/list" => some .listRoots
  | "tools/call" => some .callTool
  | "prompts/get" => some .getPrompt
  | "completion/complete" => some .complete
  | "resources/read" => some .readResource
  | _ => none

def rkindMethod : RKind → String
  | .listTools => "tools/list"
  | .listPrompts => "prompts/list"
  | .listResources => "resources/list"
  | .listResourceTemplates => "resources/templates/list"
  | .listRoots => "roots/list"
  | .callTool => "tools/call"
  | .getPrompt => "prompts/get"
  | .complete => "completion/complete"
  | .readResource => "resources/read"

def setPath : List Bytes → JVal → JVal → JVal
  | [], v, _ => v
  | k :: t, v, .obj kvs =>
    let cur := (lookup k kvs).getD (.obj [])
    .obj (kvs.filter (fun p => p.1 ≠ k) ++ [(k, setPath t v cur)])
  | _, _, j => j

/-! ## driver state: the model's `ioConn`, the typed monitor's bookkeeping (`Mon.IOMon`), the registries -/

structure DState where
  pid : String := "C19"
  also : List String := []         -- further properties this stream serves (the batch stream: C03)
  io : IOState := {}
  mon : IOMon := {}                -- the monitor's own bookkeeping (independent of `io`)
  eofFed : Bool := false           -- harness closed the input after the fed frames
  eofSeen : Bool := false          -- Read has reported the end of the stream
  pg : PgState := {}               -- paged lists: the registries of the server under test
  logging : Bool := false          -- the connection stands behind a `LoggingTransport`
  mlog : List LogEntry := []       -- the model's log since the last `io.log`
  passed : List Passed := []       -- monitor bookkeeping: what the harness saw pass through the wrapper

def showWriteOut : WriteOut → String
  | .nothing => "nothing"
  | .single v => "single " ++ showJ v
  | .array vs => " ".intercalate ("array" :: vs.map showJ)
  | .panic => "panic"

def showRErr : RErr → String
  | .decode e => "decode " ++ showDErr e
  | .emptyBatch => "emptybatch"
  | .noBatching => "nobatching"
  | .dupInBatch => "dup"
  | .seenId => "seen"
  | .eof => "eof"

def lastTok (s : String) : String := ((words s).getLast?).getD ""

/-- the trailing layout token `L<k>` of a frame op (how the harness laid the JSON text out: blanks,
tabs, CRLF, line breaks inside — insignificant white space, which the model does not see) -/
def stripLayout (toks : List String) : List String :=
  match toks.getLast? with
  | some t =>
    if t.startsWith "L" && t.length > 1 && (t.drop 1).toString.all Char.isDigit then toks.dropLast else toks
  | none => toks

def frameOps : List String := ["io.feed", "io.rb", "h.post", "live.io", "live.cli"]

/-- ops whose JSON value may be preceded by the flag `rev` (member order of the text; the model does not see it) -/
def revOps : List String := ["decenc", "casedec", "casedec.err"]

/-! ## clause texts (byte-identical with what seeded/*/meta.json, known_findings.json and DESIGN.md quote) -/

def orderClause : String := "ioConn.Read returned the messages of a batch out of the order in which they were written"

def fieldName : Field → String
  | .id => "id" | .method => "method" | .params => "params" | .result => "result"
  | .errCode => "error.code" | .errMessage => "error.message" | .errData => "error.data"
  | .tag => "jsonrpc" | .shape => "shape"

def eolMixText : EolMix → String
  | .allLF => "every line ended by LF"
  | .allCRLF => "every line ended by CRLF"
  | .mixed => "lines ended by a mix of LF and CRLF"

/-- what a foreign stream exercises, for the clause text -/
def featuresText (f : Features) : String :=
  ", ".intercalate ([eolMixText f.mix] ++
    (if f.comments then ["comment lines"] else []) ++
    (if f.multiData then ["data over several lines"] else []) ++
    (if f.retry then ["retry lines"] else []) ++
    (if f.unknown then ["unknown fields"] else []) ++
    (if f.oddPad then ["no or several blanks after the colon"] else []))

def crashText : Crash → String
  | .panic => "panicked"
  | .hang => "did not return"

def whichText : Which → String
  | .next => "next"
  | .first => "first"

def frText : Option JVal → String
  | some raw => frameDesc raw
  | none => "already accepted (a queued message)"

def howText (c : ContentKind) (sc ie : Bool) : String :=
  (match c with | .nilC => "nil Content" | .emptyC => "empty Content" | .someC => "Content") ++
  (if sc then " and StructuredContent" else "") ++ (if ie then " and IsError" else "")

/-- the clause without the property prefix -/
def clauseBody : Clause → String
  | .encdecF1 => "decode_encode_msg: integer id beyond 2^53 altered by decoding the encoded message (F1)"
  | .encdecNotBack => "decode_encode_msg: decoding the encoded message does not give the message back"
  | .encdecNoEncoding => "decode_encode_msg: no encoding produced for a well-formed message"
  | .respNeedsId => "response_needs_id: a response without id is accepted by DecodeMessage"
  | .edpRejected => "encode_decode_preserves: a valid wire message is rejected by DecodeMessage"
  | .edpIdF1 => "encode_decode_preserves: integer id beyond 2^53 altered by decode→encode (F1)"
  | .edpId => "encode_decode_preserves: id not preserved by decode→encode"
  | .edpMember f => s!"encode_decode_preserves: member {fieldName f} not preserved by decode→encode"
  | .edpReencFailed => "encode_decode_preserves: re-encoding failed"
  | .badObservation => "bad-observation"
  | .caseMatched => "decode_case_sensitive: a member whose name differs in case from a wire member was matched"
  | .caseMatchedErr =>
    "decode_case_sensitive: a member of the error object whose name differs in case from code / message / data was matched (the error object is decoded without regard to case)"
  | .werrCode => "wire_error_wrap: code is not that of the first wrapped wire error"
  | .werrMessage => "wire_error_wrap: message is not the outermost error's text"
  | .werrNoObject => "wire_error_wrap: no error object on the wire"
  | .dtDecodeMessage => "decode_total: DecodeMessage panicked on input bytes"
  | .idRejected => "id_echo_exact: a call whose id is a valid JSON string is rejected by DecodeMessage, so no response bears its id"
  | .idStrNotExact => "id_echo_exact: string id not echoed exactly"
  | .idIntF1 => "id_echo_exact: integer id beyond 2^53 echoed with a different value (F1)"
  | .idIntDiff => "id_echo_exact: integer id echoed with a different value"
  | .dtScan .panic => "decode_total: scanEvents panicked on input bytes"
  | .dtScan .hang => "decode_total: scanEvents did not return on input bytes"
  | .sseRoundtrip => "sse_roundtrip: scanning the written events does not return them"
  | .sseEolIrrelevant mix rm =>
    s!"sse_eol_irrelevant: scanEvents reads an event stream with {eolMixText mix} differently from the same lines ended by LF" ++
      (if rm then " (it reports a malformed event)" else "")
  | .sseAnyEol feat rm =>
    s!"sse_roundtrip_any_eol: a well-formed event stream of a foreign peer ({featuresText feat}) is not scanned to the events it denotes" ++
      (if rm then ": scanEvents reports a malformed event" else "")
  | .f23 => "required_members_present: resource contents carry neither text nor blob (F23)"
  | .f8Nested => "required_members_present: a block nested in tool_result lacks its required text/data member (F8)"
  | .contentLacks => "required_members_present: content block lacks a required member"
  | .contentNoMarshal => "required_members_present: content did not marshal"
  | .resourceNoMarshal => "required_members_present: resource contents did not marshal"
  | .contentRoundtrip => "content_roundtrip: decoding the encoded content does not give the value back"
  | .dtContentCtx ctx => s!"decode_total: decoding the content member of a {ctx} wrapper panicked"
  | .dtContentFuzz => "decode_total: content/params decoder panicked on input bytes"
  | .protoValueChanged => "content_roundtrip: protocol value changed by marshal→unmarshal→marshal"
  | .nilResult method .sentNull =>
    s!"required_members_present: the {method} handler returned (nil, nil) and \"result\":null was sent: no required member at all (wire-F30)"
  | .nilResult method .panicked =>
    s!"required_members_present: the {method} handler returned (nil, nil) and the server process panicked (wire-F30)"
  | .nilResult method .nothing =>
    s!"required_members_present: the {method} handler returned (nil, nil): no result with its required members was sent"
  | .callContentNull c sc ie =>
    s!"required_members_present: the content member of the tools/call result is null or missing (raw tool handler returned {howText c sc ie})"
  | .callBlockLacks => "required_members_present: a content block of the tools/call result lacks a required member"
  | .callContentDiffers => "call_tool_content_present: the content array sent is not the encoding of the handler's blocks"
  | .callStructuredDiffers => "call_tool_content_present: structuredContent sent is not the handler's value"
  | .callIsErrorDiffers => "call_tool_content_present: isError sent is not the handler's flag"
  | .callPanicked => "required_members_present: the server panicked while answering tools/call"
  | .callNoResult => "required_members_present: no tools/call result was sent for a handler result"
  | .reqListNull method f15 =>
    s!"required_members_present: required list member of the {method} result is null or missing" ++ (if f15 then " (F15)" else "")
  | .zeroNoResult => "required_members_present: no result"
  | .pgNull k keys c ps emptyPage =>
    s!"required_lists_present: \"{memberName k}\":null in the {rkindMethod k} result on the wire — {cursorPos keys c}, page size {ps}: the list member must be an array" ++
      (if emptyPage then " (here the EMPTY array)" else "")
  | .pgMissing k keys c ps =>
    s!"required_lists_present: the {rkindMethod k} result on the wire has no \"{memberName k}\" member — {cursorPos keys c}, page size {ps}"
  | .pgNotArray k keys c ps =>
    s!"required_lists_present: the \"{memberName k}\" member of the {rkindMethod k} result on the wire is not an array — {cursorPos keys c}, page size {ps}"
  | .readGone02 c fr =>
    s!"batch_exactly_once: ioConn.Read {crashText c} on the frame {frText fr}: the reader is gone, no call is answered any more"
  | .dtRead c fr => s!"decode_total: ioConn.Read {crashText c} on the frame {frText fr}"
  | .order19 => "batch_roundtrip: " ++ orderClause
  | .order03 => orderClause
  | .sameIdF1 w => s!"batch_roundtrip: Read returned the frame's {whichText w} element with its integer id beyond 2^53 altered (F1)"
  | .sameId w => s!"batch_roundtrip: Read returned a message whose id differs from the frame's {whichText w} element"
  | .sameMember f w => s!"batch_roundtrip: Read returned a message whose {fieldName f} differs from the frame's {whichText w} element"
  | .readFailedQueued => "batch_roundtrip: Read failed on a message of an already accepted frame"
  | .readAtEnd => "batch_roundtrip: Read returned something at the end of the input"
  | .queued19 n q => s!"batch_roundtrip: Read took a frame of {n} messages but queued {q} for the following reads"
  | .lost n q =>
    s!"ioConn.Read took a frame of {n} messages but queued {q} for the following reads: the other messages of the batch are lost (a lost response leaves its call blocked for ever, a lost call is never answered, a lost notification is never dispatched)"
  | .rejectedF2_19 => "batch_roundtrip: a well-formed batch containing a notification is rejected by Read (notifications are tracked like calls, F2)"
  | .rejected19 => "batch_roundtrip: a well-formed frame is rejected by Read"
  | .rejectedF2_02 => "batch_exactly_once: a well-formed batch containing a notification is rejected as a duplicate id; the read error tears the session down (F2)"
  | .rejected02 => "batch_exactly_once: a well-formed batch is rejected by Read"
  | .dtWrite => "decode_total: ioConn.Write panicked"
  | .retryResponsesAltered =>
    "encode_decode_preserves: the retried request does not carry the fulfilled inputResponses as given (multi round trip)"
  | .retryStateAltered => "encode_decode_preserves: the retried request does not carry the requestState as given (multi round trip)"
  | .retryNotDecodedAlike =>
    "encode_decode_preserves: the server's decoder does not read the retried request's inputResponses / requestState as the keys, kinds and state sent"
  | .toolAnnHintLost => "required_members_present: ToolAnnotations written without readOnlyHint / idempotentHint (default encoding)"
  | .toolAnnChanged => "content_roundtrip: ToolAnnotations did not come back as themselves from marshal → unmarshal"
  | .cloneAliased => "content_roundtrip: a change to a capabilities clone (or to the original) shows in the other's encoding: clone shares a pointer or map"
  | .cloneDiffers => "content_roundtrip: the encoding of a capabilities clone differs from the original's"
  | .extNotStored => "content_roundtrip: AddExtension with nil settings did not store an empty object under the name"
  | .refRefused => "content_roundtrip: CompleteReference.MarshalJSON refused a consistent reference"
  | .refChanged => "content_roundtrip: a CompleteReference did not come back as itself from marshal → unmarshal"
  | .refInconsistentWritten =>
    "content_roundtrip: CompleteReference.MarshalJSON wrote an inconsistent reference (unknown type, or a member of the other type)"
  | .refInconsistentAccepted =>
    "content_roundtrip: CompleteReference.UnmarshalJSON accepted an inconsistent reference (unknown type, or a member of the other type)"
  | .refReencDiffers => "content_roundtrip: an accepted CompleteReference is not written again as its encoding"
  | .logDiffers p l =>
    s!"encode_decode_preserves: LoggingTransport: the log ({l} entries) does not show the {p} messages that passed through the connection, in order, each as `read: ` / `write: ` + an encoding of that message"
  | .cwCrash c => s!"ndjson_roundtrip: concurrent Writes on one connection: ioConn.Write {crashText c}"
  | .cwGarbled n =>
    s!"ndjson_roundtrip: concurrent Writes on one connection (a stream that takes a Write in pieces): {n} line(s) of the stream are no JSON value — the frames of two writers ran into each other, neither message reaches the peer"
  | .cwLost m =>
    s!"ndjson_roundtrip: concurrent Writes on one connection: the message {showMsg m} is not among the lines of the stream"
  | .badFrame => "ndjson_roundtrip: the bytes written are not one compact payload followed by a single LF"
  | .writtenDiffers => "batch_roundtrip: the message written differs from the message given"
  | .dtNdReader .panic => "decode_total: the reader of an io connection panicked on input bytes"
  | .dtNdReader .hang => "decode_total: the reader of an io connection did not return on input bytes"
  | .ndNotValueByValue =>
    "ndjson_roundtrip: the reader of an io connection does not hand on the values of a newline-delimited stream one by one as written (objects / arrays, each followed by LF or CRLF)"
  | .writePanic02 => "batch_exactly_once: ioConn.Write panicked"
  | .flushedEarly => "batch_exactly_once: batch reply flushed before the last call of the batch was answered"
  | .notOnItsOwn => "batch_exactly_once: a message outside any batch was not written on its own"
  | .arrayNotExact => "batch_exactly_once: the flushed array is not exactly one response per call of the batch, in call order"
  | .withheld true => "batch_exactly_once: batch reply withheld after its last call was answered — the batch contains a notification (F2)"
  | .withheld false => "batch_exactly_once: batch reply withheld after its last call was answered"
  | .lastOnItsOwn => "batch_exactly_once: last response of a batch written on its own instead of the batch array"
  | .dtReadBatch raw => s!"decode_total: readBatch panicked on the frame {frameDesc raw}"
  | .rbAcceptedEmpty raw =>
    s!"batch_roundtrip: readBatch accepted the frame {frameDesc raw}, which carries no message (ioConn.Read takes msgs[0] of what it returns)"
  | .dtPost .panic path raw => s!"decode_total: the {path} POST handler panicked on the body {frameDesc raw}"
  | .dtPost .hang path raw => s!"decode_total: the {path} POST handler did not return on the body {frameDesc raw}"
  | .dtLiveIo .panic raw => s!"decode_total: a server session on an io transport panicked on the frame {frameDesc raw} (the process crashed)"
  | .dtLiveIo .hang raw => s!"decode_total: a server session on an io transport neither answered nor ended after the frame {frameDesc raw}"
  | .dtLiveCli .panic kind raw => s!"decode_total: the streamable client panicked on the {kind} response body {frameDesc raw} (the process crashed)"
  | .dtLiveCli .hang kind raw => s!"decode_total: the streamable client's call neither returned nor failed on the {kind} response body {frameDesc raw}"
  | .sseCliFailed f =>
    s!"sse_roundtrip_any_eol: the streamable client's call failed although its response arrived in a well-formed event stream (framing {f}: a peer may end lines in CRLF, send comments, ids, retry and split data)"
  | .f32Null => "decode_total: InputRequestMap.UnmarshalJSON panicked on a null entry of inputRequests (nil entry dereferenced, F32)"
  | .dtNearValid ty => s!"decode_total: decoding a {ty} panicked on a near-valid JSON value (a null / wrong-typed / wrong-case member)"
  | .dtCase ty name => s!"decode_total: decoding a {ty} panicked on a value with the member {name} spelled in another case"
  | .caseF32 ty name =>
    s!"decode_case_sensitive: below inputRequests / inputResponses member names are matched without regard to case (InputRequestMap / InputResponseMap decode with encoding/json, F32): decoding a {ty} matched a member spelled {name}"
  | .caseDeclared ty name =>
    s!"decode_case_sensitive: decoding a {ty} matched a member spelled {name}, which differs in case from the declared name"
  | .dtIrm => "decode_total: InputRequestMap.UnmarshalJSON panicked on a near-valid value"
  | .caseIrm =>
    "decode_case_sensitive: InputRequestMap.UnmarshalJSON matched an entry member whose name differs in case from method/params (it decodes with encoding/json, F32)"

/-- the clause as reported: prefixed with the property the stream is run for, except the two clauses
that name their properties themselves -/
def clauseText (pid : String) : Clause → String
  | .lost n q => "C01+C02+C03: " ++ clauseBody (.lost n q)
  | .order03 => "C03: " ++ clauseBody .order03
  | c => pid ++ ": " ++ clauseBody c

def pidOf : String → Pid
  | "C02" => .c02
  | "C03" => .c03
  | _ => .c19

/-! ## parsing the implementation's observation into the typed records of `Monitor.lean` -/

def isPanic (impl : String) : Bool := impl == "panic"

def crashOf (impl : String) : Option Crash :=
  if impl == "panic" then some .panic else if impl == "hang" then some .hang else none

/-- `ok <msg>` / `err <code> <class>` / anything else -/
def pDecObs (s : String) : DecObs :=
  match words s with
  | "ok" :: r =>
    (match pMsg r with
      | some (m, []) => .ok m
      | _ => .other s)
  | ["err", c, cls] =>
    (match c.toInt? with
      | some n => .err n cls
      | none => .other s)
  | _ => .other s

/-- `ev<n> <event>* ok|malformed` -/
def pScanRes (toks : List String) : ScanRes :=
  let txt := " ".intercalate toks
  match toks with
  | hd :: r =>
    if hd.startsWith "ev" then
      match pMany pEvent r with
      | (es, ["ok"]) => if (hd.drop 2).toString.toNat? == some es.length then .scan es false else .garbled txt
      | (es, ["malformed"]) => if (hd.drop 2).toString.toNat? == some es.length then .scan es true else .garbled txt
      | _ => .garbled txt
    else .garbled txt
  | [] => .garbled txt

def pResObs (impl : String) : ResObs :=
  match pJ (words impl) with
  | some (.obj kvs, []) => .obj kvs
  | some (j, []) => .val j
  | _ => if impl == "panic" then .panic else .other

def pReadObs (impl : String) : ReadObs :=
  match crashOf impl with
  | some c => .crash c
  | none =>
    let q := ((lastTok impl).drop 1).toString.toNat?.getD 0
    if impl.startsWith "msg " then
      .msg (match words impl with
        | "msg" :: r => (pMsg r).map (·.1)
        | _ => none) q
    else
      .err (if impl.startsWith "err eof" then .eof else if impl.startsWith "err dup" then .dup
        else if impl.startsWith "err seen" then .seen else .other) q

def pWriteObs (impl : String) : WriteObs :=
  let itoks := words impl
  let kind : WKind := match itoks.head?.getD "" with
    | "nothing" => .nothing | "single" => .single | "array" => .array
    | "panic" => .panic | "badframe" => .badframe | _ => .other
  { kind := kind, vals := (pMany pJ (itoks.drop 1)).1 }

/-! ## the engine -/

def bad (d : DState) : DState × Verdict := (d, { model := "bad-op" })

/-- a verdict: the model's observation and, if the stream is run for C19, the clause of a C19-only monitor -/
def out19 (d : DState) (model : String) (c : Option Clause) : DState × Verdict :=
  (d, { model := model, violated := if d.pid == "C19" then c.map (clauseText d.pid) else none })

/-- a verdict of a monitor that is not restricted to one property -/
def outAny (d : DState) (model : String) (c : Option Clause) : DState × Verdict :=
  (d, { model := model, violated := c.map (clauseText d.pid) })

def pLogEntries (fuel : Nat) (ts : List String) (acc : List (Option LogEntry)) : Option (List (Option LogEntry)) :=
  match fuel, ts with
  | _, [] => some acc.reverse
  | 0, _ => none
  | fuel + 1, t :: ts' =>
    if t.startsWith "!" then pLogEntries fuel ts' (none :: acc)
    else if t == "re" then pLogEntries fuel ts' (some .readErr :: acc)
    else if t == "we" then pLogEntries fuel ts' (some .writeErr :: acc)
    else if t == "r" || t == "w" then
      match pJ ts' with
      | some (v, r') => pLogEntries fuel r' (some (if t == "r" then .read v else .write v) :: acc)
      | none => none
    else none

def showRefErr : RefErr → String
  | .unknownType => "unknown-type" | .promptWithURI => "prompt-with-uri"
  | .resourceWithName => "resource-with-name" | .notStruct => "other"

def showRef (r : CRef) : String := s!"ok s{hexB r.typ} s{hexB r.name} s{hexB r.uri}"

def stepWire (d : DState) (toks : List String) (impl : String) : DState × Verdict :=
  let itoks := words impl
  let toks := match toks with
    | k :: r => if frameOps.contains k then k :: stripLayout r else toks
    | [] => toks
  -- `rev`: the harness rendered the members of every object in reverse order (text level; not modelled)
  let toks := match toks with
    | k :: "rev" :: r => if revOps.contains k then k :: r else toks
    | _ => toks
  -- `EncodeIndent` (`encind <layout> <msg>`): prefix and indent are insignificant white space (the harness reads the
  -- text as JSON); the value written is `EncodeMessage`'s, and the same monitor judges it
  let toks := match toks with
    | "encind" :: _ :: r => "encdec" :: r
    | _ => toks
  match toks with
  | ["reset"] => ({ pid := d.pid, also := d.also }, { model := "ok" })
  ----------------------------------------------------------------- message codec
  | "encdec" :: r =>
    match pMsg r with
    | some (m, []) =>
      let j := encodeMsg m
      let back := match decodeMsg j with
        | .ok m' => "ok " ++ showMsg m'
        | .error e => showDErr e
      let model := showJ j ++ " | " ++ back
      -- monitor: the implementation's own decode of its own encoding gives the message back
      let obs : Option DecObs := match impl.splitOn " | " with
        | [_, b] => some (pDecObs b)
        | _ => none
      out19 d model (encdecMonitor m obs)
    | _ => bad d
  | "decenc" :: r =>
    match pJ r with
    | some (w, []) =>
      let model := match decodeMsg w with
        | .ok m => "ok " ++ showMsg m ++ " | " ++ showJ (encodeMsg m)
        | .error e => showDErr e ++ " | -"
      let obs : DecEncObs := match impl.splitOn " | " with
        | [_, b] =>
          { accepted := impl.startsWith "ok ", paired := true,
            reenc := match pJ (words b) with | some (w', []) => some w' | _ => none }
        | _ => { accepted := impl.startsWith "ok ", paired := false, reenc := none }
      out19 d model (decencMonitor w obs)
    | _ => bad d
  | "casedec" :: r =>
    -- a message with ONE member name changed in case: must decode like the object without it
    match (do let (nm, r) ← pStr r; let (w, r) ← pJ r; some (nm, w, r) : Option (Bytes × JVal × List String)) with
    | some (nm, .obj kvs, []) =>
      let sh (w : JVal) : String := match decodeMsg w with
        | .ok m => "ok " ++ showMsg m
        | .error e => showDErr e
      let model := sh (.obj kvs) ++ " | " ++ sh (.obj (kvs.filter (fun p => p.1 ≠ nm)))
      let obs : Option (DecObs × DecObs) := match impl.splitOn " | " with
        | [a, b] => some (pDecObs a, pDecObs b)
        | _ => none
      out19 d model (casedecMonitor obs)
    | _ => bad d
  | "casedec.err" :: r =>
    -- a response whose error object has ONE member name differing from code / message / data in case only:
    -- must decode like the response whose error object does not have it
    match (do let (nm, r) ← pStr r; let (w, r) ← pJ r; some (nm, w, r) : Option (Bytes × JVal × List String)) with
    | some (nm, .obj kvs, []) =>
      let sh (w : JVal) : String := match decodeMsg w with
        | .ok m => "ok " ++ showMsg m
        | .error e => showDErr e
      let model := sh (.obj kvs) ++ " | " ++ sh (.obj (dropErrMember nm kvs))
      let obs : Option (DecObs × DecObs) := match impl.splitOn " | " with
        | [a, b] => some (pDecObs a, pDecObs b)
        | _ => none
      out19 d model (casedecErrMonitor obs)
    | _ => bad d
  | "werr" :: r =>
    match pGoErr r with
    | some (e, []) =>
      let obs : Option (List (Bytes × JVal)) := match pJ itoks with
        | some (.obj kvs, []) => some kvs
        | _ => none
      out19 d (showJ (encodeErr (toWireError e))) (werrMonitor e obs)
    | _ => bad d
  | ["fuzzdec", _] => outAny d "nopanic" (fuzzdecMonitor (isPanic impl))
  ----------------------------------------------------------------- id echo (C02)
  | "idecho" :: r =>
    match pJ r with
    | some (idv, []) =>
      let model := match decodeID idv with
        | .ok id => showOJ (encodeId id)
        | .error e => showDErr e
      let obs : IdObs :=
        if impl.startsWith "err " then .rejected
        else match pOJ itoks with
          | some (v, []) => .echoed v
          | _ => .other
      outAny d model (idechoMonitor idv obs)
    | _ => bad d
  ----------------------------------------------------------------- SSE
  | "sse.write" :: r =>
    match pEvent r with
    | some (e, []) => (d, { model := "x" ++ hexB (writeEvent e) })
    | _ => bad d
  | ["sse.scan", x] =>
    match pHexTok "x" x with
    | some bs => outAny d (showScan (scanEvents bs)) (scanPanicMonitor (isPanic impl))
    | none => bad d
  | "sse.rt" :: r =>
    match (match pMany pEvent r with | (es, []) => some es | _ => none : Option (List Event)) with
    | some es =>
      let bytes := es.flatMap writeEvent
      let model := "x" ++ hexB bytes ++ " " ++ showScan (scanEvents bytes)
      let obs : ScanObs := match itoks with
        | _ :: rest => .res (pScanRes rest)
        | [] => .missing
      out19 d model (sseRtMonitor es obs)
    | none => bad d
  | "sse.lines" :: r =>
    -- arbitrary LF-free lines, each with its own line end, optionally an unterminated rest (`e x<hex>`):
    -- the implementation scans the stream as framed and the same lines ended by LF
    match pMany pRawLine r with
    | (ls, tl) =>
      match (match tl with
        | [] => some []
        | ["e", x] => pHexTok "x" x
        | _ => none : Option Bytes) with
      | some rest =>
        let bytes := renderLines ls ++ rest
        let a := showScan (scanEvents bytes)
        let b := showScan (scanEvents (frame (ls.map (·.1)) ++ rest))
        let model := "x" ++ hexB bytes ++ " " ++ a ++ " | " ++ b
        let obs : LinesObs := match crashOf impl with
          | some c => .crash c
          | none => match impl.splitOn " | " with
            | [ia, ib] => .pair (pScanRes ((words ia).drop 1)) (pScanRes (words ib))
            | _ => .garbled
        out19 d model (sseLinesMonitor ls rest obs)
      | none => bad d
  | "sse.frn" :: r =>
    -- an event stream as a foreign peer frames it; the harness is that peer
    match (match pMany pFEvent r with | (es, []) => some es | _ => none : Option (List FEvent)) with
    | some es =>
      let bytes := renderStream es
      let model := "x" ++ hexB bytes ++ " " ++ showScan (scanEvents bytes)
      let obs : ScanObs := match crashOf impl with
        | some c => .crash c
        | none => match itoks with
          | _ :: rest => .res (pScanRes rest)
          | [] => .missing
      out19 d model (sseFrnMonitor es obs)
    | none => bad d
  | ["sse.spaces"] =>
    (d, { model := "x" ++ hexB (([9, 10, 11, 12, 13, 32] : Bytes) ++ spaceSeqs.flatten) })
  ----------------------------------------------------------------- content
  | "c.enc" :: r =>
    match pC r with
    | some (c, []) =>
      let obs : Option JVal := match pJ itoks with | some (ji, []) => some ji | _ => none
      out19 d (showJ (encodeContent c)) (cencMonitor obs)
    | _ => bad d
  | "c.res" :: r =>
    -- json.Marshal(&ResourceContents{…}); blob: "-" nil, else the base64 text of a non-nil slice
    match (do
        let (u, r) ← pStr r; let (mi, r) ← pStr r; let (t, r) ← pStr r
        let (b, r) ← (match r with
          | "-" :: r => some (none, r)
          | r => (pStr r).map (fun (x, r) => (some x, r)) : Option (Option Bytes × List String))
        let (m, r) ← pMeta r
        some (u, mi, t, b, m, r) : Option (Bytes × Bytes × Bytes × Option Bytes × Meta × List String)) with
    | some (u, mi, t, b, m, []) =>
      let obs : Option JVal := match pJ itoks with | some (ji, []) => some ji | _ => none
      out19 d (showJ (encodeResource u mi t b m)) (cresMonitor obs)
    | _ => bad d
  | "c.rt" :: ctx :: r =>
    match ctxOf ctx, pCList r with
    | some (sh, allow), some (cs, []) =>
      let j := encodeIn sh cs
      let res := decodeIn sh allow (some j)
      let model := showJ j ++ " | " ++ (match res with
        | .ok cs' => "ok " ++ showCList cs'
        | .error e => showCErr e)
      let obs : Option (Option (List Content)) := match impl.splitOn " | " with
        | [_, b] =>
          some (match words b with
            | "ok" :: r => (match pCList r with | some (cs', []) => some cs' | _ => none)
            | _ => none)
        | _ => none
      out19 d model (crtMonitor sh allow cs obs)
    | _, _ => bad d
  | "c.dec" :: ctx :: r =>
    match ctxOf ctx, pOJ r with
    | some (sh, allow), some (j, []) =>
      let model := match decodeIn sh allow j with
        | .ok cs => "ok " ++ showCList cs
        | .error e => showCErr e
      out19 d model (cdecMonitor ctx (isPanic impl))
    | _, _ => bad d
  | "c.fuzz" :: _ => outAny d "nopanic" (cfuzzMonitor (isPanic impl))
  | "r.rt" :: _ty :: r =>
    match pJ r with
    | some (j1, []) =>
      let obs : Option JVal := match pJ itoks with | some (ji, []) => some ji | _ => none
      out19 d (showJ j1) (rrtMonitor j1 obs)
    | _ => bad d
  | "r.call" :: _ver :: "err" :: [] => (d, { model := "error" })
  | "r.call" :: _ver :: r =>
    match (match r with
      | ["nilres"] => some ToolRet.nilResult
      | "res" :: r => (do
        let (c, r) ← (match r with
          | "nil" :: r => some (none, r)
          | r => (pCList r).map (fun (cs, r) => (some cs, r)) : Option (Option (List Content) × List String))
        let (sc, r) ← (match r with
          | "-" :: r => some (none, r)
          | "any" :: r => (pJ r).map (fun (v, r) => (some v, r))
          | "raw" :: r => (pJ r).map (fun (v, r) => (some v, r))
          | _ => none : Option (Option JVal × List String))
        let ie ← (match r with | ["0"] => some false | ["1"] => some true | _ => none : Option Bool)
        some (ToolRet.result c sc ie))
      | _ => none : Option ToolRet) with
    | some ret =>
      match sdkCallTool ret with
      | .errorInstead => (d, { model := "error" })
      | .sent ms =>
        -- the model prescribes content, structuredContent and isError; _meta / resultType (protocol
        -- version dependent) are taken from the implementation's result
        let names := [CallToolResult_Content_name, CallToolResult_StructuredContent_name, CallToolResult_IsError_name]
        let obs := pResObs impl
        let model := match obs with
          | .obj kvs => showJ (.obj (kvs.filter (fun p => !names.contains p.1) ++ ms))
          | _ => showJ (.obj ms)
        out19 d model (rcallMonitor ret obs)
    | none => bad d
  | "r.zero" :: method :: variant :: _ver =>
    -- variant: nil / empty / emptytext = what the handler left in the required list; nilres = the
    -- handler returned (nil, nil); an optional 4th token names the session's protocol generation
    match rkindOf method with
    | some k =>
      let nilres := variant == "nilres"
      let l : RList := if variant == "nil" then .nil else if nilres then .noResult else .items []
      match sdkResultList k l with
      | .errorInstead => (d, { model := "error" })
      | .sent lv =>
        -- the model describes the required list member only; the rest is taken from the implementation
        let obs := pResObs impl
        let model := match (match obs with | .obj kvs => some (JVal.obj kvs) | .val j => some j | _ => none : Option JVal) with
          | some ji =>
            let cur := getPath k.path ji
            let base := match ji with | .obj _ => ji | _ => .obj []
            (match lv, cur with
              | .arr [], some (.arr l) => showJ (setPath k.path (.arr l) base)   -- any array will do
              | lv, _ => showJ (setPath k.path lv base))
          | none => "result"
        out19 d model (rzeroMonitor k method nilres obs)
    | none => bad d
  ----------------------------------------------------------------- paged lists on a real session
  | ["r.pg.new", ps] =>
    match ps.toNat? with
    | some n => ({ d with pg := { ps := n } }, { model := "ok" })
    | none => bad d
  | "r.pg.add" :: method :: r =>
    match rkindOf method, pMany pStr r with
    | some k, (uids, []) =>
      if k.isListed then ({ d with pg := d.pg.set k (RegOp.apply (d.pg.get k) (.add uids)) }, { model := "ok" }) else bad d
    | _, _ => bad d
  | "r.pg.rm" :: method :: r =>
    match rkindOf method, pMany pStr r with
    | some k, (uids, []) =>
      if k.isListed then ({ d with pg := d.pg.set k (RegOp.apply (d.pg.get k) (.rm uids)) }, { model := "ok" }) else bad d
    | _, _ => bad d
  | ["r.pg.list", method, cur] =>
    -- the list member of the result AS WRITTEN ON THE WIRE: arr <n> <uids> nc <uid|-> / null / missing / error
    match rkindOf method, pCursor cur with
    | some k, some c =>
      if !k.isListed || (!k.isPaged && c != .first) then bad d else
      let keys := d.pg.get k
      let page := listReg k (fun u => .str u) keys d.pg.ps c
      let obs : PgObs := match itoks.head? with
        | some "null" => .null
        | some "missing" => .missing
        | some "other" => .notArray
        | _ => .fine
      out19 d (showPage page) (rpgMonitor k keys d.pg.ps c obs)
    | _, _ => bad d
  ----------------------------------------------------------------- ioConn
  | ["io.new", cap] =>
    match cap.toNat? with
    | some n => ({ pid := d.pid, also := d.also, io := { outCap := n }, mon := { outCap := n } }, { model := "ok" })
    | none => bad d
  | ["io.new", cap, "log"] =>
    match cap.toNat? with
    | some n => ({ pid := d.pid, also := d.also, io := { outCap := n }, mon := { outCap := n }, logging := true }, { model := "ok" })
    | none => bad d
  | ["io.log"] =>
    -- what the LoggingTransport wrote since the last `io.log`: `log <n> (r <J> | w <J> | re | we | !<hex>)*`
    if !d.logging then bad d else
    let showE : LogEntry → String
      | .read v => "r " ++ showJ v | .write v => "w " ++ showJ v | .readErr => "re" | .writeErr => "we"
    let model := " ".intercalate (["log", toString d.mlog.length] ++ d.mlog.map showE)
    let obs : LogObs := match itoks with
      | "log" :: n :: rest =>
        (match pLogEntries (rest.length + 1) rest [] with
          | some l => if n == toString l.length then .entries l else .other
          | none => .other)
      | _ => .other
    let (d', v) := out19 d model (logMonitor d.passed obs)
    ({ d' with mlog := [], passed := [] }, v)
  | "io.feed" :: r =>
    match pJ r with
    | some (w, []) => ({ d with io := { d.io with wire := d.io.wire ++ [w] }, mon := ioFeed d.mon w }, { model := "ok" })
    | _ => bad d
  | ["io.ver", f] =>
    ({ d with io := { d.io with noBatch := f == "1" }, mon := ioVer d.mon (f == "1") }, { model := "ok" })
  | ["io.eof"] => ({ d with eofFed := true }, { model := "ok" })
  | ["io.read"] =>
    -- the harness does not issue a Read that would block (nothing queued, nothing fed, input open)
    if d.io.queue.isEmpty && (d.eofSeen || (d.io.wire.isEmpty && !d.eofFed)) then (d, { model := "would-block" }) else
    let d := if d.io.queue.isEmpty && d.io.wire.isEmpty then { d with eofSeen := true } else d
    let (io', out) := opRead false d.io
    let q := io'.queue.length
    let model := match out with
      | .msg m => s!"msg {showMsg m} q{q}"
      | .err e => s!"err {showRErr e} q{q}"
    -- monitor (on the implementation's observation only)
    let (mon', verd) := ioRead d.mon (pReadObs impl)
    let viol := verd.select (pidOf d.pid) (d.also.contains "C03")
    let d := if d.logging then
        { d with mlog := d.mlog ++ [(logRead out).2],
                 passed := d.passed ++ (match pReadObs impl with
                   | .msg (some m) _ => [Passed.read m] | .err .. => [Passed.readErr] | _ => []) }
      else d
    ({ d with io := io', mon := mon' }, { model := model, violated := viol.map (clauseText d.pid) })
  | "io.cw" :: _pieces :: r =>
    -- several goroutines write at the same time; observed: the lines of the stream, sorted
    match pMany pMsg r with
    | (msgs, []) =>
      let (io', outs) := cwRun d.io msgs
      let lines := (cwLines outs).map showJ
      let sorted := (lines.toArray.qsort (fun a b => a < b)).toList
      let model := if outs.contains .panic then "panic"
        else " ".intercalate (["cw", toString sorted.length] ++ sorted)
      let obs : CwObs := match crashOf impl with
        | some c => .crash c
        | none =>
          match itoks with
          | "cw" :: n :: rest =>
            let rec go (fuel : Nat) (ts : List String) (acc : List (Option JVal)) : Option (List (Option JVal)) :=
              match fuel, ts with
              | _, [] => some acc.reverse
              | 0, _ => none
              | fuel + 1, t :: ts' =>
                if t.startsWith "!" then go fuel ts' (none :: acc)
                else match pJ (t :: ts') with
                  | some (v, r') => go fuel r' (some v :: acc)
                  | none => none
            (match go (rest.length + 1) rest [] with
              | some l => if n == toString l.length then .lines l else .other
              | none => .other)
          | _ => .other
      let mon' := { d.mon with mopen := msgs.foldl (fun o m => (monWrite o m).1) d.mon.mopen }
      let viol := if d.pid == "C19" then cwMonitor d.mon.outCap msgs obs else
        (match obs with | .crash _ => some .writePanic02 | _ => none)
      ({ d with io := io', mon := mon' }, { model := model, violated := viol.map (clauseText d.pid) })
    | _ => bad d
  | "mrtr.retry" :: _method :: st :: r =>
    -- `setMultiRoundTripRetryParams` on a request, then the params marshalled and decoded again:
    -- `<J inputResponses|-> <J requestState|-> | ok s<state> (s<key> <kind>)*` / `… | err`
    let rec entries (fuel : Nat) (ts : List String) (acc : List (Bytes × JVal)) : Option (List (Bytes × JVal)) :=
      match fuel, ts with
      | _, [] => some acc.reverse
      | 0, _ => none
      | fuel + 1, k :: _kind :: ts' =>
        (match pStr [k], pJ ts' with
          | some (k, []), some (v, r') => entries fuel r' ((k, v) :: acc)
          | _, _ => none)
      | _, _ => none
    match pStr [st], entries (r.length + 1) r [] with
    | some (state, []), some rs =>
      let showK : RespKind → String | .roots => "roots" | .elicit => "elicit" | .sampling => "sampling"
      let ps := retryParams [] rs state
      let model := showOJ (lookup retry_InputResponses_name ps) ++ " " ++ showOJ (lookup retry_RequestState_name ps) ++ " | " ++
        (match decodeRetry ps with
          | .ok (_, s) => " ".intercalate (["ok", "s" ++ hexB s] ++ (sortMembers rs).flatMap (fun p => ["s" ++ hexB p.1, showK (kindD p.2)]))
          | .error _ => "err")
      let obs : RetryObs := match impl.splitOn " | " with
        | [a, b] =>
          let (sr, ss) : Option JVal × Option JVal := match words a with
            | "-" :: rest => (none, match pJ rest with | some (v, []) => some v | _ => none)
            | ws => (match pJ ws with
              | some (v, rest) => (some v, match pJ rest with | some (w, []) => some w | _ => none)
              | none => (none, none))
          let back := match words b with
            | "ok" :: s :: ks =>
              (match pStr [s] with
                | some (s, []) =>
                  let rec kinds (fuel : Nat) (ts : List String) (acc : List (Bytes × RespKind)) : Option (List (Bytes × RespKind)) :=
                    match fuel, ts with
                    | _, [] => some acc.reverse
                    | 0, _ => none
                    | fuel + 1, k :: kd :: ts' =>
                      (match pStr [k], (match kd with | "roots" => some RespKind.roots | "elicit" => some .elicit | "sampling" => some .sampling | _ => none) with
                        | some (k, []), some kd => kinds fuel ts' ((k, kd) :: acc)
                        | _, _ => none)
                    | _, _ => none
                  (kinds (ks.length + 1) ks []).map (fun l => (l, s))
                | _ => none)
            | _ => none
          { sentResp := sr, sentState := ss, back := back }
        | _ => { sentResp := none, sentState := none, back := none }
      out19 d model (retryMonitor rs state obs)
    | _, _ => bad d
  | "caps.clone" :: _kind :: cells =>
    -- the cells set in the value (`<path>:m` a map or a pointee with members, `<path>:z` an empty pointee);
    -- observed: `cells <n> same <bool> aliased <k> ext <ok|aliased|not-stored>`
    let n := (cells.filter (fun t => t.endsWith ":m")).length
    let v : CSlots := (List.range n).map some
    let h : Heap := (List.range n).map (fun i => JVal.int (Int.ofNat i))
    let m := modelClone v h (.bool true)
    let model := s!"cells {n} same {m.same} aliased {m.aliased} ext ok"
    let obs : CloneObs := match itoks with
      | "cells" :: _ :: "same" :: sm :: "aliased" :: k :: "ext" :: e :: _ =>
        { same := sm == "true", aliased := k.toNat?.getD 1,
          ext := if e == "ok" then some true else if e == "not-stored" then some false else none }
      | _ => { same := false, aliased := 1, ext := none }
    out19 d model (cloneMonitor obs)
  | ["ann.rt", compat, dh, ih, oh, rh, title] =>
    -- `json.Marshal(ToolAnnotations{…})` under the default encoding (0) or MCPGODEBUG=hintomitempty=1 (1), then
    -- `json.Unmarshal`: `<J> | <d> <i> <o> <r> s<title>` (hints: t / f / -)
    let pOB : String → Option (Option Bool) | "-" => some none | "t" => some (some true) | "f" => some (some false) | _ => none
    let pB : String → Option Bool | "t" => some true | "f" => some false | _ => none
    let shOB : Option Bool → String | none => "-" | some true => "t" | some false => "f"
    let shA (a : ToolAnn) : String := s!"{shOB a.destructive} {shOB (some a.idempotent)} {shOB a.openWorld} {shOB (some a.readOnly)} s{hexB a.title}"
    match pOB dh, pB ih, pOB oh, pB rh, pStr [title] with
    | some d', some i', some o', some r', some (t', []) =>
      let a : ToolAnn := ⟨d', i', o', r', t'⟩
      let c := compat == "1"
      let model := showJ (encodeAnn c a) ++ " | " ++ (match decodeAnn (encodeAnn c a) with | .ok b => shA b | .error _ => "err")
      let obs : AnnObs := match impl.splitOn " | " with
        | [x, y] =>
          { written := (match pJ (words x) with | some (v, []) => some v | _ => none),
            back := (match words y with
              | [d2, i2, o2, r2, t2] => (match pOB d2, pB i2, pOB o2, pB r2, pStr [t2] with
                | some d2, some i2, some o2, some r2, some (t2, []) => some ⟨d2, i2, o2, r2, t2⟩
                | _, _, _, _, _ => none)
              | _ => none) }
        | _ => { written := none, back := none }
      out19 d model (annMonitor c a obs)
    | _, _, _, _, _ => bad d
  | ["ref.rt", t, n, u] =>
    -- `json.Marshal(&CompleteReference{…})`, then `json.Unmarshal` of the text: `refused <class>` / `ok <J> | ok s s s` / `ok <J> | err <class>`
    match pStr [t], pStr [n], pStr [u] with
    | some (t, []), some (n, []), some (u, []) =>
      let r : CRef := ⟨t, n, u⟩
      let model := match encodeRef r with
        | .error e => "refused " ++ showRefErr e
        | .ok v => "ok " ++ showJ v ++ " | " ++ (match decodeRef v with
          | .ok r' => showRef r' | .error e => "err " ++ showRefErr e)
      let obs : RefRtObs := match impl.splitOn " | " with
        | [a] => if a.startsWith "refused " then .refused else .other
        | [a, b] => (match pJ ((words a).drop 1), words b with
          | some (v, []), ["ok", t', n', u'] => (match pStr [t'], pStr [n'], pStr [u'] with
            | some (t', []), some (n', []), some (u', []) => .written v (some ⟨t', n', u'⟩)
            | _, _, _ => .other)
          | some (v, []), "err" :: _ => .written v none
          | _, _ => .other)
        | _ => .other
      out19 d model (refRtMonitor r obs)
    | _, _, _ => bad d
  | "ref.dec" :: r =>
    -- `json.Unmarshal` of a JSON value into a CompleteReference, then `json.Marshal` of the result
    match pJ r with
    | some (v, []) =>
      let model := match decodeRef v with
        | .error e => "err " ++ showRefErr e
        | .ok r => showRef r ++ " | " ++ (match encodeRef r with | .ok w => showJ w | .error e => "refused " ++ showRefErr e)
      let obs : RefDecObs := match impl.splitOn " | " with
        | [a] => if a.startsWith "err " then .rejected else .other
        | [a, b] => (match words a with
          | ["ok", t', n', u'] => (match pStr [t'], pStr [n'], pStr [u'] with
            | some (t', []), some (n', []), some (u', []) =>
              .accepted ⟨t', n', u'⟩ (match pJ (words b) with | some (w, []) => some w | _ => none)
            | _, _, _ => .other)
          | _ => .other)
        | _ => .other
      out19 d model (refDecMonitor obs)
    | _ => bad d
  | "io.write" :: r =>
    match pMsg r with
    | some (m, []) =>
      let (io', out) := opWrite d.io m
      let (mon', verd) := ioWrite d.mon m (pWriteObs impl)
      let viol := verd.selectWrite (pidOf d.pid)
      let d := if d.logging then
          { d with mlog := d.mlog ++ (logWrite m out).2.toList,
                   passed := d.passed ++ (if impl == "panic" || impl == "write-error" || impl == "hang" then [] else [Passed.write m]) }
        else d
      ({ d with io := io', mon := mon' }, { model := showWriteOut out, violated := viol.map (clauseText d.pid) })
    | _ => bad d
  | "nd.split" :: r =>
    -- `(x<value> x<separator>)*`: the bytes of a newline-delimited stream through the reader goroutine of the
    -- real `newIOConn`; observed: `n<k> x<value>* eof|trailing|other`
    match (match pMany (fun ts => match ts with
        | a :: b :: r => (do let v ← pHexTok "x" a; let w ← pHexTok "x" b; some ((v, w), r))
        | _ => none : P (Bytes × Bytes)) r with | (l, []) => some l | _ => none : Option (List (Bytes × Bytes))) with
    | some l =>
      let res := readStream (joinWs l)
      let showEnd : StreamEnd → String
        | .eof => "eof" | .trailing => "trailing" | .noValue => "other"
      let model := " ".intercalate ([s!"n{res.1.length}"] ++ res.1.map (fun v => "x" ++ hexB v) ++ [showEnd res.2])
      let obs : NdObs := match crashOf impl with
        | some c => .crash c
        | none =>
          match itoks with
          | hd :: rest =>
            let vals := rest.dropLast.filterMap (pHexTok "x")
            let fin : Option StreamEnd := match rest.getLast? with
              | some "eof" => some .eof | some "trailing" => some .trailing | some "other" => some .noValue | _ => none
            (match fin with
              | some f => if hd == s!"n{vals.length}" && vals.length + 1 == rest.length then .read vals f else .garbled
              | none => .garbled)
          | [] => .garbled
      out19 d model (ndSplitMonitor l obs)
    | none => bad d
  ----------------------------------------------------------------- frames through the other readers
  | "io.rb" :: r =>
    -- readBatch on its own
    match pJ r with
    | some (raw, []) =>
      let model := match readBatch raw with
        | .ok (ms, b) => s!"ok {ms.length} {if b then "batch" else "single"}"
        | .error e => "err " ++ showRErr e
      let obs : RbObs := if impl == "panic" then .panic
        else match itoks with
          | "ok" :: n :: _ => (match n.toNat? with | some n => .ok n | none => .other)
          | _ => .other
      out19 d model (rbMonitor raw obs)
    | _ => bad d
  | "h.post" :: path :: r =>
    -- the frame as the body of a POST to the streamable handler (stateless / stateful) or to the
    -- legacy SSE transport's message endpoint; observed: rejected as malformed, or anything else
    match pJ r with
    | some (raw, []) =>
      let malformed := if path == "sse" then (match decodeMsg raw with | .ok _ => false | .error _ => true)
        else (match readBatch raw with | .ok _ => false | .error _ => true)
      let model := if malformed then "malformed"
        else if impl == "malformed" || impl == "panic" || impl == "hang" then "accepted" else impl
      out19 d model (postMonitor path raw (crashOf impl))
    | _ => bad d
  | "live.io" :: ver :: r =>
    -- a real server session on an io transport (child process): initialize, the frame, a ping
    match pJ r with
    | some (raw, []) =>
      let s0 : IOState := { wire := [raw], noBatch := ver == "new" }
      let model := match (opRead false s0).2 with
        | .msg _ => "alive"
        | .err _ => "closed"
      out19 d model (liveIoMonitor raw (crashOf impl))
    | _ => bad d
  | "live.cli" :: kind :: r =>
    -- a real streamable client whose ping is answered with the frame as JSON body / as SSE event data
    match pJ r with
    | some (raw, []) =>
      let model := match decodeMsg raw with
        | .ok _ => "ok"
        | .error _ => "error"
      let obs : CliObs := match crashOf impl with
        | some c => .crash c
        | none => if impl == "error" then .error else .other
      let framing : Option String := if kind.startsWith "sse." then some (kind.drop 4).toString else none
      out19 d model (liveCliMonitor kind framing raw obs)
    | _ => bad d
  ----------------------------------------------------------------- decode fuzz of the protocol types
  | "r.fuzz" :: ty :: r =>
    match pJ r with
    | some (j, []) => out19 d "nopanic" (rfuzzMonitor ty j (isPanic impl))
    | _ => bad d
  | "r.case" :: ty :: path :: key :: jr =>
    -- one member name changed in case somewhere in a valid value of the type; the harness decodes that,
    -- the value without the member, and the value with the member under a foreign name: where the
    -- foreign name is ignored (a struct position) the case variant must be ignored as well
    let model := if impl.startsWith "map" then impl else "struct same"
    let name := ((pHexTok "s" key).bind (fun b => String.fromUTF8? (ByteArray.mk b.toArray))).getD "?"
    let obs : CaseObs := if impl == "panic" then .panic else if impl.startsWith "struct differ" then .structDiffer else .other
    let idx := (path.splitOn ".").filterMap String.toNat?
    let j : Option JVal := match pJ jr with | some (j, []) => some j | _ => none
    out19 d model (rcaseMonitor ty name j idx obs)
  | "r.irm" :: r =>
    match pJ r with
    | some (j, []) =>
      let model := match decodeInputRequests j with
        | .ok l => " ".intercalate ("ok" :: (sortMembers (dedupLast (l.map (fun p => (p.1, JVal.str p.2))))).flatMap (fun p => [hexB p.1, showJ p.2]))
        | .error _ => "err"
      let obs : IrmObs := if impl == "panic" then .panic else if impl.startsWith "ok" then .ok else .other
      out19 d model (rirmMonitor j obs)
    | _ => bad d
  | _ => bad d

def engine (pid : String) (also : List String := []) : Engine DState where
  init := { pid := pid, also := also }
  step := stepWire

end Wire

def main (args : List String) : IO Unit :=
  Proto.run (Wire.engine (args.head?.getD "C19") (args.drop 1))
