import McpModel.Base.Proto
import McpModel.Wire.Sse
import McpModel.Wire.Result
import McpModel.Wire.Spell
import McpModel.Wire.Input
/-!
Driver for E2 `Wire` (C19, and the id / batch streams of C02).

Every harness record is one operation on one of the pure functions of the model (`enc`, `dec`,
`werr`, `idecho`, `sse.*`, `c.*`, `r.*`) or one label of the `ioConn` machine (`io.*`).  The driver
computes the model's observation in the same canonical token form and evaluates the property
monitors on the IMPLEMENTATION's observation.  Monitors are selected by the first command-line
argument (`C19` default, `C02`), clause texts carry the property id; further arguments name
properties the same stream serves as well (`C02 C03`: the batch stream also judges the order in which
`Read` hands the messages of a batch out, clause prefix `C03:`).

Frame ops (`io.feed`, `io.rb` = readBatch alone, `h.post <stateless|stateful|sse>` = the frame as a
POST body, `live.io <old|new>` = a real server session on an io transport, `live.cli <json|sse>` = a
real streamable client answered with the frame) take a JSON value and an optional trailing layout
token `L<k>` (white space the harness put into the text; not modelled).  An implementation
observation `panic` / `hang` of any of them is a `decode_total` violation naming the reader and the
frame.  `r.fuzz` / `r.case` are the structured decode fuzz of the protocol types (no panic; a member
name in another case is ignored wherever a foreign member name is), `r.irm` compares
`InputRequestMap.UnmarshalJSON` with `decodeInputRequests`.

`sse.frn ( <s<key> s<pad> x<value> <l|c>>* ) <l|c> …` is an event stream as a FOREIGN peer frames it (the
harness writes it: per line LF or CRLF, comments = empty key, any field order, several data lines): the
monitor `sse_roundtrip_any_eol` compares the implementation's scan with what the stream denotes
(`FEvent.denote`).  `sse.lines <x<line> <l|c>>* [e x<rest>]` scans arbitrary LF-free lines as framed
and again ended by LF: `sse_eol_irrelevant` demands equal scans.  `live.cli sse.<framing>` answers a live
streamable client in one of the harness' foreign framings (a valid response must be accepted).
`r.pg.new <pagesize>` / `r.pg.add|rm <method> s<uid>…` / `r.pg.list <method> <-|c<uid>|g<string>>` drive a
real server + session; the driver keeps the registries (sorted keys) and `listPage` gives the page; the
observation is the list member AS WRITTEN (`arr n uids nc uid` / `null` / `missing` / `error`), judged by
`required_lists_present` with the cursor's position in the clause.

Token forms (blank-separated): JVal `z t f i<int> d<m>e<e> s<hex> a[ … ] o{ <hexkey> v … }`
(object members sorted by key; a string or a member name may instead be `q<hex of the literal's body>`:
the spelling a foreign peer put on the wire, which the driver turns into the string it denotes with the
model's `unquote`); Id `- i<n> s<hex>`; Msg `req <id> s<method> <params|->` /
`resp <id> <result|-> <err|->` with err `e<code> s<msg> <data|->`.
-/
namespace Wire
open Proto Generated.Wire

/-! ## printing -/

def hexB (b : Bytes) : String := bytesToHex b

def bytesLt : Bytes → Bytes → Bool
  | [], [] => false
  | [], _ => true
  | _, [] => false
  | a :: as, b :: bs => if a < b then true else if a > b then false else bytesLt as bs

def insertSorted (p : Bytes × JVal) : List (Bytes × JVal) → List (Bytes × JVal)
  | [] => [p]
  | q :: t => if bytesLt p.1 q.1 then p :: q :: t else q :: insertSorted p t

def sortMembers (l : List (Bytes × JVal)) : List (Bytes × JVal) := l.foldl (fun acc p => insertSorted p acc) []

/-- last-wins de-duplication (objects the model builds never have duplicates; inputs might) -/
def dedupLast : List (Bytes × JVal) → List (Bytes × JVal)
  | [] => []
  | (k, v) :: t => if t.any (fun q => q.1 = k) then dedupLast t else (k, v) :: dedupLast t

partial def showJ : JVal → String
  | .null => "z"
  | .bool true => "t"
  | .bool false => "f"
  | .int n => s!"i{n}"
  | .dec m e => s!"d{m}e{e}"
  | .str s => "s" ++ hexB s
  | .arr l => " ".intercalate (["a["] ++ l.map showJ ++ ["]"])
  | .obj kvs => " ".intercalate (["o{"] ++ (sortMembers (dedupLast kvs)).flatMap (fun p => [hexB p.1, showJ p.2]) ++ ["}"])

def showOJ : Option JVal → String
  | none => "-"
  | some v => showJ v

def showId : Id → String
  | .none => "-"
  | .int n => s!"i{n}"
  | .str s => "s" ++ hexB s

def showErr : Option WErr → String
  | none => "-"
  | some e => s!"e{e.code} s{hexB e.message} {showOJ e.data}"

def showMsg : Msg → String
  | .request id m p => s!"req {showId id} s{hexB m} {showOJ p}"
  | .response id r e => s!"resp {showId id} {showOJ r} {showErr e}"

def showDErr (e : DErr) : String :=
  let cls := match e with
    | .unmarshal => "unmarshal" | .version => "version" | .idType => "idtype" | .noId => "noid"
  s!"err {e.code} {cls}"

/-! ## parsing -/

abbrev P (α : Type) := List String → Option (α × List String)

def pHexTok (pre : String) (t : String) : Option Bytes :=
  if t.startsWith pre then hexToBytes (t.drop pre.length).toString else none

partial def pJ : P JVal
  | [] => none
  | t :: rest =>
    if t == "z" then some (.null, rest)
    else if t == "t" then some (.bool true, rest)
    else if t == "f" then some (.bool false, rest)
    else if t == "a[" then
      let rec items (acc : List JVal) : P JVal
        | "]" :: r => some (.arr acc.reverse, r)
        | ts => match pJ ts with
          | some (v, r) => items (v :: acc) r
          | none => none
      items [] rest
    else if t == "o{" then
      let rec mems (acc : List (Bytes × JVal)) : P JVal
        | "}" :: r => some (.obj acc.reverse, r)
        | k :: ts =>
          let key : Option Bytes := if k.startsWith "q" then (pHexTok "q" k).bind unquote else hexToBytes k
          match key, pJ ts with
          | some kb, some (v, r) => mems ((kb, v) :: acc) r
          | _, _ => none
        | [] => none
      mems [] rest
    else if t.startsWith "i" then (t.drop 1).toString.toInt?.map (fun n => (.int n, rest))
    else if t.startsWith "d" then
      match (t.drop 1).toString.splitOn "e" with
      | [m, e] => match m.toInt?, e.toInt? with
        | some m, some e => some (.dec m e, rest)
        | _, _ => none
      | _ => none
    else if t.startsWith "s" then (pHexTok "s" t).map (fun b => (.str b, rest))
    else if t.startsWith "q" then ((pHexTok "q" t).bind unquote).map (fun b => (.str b, rest))
    else none

/-- apply `p` until it fails; returns what was parsed and the rest -/
partial def pMany {α : Type} (p : P α) (ts : List String) (acc : List α := []) : List α × List String :=
  match p ts with
  | some (v, r) => pMany p r (v :: acc)
  | none => (acc.reverse, ts)

def pOJ : P (Option JVal)
  | "-" :: r => some (none, r)
  | ts => (pJ ts).map (fun (v, r) => (some v, r))

def pId : P Id
  | "-" :: r => some (.none, r)
  | t :: r =>
    if t.startsWith "i" then (t.drop 1).toString.toInt?.map (fun n => (.int n, r))
    else if t.startsWith "s" then (pHexTok "s" t).map (fun b => (.str b, r))
    else none
  | [] => none

def pStr : P Bytes
  | t :: r => (pHexTok "s" t).map (fun b => (b, r))
  | [] => none

def pErr : P (Option WErr)
  | "-" :: r => some (none, r)
  | t :: r =>
    if t.startsWith "e" then do
      let code ← (t.drop 1).toString.toInt?
      let (msg, r) ← pStr r
      let (d, r) ← pOJ r
      some (some { code := code, message := msg, data := d }, r)
    else none
  | [] => none

def pMsg : P Msg
  | "req" :: r => do
    let (id, r) ← pId r
    let (m, r) ← pStr r
    let (p, r) ← pOJ r
    some (.request id m p, r)
  | "resp" :: r => do
    let (id, r) ← pId r
    let (res, r) ← pOJ r
    let (e, r) ← pErr r
    some (.response id res e, r)
  | _ => none

partial def pGoErr : P GoErr
  | "W" :: t :: r =>
    if t.startsWith "e" then do
      let code ← (t.drop 1).toString.toInt?
      let (msg, r) ← pStr r
      let (d, r) ← pOJ r
      some (.wire { code := code, message := msg, data := d }, r)
    else none
  | "E" :: r => do
    let (msg, r) ← pStr r
    match r with
    | "(" :: r =>
      let rec kids (acc : List GoErr) : P GoErr
        | ")" :: r => some (.other msg acc.reverse, r)
        | ts => match pGoErr ts with
          | some (e, r) => kids (e :: acc) r
          | none => none
      kids [] r
    | _ => none
  | _ => none

/-! ## content tokens -/

def showMeta (m : Meta) : String := showJ (.obj m)

partial def showC : Content → String
  | .text t m a => s!"T s{hexB t} {showMeta m} {showOJ a}"
  | .image d mi m a => s!"I s{hexB d} s{hexB mi} {showMeta m} {showOJ a}"
  | .audio d mi m a => s!"A s{hexB d} s{hexB mi} {showMeta m} {showOJ a}"
  | .link u n t d mi sz m a ic =>
    let szs := match sz with | none => "-" | some n => s!"i{n}"
    s!"L s{hexB u} s{hexB n} s{hexB t} s{hexB d} s{hexB mi} {szs} {showMeta m} {showOJ a} {showJ (.arr ic)}"
  | .resource r m a => s!"R {showOJ r} {showMeta m} {showOJ a}"
  | .toolUse id n inp m => s!"U s{hexB id} s{hexB n} {showMeta inp} {showMeta m}"
  | .toolResult tid cs st ie m =>
    let inner := " ".intercalate (["("] ++ cs.map showC ++ [")"])
    s!"X s{hexB tid} {inner} {showOJ st} {if ie then "1" else "0"} {showMeta m}"

def pMeta : P Meta := fun ts => match pJ ts with
  | some (.obj kvs, r) => some (kvs, r)
  | _ => none

def pArr : P (List JVal) := fun ts => match pJ ts with
  | some (.arr l, r) => some (l, r)
  | _ => none

partial def pC : P Content
  | "T" :: r => do
    let (t, r) ← pStr r; let (m, r) ← pMeta r; let (a, r) ← pOJ r
    some (.text t m a, r)
  | "I" :: r => do
    let (d, r) ← pStr r; let (mi, r) ← pStr r; let (m, r) ← pMeta r; let (a, r) ← pOJ r
    some (.image d mi m a, r)
  | "A" :: r => do
    let (d, r) ← pStr r; let (mi, r) ← pStr r; let (m, r) ← pMeta r; let (a, r) ← pOJ r
    some (.audio d mi m a, r)
  | "L" :: r => do
    let (u, r) ← pStr r; let (n, r) ← pStr r; let (t, r) ← pStr r; let (d, r) ← pStr r; let (mi, r) ← pStr r
    let (sz, r) ← (match r with
      | "-" :: r => some (none, r)
      | t :: r => if t.startsWith "i" then (t.drop 1).toString.toInt?.map (fun n => (some n, r)) else none
      | [] => none : Option (Option Int × List String))
    let (m, r) ← pMeta r; let (a, r) ← pOJ r; let (ic, r) ← pArr r
    some (.link u n t d mi sz m a ic, r)
  | "R" :: r => do
    let (res, r) ← pOJ r; let (m, r) ← pMeta r; let (a, r) ← pOJ r
    some (.resource res m a, r)
  | "U" :: r => do
    let (id, r) ← pStr r; let (n, r) ← pStr r; let (inp, r) ← pMeta r; let (m, r) ← pMeta r
    some (.toolUse id n inp m, r)
  | "X" :: r => do
    let (tid, r) ← pStr r
    match r with
    | "(" :: r =>
      let rec kids (acc : List Content) : P (List Content)
        | ")" :: r => some (acc.reverse, r)
        | ts => match pC ts with
          | some (c, r) => kids (c :: acc) r
          | none => none
      let (cs, r) ← kids [] r
      let (st, r) ← pOJ r
      let (ie, r) ← (match r with
        | "0" :: r => some (false, r)
        | "1" :: r => some (true, r)
        | _ => none : Option (Bool × List String))
      let (m, r) ← pMeta r
      some (.toolResult tid cs st ie m, r)
    | _ => none
  | _ => none

def pCList : P (List Content)
  | "(" :: r =>
    match pMany pC r with
    | (cs, ")" :: r) => some (cs, r)
    | _ => none
  | _ => none

def showCList (cs : List Content) : String := " ".intercalate (["("] ++ cs.map showC ++ [")"])

def showCErr : CErr → String
  | .unmarshal => "err unmarshal"
  | .nilContent => "err nil"
  | .notAllowed => "err notallowed"
  | .unrecognized => "err unrecognized"

/-! ## SSE tokens -/

def pEvent : P Event := fun ts => do
  let (n, r) ← pStr ts; let (i, r) ← pStr r; let (rt, r) ← pStr r; let (d, r) ← pStr r
  some ({ name := n, id := i, retry := rt, data := d }, r)

def showEvent (e : Event) : String := s!"s{hexB e.name} s{hexB e.id} s{hexB e.retry} s{hexB e.data}"

def showScan (r : List Event × Bool) : String :=
  " ".intercalate ([s!"ev{r.1.length}"] ++ r.1.map showEvent ++ [if r.2 then "malformed" else "ok"])

/-! ## foreign SSE framing, paged lists: parsing and describing -/

def pEol : P Eol
  | "l" :: r => some (.lf, r)
  | "c" :: r => some (.crlf, r)
  | _ => none

/-- `x<hex> <l|c>` -/
def pRawLine : P (Bytes × Eol) := fun ts =>
  match ts with
  | t :: r => do
    let b ← pHexTok "x" t
    let (e, r) ← pEol r
    some ((b, e), r)
  | [] => none

/-- `s<key> s<pad> x<val> <l|c>` -/
def pFLine : P FLine := fun ts => do
  let (k, r) ← pStr ts
  let (pad, r) ← pStr r
  match r with
  | t :: r => do
    let v ← pHexTok "x" t
    let (e, r) ← pEol r
    some ({ key := k, pad := pad, val := v, eol := e }, r)
  | [] => none

/-- `( <line>* ) <l|c>` -/
def pFEvent : P FEvent
  | "(" :: r =>
    match pMany pFLine r with
    | (ls, ")" :: r) => (pEol r).map (fun (e, r) => ({ lines := ls, endEol := e }, r))
    | _ => none
  | _ => none

def eolMix (es : List Eol) : String :=
  if es.all (· == .lf) then "every line ended by LF"
  else if es.all (· == .crlf) then "every line ended by CRLF"
  else "lines ended by a mix of LF and CRLF"

def fstreamEols (es : List FEvent) : List Eol := es.flatMap (fun e => e.lines.map (·.eol) ++ [e.endEol])

/-- what a foreign stream exercises, for the clause text -/
def fstreamFeatures (es : List FEvent) : String :=
  let ls := es.flatMap (·.lines)
  let has (p : FLine → Bool) := ls.any p
  ", ".intercalate ([eolMix (fstreamEols es)] ++
    (if has (fun l => l.key == []) then ["comment lines"] else []) ++
    (if es.any (fun e => (e.lines.filter (fun l => l.key == sse_dataKey)).length > 1) then ["data over several lines"] else []) ++
    (if has (fun l => l.key == sse_retryKey) then ["retry lines"] else []) ++
    (if has (fun l => !sseKeys.contains l.key && l.key != []) then ["unknown fields"] else []) ++
    (if has (fun l => sseKeys.contains l.key && l.pad != [32]) then ["no or several blanks after the colon"] else []))

structure PgState where
  ps : Nat := 1
  tools : List Bytes := []
  prompts : List Bytes := []
  resources : List Bytes := []
  templates : List Bytes := []
deriving Inhabited

def PgState.get (p : PgState) : RKind → List Bytes
  | .listTools => p.tools
  | .listPrompts => p.prompts
  | .listResources => p.resources
  | .listResourceTemplates => p.templates
  | _ => []

def PgState.set (p : PgState) (k : RKind) (l : List Bytes) : PgState :=
  match k with
  | .listTools => { p with tools := l }
  | .listPrompts => { p with prompts := l }
  | .listResources => { p with resources := l }
  | .listResourceTemplates => { p with templates := l }
  | _ => p

def pCursor : String → Option Cursor
  | "-" => some .first
  | t =>
    if t.startsWith "c" then (pHexTok "c" t).map .after
    else if t.startsWith "g" then (pHexTok "g" t).map (fun b => if b == [] then .first else .garbage)
    else none

/-- where a cursor stands relative to the registry, for the clause text -/
def cursorPos (keys : List Bytes) : Cursor → String
  | .first => "a request without cursor"
  | .garbage => "a cursor that does not decode"
  | .after uid =>
    let n := keys.length
    let below := (keys.filter (fun k => !keyLt uid k)).length   -- keys not above uid
    if n == 0 then "a well-formed cursor against an empty registry"
    else if below == n then
      (if keys.getLast? == some uid then s!"a cursor naming the last of {n} keys (nothing above it: the page is empty)"
       else s!"a cursor naming a uid beyond the last of {n} keys (the page is empty)")
    else if keys.contains uid then s!"a cursor naming key {below} of {n}"
    else if below == 0 then s!"a cursor naming a uid below the first of {n} keys"
    else s!"a cursor naming a uid between keys {below} and {below + 1} of {n}"

def showPage (r : ROut × Option Bytes) : String :=
  match r.1 with
  | .errorInstead => "error"
  | .sent (.arr items) =>
    " ".intercalate (["arr", toString items.length] ++ items.map (fun v => match v with | .str b => "s" ++ hexB b | _ => "?") ++
      ["nc", match r.2 with | some u => "s" ++ hexB u | none => "-"])
  | .sent _ => "null"

def memberName (k : RKind) : String :=
  match k with
  | .listTools => "tools" | .listPrompts => "prompts" | .listResources => "resources"
  | .listResourceTemplates => "resourceTemplates" | _ => "?"

/-! ## monitors -/

def two53 : Int := 9007199254740992

/-- no member name occurs twice (the generators never produce duplicates; the monitors keep to that) -/
def noDupKeys : JVal → Bool
  | .obj kvs => (kvs.map (·.1)).eraseDups.length = kvs.length &&
      (match lookup wireDecode_Error_name kvs with
        | some (.obj e) => (e.map (·.1)).eraseDups.length = e.length
        | _ => true)
  | _ => true

/-- The projections named by C19 of two wire objects agree; returns the first differing member. -/
def wireDiff (w w' : JVal) : Option String :=
  match proj w, proj w' with
  | some a, some b =>
    if a.id != b.id then some "id"
    else if a.method != b.method then some "method"
    else if a.params != b.params then some "params"
    else if a.result != b.result then some "result"
    else if a.errCode != b.errCode then some "error.code"
    else if a.errMessage != b.errMessage then some "error.message"
    else if a.errData != b.errData then some "error.data"
    else if a.tag != b.tag then some "jsonrpc"
    else none
  | _, _ => some "shape"

def bigInt : Option JVal → Bool
  | some (.int n) => n > two53 || n < -two53
  | _ => false

/-- Does a message (as the implementation reports it) carry the members of wire value `w`? -/
def msgMatchesWire (m : Msg) (w : JVal) : Bool := (wireDiff w (encodeMsg m)).isNone

def cleanField (v : Bytes) : Bool := trim v = v && !v.contains LF

def cleanEvent (e : Event) : Bool :=
  cleanField e.name && cleanField e.id && cleanField e.retry && cleanField e.data && !e.isEmpty

/-- Is a failure of `reqOK` located inside a nested `content` array (the F8 shape)? -/
def reqTopOK : JVal → Bool
  | .obj kvs =>
    let ty := lookup wireContent_Type_name kvs
    (if ty = some (.str kText) then isStr (lookup wireContent_Text_name kvs) else true) &&
    (if ty = some (.str kImage) ∨ ty = some (.str kAudio) then isStr (lookup wireContent_Data_name kvs) else true) &&
    (if ty = some (.str kToolResult) then hasArr kvs else true)
  | _ => true

/-- every embedded resource of a content block (and of the blocks nested in it) is `resourceOK` -/
partial def embeddedOK : JVal → Bool
  | .obj kvs =>
    (match lookup wireContent_Type_name kvs, lookup wireContent_Resource_name kvs with
      | some (.str ty), some r => if ty = kResource then resourceOK r else true
      | _, _ => true) &&
    (match lookup wireContent_NestedContent_name kvs with
      | some (.arr l) => l.all embeddedOK
      | _ => true)
  | _ => true

def f23Clause : String := "required_members_present: resource contents carry neither text nor blob (F23)"

/-! ## contexts in which content is decoded -/

inductive Shape where | one | list | oneOrMany
deriving DecidableEq

def ctxOf : String → Option (Shape × Option (List Bytes))
  | "tool" => some (.list, allowCallToolResult)
  | "prompt" => some (.one, allowPromptMessage)
  | "samp" => some (.one, allowSamplingMessage)
  | "sampv2" => some (.oneOrMany, allowSamplingMessageV2)
  | "cmr" => some (.one, allowCreateMessageResult)
  | "cmwt" => some (.oneOrMany, allowCreateMessageWithToolsResult)
  | _ => none

/-- decode the `content` member of a wrapper in context `ctx` -/
def decodeIn (sh : Shape) (allow : Option (List Bytes)) (j : Option JVal) : Except CErr (List Content) :=
  match sh with
  | .one => match j with
    | none => .error .nilContent
    | some v => (decodeContent allow v).map ([·])
  | .list => match j with
    | none => .ok []
    | some v => decodeContentList allow v
  | .oneOrMany => unmarshalContent allow j

/-- encode the `content` member of a wrapper (SamplingMessageV2 / CreateMessageWithToolsResult
write a single block as an object) -/
def encodeIn (sh : Shape) (cs : List Content) : JVal :=
  match sh, cs with
  | .oneOrMany, [c] => encodeContent c
  | .one, [c] => encodeContent c
  | _, cs => .arr (encodeContents cs)

def rkindOf : String → Option RKind
  | "tools/list" => some .listTools
  | "prompts/list" => some .listPrompts
  | "resources/list" => some .listResources
  | "resources/templates/list" => some .listResourceTemplates
  | "roots/list" => some .listRoots
  | "tools/call" => some .callTool
  | "prompts/get" => some .getPrompt
  | "completion/complete" => some .complete
  | "resources/read" => some .readResource
  | _ => none

def setPath : List Bytes → JVal → JVal → JVal
  | [], v, _ => v
  | k :: t, v, .obj kvs =>
    let cur := (lookup k kvs).getD (.obj [])
    .obj (kvs.filter (fun p => p.1 ≠ k) ++ [(k, setPath t v cur)])
  | _, _, j => j

/-! ## ioConn monitor state (independent of the model state) -/

structure MBatch where
  slots : Slots
  hasNotif : Bool := false

structure DState where
  pid : String := "C19"
  also : List String := []         -- further properties this stream serves (the batch stream: C03)
  io : IOState := {}
  -- monitor
  mwire : List JVal := []          -- frames fed, not yet taken
  mopen : List MBatch := []        -- accepted batches with unanswered calls
  mexpect : List JVal := []        -- elements of the accepted frame still to be returned by Read
  mnoBatch : Bool := false
  eofFed : Bool := false           -- harness closed the input after the fed frames
  eofSeen : Bool := false          -- Read has reported the end of the stream
  pg : PgState := {}               -- paged lists: the registries of the server under test

def frameElems : JVal → Option (List JVal × Bool)
  | .arr l => some (l, true)
  | v => some ([v], false)

def isCallW : JVal → Option Id
  | .obj kvs => match lookup wireDecode_Method_name kvs, lookup wireDecode_ID_name kvs with
    | some _, some (.int n) => some (.int n)
    | some _, some (.str s) => some (.str s)
    | _, _ => none
  | _ => none

def isNotifW : JVal → Bool
  | .obj kvs => (lookup wireDecode_Method_name kvs).isSome &&
      (match lookup wireDecode_ID_name kvs with | none => true | some .null => true | _ => false)
  | _ => false

def wellFormedBatch (d : DState) (elems : List JVal) : Bool :=
  let calls := elems.filterMap isCallW
  elems ≠ [] && elems.all (fun e => validWire e && noDupKeys e) && calls.eraseDups.length = calls.length &&
  calls.all (fun c => d.mopen.all (fun b => !slotPending b.slots c))

def showWriteOut : WriteOut → String
  | .nothing => "nothing"
  | .single v => "single " ++ showJ v
  | .array vs => " ".intercalate ("array" :: vs.map showJ)
  | .panic => "panic"

def showRErr : RErr → String
  | .decode e => "decode " ++ showDErr e
  | .emptyBatch => "emptybatch"
  | .noBatching => "nobatching"
  | .dupInBatch => "dup"
  | .seenId => "seen"
  | .eof => "eof"

/-- monitor step for a message written through `ioConn.Write`: what the abstract spec (`specWrite`,
the one `batch_exactly_once` is proved against) expects; also whether the batch concerned held a
notification (to name F2). -/
def monWrite (open_ : List MBatch) (msg : Msg) : List MBatch × SOut × Bool :=
  let (sp', out) := specWrite (open_.map (·.slots)) msg
  let hasNotif := match msg with
    | .response id _ _ => ((open_.find? (fun b => slotPending b.slots id)).map (·.hasNotif)).getD false
    | _ => false
  -- re-attach the flags: a closed batch disappears, a filled one keeps its place
  let open' : List MBatch :=
    if sp'.length = open_.length then (List.zip sp' open_).map (fun p => { p.2 with slots := p.1 })
    else match msg with
      | .response id _ _ =>
        let rec drop : List MBatch → List MBatch
          | [] => []
          | b :: t => if slotPending b.slots id then t else b :: drop t
        drop open_
      | _ => open_
  (open', out, hasNotif)

def pfx (d : DState) (s : String) : String := d.pid ++ ": " ++ s

/-- monitor for a user handler that returned `(nil, nil)`: what must not happen (wire-F30) -/
def nilResultViol (d : DState) (method impl : String) : Option String :=
  if d.pid != "C19" then none
  else if impl == "z" then
    some (pfx d s!"required_members_present: the {method} handler returned (nil, nil) and \"result\":null was sent: no required member at all (wire-F30)")
  else if impl == "panic" then
    some (pfx d s!"required_members_present: the {method} handler returned (nil, nil) and the server process panicked (wire-F30)")
  else some (pfx d s!"required_members_present: the {method} handler returned (nil, nil): no result with its required members was sent")

def lastTok (s : String) : String := ((words s).getLast?).getD ""

/-- the trailing layout token `L<k>` of a frame op (how the harness laid the JSON text out: blanks,
tabs, CRLF, line breaks inside — insignificant white space, which the model does not see) -/
def stripLayout (toks : List String) : List String :=
  match toks.getLast? with
  | some t =>
    if t.startsWith "L" && t.length > 1 && (t.drop 1).toString.all Char.isDigit then toks.dropLast else toks
  | none => toks

def frameOps : List String := ["io.feed", "io.rb", "h.post", "live.io", "live.cli"]

/-- the monitor's "is this message that wire element" -/
def sameMsgWire (m : Msg) (e : JVal) : Bool := validWire e && (wireDiff e (encodeMsg m)).isNone

def orderClause : String := "ioConn.Read returned the messages of a batch out of the order in which they were written"

def lowerB (b : UInt8) : UInt8 := if 65 ≤ b && b ≤ 90 then b + 32 else b

/-- `k` is not `name` but equals it when case is ignored -/
def caseVariant (name k : Bytes) : Bool := k != name && k.map lowerB == name.map lowerB

/-- some `inputRequests` member somewhere in the value has a `null` entry -/
partial def hasNullInputRequest : JVal → Bool
  | .obj kvs => kvs.any (fun p =>
      (p.1 == CallToolResult_InputRequests_name && (match p.2 with | .obj es => es.any (fun e => e.2 == .null) | _ => false)) ||
      hasNullInputRequest p.2)
  | .arr l => l.any hasNullInputRequest
  | _ => false

/-- the member names on the way to the node a path (child indices) points to -/
def pathKeys : JVal → List Nat → List Bytes
  | _, [] => []
  | .obj kvs, i :: t => match kvs[i]? with
    | some (k, v) => k :: pathKeys v t
    | none => []
  | .arr l, i :: t => match l[i]? with
    | some v => pathKeys v t
    | none => []
  | _, _ => []

def inputResponsesName : Bytes := [105, 110, 112, 117, 116, 82, 101, 115, 112, 111, 110, 115, 101, 115]

def f32Null : String := "decode_total: InputRequestMap.UnmarshalJSON panicked on a null entry of inputRequests (nil entry dereferenced, F32)"

/-! ## the engine -/

def bad (d : DState) : DState × Verdict := (d, { model := "bad-op" })

def stepWire (d : DState) (toks : List String) (impl : String) : DState × Verdict :=
  let itoks := words impl
  let toks := match toks with
    | k :: r => if frameOps.contains k then k :: stripLayout r else toks
    | [] => toks
  match toks with
  | ["reset"] => ({ pid := d.pid, also := d.also }, { model := "ok" })
  ----------------------------------------------------------------- message codec
  | "encdec" :: r =>
    match pMsg r with
    | some (m, []) =>
      let j := encodeMsg m
      let back := match decodeMsg j with
        | .ok m' => "ok " ++ showMsg m'
        | .error e => showDErr e
      let model := showJ j ++ " | " ++ back
      -- monitor: the implementation's own decode of its own encoding gives the message back
      let viol :=
        if d.pid == "C19" && wfMsg m then
          match impl.splitOn " | " with
          | [_, b] => if b == "ok " ++ showMsg m then none
              else if bigInt (encodeId m.id) then some (pfx d "decode_encode_msg: integer id beyond 2^53 altered by decoding the encoded message (F1)")
              else some (pfx d "decode_encode_msg: decoding the encoded message does not give the message back")
          | _ => some (pfx d "decode_encode_msg: no encoding produced for a well-formed message")
        else none
      (d, { model := model, violated := viol })
    | _ => bad d
  | "decenc" :: r =>
    match pJ r with
    | some (w, []) =>
      let (model, _) := match decodeMsg w with
        | .ok m => ("ok " ++ showMsg m ++ " | " ++ showJ (encodeMsg m), some m)
        | .error e => (showDErr e ++ " | -", none)
      -- a response (no "method") without id must be rejected
      let respNoId : Bool := match w with
        | .obj kvs => noDupKeys w && lookup wireDecode_VersionTag_name kvs == some (.str wireVersion) &&
            (lookup wireDecode_Method_name kvs).isNone && (lookup wireDecode_ID_name kvs).isNone &&
            validErr (lookup wireDecode_Error_name kvs)
        | _ => false
      let viol :=
        if d.pid == "C19" && respNoId then
          (if impl.startsWith "ok " then some (pfx d "response_needs_id: a response without id is accepted by DecodeMessage") else none)
        else if d.pid == "C19" && validWire w && noDupKeys w then
          match impl.splitOn " | " with
          | [a, b] =>
            if !a.startsWith "ok " then some (pfx d "encode_decode_preserves: a valid wire message is rejected by DecodeMessage")
            else match pJ (words b) with
              | some (w', []) =>
                match wireDiff w w' with
                | none => none
                | some "id" =>
                  let idw := match w with | .obj kvs => lookup wireDecode_ID_name kvs | _ => none
                  if bigInt idw then some (pfx d "encode_decode_preserves: integer id beyond 2^53 altered by decode→encode (F1)")
                  else some (pfx d "encode_decode_preserves: id not preserved by decode→encode")
                | some f => some (pfx d s!"encode_decode_preserves: member {f} not preserved by decode→encode")
              | _ => some (pfx d "encode_decode_preserves: re-encoding failed")
          | _ => some (pfx d "bad-observation")
        else none
      (d, { model := model, violated := viol })
    | _ => bad d
  | "casedec" :: r =>
    -- a message with ONE member name changed in case: must decode like the object without it
    match (do let (nm, r) ← pStr r; let (w, r) ← pJ r; some (nm, w, r) : Option (Bytes × JVal × List String)) with
    | some (nm, .obj kvs, []) =>
      let sh (w : JVal) : String := match decodeMsg w with
        | .ok m => "ok " ++ showMsg m
        | .error e => showDErr e
      let model := sh (.obj kvs) ++ " | " ++ sh (.obj (kvs.filter (fun p => p.1 ≠ nm)))
      let viol := if d.pid != "C19" then none else
        match impl.splitOn " | " with
        | [a, b] => if a == b then none else some (pfx d "decode_case_sensitive: a member whose name differs in case from a wire member was matched")
        | _ => some (pfx d "bad-observation")
      (d, { model := model, violated := viol })
    | _ => bad d
  | "werr" :: r =>
    match pGoErr r with
    | some (e, []) =>
      let we := toWireError e
      let model := showJ (encodeErr we)
      let viol :=
        if d.pid != "C19" then none else
        match pJ itoks with
        | some (.obj kvs, []) =>
          let expCode : Int := match e with
            | .wire w => w.code
            | .other _ ws => match firstWireL ws with | some w => w.code | none => 0
          let expMsg : Bytes := match e with | .wire w => w.message | .other m _ => m
          if lookup WireError_Code_name kvs != some (.int expCode) then
            some (pfx d "wire_error_wrap: code is not that of the first wrapped wire error")
          else if lookup WireError_Message_name kvs != some (.str expMsg) then
            some (pfx d "wire_error_wrap: message is not the outermost error's text")
          else none
        | _ => some (pfx d "wire_error_wrap: no error object on the wire")
      (d, { model := model, violated := viol })
    | _ => bad d
  | ["fuzzdec", _] =>
    let viol := if impl == "panic" then some (pfx d "decode_total: DecodeMessage panicked on input bytes") else none
    (d, { model := "nopanic", violated := viol })
  ----------------------------------------------------------------- id echo (C02)
  | "idecho" :: r =>
    match pJ r with
    | some (idv, []) =>
      let model := match decodeID idv with
        | .ok id => showOJ (encodeId id)
        | .error e => showDErr e
      let viol :=
        match idv with
        | .str _ => if impl == showJ idv then none
            else if impl.startsWith "err " then some (pfx d "id_echo_exact: a call whose id is a valid JSON string is rejected by DecodeMessage, so no response bears its id")
            else some (pfx d "id_echo_exact: string id not echoed exactly")
        | .int n =>
          if inInt64 n then
            if impl == showJ idv then none
            else if n > two53 || n < -two53 then some (pfx d "id_echo_exact: integer id beyond 2^53 echoed with a different value (F1)")
            else some (pfx d "id_echo_exact: integer id echoed with a different value")
          else none
        | _ => none
      (d, { model := model, violated := viol })
    | _ => bad d
  ----------------------------------------------------------------- SSE
  | "sse.write" :: r =>
    match pEvent r with
    | some (e, []) => (d, { model := "x" ++ hexB (writeEvent e) })
    | _ => bad d
  | ["sse.scan", x] =>
    match pHexTok "x" x with
    | some bs =>
      let viol := if impl == "panic" then some (pfx d "decode_total: scanEvents panicked on input bytes") else none
      (d, { model := showScan (scanEvents bs), violated := viol })
    | none => bad d
  | "sse.rt" :: r =>
    match (match pMany pEvent r with | (es, []) => some es | _ => none : Option (List Event)) with
    | some es =>
      let bytes := es.flatMap writeEvent
      let model := "x" ++ hexB bytes ++ " " ++ showScan (scanEvents bytes)
      let viol :=
        if d.pid == "C19" && es.all cleanEvent then
          match itoks with
          | _ :: rest => if " ".intercalate rest == showScan (es, false) then none
              else some (pfx d "sse_roundtrip: scanning the written events does not return them")
          | _ => some (pfx d "bad-observation")
        else none
      (d, { model := model, violated := viol })
    | none => bad d
  | "sse.lines" :: r =>
    -- arbitrary LF-free lines, each with its own line end, optionally an unterminated rest (`e x<hex>`):
    -- the implementation scans the stream as framed and the same lines ended by LF
    match pMany pRawLine r with
    | (ls, tl) =>
      match (match tl with
        | [] => some []
        | ["e", x] => pHexTok "x" x
        | _ => none : Option Bytes) with
      | some rest =>
        let bytes := renderLines ls ++ rest
        let a := showScan (scanEvents bytes)
        let b := showScan (scanEvents (frame (ls.map (·.1)) ++ rest))
        let model := "x" ++ hexB bytes ++ " " ++ a ++ " | " ++ b
        let viol :=
          if d.pid != "C19" then none
          else if impl == "panic" then some (pfx d "decode_total: scanEvents panicked on input bytes")
          else if impl == "hang" then some (pfx d "decode_total: scanEvents did not return on input bytes")
          else if ls.all (fun p => !p.1.contains LF) && !rest.contains LF then
            match impl.splitOn " | " with
            | [ia, ib] =>
              let sa := " ".intercalate ((words ia).drop 1)
              if sa == ib then none
              else some (pfx d s!"sse_eol_irrelevant: scanEvents reads an event stream with {eolMix (ls.map (·.2))} differently from the same lines ended by LF" ++
                (if lastTok sa == "malformed" && lastTok ib != "malformed" then " (it reports a malformed event)" else ""))
            | _ => some (pfx d "bad-observation")
          else none
        (d, { model := model, violated := viol })
      | none => bad d
  | "sse.frn" :: r =>
    -- an event stream as a foreign peer frames it; the harness is that peer
    match (match pMany pFEvent r with | (es, []) => some es | _ => none : Option (List FEvent)) with
    | some es =>
      let bytes := renderStream es
      let model := "x" ++ hexB bytes ++ " " ++ showScan (scanEvents bytes)
      let viol :=
        if d.pid != "C19" then none
        else if impl == "panic" then some (pfx d "decode_total: scanEvents panicked on input bytes")
        else if impl == "hang" then some (pfx d "decode_total: scanEvents did not return on input bytes")
        else if es.all (fun e => e.lines.all wfFLine) then
          let want := showScan ((es.map FEvent.denote).filter (fun e => !e.isEmpty), false)
          match itoks with
          | _ :: rest =>
            if " ".intercalate rest == want then none
            else some (pfx d s!"sse_roundtrip_any_eol: a well-formed event stream of a foreign peer ({fstreamFeatures es}) is not scanned to the events it denotes" ++
              (if lastTok impl == "malformed" then ": scanEvents reports a malformed event" else ""))
          | _ => some (pfx d "bad-observation")
        else none
      (d, { model := model, violated := viol })
    | none => bad d
  | ["sse.spaces"] =>
    (d, { model := "x" ++ hexB (([9, 10, 11, 12, 13, 32] : Bytes) ++ spaceSeqs.flatten) })
  ----------------------------------------------------------------- content
  | "c.enc" :: r =>
    match pC r with
    | some (c, []) =>
      let j := encodeContent c
      let viol :=
        if d.pid != "C19" then none else
        match pJ itoks with
        | some (ji, []) =>
          if reqOK ji then (if embeddedOK ji then none else some (pfx d f23Clause))
          else if reqTopOK ji then some (pfx d "required_members_present: a block nested in tool_result lacks its required text/data member (F8)")
          else some (pfx d "required_members_present: content block lacks a required member")
        | _ => some (pfx d "required_members_present: content did not marshal")
      (d, { model := showJ j, violated := viol })
    | _ => bad d
  | "c.res" :: r =>
    -- json.Marshal(&ResourceContents{…}); blob: "-" nil, else the base64 text of a non-nil slice
    match (do
        let (u, r) ← pStr r; let (mi, r) ← pStr r; let (t, r) ← pStr r
        let (b, r) ← (match r with
          | "-" :: r => some (none, r)
          | r => (pStr r).map (fun (x, r) => (some x, r)) : Option (Option Bytes × List String))
        let (m, r) ← pMeta r
        some (u, mi, t, b, m, r) : Option (Bytes × Bytes × Bytes × Option Bytes × Meta × List String)) with
    | some (u, mi, t, b, m, []) =>
      let viol :=
        if d.pid != "C19" then none else
        match pJ itoks with
        | some (ji, []) => if resourceOK ji then none else some (pfx d f23Clause)
        | _ => some (pfx d "required_members_present: resource contents did not marshal")
      (d, { model := showJ (encodeResource u mi t b m), violated := viol })
    | _ => bad d
  | "c.rt" :: ctx :: r =>
    match ctxOf ctx, pCList r with
    | some (sh, allow), some (cs, []) =>
      let j := encodeIn sh cs
      let res := decodeIn sh allow (some j)
      let model := showJ j ++ " | " ++ (match res with
        | .ok cs' => "ok " ++ showCList cs'
        | .error e => showCErr e)
      let inDomain := cs.all (fun c => wfContent c && allowed allow c.kind) &&
        (match sh with | .one => cs.length = 1 | .oneOrMany => cs ≠ [] | .list => true)
      let viol :=
        if d.pid == "C19" && inDomain then
          match impl.splitOn " | " with
          | [_, b] => if b == "ok " ++ showCList cs then none
              else some (pfx d "content_roundtrip: decoding the encoded content does not give the value back")
          | _ => some (pfx d "bad-observation")
        else none
      (d, { model := model, violated := viol })
    | _, _ => bad d
  | "c.dec" :: ctx :: r =>
    match ctxOf ctx, pOJ r with
    | some (sh, allow), some (j, []) =>
      let model := match decodeIn sh allow j with
        | .ok cs => "ok " ++ showCList cs
        | .error e => showCErr e
      let viol := if d.pid == "C19" && impl == "panic" then
          some (pfx d s!"decode_total: decoding the content member of a {ctx} wrapper panicked") else none
      (d, { model := model, violated := viol })
    | _, _ => bad d
  | "c.fuzz" :: _ =>
    let viol := if impl == "panic" then some (pfx d "decode_total: content/params decoder panicked on input bytes") else none
    (d, { model := "nopanic", violated := viol })
  | "r.rt" :: _ty :: r =>
    match pJ r with
    | some (j1, []) =>
      let viol := if d.pid == "C19" && impl != showJ j1 then
          some (pfx d "content_roundtrip: protocol value changed by marshal→unmarshal→marshal") else none
      (d, { model := showJ j1, violated := viol })
    | _ => bad d
  | "r.call" :: _ver :: "err" :: [] => (d, { model := "error" })
  | "r.call" :: _ver :: r =>
    match (match r with
      | ["nilres"] => some (ToolRet.nilResult, none, none, false)
      | "res" :: r => (do
        let (c, r) ← (match r with
          | "nil" :: r => some (none, r)
          | r => (pCList r).map (fun (cs, r) => (some cs, r)) : Option (Option (List Content) × List String))
        let (sc, r) ← (match r with
          | "-" :: r => some (none, r)
          | "any" :: r => (pJ r).map (fun (v, r) => (some v, r))
          | "raw" :: r => (pJ r).map (fun (v, r) => (some v, r))
          | _ => none : Option (Option JVal × List String))
        let ie ← (match r with | ["0"] => some false | ["1"] => some true | _ => none : Option Bool)
        some (ToolRet.result c sc ie, c, sc, ie))
      | _ => none : Option (ToolRet × Option (List Content) × Option JVal × Bool)) with
    | some (ret, c, sc, ie) =>
      let isNilRes := match ret with | .nilResult => true | _ => false
      match sdkCallTool ret with
      | .errorInstead => (d, { model := "error" })
      | .sent ms =>
        -- the model prescribes content, structuredContent and isError; _meta / resultType (protocol
        -- version dependent) are taken from the implementation's result
        let names := [CallToolResult_Content_name, CallToolResult_StructuredContent_name, CallToolResult_IsError_name]
        match pJ itoks with
        | some (.obj kvs, []) =>
          let model := showJ (.obj (kvs.filter (fun p => !names.contains p.1) ++ ms))
          let cur := lookup CallToolResult_Content_name kvs
          let how := (match c with | none => "nil Content" | some [] => "empty Content" | some _ => "Content") ++
            (if sc.isSome then " and StructuredContent" else "") ++ (if ie then " and IsError" else "")
          let viol :=
            if d.pid != "C19" then none
            else if isNilRes && !isArrJ cur then nilResultViol d "tools/call" impl
            else if !isArrJ cur then
              some (pfx d s!"required_members_present: the content member of the tools/call result is null or missing (raw tool handler returned {how})")
            else if !contentArrOK cur then
              some (pfx d "required_members_present: a content block of the tools/call result lacks a required member")
            else if (match cur with | some (.arr l) => !l.all embeddedOK | _ => false) then some (pfx d f23Clause)
            else if showOJ cur != showOJ (lookup CallToolResult_Content_name ms) then
              some (pfx d "call_tool_content_present: the content array sent is not the encoding of the handler's blocks")
            else if showOJ (lookup CallToolResult_StructuredContent_name kvs) != showOJ sc then
              some (pfx d "call_tool_content_present: structuredContent sent is not the handler's value")
            else if lookup CallToolResult_IsError_name kvs != (if ie then some (.bool true) else none) then
              some (pfx d "call_tool_content_present: isError sent is not the handler's flag")
            else none
          (d, { model := model, violated := viol })
        | _ =>
          let viol := if d.pid != "C19" then none
            else if isNilRes then nilResultViol d "tools/call" impl
            else if impl == "panic" then some (pfx d "required_members_present: the server panicked while answering tools/call")
            else some (pfx d "required_members_present: no tools/call result was sent for a handler result")
          (d, { model := showJ (.obj ms), violated := viol })
    | none => bad d
  | "r.zero" :: method :: variant :: _ver =>
    -- variant: nil / empty / emptytext = what the handler left in the required list; nilres = the
    -- handler returned (nil, nil); an optional 4th token names the session's protocol generation
    match rkindOf method with
    | some k =>
      let nilres := variant == "nilres"
      let l : RList := if variant == "nil" then .nil else if nilres then .noResult else .items []
      match sdkResultList k l with
      | .errorInstead => (d, { model := "error" })
      | .sent lv =>
        -- the model describes the required list member only; the rest is taken from the implementation
        match pJ itoks with
        | some (ji, []) =>
          let cur := getPath k.path ji
          let base := match ji with | .obj _ => ji | _ => .obj []
          let model := match lv, cur with
            | .arr [], some (.arr l) => showJ (setPath k.path (.arr l) base)   -- any array will do
            | lv, _ => showJ (setPath k.path lv base)
          let viol :=
            if d.pid == "C19" && nilres && !isArrJ cur then nilResultViol d method impl
            else if d.pid == "C19" && !isArrJ cur then
              some (pfx d s!"required_members_present: required list member of the {method} result is null or missing" ++
                (if k == .getPrompt || k == .complete then " (F15)" else ""))
            else if d.pid == "C19" && k == .readResource &&
                (match cur with | some (.arr l) => !l.all resourceOK | _ => false) then
              some (pfx d f23Clause)
            else none
          (d, { model := model, violated := viol })
        | _ => (d, { model := "result", violated :=
            if d.pid != "C19" then none
            else if nilres then nilResultViol d method impl
            else some (pfx d "required_members_present: no result") })
    | none => bad d
  ----------------------------------------------------------------- paged lists on a real session
  | ["r.pg.new", ps] =>
    match ps.toNat? with
    | some n => ({ d with pg := { ps := n } }, { model := "ok" })
    | none => bad d
  | "r.pg.add" :: method :: r =>
    match rkindOf method, pMany pStr r with
    | some k, (uids, []) =>
      if k.isPaged then ({ d with pg := d.pg.set k (uids.foldl (fun l u => keyInsert u l) (d.pg.get k)) }, { model := "ok" }) else bad d
    | _, _ => bad d
  | "r.pg.rm" :: method :: r =>
    match rkindOf method, pMany pStr r with
    | some k, (uids, []) =>
      if k.isPaged then ({ d with pg := d.pg.set k ((d.pg.get k).filter (fun u => !uids.contains u)) }, { model := "ok" }) else bad d
    | _, _ => bad d
  | ["r.pg.list", method, cur] =>
    -- the list member of the result AS WRITTEN ON THE WIRE: arr <n> <uids> nc <uid|-> / null / missing / error
    match rkindOf method, pCursor cur with
    | some k, some c =>
      if !k.isPaged then bad d else
      let keys := d.pg.get k
      let page := listPage k (fun u => .str u) keys d.pg.ps c
      let viol :=
        if d.pid != "C19" then none
        else match itoks.head? with
          | some "null" => some (pfx d s!"required_lists_present: \"{memberName k}\":null in the {method} result on the wire — {cursorPos keys c}, page size {d.pg.ps}: the list member must be an array" ++
              (if (pageSeq keys c).isEmpty then " (here the EMPTY array)" else ""))
          | some "missing" => some (pfx d s!"required_lists_present: the {method} result on the wire has no \"{memberName k}\" member — {cursorPos keys c}, page size {d.pg.ps}")
          | some "other" => some (pfx d s!"required_lists_present: the \"{memberName k}\" member of the {method} result on the wire is not an array — {cursorPos keys c}, page size {d.pg.ps}")
          | _ => none
      (d, { model := showPage page, violated := viol })
    | _, _ => bad d
  ----------------------------------------------------------------- ioConn
  | ["io.new", cap] =>
    match cap.toNat? with
    | some n => ({ pid := d.pid, also := d.also, io := { outCap := n } }, { model := "ok" })
    | none => bad d
  | "io.feed" :: r =>
    match pJ r with
    | some (w, []) => ({ d with io := { d.io with wire := d.io.wire ++ [w] }, mwire := d.mwire ++ [w] }, { model := "ok" })
    | _ => bad d
  | ["io.ver", f] =>
    ({ d with io := { d.io with noBatch := f == "1" }, mnoBatch := f == "1" }, { model := "ok" })
  | ["io.eof"] => ({ d with eofFed := true }, { model := "ok" })
  | ["io.read"] =>
    -- the harness does not issue a Read that would block (nothing queued, nothing fed, input open)
    if d.io.queue.isEmpty && (d.eofSeen || (d.io.wire.isEmpty && !d.eofFed)) then (d, { model := "would-block" }) else
    let d := if d.io.queue.isEmpty && d.io.wire.isEmpty then { d with eofSeen := true } else d
    let (io', out) := opRead false d.io
    let q := io'.queue.length
    let model := match out with
      | .msg m => s!"msg {showMsg m} q{q}"
      | .err e => s!"err {showRErr e} q{q}"
    -- monitor (on the implementation's observation only)
    let implOK := impl.startsWith "msg "
    let implQ := ((lastTok impl).drop 1).toString.toNat?.getD 0
    let implMsg : Option Msg := match itoks with
      | "msg" :: r => (pMsg r).map (·.1)
      | _ => none
    let same (m : Msg) (e : JVal) (which : String) : Option String :=
      if !validWire e then none else
      match wireDiff e (encodeMsg m) with
      | none => none
      | some "id" =>
        let idw := match e with | .obj kvs => lookup wireDecode_ID_name kvs | _ => none
        if bigInt idw then some (pfx d s!"batch_roundtrip: Read returned the frame's {which} element with its integer id beyond 2^53 altered (F1)")
        else some (pfx d s!"batch_roundtrip: Read returned a message whose id differs from the frame's {which} element")
      | some f => some (pfx d s!"batch_roundtrip: Read returned a message whose {f} differs from the frame's {which} element")
    if impl == "panic" || impl == "hang" then
      -- the reader of the connection is gone (or stuck): everything after this frame is lost
      let fr := match d.mexpect, d.mwire with
        | [], raw :: _ => frameDesc raw
        | _, _ => "already accepted (a queued message)"
      let what := if impl == "panic" then "panicked" else "did not return"
      let d1 := match d.mexpect, d.mwire with
        | [], _ :: w => { d with mwire := w }
        | _ :: rest, _ => { d with mexpect := rest }
        | _, _ => d
      let v := if d.pid == "C02" then
          some (pfx d s!"batch_exactly_once: ioConn.Read {what} on the frame {fr}: the reader is gone, no call is answered any more")
        else if d.pid == "C19" then some (pfx d s!"decode_total: ioConn.Read {what} on the frame {fr}")
        else none
      ({ d1 with io := io' }, { model := model, violated := v })
    else
    let (d1, v19, v02, v03) : DState × Option String × Option String × Option String :=
      match d.mexpect with
      | e :: rest =>
        -- a message of an already accepted frame
        -- judged only when the next element written is a valid wire message (what an invalid one decodes
        -- to is the model's business, not the order clause's)
        let ooo := match implMsg with
          | some m => validWire e && outOfOrder sameMsgWire (e :: rest) m
          | none => false
        let v := match implMsg with
          | some m => if ooo then some (pfx d ("batch_roundtrip: " ++ orderClause)) else same m e "next"
          | none => some (pfx d "batch_roundtrip: Read failed on a message of an already accepted frame")
        ({ d with mexpect := rest }, v, none, if ooo then some ("C03: " ++ orderClause) else none)
      | [] =>
        match d.mwire with
        | [] => (d, (if impl.startsWith "err eof" then none else some (pfx d "batch_roundtrip: Read returned something at the end of the input")), none, none)
        | raw :: w =>
          let d := { d with mwire := w }
          match frameElems raw with
          | none => (d, none, none, none)
          | some (elems, isBatch) =>
            let wf := wellFormedBatch d elems && !(isBatch && d.mnoBatch)
            let calls := elems.filterMap isCallW
            let hasNotif := elems.any isNotifW
            if implOK then
              let ooo := match implMsg, elems with
                | some m, e :: _ => validWire e && outOfOrder sameMsgWire elems m
                | _, _ => false
              let v := match implMsg, elems with
                | some m, e :: _ => if ooo then some (pfx d ("batch_roundtrip: " ++ orderClause)) else same m e "first"
                | _, _ => none
              let v := if v.isNone && implQ != elems.length - 1 then
                  some (pfx d s!"batch_roundtrip: Read took a frame of {elems.length} messages but queued {implQ} for the following reads")
                else v
              -- messages of an accepted frame that never come out of Read are lost for every property that
              -- speaks about them: a lost response leaves its call blocked (C01), a lost call is never
              -- answered (C02), a lost notification is never dispatched (C03)
              let vLost : Option String := if implQ != elems.length - 1 then
                  some s!"C01+C02+C03: ioConn.Read took a frame of {elems.length} messages but queued {implQ} for the following reads: the other messages of the batch are lost (a lost response leaves its call blocked for ever, a lost call is never answered, a lost notification is never dispatched)"
                else none
              let d := { d with mexpect := (elems.drop 1).take implQ }
              let d := if isBatch && calls ≠ [] then { d with mopen := d.mopen ++ [{ slots := calls.map (fun c => (c, none)), hasNotif := hasNotif }] } else d
              (d, v, vLost, if ooo then some ("C03: " ++ orderClause) else none)
            else
              let f2 := isBatch && hasNotif && (impl.startsWith "err dup" || impl.startsWith "err seen")
              let v19 := if !wf then none
                else if f2 then some (pfx d "batch_roundtrip: a well-formed batch containing a notification is rejected by Read (notifications are tracked like calls, F2)")
                else some (pfx d "batch_roundtrip: a well-formed frame is rejected by Read")
              let v02 := if !wf then none
                else if f2 then some (pfx d "batch_exactly_once: a well-formed batch containing a notification is rejected as a duplicate id; the read error tears the session down (F2)")
                else some (pfx d "batch_exactly_once: a well-formed batch is rejected by Read")
              ({ d with mexpect := (elems.drop 1).take implQ }, v19, v02, none)
    -- v02 speaks of rejected frames only, v03 of accepted ones: at most one of them is set
    let viol := if d.pid == "C02" then (if d.also.contains "C03" then v02.orElse (fun _ => v03) else v02)
      else if d.pid == "C03" then v03 else v19
    ({ d1 with io := io' }, { model := model, violated := viol })
  | "io.write" :: r =>
    match pMsg r with
    | some (m, []) =>
      let (io', out) := opWrite d.io m
      let (open', exp, hasNotif) := monWrite d.mopen m
      let implKind := itoks.head?.getD ""
      let implVals : List JVal := (pMany pJ (itoks.drop 1)).1
      -- C19: what is written is a well-framed encoding of the message(s) given
      let v19 : Option String :=
        if implKind == "panic" then some (pfx d "decode_total: ioConn.Write panicked")
        else if implKind == "badframe" then some (pfx d "ndjson_roundtrip: the bytes written are not one compact payload followed by a single LF")
        else if implKind == "single" then
          (match implVals with
            | [v] => if (wireDiff v (encodeMsg m)).isNone then none else some (pfx d "batch_roundtrip: the message written differs from the message given")
            | _ => some (pfx d "bad-observation"))
        else none
      -- C02: batch replies
      let v02 : Option String :=
        if implKind == "panic" then some (pfx d "batch_exactly_once: ioConn.Write panicked")
        else match exp with
          | .nothing =>
            if implKind == "nothing" then none
            else some (pfx d "batch_exactly_once: batch reply flushed before the last call of the batch was answered")
          | .single _ =>
            if implKind == "single" then none
            else if d.io.outCap > 0 && (implKind == "nothing" || implKind == "array") then none
            else some (pfx d "batch_exactly_once: a message outside any batch was not written on its own")
          | .array ms =>
            if implKind == "array" then
              if implVals.length = ms.length && (List.zip ms implVals).all (fun p => msgMatchesWire p.1 p.2) then none
              else some (pfx d "batch_exactly_once: the flushed array is not exactly one response per call of the batch, in call order")
            else if implKind == "nothing" then
              some (if hasNotif then pfx d "batch_exactly_once: batch reply withheld after its last call was answered — the batch contains a notification (F2)"
                    else pfx d "batch_exactly_once: batch reply withheld after its last call was answered")
            else some (pfx d "batch_exactly_once: last response of a batch written on its own instead of the batch array")
      let viol := if d.pid == "C02" then v02 else v19
      ({ d with io := io', mopen := open' }, { model := showWriteOut out, violated := viol })
    | _ => bad d
  ----------------------------------------------------------------- frames through the other readers
  | "io.rb" :: r =>
    -- readBatch on its own
    match pJ r with
    | some (raw, []) =>
      let model := match readBatch raw with
        | .ok (ms, b) => s!"ok {ms.length} {if b then "batch" else "single"}"
        | .error e => "err " ++ showRErr e
      let viol := if d.pid != "C19" then none
        else if impl == "panic" then some (pfx d s!"decode_total: readBatch panicked on the frame {frameDesc raw}")
        else if impl.startsWith "ok 0 " then
          some (pfx d s!"batch_roundtrip: readBatch accepted the frame {frameDesc raw}, which carries no message (ioConn.Read takes msgs[0] of what it returns)")
        else none
      (d, { model := model, violated := viol })
    | _ => bad d
  | "h.post" :: path :: r =>
    -- the frame as the body of a POST to the streamable handler (stateless / stateful) or to the
    -- legacy SSE transport's message endpoint; observed: rejected as malformed, or anything else
    match pJ r with
    | some (raw, []) =>
      let malformed := if path == "sse" then (match decodeMsg raw with | .ok _ => false | .error _ => true)
        else (match readBatch raw with | .ok _ => false | .error _ => true)
      let model := if malformed then "malformed"
        else if impl == "malformed" || impl == "panic" || impl == "hang" then "accepted" else impl
      let viol := if d.pid != "C19" then none
        else if impl == "panic" then some (pfx d s!"decode_total: the {path} POST handler panicked on the body {frameDesc raw}")
        else if impl == "hang" then some (pfx d s!"decode_total: the {path} POST handler did not return on the body {frameDesc raw}")
        else none
      (d, { model := model, violated := viol })
    | _ => bad d
  | "live.io" :: ver :: r =>
    -- a real server session on an io transport (child process): initialize, the frame, a ping
    match pJ r with
    | some (raw, []) =>
      let s0 : IOState := { wire := [raw], noBatch := ver == "new" }
      let model := match (opRead false s0).2 with
        | .msg _ => "alive"
        | .err _ => "closed"
      let viol := if d.pid != "C19" then none
        else if impl == "panic" then some (pfx d s!"decode_total: a server session on an io transport panicked on the frame {frameDesc raw} (the process crashed)")
        else if impl == "hang" then some (pfx d s!"decode_total: a server session on an io transport neither answered nor ended after the frame {frameDesc raw}")
        else none
      (d, { model := model, violated := viol })
    | _ => bad d
  | "live.cli" :: kind :: r =>
    -- a real streamable client whose ping is answered with the frame as JSON body / as SSE event data
    match pJ r with
    | some (raw, []) =>
      let model := match decodeMsg raw with
        | .ok _ => "ok"
        | .error _ => "error"
      let viol := if d.pid != "C19" then none
        else if impl == "panic" then some (pfx d s!"decode_total: the streamable client panicked on the {kind} response body {frameDesc raw} (the process crashed)")
        else if impl == "hang" then some (pfx d s!"decode_total: the streamable client's call neither returned nor failed on the {kind} response body {frameDesc raw}")
        else if kind.startsWith "sse." && model == "ok" && impl == "error" then
          some (pfx d s!"sse_roundtrip_any_eol: the streamable client's call failed although its response arrived in a well-formed event stream (framing {kind.drop 4}: a peer may end lines in CRLF, send comments, ids, retry and split data)")
        else none
      (d, { model := model, violated := viol })
    | _ => bad d
  ----------------------------------------------------------------- decode fuzz of the protocol types
  | "r.fuzz" :: ty :: r =>
    match pJ r with
    | some (j, []) =>
      let viol := if d.pid != "C19" || impl != "panic" then none
        else if hasNullInputRequest j then some (pfx d f32Null)
        else some (pfx d s!"decode_total: decoding a {ty} panicked on a near-valid JSON value (a null / wrong-typed / wrong-case member)")
      (d, { model := "nopanic", violated := viol })
    | _ => bad d
  | "r.case" :: ty :: path :: key :: jr =>
    -- one member name changed in case somewhere in a valid value of the type; the harness decodes that,
    -- the value without the member, and the value with the member under a foreign name: where the
    -- foreign name is ignored (a struct position) the case variant must be ignored as well
    let model := if impl.startsWith "map" then impl else "struct same"
    let name := ((pHexTok "s" key).bind (fun b => String.fromUTF8? (ByteArray.mk b.toArray))).getD "?"
    let viol := if d.pid != "C19" then none
      else if impl == "panic" then some (pfx d s!"decode_total: decoding a {ty} panicked on a value with the member {name} spelled in another case")
      else if impl.startsWith "struct differ" then
        let idx := (path.splitOn ".").filterMap String.toNat?
        let above := match pJ jr with
          | some (j, []) => (pathKeys j idx).dropLast
          | _ => []
        if above.contains CallToolResult_InputRequests_name || above.contains inputResponsesName then
          some (pfx d s!"decode_case_sensitive: below inputRequests / inputResponses member names are matched without regard to case (InputRequestMap / InputResponseMap decode with encoding/json, F32): decoding a {ty} matched a member spelled {name}")
        else
          some (pfx d s!"decode_case_sensitive: decoding a {ty} matched a member spelled {name}, which differs in case from the declared name")
      else none
    (d, { model := model, violated := viol })
  | "r.irm" :: r =>
    match pJ r with
    | some (j, []) =>
      let model := match decodeInputRequests j with
        | .ok l => " ".intercalate ("ok" :: (sortMembers (dedupLast (l.map (fun p => (p.1, JVal.str p.2))))).flatMap (fun p => [hexB p.1, showJ p.2]))
        | .error _ => "err"
      let entries : List JVal := match j with | .obj kvs => kvs.map (·.2) | _ => []
      let caseVar := entries.any (fun e => match e with
        | .obj mem => mem.any (fun p => caseVariant irmRaw_Method_name p.1 || caseVariant irmRaw_Params_name p.1)
        | _ => false)
      let viol := if d.pid != "C19" then none
        else if impl == "panic" then
          (if entries.any (· == .null) then some (pfx d f32Null)
           else some (pfx d "decode_total: InputRequestMap.UnmarshalJSON panicked on a near-valid value"))
        else if model == "err" && impl.startsWith "ok" && caseVar then
          some (pfx d "decode_case_sensitive: InputRequestMap.UnmarshalJSON matched an entry member whose name differs in case from method/params (it decodes with encoding/json, F32)")
        else none
      (d, { model := model, violated := viol })
    | _ => bad d
  | _ => bad d

def engine (pid : String) (also : List String := []) : Engine DState where
  init := { pid := pid, also := also }
  step := stepWire

end Wire

def main (args : List String) : IO Unit :=
  Proto.run (Wire.engine (args.head?.getD "C19") (args.drop 1))
