import McpModel.Wire.Json
/-!
# E2 Wire — JSON string literals as a foreign peer may spell them (RFC 8259 §7)

The rest of the model starts at the value level (`JVal`).  This file adds the one part of the text
level on which the SDK has code of its own risk: the *spelling* of a string.  A peer may write every
character of a string (an id, a member name, a method, an error message …) raw, as one of the eight
short escapes (`\" \\ \/ \b \f \n \r \t`), as `\uXXXX` with hex digits of either case, or — outside
the basic multilingual plane — as a UTF-16 surrogate pair `\ud83d\ude00`.  Go's encoder emits only a
few of these forms, so a decoder that is exercised with Go-encoded texts only never sees the others.

`unquote` is the denotation of the body of a literal (the bytes between the quotes): a byte-level
state machine, total, `none` for bodies RFC 8259 does not give a meaning to (raw control characters,
a raw quote, unknown escapes, bad hex digits, lone surrogates — Go substitutes U+FFFD there; the model
does not speak about them).  `Sp` is one spelled unit, `spell` the body a list of units makes,
`denote` the bytes it stands for.  `L.unquote_spell` (Props: `string_any_spelling`) says every
spelling denotes its string.  Core Lean only (linked into the driver).
-/
namespace Wire

/-! ## hex digits and UTF-8 -/

def hexVal (b : UInt8) : Option Nat :=
  if 48 ≤ b ∧ b ≤ 57 then some (b.toNat - 48)
  else if 97 ≤ b ∧ b ≤ 102 then some (b.toNat - 87)
  else if 65 ≤ b ∧ b ≤ 70 then some (b.toNat - 55)
  else none

/-- the hex digit for a nibble, lower or upper case -/
def hexDigit (up : Bool) (n : Fin 16) : UInt8 :=
  if n.val < 10 then UInt8.ofNat (48 + n.val)
  else if up then UInt8.ofNat (55 + n.val) else UInt8.ofNat (87 + n.val)

/-- UTF-8 encoding of a code point (callers keep `c < 0x110000`, not a surrogate). -/
def utf8 (c : Nat) : Bytes :=
  if c < 0x80 then [UInt8.ofNat c]
  else if c < 0x800 then [UInt8.ofNat (0xC0 + c / 64), UInt8.ofNat (0x80 + c % 64)]
  else if c < 0x10000 then
    [UInt8.ofNat (0xE0 + c / 4096), UInt8.ofNat (0x80 + c / 64 % 64), UInt8.ofNat (0x80 + c % 64)]
  else
    [UInt8.ofNat (0xF0 + c / 262144), UInt8.ofNat (0x80 + c / 4096 % 64), UInt8.ofNat (0x80 + c / 64 % 64),
     UInt8.ofNat (0x80 + c % 64)]

def isHigh (v : Nat) : Bool := 0xD800 ≤ v && v < 0xDC00
def isLow (v : Nat) : Bool := 0xDC00 ≤ v && v < 0xE000

/-- the code point a surrogate pair stands for -/
def pairVal (h l : Nat) : Nat := 0x10000 + (h - 0xD800) * 0x400 + (l - 0xDC00)

/-- The character a short escape `\x` stands for. -/
def shortEsc (e : UInt8) : Option UInt8 :=
  if e = 34 then some 34          -- \"
  else if e = 92 then some 92     -- \\
  else if e = 47 then some 47     -- \/
  else if e = 98 then some 8      -- \b
  else if e = 102 then some 12    -- \f
  else if e = 110 then some 10    -- \n
  else if e = 114 then some 13    -- \r
  else if e = 116 then some 9     -- \t
  else none

/-! ## the decoder -/

inductive USt where
  | norm
  | esc                                  -- after `\`
  | hex (k v : Nat) (hi : Option Nat)    -- inside `\u`: k digits read with value v; `hi` = a pending high surrogate
  | hi (h : Nat)                         -- a high surrogate was read: `\` must follow
  | hiEsc (h : Nat)                      -- … then `u`
deriving DecidableEq, Repr

/-- what a complete `\uXXXX` with value `w` yields -/
def finishU (w : Nat) : Option Nat → Option (USt × Bytes)
  | none => if isHigh w then some (.hi w, []) else if isLow w then none else some (.norm, utf8 w)
  | some h => if isLow w then some (.norm, utf8 (pairVal h w)) else none

def ustep : USt → UInt8 → Option (USt × Bytes)
  | .norm, b =>
    if b = 92 then some (.esc, [])
    else if b < 32 ∨ b = 34 then none
    else some (.norm, [b])
  | .esc, b =>
    if b = 117 then some (.hex 0 0 none, [])
    else (shortEsc b).map fun c => (.norm, [c])
  | .hex k v hi, b =>
    match hexVal b with
    | none => none
    | some d => if k < 3 then some (.hex (k + 1) (16 * v + d) hi, []) else finishU (16 * v + d) hi
  | .hi h, b => if b = 92 then some (.hiEsc h, []) else none
  | .hiEsc h, b => if b = 117 then some (.hex 0 0 (some h), []) else none

def urun : USt → Bytes → Option Bytes
  | .norm, [] => some []
  | _, [] => none
  | st, b :: rest =>
    match ustep st b with
    | none => none
    | some (st', out) => (urun st' rest).map (out ++ ·)

/-- The string the body of a JSON string literal denotes. -/
def unquote (body : Bytes) : Option Bytes := urun .norm body

/-! ## spellings -/

/-- a nibble with the case its digit is written in -/
abbrev Nib := Fin 16 × Bool

def Nib.digit (n : Nib) : UInt8 := hexDigit n.2 n.1

def nibVal (a b c d : Nib) : Nat := 16 * (16 * (16 * (16 * 0 + a.1.val) + b.1.val) + c.1.val) + d.1.val

/-- One spelled unit of a string literal. -/
inductive Sp where
  | raw (b : UInt8)                       -- a byte written as it is (a multi-byte character = several units)
  | short (e : UInt8)                     -- `\e`, e one of `" \ / b f n r t`
  | u4 (a b c d : Nib)                    -- `\uXXXX`
  | pair (a b c d a' b' c' d' : Nib)      -- `\uXXXX\uXXXX`, a surrogate pair
deriving Repr

def Sp.valid : Sp → Bool
  | .raw b => !(b < 32) && b != 34 && b != 92
  | .short e => (shortEsc e).isSome
  | .u4 a b c d => !isHigh (nibVal a b c d) && !isLow (nibVal a b c d)
  | .pair a b c d a' b' c' d' => isHigh (nibVal a b c d) && isLow (nibVal a' b' c' d')

def Sp.text : Sp → Bytes
  | .raw b => [b]
  | .short e => [92, e]
  | .u4 a b c d => [92, 117, a.digit, b.digit, c.digit, d.digit]
  | .pair a b c d a' b' c' d' =>
    [92, 117, a.digit, b.digit, c.digit, d.digit, 92, 117, a'.digit, b'.digit, c'.digit, d'.digit]

def Sp.denote : Sp → Bytes
  | .raw b => [b]
  | .short e => match shortEsc e with | some c => [c] | none => []
  | .u4 a b c d => utf8 (nibVal a b c d)
  | .pair a b c d a' b' c' d' => utf8 (pairVal (nibVal a b c d) (nibVal a' b' c' d'))

def spell (l : List Sp) : Bytes := l.flatMap Sp.text
def denote (l : List Sp) : Bytes := l.flatMap Sp.denote

end Wire
