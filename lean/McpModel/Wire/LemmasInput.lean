import McpModel.Wire.Input
import McpModel.Wire.LemmasMsg
/-!
# E2 Wire — `InputRequestMap.UnmarshalJSON` (repaired, F32): a `null` entry is an error, member names
are matched exactly, what is accepted names one of the three methods
-/
namespace Wire
namespace L
open Generated.Wire

theorem decodeInputEntries_null (a b : List (Bytes × JVal)) (k : Bytes) :
    decodeInputEntries (a ++ (k, .null) :: b) = .error () := by
  induction a with
  | nil => simp [decodeInputEntries, decodeInputEntry]
  | cons p a ih =>
    obtain ⟨pk, pv⟩ := p
    simp only [List.cons_append, decodeInputEntries, ih]
    cases decodeInputEntry pv <;> rfl

/-- a `null` entry anywhere makes the whole map an error — never a panic (fix F32) -/
theorem input_requests_null_entry_rejected (a b : List (Bytes × JVal)) (k : Bytes) :
    decodeInputRequests (.obj (a ++ (k, .null) :: b)) = .error () :=
  decodeInputEntries_null a b k

/-- a member of an entry whose name is not exactly `method` or `params` has no influence -/
theorem input_entry_case_sensitive (k : Bytes) (v : JVal) (a b : List (Bytes × JVal))
    (h1 : k ≠ irmRaw_Method_name) (h2 : k ≠ irmRaw_Params_name) :
    decodeInputEntry (.obj (a ++ (k, v) :: b)) = decodeInputEntry (.obj (a ++ b)) := by
  simp only [decodeInputEntry]
  rw [lookup_insert_ne irmRaw_Method_name k v a b h1, lookup_insert_ne irmRaw_Params_name k v a b h2]

theorem decodeInputEntry_ok (v : JVal) (m : Bytes) (h : decodeInputEntry v = .ok m) :
    m ∈ inputRequestMethods ∧ ∃ mem, v = .obj mem ∧ lookup irmRaw_Method_name mem = some (.str m) ∧
      paramsOK (lookup irmRaw_Params_name mem) = true := by
  cases v with
  | obj mem =>
    simp only [decodeInputEntry] at h
    split at h
    · rename_i m' hm
      split at h
      · rename_i hc
        cases h
        simp only [Bool.and_eq_true] at hc
        exact ⟨by simpa using hc.1, mem, rfl, hm, hc.2⟩
      · cases h
    · cases h
  | _ => simp [decodeInputEntry] at h

theorem decodeInputEntries_ok (kvs : List (Bytes × JVal)) (l : List (Bytes × Bytes)) (h : decodeInputEntries kvs = .ok l) :
    l.map (·.1) = kvs.map (·.1) ∧ ∀ p ∈ l, p.2 ∈ inputRequestMethods := by
  induction kvs generalizing l with
  | nil => simp [decodeInputEntries] at h; subst h; simp
  | cons p t ih =>
    obtain ⟨k, v⟩ := p
    simp only [decodeInputEntries] at h
    cases hv : decodeInputEntry v with
    | error e => simp [hv] at h
    | ok m =>
      cases ht : decodeInputEntries t with
      | error e => simp [hv, ht] at h
      | ok r =>
        simp [hv, ht] at h
        subst h
        obtain ⟨ih1, ih2⟩ := ih r ht
        refine ⟨by simp [ih1], ?_⟩
        intro q hq
        simp only [List.mem_cons] at hq
        rcases hq with rfl | hq
        · exact (decodeInputEntry_ok v m hv).1
        · exact ih2 q hq

end L
end Wire
