import McpModel.Wire.Msg
namespace Wire
open Generated.Wire

/-! # multi round trip: what a retried request carries (`mcp/mrtr.go`, `mcp/protocol.go`)

After an `input_required` result the client fulfils the input requests and sends the request again:
`setMultiRoundTripRetryParams` assigns `InputResponses` and `RequestState` of the params (the same two
tagged members, both `omitempty`, in `CallToolParams`, `CallToolParamsRaw`, `GetPromptParams`,
`ReadResourceParams`); the server decodes `inputResponses` with `InputResponseMap.UnmarshalJSON`, which
tells the three response types apart by a discriminating member (`unmarshalInputResponse`: `roots`, then
`action`, then `role`).  A response itself is an opaque JSON object here (its own codec is the plain
struct codec, exercised by the r.rt ops). -/

inductive RespKind where
  | roots | elicit | sampling
deriving DecidableEq, Repr, Inhabited

/-- `unmarshalInputResponse`: the probe decodes an object (or `null`: nothing set); the first member
present decides -/
def respKindOf : JVal → Except Unit RespKind
  | .obj kvs =>
    if (lookup probe_Roots_name kvs).isSome then .ok .roots
    else if (lookup probe_Action_name kvs).isSome then .ok .elicit
    else if (lookup probe_Role_name kvs).isSome then .ok .sampling
    else .error ()
  | _ => .error ()

def decodeResponses : List (Bytes × JVal) → Except Unit (List (Bytes × RespKind))
  | [] => .ok []
  | (k, v) :: t =>
    match respKindOf v, decodeResponses t with
    | .ok kind, .ok r => .ok ((k, kind) :: r)
    | _, _ => .error ()

/-- `InputResponseMap.UnmarshalJSON` on the member's value (`none`: absent) -/
def decodeInputResponses : Option JVal → Except Unit (List (Bytes × RespKind))
  | none => .ok []
  | some .null => .ok []
  | some (.obj kvs) => decodeResponses kvs
  | some _ => .error ()

/-- the string member `requestState` -/
def decodeState : Option JVal → Except Unit Bytes
  | none => .ok []
  | some .null => .ok []
  | some (.str s) => .ok s
  | some _ => .error ()

/-- what the two assignments of `setMultiRoundTripRetryParams` make of the marshalled params: the other
members (`rest`: no `inputResponses`, no `requestState`) and the two `omitempty` members -/
def retryParams (rest : List (Bytes × JVal)) (responses : List (Bytes × JVal)) (state : Bytes) : List (Bytes × JVal) :=
  rest ++ members [
    (retry_InputResponses_name, if responses = [] then none else some (.obj responses)),
    (retry_RequestState_name, if state = [] then none else some (.str state))]

/-- the server side: the two members of the params it received -/
def decodeRetry (params : List (Bytes × JVal)) : Except Unit (List (Bytes × RespKind) × Bytes) :=
  match decodeInputResponses (lookup retry_InputResponses_name params), decodeState (lookup retry_RequestState_name params) with
  | .ok r, .ok s => .ok (r, s)
  | _, _ => .error ()

end Wire
