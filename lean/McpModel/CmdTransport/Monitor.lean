import McpModel.CmdTransport.Model
/-!
The typed record of one harness case (child class, what was observed of the REAL CommandTransport) and
the C05 monitor on it.  Time appears only as buckets in units of the case's TerminateDuration.
Core Lean only: linked into the driver.
-/
namespace CmdTransport

inductive EofB | x0 | x3 | slow | ign deriving DecidableEq, Repr, Inhabited
inductive TermB | dfl | h0 | hslow | ign deriving DecidableEq, Repr, Inhabited
inductive SelfB | no | x0 | x2 deriving DecidableEq, Repr, Inhabited
inductive SecondK | no | conn | rwc deriving DecidableEq, Repr, Inhabited

/-- The case: behaviour class of the child and the calls made. -/
structure Class where
  sess : Bool := false          -- through Client.Connect / ClientSession.Close (else Connection.Close)
  eof : EofB := .x0
  term : TermB := .dfl
  self : SelfB := .no
  garbage : Bool := false
  second : SecondK := .no
  pending : Bool := false
  conc : Bool := false
  slack : Nat := 0              -- the generous upper bound, in buckets
deriving Repr, Inhabited

inductive ResObs | nil | exiterr | stdin | done | unresp | waited2 | hang | other | na
deriving DecidableEq, Repr, Inhabited
inductive DeathObs | e0 | en | st | sk | so | nr deriving DecidableEq, Repr, Inhabited
/-- Did the child log SIGTERM, and in which bucket after Close was called (`neg`: before). -/
inductive TermObs | none | neg | at (k : Nat) deriving DecidableEq, Repr, Inhabited
inductive SecondObs | na | same | diff | stdin | nil | hang | other deriving DecidableEq, Repr, Inhabited
inductive PendObs | na | ok | err | hang deriving DecidableEq, Repr, Inhabited

structure Obs where
  connectOk : Bool := true
  res : ResObs := .nil
  eb : Nat := 0                 -- floor(elapsed of Close / TerminateDuration)
  death : DeathObs := .nr       -- from ProcessState when Close returned cmd.Wait's result
  term : TermObs := .none
  eofSeen : Bool := true        -- the child saw EOF on its stdin (or Server.Run returned) before any SIGTERM it logged
  gone : Bool := true           -- the process no longer exists (not even as a zombie)
  leak : Bool := false          -- goroutines of the transport left
  second : SecondObs := .na
  pend : PendObs := .na
deriving DecidableEq, Repr, Inhabited

inductive Clause
  | noReturn | late | childLeft | goroutineLeft | notWaited | resultWrong | termEarly | killEarly
  | giveUpEarly | killWithoutTerm | secondHang | secondDiffers | pendingHang | termWithoutEof
deriving DecidableEq, Repr, Inhabited

/-! ### the property, clause by clause, as predicates on the observation -/

def P_returns (o : Obs) : Prop := o.res ≠ .hang
def P_bounded (c : Class) (o : Obs) : Prop := o.eb ≤ 3 + c.slack
def P_childGone (o : Obs) : Prop := o.gone = true
def P_noGoroutine (o : Obs) : Prop := o.leak = false
/-- Close returns cmd.Wait's result only after cmd.Wait returned. -/
def P_waited (o : Obs) : Prop := (o.res = .nil ∨ o.res = .exiterr) → o.death ≠ .nr
/-- … and the result says how the child ended. -/
def P_result (o : Obs) : Prop := (o.res = .nil → o.death = .e0 ∨ o.death = .nr) ∧ (o.res = .exiterr → o.death ≠ .e0)
/-- SIGTERM only after a full TerminateDuration since Close was called. -/
def P_termGrace (o : Obs) : Prop := o.term ≠ .neg ∧ o.term ≠ .at 0 ∧ (o.death = .st → 1 ≤ o.eb)
/-- SIGKILL only after two. -/
def P_killGrace (o : Obs) : Prop := o.death = .sk → 2 ≤ o.eb
/-- giving up ("unresponsive subprocess") only after three. -/
def P_giveUp (o : Obs) : Prop := o.res = .unresp → 3 ≤ o.eb
/-- escalation in order: a child that reports the SIGTERMs it gets is not SIGKILLed without one. -/
def P_order (c : Class) (o : Obs) : Prop := c.term ≠ .dfl → o.death = .sk → o.term ≠ .none
def P_second (o : Obs) : Prop := o.second ≠ .hang ∧ o.second ≠ .diff
def P_pending (o : Obs) : Prop := o.pend ≠ .hang
/-- stdin is closed FIRST: a child that reports a SIGTERM has seen EOF on its stdin before. -/
def P_eofFirst (o : Obs) : Prop := o.term ≠ .none → o.eofSeen = true

/-- The monitor: the first clause of C05 (stdio side) the observation violates. -/
def monitor (c : Class) (o : Obs) : Option Clause :=
  if o.res = .hang then some .noReturn
  else if 3 + c.slack < o.eb then some .late
  else if o.gone = false then some .childLeft
  else if o.leak = true then some .goroutineLeft
  else if (o.res = .nil ∨ o.res = .exiterr) ∧ o.death = .nr then some .notWaited
  else if (o.res = .nil ∧ o.death ≠ .e0) ∨ (o.res = .exiterr ∧ o.death = .e0) then some .resultWrong
  else if o.term = .neg ∨ o.term = .at 0 ∨ (o.death = .st ∧ o.eb < 1) then some .termEarly
  else if o.death = .sk ∧ o.eb < 2 then some .killEarly
  else if o.res = .unresp ∧ o.eb < 3 then some .giveUpEarly
  else if c.term ≠ .dfl ∧ o.death = .sk ∧ o.term = .none then some .killWithoutTerm
  else if o.second = .hang then some .secondHang
  else if o.second = .diff then some .secondDiffers
  else if o.pend = .hang then some .pendingHang
  else if o.term ≠ .none ∧ o.eofSeen = false then some .termWithoutEof
  else none

/-! ### the model's observation of a run -/

def deathObs : Option Death → DeathObs
  | some .exit0 => .e0
  | some .exitN => .en
  | some .sigTerm => .st
  | some .sigKill => .sk
  | none => .nr

def resObs (r : Option Res) (d : DeathObs) : ResObs :=
  match r with
  | some .waited => if d = .e0 then .nil else .exiterr
  | some .stdinErr => .stdin
  | some .procDone => .done
  | some .unresponsive => .unresp
  | none => .hang

/-- What the harness would record of the model's run `run e` for a case of class `c`. -/
def modelObs (c : Class) (e : Env) : Obs :=
  let s := run e
  let d := if s.res = some .waited then deathObs (death e s.termAt s.killAt) else .nr
  { connectOk := true
    res := resObs s.res d
    eb := s.now / e.td
    death := d
    term := match s.termAt with
      | some t => if c.term = .dfl then .none else .at (t / e.td)
      | none => .none
    eofSeen := s.stdinClosed || !s.termAt.isSome
    gone := (exitTime e s.termAt s.killAt).isSome
    leak := s.waiter && !(exitTime e s.termAt s.killAt).isSome
    second := match c.second with
      | .no => .na
      | .conn => .same
      | .rwc => if (run { e with stdinFails := true }).res = some .stdinErr then .stdin else .other
    pend := if c.pending then .ok else .na }

end CmdTransport

namespace CmdTransport

/-! ### which model run explains an observation: a grid of environments per class

Real time is not reproducible, so the model is compared as a SET of behaviours: the driver looks for an
environment of the case's class (TerminateDuration = 4 ticks; delays, lag and kernel latency on a grid)
whose run gives the observed result and cause of death, needs no more timer expiries than the observed
elapsed bucket allows, and delivered SIGTERM if the child reported one.  Only such time-robust facts are
compared; the monitor (above) judges the property. -/

def gridDelays : List Nat := [0, 1, 2, 3, 4, 5, 6, 7, 8, 9, 10, 13]

def classEnvs (c : Class) : List Env :=
  let eofs : List (Option Nat) := if c.eof = .ign then [none] else gridDelays.map some
  let terms : List (Option Nat) := match c.term with
    | .ign => [none]
    | .dfl => [some 0]           -- the default disposition ends the process at once
    | _ => gridDelays.map some
  let selfs : List (Option Nat) := if c.self = .no then [none] else gridDelays.map some
  selfs.flatMap fun sf => eofs.flatMap fun eo => terms.flatMap fun to =>
    [0, 1, 5, 9, 13].flatMap fun lag => [0, 1, 5].map fun kd =>
      { td := 4, self := sf, selfNonzero := c.self = .x2, eof := eo, eofNonzero := c.eof = .x3,
        term := to, termDefault := c.term = .dfl, killDelay := kd, lag := lag }

/-- The nominal environment of a class: everything prompt. -/
def nominalEnv (c : Class) : Env :=
  { td := 4, self := if c.self = .no then none else some 0, selfNonzero := c.self = .x2,
    eof := match c.eof with | .ign => none | .slow => some 2 | _ => some 0, eofNonzero := c.eof = .x3,
    term := match c.term with | .ign => none | .hslow => some 2 | _ => some 0, termDefault := c.term = .dfl }

def matchesEnv (c : Class) (o : Obs) (e : Env) : Bool :=
  let m := modelObs c e
  m.res == o.res && m.death == o.death && decide ((run e).expiries ≤ o.eb) &&
    (o.term == .none || (run e).termAt.isSome)

def explain (c : Class) (o : Obs) : Option Env := (classEnvs c).find? (matchesEnv c o)

theorem explain_sound (c : Class) (o : Obs) (e : Env) (h : explain c o = some e) :
    e ∈ classEnvs c ∧ matchesEnv c o e = true := by
  unfold explain at h
  exact ⟨List.mem_of_find?_eq_some h, List.find?_some h⟩

/-- Must Connect fail?  Only a session-level Connect against a child that answers with garbage. -/
def connectFails (c : Class) : Bool := c.sess && c.garbage

/-- The model's line for a record: the implementation's own observation where the model has a run that
explains it (with the model's values for everything the model determines), else the nominal run. -/
def modelLine (c : Class) (o : Obs) : Obs :=
  if connectFails c then
    { connectOk := false, res := .na, eb := 0, death := .nr, term := o.term, eofSeen := o.eofSeen || o.term != .none, gone := true, leak := false, second := .na, pend := .na }
  else
    match explain c o with
    | some e =>
      let m := modelObs c e
      { m with eb := o.eb, term := o.term, eofSeen := o.eofSeen || o.term != .none, pend := if c.pending then (if o.pend = .err then .err else .ok) else .na }
    | none =>
      let m := modelObs c (nominalEnv c)
      { m with eb := (run (nominalEnv c)).expiries }

/-! ### Server.Run (mcp/server.go) in-process over an IOTransport -/

inductive SrvEnd | eof | cancel | both deriving DecidableEq, Repr, Inhabited
inductive SrvRet | nil | canceled | err | hang deriving DecidableEq, Repr, Inhabited

structure SrvObs where
  ret : SrvRet := .nil
  sessions : Nat := 0
  leak : Bool := false
deriving DecidableEq, Repr, Inhabited

/-- Server.Run: `select { ctx.Done → ss.Close(); <-ssClosed; return ctx.Err() | err := <-ssClosed → return err }`.
`ctxFirst` is the scheduler's choice when both are ready. -/
def srvRun (e : SrvEnd) (ctxFirst : Bool) : SrvObs :=
  match e with
  | .eof => { ret := .nil }
  | .cancel => { ret := .canceled }
  | .both => { ret := if ctxFirst then .canceled else .nil }

inductive SrvClause | noReturn | sessionLeft | goroutineLeft deriving DecidableEq, Repr, Inhabited

def srvMonitor (o : SrvObs) : Option SrvClause :=
  if o.ret = .hang then some .noReturn
  else if o.sessions ≠ 0 then some .sessionLeft
  else if o.leak = true then some .goroutineLeft
  else none

def srvModelLine (e : SrvEnd) (o : SrvObs) : SrvObs :=
  if srvRun e true = o then o else if srvRun e false = o then o else srvRun e true

/-! ### CommandTransport.Connect failing (StdoutPipe / StdinPipe / Start return an error) -/

structure ConnObs where
  err : Bool := true        -- Connect returned an error
  started : Bool := false   -- a process exists
  leak : Bool := false
deriving DecidableEq, Repr, Inhabited

/-- Each of the three error returns of Connect comes before, or is, the failure of `Command.Start`:
no process, no goroutine (newIOConn is not reached). -/
def connFail : ConnObs := {}

inductive ConnClause | processLeft | goroutineLeft deriving DecidableEq, Repr, Inhabited

def connMonitor (o : ConnObs) : Option ConnClause :=
  if o.err = true ∧ o.started = true then some .processLeft
  else if o.leak = true then some .goroutineLeft
  else none

end CmdTransport
