import McpModel.CmdTransport.Model
/-!
The typed record of one harness case (child class, what was observed of the REAL CommandTransport) and
the C05 monitor on it.  Time appears only as buckets in units of the case's TerminateDuration.
Core Lean only: linked into the driver.
-/
namespace CmdTransport

inductive EofB | x0 | x3 | slow | ign deriving DecidableEq, Repr, Inhabited
inductive TermB | dfl | h0 | hslow | ign deriving DecidableEq, Repr, Inhabited
inductive SelfB | no | x0 | x2 deriving DecidableEq, Repr, Inhabited
inductive SecondK | no | conn | rwc deriving DecidableEq, Repr, Inhabited

/-- The case: behaviour class of the child and the calls made. -/
structure Class where
  sess : Bool := false          -- through Client.Connect / ClientSession.Close (else Connection.Close)
  eof : EofB := .x0
  term : TermB := .dfl
  self : SelfB := .no
  garbage : Bool := false
  second : SecondK := .no
  pending : Bool := false
  conc : Bool := false
  slack : Nat := 0              -- the generous upper bound, in buckets
deriving Repr, Inhabited

inductive ResObs | nil | exiterr | stdin | done | unresp | waited2 | hang | other | na
deriving DecidableEq, Repr, Inhabited
inductive DeathObs | e0 | en | st | sk | so | nr deriving DecidableEq, Repr, Inhabited
/-- Did the child log SIGTERM, and in which bucket after Close was called (`neg`: before). -/
inductive TermObs | none | neg | at (k : Nat) deriving DecidableEq, Repr, Inhabited
inductive SecondObs | na | same | diff | stdin | nil | hang | other deriving DecidableEq, Repr, Inhabited
inductive PendObs | na | ok | err | hang deriving DecidableEq, Repr, Inhabited

structure Obs where
  connectOk : Bool := true
  res : ResObs := .nil
  eb : Nat := 0                 -- floor(elapsed of Close / TerminateDuration)
  death : DeathObs := .nr       -- from ProcessState when Close returned cmd.Wait's result
  term : TermObs := .none
  gone : Bool := true           -- the process no longer exists (not even as a zombie)
  leak : Bool := false          -- goroutines of the transport left
  second : SecondObs := .na
  pend : PendObs := .na
deriving DecidableEq, Repr, Inhabited

inductive Clause
  | noReturn | late | childLeft | goroutineLeft | notWaited | resultWrong | termEarly | killEarly
  | giveUpEarly | killWithoutTerm | secondHang | secondDiffers | pendingHang
deriving DecidableEq, Repr, Inhabited

/-! ### the property, clause by clause, as predicates on the observation -/

def P_returns (o : Obs) : Prop := o.res ≠ .hang
def P_bounded (c : Class) (o : Obs) : Prop := o.eb ≤ 3 + c.slack
def P_childGone (o : Obs) : Prop := o.gone = true
def P_noGoroutine (o : Obs) : Prop := o.leak = false
/-- Close returns cmd.Wait's result only after cmd.Wait returned. -/
def P_waited (o : Obs) : Prop := (o.res = .nil ∨ o.res = .exiterr) → o.death ≠ .nr
/-- … and the result says how the child ended. -/
def P_result (o : Obs) : Prop := (o.res = .nil → o.death = .e0 ∨ o.death = .nr) ∧ (o.res = .exiterr → o.death ≠ .e0)
/-- SIGTERM only after a full TerminateDuration since Close was called. -/
def P_termGrace (o : Obs) : Prop := o.term ≠ .neg ∧ o.term ≠ .at 0
/-- SIGKILL only after two. -/
def P_killGrace (o : Obs) : Prop := o.death = .sk → 2 ≤ o.eb
/-- giving up ("unresponsive subprocess") only after three. -/
def P_giveUp (o : Obs) : Prop := o.res = .unresp → 3 ≤ o.eb
/-- escalation in order: a child that reports the SIGTERMs it gets is not SIGKILLed without one. -/
def P_order (c : Class) (o : Obs) : Prop := c.term ≠ .dfl → o.death = .sk → o.term ≠ .none
def P_second (o : Obs) : Prop := o.second ≠ .hang ∧ o.second ≠ .diff
def P_pending (o : Obs) : Prop := o.pend ≠ .hang

/-- The monitor: the first clause of C05 (stdio side) the observation violates. -/
def monitor (c : Class) (o : Obs) : Option Clause :=
  if o.res = .hang then some .noReturn
  else if 3 + c.slack < o.eb then some .late
  else if o.gone = false then some .childLeft
  else if o.leak = true then some .goroutineLeft
  else if (o.res = .nil ∨ o.res = .exiterr) ∧ o.death = .nr then some .notWaited
  else if (o.res = .nil ∧ o.death ≠ .e0) ∨ (o.res = .exiterr ∧ o.death = .e0) then some .resultWrong
  else if o.term = .neg ∨ o.term = .at 0 then some .termEarly
  else if o.death = .sk ∧ o.eb < 2 then some .killEarly
  else if o.res = .unresp ∧ o.eb < 3 then some .giveUpEarly
  else if c.term ≠ .dfl ∧ o.death = .sk ∧ o.term = .none then some .killWithoutTerm
  else if o.second = .hang then some .secondHang
  else if o.second = .diff then some .secondDiffers
  else if o.pend = .hang then some .pendingHang
  else none

/-! ### the model's observation of a run -/

def deathObs : Option Death → DeathObs
  | some .exit0 => .e0
  | some .exitN => .en
  | some .sigTerm => .st
  | some .sigKill => .sk
  | none => .nr

def resObs (r : Option Res) (d : DeathObs) : ResObs :=
  match r with
  | some .waited => if d = .e0 then .nil else .exiterr
  | some .stdinErr => .stdin
  | some .procDone => .done
  | some .unresponsive => .unresp
  | none => .hang

/-- What the harness would record of the model's run `run e` for a case of class `c`. -/
def modelObs (c : Class) (e : Env) : Obs :=
  let s := run e
  let d := if s.res = some .waited then deathObs (death e s.termAt s.killAt) else .nr
  { connectOk := true
    res := resObs s.res d
    eb := s.now / e.td
    death := d
    term := match s.termAt with
      | some t => if c.term = .dfl then .none else .at (t / e.td)
      | none => .none
    gone := (exitTime e s.termAt s.killAt).isSome
    leak := s.waiter && !(exitTime e s.termAt s.killAt).isSome
    second := match c.second with
      | .no => .na
      | .conn => .same
      | .rwc => if (run { e with stdinFails := true }).res = some .stdinErr then .stdin else .other
    pend := if c.pending then .ok else .na }

end CmdTransport
