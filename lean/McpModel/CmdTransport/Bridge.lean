import McpModel.CmdTransport.Monitor
import McpModel.CmdTransport.Props
/-!
Bridging theorems of engine cmdtransport: the monitor states exactly the clauses of C05 (stdio side)
(`monitor_complete`, `sound_<clause>`), and accepts every run of the model, for every child and timing
(`monitor_accepts_model`).
-/
namespace CmdTransport

/-- All clauses of the property on one observation. -/
def P (c : Class) (o : Obs) : Prop :=
  P_returns o ∧ P_bounded c o ∧ P_childGone o ∧ P_noGoroutine o ∧ P_waited o ∧ P_result o ∧ P_termGrace o ∧
  P_killGrace o ∧ P_giveUp o ∧ P_order c o ∧ P_second o ∧ P_pending o ∧ P_eofFirst o

/-- The monitor is silent exactly when every clause of the property holds on the observation. -/
theorem monitor_complete (c : Class) (o : Obs) : monitor c o = none ↔ P c o := by
  unfold monitor P P_returns P_bounded P_childGone P_noGoroutine P_waited P_result P_termGrace P_killGrace
    P_giveUp P_order P_second P_pending P_eofFirst
  constructor
  · intro h
    by_cases h1 : o.res = .hang
    · rw [if_pos h1] at h; cases h
    rw [if_neg h1] at h
    by_cases h2 : 3 + c.slack < o.eb
    · rw [if_pos h2] at h; cases h
    rw [if_neg h2] at h
    by_cases h3 : o.gone = false
    · rw [if_pos h3] at h; cases h
    rw [if_neg h3] at h
    by_cases h4 : o.leak = true
    · rw [if_pos h4] at h; cases h
    rw [if_neg h4] at h
    by_cases h5 : (o.res = .nil ∨ o.res = .exiterr) ∧ o.death = .nr
    · rw [if_pos h5] at h; cases h
    rw [if_neg h5] at h
    by_cases h6 : (o.res = .nil ∧ o.death ≠ .e0) ∨ (o.res = .exiterr ∧ o.death = .e0)
    · rw [if_pos h6] at h; cases h
    rw [if_neg h6] at h
    by_cases h7 : o.term = .neg ∨ o.term = .at 0 ∨ (o.death = .st ∧ o.eb < 1)
    · rw [if_pos h7] at h; cases h
    rw [if_neg h7] at h
    by_cases h8 : o.death = .sk ∧ o.eb < 2
    · rw [if_pos h8] at h; cases h
    rw [if_neg h8] at h
    by_cases h9 : o.res = .unresp ∧ o.eb < 3
    · rw [if_pos h9] at h; cases h
    rw [if_neg h9] at h
    by_cases h10 : c.term ≠ .dfl ∧ o.death = .sk ∧ o.term = .none
    · rw [if_pos h10] at h; cases h
    rw [if_neg h10] at h
    by_cases h11 : o.second = .hang
    · rw [if_pos h11] at h; cases h
    rw [if_neg h11] at h
    by_cases h12 : o.second = .diff
    · rw [if_pos h12] at h; cases h
    rw [if_neg h12] at h
    by_cases h13 : o.pend = .hang
    · rw [if_pos h13] at h; cases h
    rw [if_neg h13] at h
    by_cases h14 : o.term ≠ .none ∧ o.eofSeen = false
    · rw [if_pos h14] at h; cases h
    refine ⟨h1, by omega, by simpa using h3, by simpa using h4, ?_, ?_, ?_, ?_, ?_, ?_, ⟨h11, h12⟩, h13, ?_⟩
    · intro hr hd; exact h5 ⟨hr, hd⟩
    · constructor
      · intro hr
        cases hd : o.death <;> simp_all
      · intro hr hd; exact h6 (Or.inr ⟨hr, hd⟩)
    · exact ⟨fun hn => h7 (Or.inl hn), fun hn => h7 (Or.inr (Or.inl hn)), fun hd => Nat.le_of_not_lt fun hlt => h7 (Or.inr (Or.inr ⟨hd, hlt⟩))⟩
    · intro hd; exact Nat.le_of_not_lt fun hlt => h8 ⟨hd, hlt⟩
    · intro hd; exact Nat.le_of_not_lt fun hlt => h9 ⟨hd, hlt⟩
    · intro hc hd hn; exact h10 ⟨hc, hd, hn⟩
    · intro ht; cases he : o.eofSeen with
      | true => rfl
      | false => exact absurd ⟨ht, he⟩ h14
  · intro ⟨h1, h2, h3, h4, h5, h6, h7, h8, h9, h10, h11, h12, h13⟩
    have e1 : ¬ o.res = .hang := h1
    have e2 : ¬ 3 + c.slack < o.eb := by omega
    have e3 : ¬ o.gone = false := by simp [h3]
    have e4 : ¬ o.leak = true := by simp [h4]
    have e5 : ¬ ((o.res = .nil ∨ o.res = .exiterr) ∧ o.death = .nr) := fun ⟨a, b⟩ => h5 a b
    have e6 : ¬ ((o.res = .nil ∧ o.death ≠ .e0) ∨ (o.res = .exiterr ∧ o.death = .e0)) := by
      intro h
      rcases h with ⟨a, b⟩ | ⟨a, b⟩
      · rcases h6.1 a with h' | h'
        · exact b h'
        · exact e5 ⟨Or.inl a, h'⟩
      · exact h6.2 a b
    have e7 : ¬ (o.term = .neg ∨ o.term = .at 0 ∨ (o.death = .st ∧ o.eb < 1)) := by
      intro h
      rcases h with h | h | ⟨a, b⟩
      · exact h7.1 h
      · exact h7.2.1 h
      · have := h7.2.2 a; omega
    have e8 : ¬ (o.death = .sk ∧ o.eb < 2) := fun ⟨a, b⟩ => by have := h8 a; omega
    have e9 : ¬ (o.res = .unresp ∧ o.eb < 3) := fun ⟨a, b⟩ => by have := h9 a; omega
    have e10 : ¬ (c.term ≠ .dfl ∧ o.death = .sk ∧ o.term = .none) := fun ⟨a, b, d⟩ => h10 a b d
    have e14 : ¬ (o.term ≠ .none ∧ o.eofSeen = false) := fun ⟨a, b⟩ => by rw [h13 a] at b; cases b
    simp only [if_neg e1, if_neg e2, if_neg e3, if_neg e4, if_neg e5, if_neg e6, if_neg e7, if_neg e8, if_neg e9,
      if_neg e10, if_neg h11.1, if_neg h11.2, if_neg h12, if_neg e14]

/-- Whatever the monitor reports, the property is violated. -/
theorem monitor_sound (c : Class) (o : Obs) (x : Clause) (h : monitor c o = some x) : ¬ P c o := by
  intro hp
  rw [(monitor_complete c o).mpr hp] at h
  cases h

/-- The clause reported is the clause violated. -/
def violates (c : Class) (o : Obs) : Clause → Prop
  | .noReturn => ¬ P_returns o
  | .late => ¬ P_bounded c o
  | .childLeft => ¬ P_childGone o
  | .goroutineLeft => ¬ P_noGoroutine o
  | .notWaited => ¬ P_waited o
  | .resultWrong => ¬ P_result o
  | .termEarly => ¬ P_termGrace o
  | .killEarly => ¬ P_killGrace o
  | .giveUpEarly => ¬ P_giveUp o
  | .killWithoutTerm => ¬ P_order c o
  | .secondHang => ¬ P_second o
  | .secondDiffers => ¬ P_second o
  | .pendingHang => ¬ P_pending o
  | .termWithoutEof => ¬ P_eofFirst o

theorem sound_clause (c : Class) (o : Obs) (x : Clause) (h : monitor c o = some x) : violates c o x := by
  unfold monitor at h
  by_cases h1 : o.res = .hang
  · rw [if_pos h1] at h; injection h with h; subst h
    simp only [violates, P_returns, P_bounded, P_childGone, P_noGoroutine, P_waited, P_result, P_termGrace, P_killGrace, P_giveUp, P_order, P_second, P_pending, P_eofFirst]
    simp [h1]
  rw [if_neg h1] at h
  by_cases h2 : 3 + c.slack < o.eb
  · rw [if_pos h2] at h; injection h with h; subst h
    simp only [violates, P_returns, P_bounded, P_childGone, P_noGoroutine, P_waited, P_result, P_termGrace, P_killGrace, P_giveUp, P_order, P_second, P_pending, P_eofFirst]
    omega
  rw [if_neg h2] at h
  by_cases h3 : o.gone = false
  · rw [if_pos h3] at h; injection h with h; subst h
    simp only [violates, P_returns, P_bounded, P_childGone, P_noGoroutine, P_waited, P_result, P_termGrace, P_killGrace, P_giveUp, P_order, P_second, P_pending, P_eofFirst]
    simp [h3]
  rw [if_neg h3] at h
  by_cases h4 : o.leak = true
  · rw [if_pos h4] at h; injection h with h; subst h
    simp only [violates, P_returns, P_bounded, P_childGone, P_noGoroutine, P_waited, P_result, P_termGrace, P_killGrace, P_giveUp, P_order, P_second, P_pending, P_eofFirst]
    simp [h4]
  rw [if_neg h4] at h
  by_cases h5 : (o.res = .nil ∨ o.res = .exiterr) ∧ o.death = .nr
  · rw [if_pos h5] at h; injection h with h; subst h
    simp only [violates, P_returns, P_bounded, P_childGone, P_noGoroutine, P_waited, P_result, P_termGrace, P_killGrace, P_giveUp, P_order, P_second, P_pending, P_eofFirst]
    intro hw; exact hw h5.1 h5.2
  rw [if_neg h5] at h
  by_cases h6 : (o.res = .nil ∧ o.death ≠ .e0) ∨ (o.res = .exiterr ∧ o.death = .e0)
  · rw [if_pos h6] at h; injection h with h; subst h
    simp only [violates, P_returns, P_bounded, P_childGone, P_noGoroutine, P_waited, P_result, P_termGrace, P_killGrace, P_giveUp, P_order, P_second, P_pending, P_eofFirst]
    intro hw
    rcases h6 with ⟨a, b⟩ | ⟨a, b⟩
    · rcases hw.1 a with h' | h'
      · exact b h'
      · exact h5 ⟨Or.inl a, h'⟩
    · exact hw.2 a b
  rw [if_neg h6] at h
  by_cases h7 : o.term = .neg ∨ o.term = .at 0 ∨ (o.death = .st ∧ o.eb < 1)
  · rw [if_pos h7] at h; injection h with h; subst h
    simp only [violates, P_returns, P_bounded, P_childGone, P_noGoroutine, P_waited, P_result, P_termGrace, P_killGrace, P_giveUp, P_order, P_second, P_pending, P_eofFirst]
    intro hw
    rcases h7 with h | h | ⟨a, b⟩
    · exact hw.1 h
    · exact hw.2.1 h
    · have := hw.2.2 a; omega
  rw [if_neg h7] at h
  by_cases h8 : o.death = .sk ∧ o.eb < 2
  · rw [if_pos h8] at h; injection h with h; subst h
    simp only [violates, P_returns, P_bounded, P_childGone, P_noGoroutine, P_waited, P_result, P_termGrace, P_killGrace, P_giveUp, P_order, P_second, P_pending, P_eofFirst]
    intro hw; have := hw h8.1; omega
  rw [if_neg h8] at h
  by_cases h9 : o.res = .unresp ∧ o.eb < 3
  · rw [if_pos h9] at h; injection h with h; subst h
    simp only [violates, P_returns, P_bounded, P_childGone, P_noGoroutine, P_waited, P_result, P_termGrace, P_killGrace, P_giveUp, P_order, P_second, P_pending, P_eofFirst]
    intro hw; have := hw h9.1; omega
  rw [if_neg h9] at h
  by_cases h10 : c.term ≠ .dfl ∧ o.death = .sk ∧ o.term = .none
  · rw [if_pos h10] at h; injection h with h; subst h
    simp only [violates, P_returns, P_bounded, P_childGone, P_noGoroutine, P_waited, P_result, P_termGrace, P_killGrace, P_giveUp, P_order, P_second, P_pending, P_eofFirst]
    intro hw; exact hw h10.1 h10.2.1 h10.2.2
  rw [if_neg h10] at h
  by_cases h11 : o.second = .hang
  · rw [if_pos h11] at h; injection h with h; subst h
    simp only [violates, P_returns, P_bounded, P_childGone, P_noGoroutine, P_waited, P_result, P_termGrace, P_killGrace, P_giveUp, P_order, P_second, P_pending, P_eofFirst]
    intro hw; exact hw.1 h11
  rw [if_neg h11] at h
  by_cases h12 : o.second = .diff
  · rw [if_pos h12] at h; injection h with h; subst h
    simp only [violates, P_returns, P_bounded, P_childGone, P_noGoroutine, P_waited, P_result, P_termGrace, P_killGrace, P_giveUp, P_order, P_second, P_pending, P_eofFirst]
    intro hw; exact hw.2 h12
  rw [if_neg h12] at h
  by_cases h13 : o.pend = .hang
  · rw [if_pos h13] at h; injection h with h; subst h
    simp only [violates, P_returns, P_bounded, P_childGone, P_noGoroutine, P_waited, P_result, P_termGrace, P_killGrace, P_giveUp, P_order, P_second, P_pending, P_eofFirst]
    intro hw; exact hw h13
  rw [if_neg h13] at h
  by_cases h14 : o.term ≠ .none ∧ o.eofSeen = false
  · rw [if_pos h14] at h; injection h with h; subst h
    simp only [violates, P_eofFirst]
    intro hw; have := hw h14.1; rw [h14.2] at this; cases this
  rw [if_neg h14] at h
  cases h

theorem sound_noReturn (c : Class) (o : Obs) (h : monitor c o = some .noReturn) : o.res = .hang := by
  have := sound_clause c o _ h; simpa [violates, P_returns] using this
theorem sound_late (c : Class) (o : Obs) (h : monitor c o = some .late) : 3 + c.slack < o.eb := by
  have := sound_clause c o _ h; simp only [violates, P_bounded] at this; omega
theorem sound_childLeft (c : Class) (o : Obs) (h : monitor c o = some .childLeft) : o.gone = false := by
  have := sound_clause c o _ h; simpa [violates, P_childGone] using this
theorem sound_goroutineLeft (c : Class) (o : Obs) (h : monitor c o = some .goroutineLeft) : o.leak = true := by
  have := sound_clause c o _ h; simpa [violates, P_noGoroutine] using this
theorem sound_notWaited (c : Class) (o : Obs) (h : monitor c o = some .notWaited) :
    (o.res = .nil ∨ o.res = .exiterr) ∧ o.death = .nr := by
  have := sound_clause c o _ h
  simp only [violates, P_waited] at this
  exact Classical.byContradiction fun hn => this fun a b => hn ⟨a, b⟩
theorem sound_termEarly (c : Class) (o : Obs) (h : monitor c o = some .termEarly) :
    o.term = .neg ∨ o.term = .at 0 ∨ (o.death = .st ∧ o.eb < 1) := by
  have := sound_clause c o _ h
  simp only [violates, P_termGrace] at this
  exact Classical.byContradiction fun hn => this ⟨fun a => hn (Or.inl a), fun a => hn (Or.inr (Or.inl a)),
    fun a => Nat.le_of_not_lt fun b => hn (Or.inr (Or.inr ⟨a, b⟩))⟩
theorem sound_killEarly (c : Class) (o : Obs) (h : monitor c o = some .killEarly) : o.death = .sk ∧ o.eb < 2 := by
  have := sound_clause c o _ h
  simp only [violates, P_killGrace] at this
  exact Classical.byContradiction fun hn => this fun a => by
    have : ¬ o.eb < 2 := fun b => hn ⟨a, b⟩
    omega
theorem sound_giveUpEarly (c : Class) (o : Obs) (h : monitor c o = some .giveUpEarly) : o.res = .unresp ∧ o.eb < 3 := by
  have := sound_clause c o _ h
  simp only [violates, P_giveUp] at this
  exact Classical.byContradiction fun hn => this fun a => by
    have : ¬ o.eb < 3 := fun b => hn ⟨a, b⟩
    omega
theorem sound_killWithoutTerm (c : Class) (o : Obs) (h : monitor c o = some .killWithoutTerm) :
    c.term ≠ .dfl ∧ o.death = .sk ∧ o.term = .none := by
  have := sound_clause c o _ h
  simp only [violates, P_order] at this
  exact Classical.byContradiction fun hn => this fun a b d => hn ⟨a, b, d⟩
theorem sound_termWithoutEof (c : Class) (o : Obs) (h : monitor c o = some .termWithoutEof) : o.term ≠ .none ∧ o.eofSeen = false := by
  have := sound_clause c o _ h
  simp only [violates, P_eofFirst] at this
  refine Classical.byContradiction fun hn => this fun a => ?_
  cases he : o.eofSeen with
  | true => rfl
  | false => exact absurd ⟨a, he⟩ hn
theorem sound_pendingHang (c : Class) (o : Obs) (h : monitor c o = some .pendingHang) : o.pend = .hang := by
  have := sound_clause c o _ h; simpa [violates, P_pending] using this

/-! ### the model satisfies the property: the monitor accepts every model run -/

theorem death_isSome (e : Env) (ta ka : Option Nat) (h : (exitTime e ta ka).isSome) : (death e ta ka).isSome := by
  unfold death
  cases hx : exitTime e ta ka with
  | none => simp [hx] at h
  | some x => simp only; (repeat' split) <;> simp

theorem deathObs_ne_nr (d : Option Death) (h : d.isSome) : deathObs d ≠ .nr := by
  cases d with
  | none => simp at h
  | some d => cases d <;> simp [deathObs]

theorem deathObs_sk (d : Option Death) (h : deathObs d = .sk) : d = some .sigKill := by
  cases d with
  | none => simp [deathObs] at h
  | some d => cases d <;> simp [deathObs] at h ⊢

theorem deathObs_st (d : Option Death) (h : deathObs d = .st) : d = some .sigTerm := by
  cases d with
  | none => simp [deathObs] at h
  | some d => cases d <;> simp [deathObs] at h ⊢

/-- **The model satisfies C05 (stdio side)**: for every class of child, every environment (timing, lag,
exit codes) with a positive TerminateDuration, on a first Close, the observation of the model's run
satisfies every clause. -/
theorem model_satisfies_P (c : Class) (e : Env) (htd : 0 < e.td) (hs : e.stdinFails = false) : P c (modelObs c e) := by
  obtain ⟨hexp, hnow, hen, ht, hk, hr⟩ := close_final e
  have hne : (run e).res ≠ some .stdinErr := by
    intro h; have := stdinErr_only_if_fails e h; rw [hs] at this; cases this
  obtain ⟨hg1, hg2, hgone⟩ := child_gone e hne
  have hdS := death_isSome e _ _ hgone
  have heb : (run e).now / e.td ≤ 3 := by
    apply Nat.div_le_of_le_mul; rw [Nat.mul_comm]; exact hnow
  have hexpb : (run e).expiries ≤ (run e).now / e.td := by
    rw [Nat.le_div_iff_mul_le htd]; exact hen
  have hskK : deathObs (death e (run e).termAt (run e).killAt) = .sk → (run e).killAt.isSome := by
    intro h; exact death_kill e _ _ (deathObs_sk _ h)
  refine ⟨?_, ?_, ?_, ?_, ?_, ?_, ?_, ?_, ?_, ?_, ?_, ?_, ?_⟩
  · -- returns
    simp only [P_returns, modelObs]
    rcases hr with h | h | h | h <;> simp [h.1, resObs] <;> split <;> simp
  · simp only [P_bounded, modelObs]; omega
  · simp only [P_childGone, modelObs]; exact hgone
  · simp only [P_noGoroutine, modelObs]; simp [hgone]
  · -- waited
    simp only [P_waited, modelObs]
    intro hres
    rcases hr with h | h | h | h
    · simp only [h.1, if_true]; exact deathObs_ne_nr _ hdS
    · exact absurd h.1 hne
    · simp [h.1, resObs] at hres
    · simp [h.1, resObs] at hres
  · -- result
    simp only [P_result, modelObs]
    rcases hr with h | h | h | h
    · simp only [h.1, if_true, resObs]
      constructor
      · intro hh; split at hh
        · rename_i h0; exact Or.inl h0
        · cases hh
      · intro hh; split at hh
        · cases hh
        · rename_i h0; exact h0
    · exact absurd h.1 hne
    · simp [h.1, resObs]
    · simp [h.1, resObs]
  · -- term grace
    simp only [P_termGrace, modelObs]
    have hst : (if (run e).res = some .waited then deathObs (death e (run e).termAt (run e).killAt) else DeathObs.nr) = .st →
        1 ≤ (run e).now / e.td := by
      intro hd
      split at hd
      · have hts := death_term e _ _ (deathObs_st _ hd)
        rcases ht with h | h
        · simp [h] at hts
        · omega
      · cases hd
    have : e.td / e.td = 1 := Nat.div_self htd
    refine ⟨?_, ?_, hst⟩
    · rcases ht with h | h
      · simp [h]
      · simp only [h.1]; split <;> simp
    · rcases ht with h | h
      · simp [h]
      · simp only [h.1]; split <;> simp [this]
  · -- kill grace
    simp only [P_killGrace, modelObs]
    intro hd
    split at hd
    · have hks := hskK hd
      rcases hk with h | h
      · simp [h] at hks
      · omega
    · cases hd
  · -- give up
    simp only [P_giveUp, modelObs]
    intro hres
    rcases hr with h | h | h | h
    · by_cases h0 : deathObs (death e (run e).termAt (run e).killAt) = .e0 <;> simp [h.1, resObs, h0] at hres
    · exact absurd h.1 hne
    · simp [h.1, resObs] at hres
    · omega
  · -- order
    simp only [P_order, modelObs]
    intro hc hd
    split at hd
    · have hks := hskK hd
      rcases hk with h | h
      · simp [h] at hks
      · simp [h.2.1, hc]
    · cases hd
  · -- second
    simp only [P_second, modelObs]
    cases c.second <;> simp
    all_goals split <;> simp
  · simp only [P_pending, modelObs]; split <;> simp
  · simp only [P_eofFirst, modelObs]
    intro _
    have := stdin_closed e hne
    simp [this]

/-- `monitor_accepts_model`: the monitor is silent on every run of the model. -/
theorem monitor_accepts_model (c : Class) (e : Env) (htd : 0 < e.td) (hs : e.stdinFails = false) :
    monitor c (modelObs c e) = none :=
  (monitor_complete c _).mpr (model_satisfies_P c e htd hs)

/-- … and a second `pipeRWC.Close` is observed as "closing stdin" by the model. -/
theorem model_second_close (c : Class) (e : Env) (hc : c.second = .rwc) : (modelObs c e).second = .stdin := by
  simp only [modelObs, hc]
  have := (second_close_inert { e with stdinFails := true } rfl).1
  simp [this]

/-- … in particular with the default TerminateDuration regenerated from mcp/cmd.go. -/
theorem monitor_accepts_model_default (c : Class) (e : Env) (hs : e.stdinFails = false) :
    monitor c (modelObs c { e with td := Generated.CmdTransport.defaultTerminateNanos }) = none :=
  monitor_accepts_model c _ default_td_pos hs

/-- The in-process Server.Run: the monitor accepts what the model of its select returns. -/
theorem srv_monitor_accepts_model (e : SrvEnd) (b : Bool) : srvMonitor (srvRun e b) = none := by
  cases e <;> cases b <;> decide

theorem srv_sound (o : SrvObs) (x : SrvClause) (h : srvMonitor o = some x) :
    match x with
    | .noReturn => o.ret = .hang
    | .sessionLeft => o.sessions ≠ 0
    | .goroutineLeft => o.leak = true := by
  unfold srvMonitor at h
  by_cases h1 : o.ret = .hang
  · rw [if_pos h1] at h; injection h with h; subst h; exact h1
  rw [if_neg h1] at h
  by_cases h2 : o.sessions ≠ 0
  · rw [if_pos h2] at h; injection h with h; subst h; exact h2
  rw [if_neg h2] at h
  by_cases h3 : o.leak = true
  · rw [if_pos h3] at h; injection h with h; subst h; exact h3
  rw [if_neg h3] at h; cases h

/-- A failing Connect: the monitor accepts the model's observation, and what it reports is what it says. -/
theorem conn_monitor_accepts_model : connMonitor connFail = none := by decide

theorem conn_sound (o : ConnObs) (x : ConnClause) (h : connMonitor o = some x) :
    match x with
    | .processLeft => o.err = true ∧ o.started = true
    | .goroutineLeft => o.leak = true := by
  unfold connMonitor at h
  by_cases h1 : o.err = true ∧ o.started = true
  · rw [if_pos h1] at h; injection h with h; subst h; exact h1
  rw [if_neg h1] at h
  by_cases h2 : o.leak = true
  · rw [if_pos h2] at h; injection h with h; subst h; exact h2
  rw [if_neg h2] at h; cases h

/-- Non-vacuity: the monitor does reject. -/
example : monitor {} { res := .unresp, eb := 3, gone := false } = some .childLeft := by decide
example : monitor { term := .ign } { res := .exiterr, death := .sk, eb := 2 } = some .killWithoutTerm := by decide
example : monitor {} { res := .nil, death := .nr } = some .notWaited := by decide
example : monitor { term := .h0 } { res := .nil, death := .e0, eb := 1, term := .at 1, eofSeen := false } = some .termWithoutEof := by decide
example : monitor {} { res := .exiterr, death := .st, eb := 1, term := .at 0 } = some .termEarly := by decide
example : monitor {} { res := .exiterr, death := .st, eb := 0 } = some .termEarly := by decide

end CmdTransport
namespace CmdTransport
theorem classEnvs_ok (c : Class) (e : Env) (h : e ∈ classEnvs c) : e.td = 4 ∧ e.stdinFails = false := by
  simp only [classEnvs, List.mem_flatMap, List.mem_map] at h
  obtain ⟨_, _, _, _, _, _, _, _, _, _, rfl⟩ := h
  exact ⟨rfl, rfl⟩

/-- Every environment the driver's search ranges over is a model run the monitor accepts: an
observation explained by the grid differs from an accepted one only in what the search leaves free. -/
theorem grid_envs_accepted (c : Class) (e : Env) (h : e ∈ classEnvs c) : monitor c (modelObs c e) = none := by
  obtain ⟨h1, h2⟩ := classEnvs_ok c e h
  exact monitor_accepts_model c e (by omega) h2

theorem nominal_accepted (c : Class) : monitor c (modelObs c (nominalEnv c)) = none :=
  monitor_accepts_model c _ (by simp [nominalEnv]) rfl
end CmdTransport
namespace CmdTransport
/-- **What the comparison with the model guarantees by itself**: an observation the driver's search
explains by a model run already satisfies the clauses about the result and the escalation's lower bounds
(Wait's result only after Wait returned; truthful; SIGKILL not before two, giving up not before three
TerminateDurations) — the monitor's other clauses are about what the search leaves free. -/
theorem explained_obs_sound (c : Class) (o : Obs) (e : Env) (h : explain c o = some e) :
    P_waited o ∧ P_result o ∧ P_killGrace o ∧ P_giveUp o := by
  obtain ⟨hmem, hm⟩ := explain_sound c o e h
  obtain ⟨htd, hs⟩ := classEnvs_ok c e hmem
  have hP := model_satisfies_P c e (by omega) hs
  obtain ⟨_, _, _, _, hw, hr, _, _, _, _, _, _, _⟩ := hP
  simp only [matchesEnv, Bool.and_eq_true, beq_iff_eq, decide_eq_true_eq] at hm
  obtain ⟨⟨⟨hres, hdeath⟩, hexp⟩, _⟩ := hm
  obtain ⟨_, _, _, _, hk, hfin⟩ := close_final e
  have hne : (run e).res ≠ some .stdinErr := by
    intro h'; have := stdinErr_only_if_fails e h'; rw [hs] at this; cases this
  refine ⟨?_, ?_, ?_, ?_⟩
  · unfold P_waited at *; rw [← hres, ← hdeath]; exact hw
  · unfold P_result at *; rw [← hres, ← hdeath]; exact hr
  · unfold P_killGrace
    intro hd
    rw [← hdeath] at hd
    simp only [modelObs] at hd
    split at hd
    · have hks := death_kill e _ _ (deathObs_sk _ hd)
      rcases hk with h' | h'
      · simp [h'] at hks
      · omega
    · cases hd
  · unfold P_giveUp
    intro hu
    rw [← hres] at hu
    rcases hfin with h' | h' | h' | h'
    · by_cases h0 : deathObs (death e (run e).termAt (run e).killAt) = .e0 <;> simp [modelObs, h'.1, resObs, h0] at hu
    · exact absurd h'.1 hne
    · simp [modelObs, h'.1, resObs] at hu
    · omega
end CmdTransport
