/-!
E-cmdtransport (C05, stdio side): the termination protocol of `pipeRWC.Close` (mcp/cmd.go) as a small
labelled transition system.

Code modelled (statement order regenerated as structural fact `cmdtransport.close_shape`):

    stdin.Close()  (error → return "closing stdin")           label start
    go { resChan <- cmd.Wait() }
    wait()  = select { resChan | time.After(td) }             label wait1
    Process.Signal(SIGTERM)  (error → skip the second wait)   label sigTerm
    wait()                                                    label wait2
    Process.Kill()           (error → return it)              label sigKill
    wait()                                                    label wait3
    return "unresponsive subprocess"

The ENVIRONMENT is the child process and the scheduler: when (if ever) the child exits by itself, how long
after stdin EOF / after SIGTERM it exits (or that it ignores them), how long the kernel takes after
SIGKILL, and how long it takes from the child's exit until `cmd.Wait` has delivered its result (`lag`).
Time is in abstract ticks counted from the start of Close; `td` ticks are one TerminateDuration.
`Process.Signal`/`Kill` fail (os.ErrProcessDone) exactly when the process has already been waited for;
a signal to a child that has exited but has not been reaped yet succeeds (it is a zombie).
Core Lean only: linked into the driver.
-/
namespace CmdTransport

inductive PC | start | wait1 | sigTerm | wait2 | sigKill | wait3 | done
deriving DecidableEq, Repr, Inhabited

/-- What Close returns: the result of cmd.Wait, "closing stdin: …", the error of Process.Kill
(os.ErrProcessDone), or "unresponsive subprocess". -/
inductive Res | waited | stdinErr | procDone | unresponsive
deriving DecidableEq, Repr, Inhabited

/-- How the child ended, as `ProcessState` shows it. -/
inductive Death | exit0 | exitN | sigTerm | sigKill
deriving DecidableEq, Repr, Inhabited

structure Env where
  td : Nat                      -- TerminateDuration in ticks
  stdinFails : Bool := false    -- stdin.Close returns an error (stdin already closed: a second Close)
  self : Option Nat := none     -- the child exits by itself at this tick (0: before Close is called)
  selfNonzero : Bool := false
  eof : Option Nat := none      -- the child exits this many ticks after stdin is closed (none: ignores EOF)
  eofNonzero : Bool := false
  term : Option Nat := none     -- the child exits this many ticks after SIGTERM (none: ignores it)
  termDefault : Bool := true    -- SIGTERM has its default disposition (death by signal) / a handler that exits 0
  killDelay : Nat := 0          -- ticks from SIGKILL to the exit (the kernel always ends the process)
  lag : Nat := 0                -- ticks from the exit until cmd.Wait's result is in resChan
deriving Repr, Inhabited

structure St where
  pc : PC := .start
  now : Nat := 0
  termAt : Option Nat := none   -- tick at which SIGTERM was delivered
  killAt : Option Nat := none   -- tick at which SIGKILL was delivered
  expiries : Nat := 0           -- timer expiries so far
  res : Option Res := none
  stdinClosed : Bool := false
  waiter : Bool := false        -- the goroutine running cmd.Wait was started
deriving Repr, Inhabited

def minO : Option Nat → Option Nat → Option Nat
  | none, b => b
  | a, none => a
  | some a, some b => some (min a b)

def termExit (e : Env) (ta : Option Nat) : Option Nat :=
  match ta, e.term with
  | some t, some d => some (t + d)
  | _, _ => none

def killExit (e : Env) (ka : Option Nat) : Option Nat :=
  match ka with
  | some t => some (t + e.killDelay)
  | none => none

/-- The tick at which the child exits, given the signals delivered so far (stdin is closed at tick 0). -/
def exitTime (e : Env) (ta ka : Option Nat) : Option Nat :=
  minO (minO e.self e.eof) (minO (termExit e ta) (killExit e ka))

/-- The tick at which cmd.Wait's result is available to Close. -/
def arrival (e : Env) (ta ka : Option Nat) : Option Nat :=
  match exitTime e ta ka with
  | some x => some (x + e.lag)
  | none => none

/-- The process has been waited for at tick `t`. -/
def reapedB (e : Env) (ta ka : Option Nat) (t : Nat) : Bool :=
  match arrival e ta ka with
  | some a => decide (a ≤ t)
  | none => false

/-- Cause of the exit (ties: the earlier-listed cause). -/
def death (e : Env) (ta ka : Option Nat) : Option Death :=
  match exitTime e ta ka with
  | none => none
  | some x =>
    if e.self = some x then some (if e.selfNonzero then .exitN else .exit0)
    else if e.eof = some x then some (if e.eofNonzero then .exitN else .exit0)
    else if termExit e ta = some x then some (if e.termDefault then .sigTerm else .exit0)
    else some .sigKill

/-- `wait()`: the result of cmd.Wait if it arrives strictly before the timer, else the timer fires. -/
def waitStep (e : Env) (s : St) (next : PC) (tmo : Option Res) : St :=
  match arrival e s.termAt s.killAt with
  | some a =>
    if a < s.now + e.td then { s with pc := .done, now := max s.now a, res := some .waited }
    else { s with pc := next, now := s.now + e.td, expiries := s.expiries + 1, res := tmo }
  | none => { s with pc := next, now := s.now + e.td, expiries := s.expiries + 1, res := tmo }

/-- One atomic section of pipeRWC.Close. -/
def step (e : Env) (s : St) : St :=
  match s.pc with
  | .start =>
    if e.stdinFails then { s with pc := .done, res := some .stdinErr }
    else { s with pc := .wait1, stdinClosed := true, waiter := true }
  | .wait1 => waitStep e s .sigTerm none
  | .sigTerm =>
    if reapedB e s.termAt s.killAt s.now then { s with pc := .sigKill }
    else { s with pc := .wait2, termAt := some s.now }
  | .wait2 => waitStep e s .sigKill none
  | .sigKill =>
    if reapedB e s.termAt s.killAt s.now then { s with pc := .done, res := some .procDone }
    else { s with pc := .wait3, killAt := some s.now }
  | .wait3 => waitStep e s .done (some .unresponsive)
  | .done => s

def init : St := {}

/-- Close, run to completion: six atomic sections at most. -/
def run (e : Env) : St := step e (step e (step e (step e (step e (step e (step e init))))))

/-- The label sequence of the run (for the driver and the examples). -/
def trace (e : Env) : List PC :=
  let rec go : Nat → St → List PC
    | 0, _ => []
    | n + 1, s => if s.pc = .done then [] else s.pc :: go n (step e s)
  go 7 init

end CmdTransport
