import McpModel.Base.Proto
import McpModel.CmdTransport.Monitor
/-!
Driver of engine cmdtransport: STRING LAYER only (token parser, renderer, clause texts).  The model line
is `CmdTransport.modelLine` (a model run of the case's class that explains the observation, else the
nominal run), the monitor is `CmdTransport.monitor` (Monitor.lean; bridged by Bridge.lean).
-/
namespace CmdTransport
open Proto

def kvOf (toks : List String) (k : String) : String :=
  match toks.find? (fun t => t.startsWith (k ++ "=")) with
  | some t => (t.drop (k.length + 1)).toString
  | none => ""

def parseClass (t : List String) : Class :=
  { sess := kvOf t "lvl" == "sess"
    eof := match kvOf t "eof" with | "x3" => .x3 | "slow" => .slow | "ign" => .ign | _ => .x0
    term := match kvOf t "term" with | "h0" => .h0 | "hslow" => .hslow | "ign" => .ign | _ => .dfl
    self := match kvOf t "self" with | "x0" => .x0 | "x2" => .x2 | _ => .no
    garbage := kvOf t "out" == "garbage"
    second := match kvOf t "second" with | "conn" => .conn | "rwc" => .rwc | _ => .no
    pending := kvOf t "pending" == "1"
    conc := kvOf t "conc" == "1"
    slack := (kvOf t "slack").toNat?.getD 0 }

def ResObs.text : ResObs → String
  | .nil => "nil" | .exiterr => "exiterr" | .stdin => "stdin" | .done => "done" | .unresp => "unresp"
  | .waited2 => "waited2" | .hang => "hang" | .other => "other" | .na => "na"
def parseRes : String → ResObs
  | "nil" => .nil | "exiterr" => .exiterr | "stdin" => .stdin | "done" => .done | "unresp" => .unresp
  | "waited2" => .waited2 | "hang" => .hang | "na" => .na | _ => .other
def DeathObs.text : DeathObs → String
  | .e0 => "e0" | .en => "en" | .st => "st" | .sk => "sk" | .so => "so" | .nr => "nr"
def parseDeath : String → DeathObs
  | "e0" => .e0 | "en" => .en | "st" => .st | "sk" => .sk | "so" => .so | _ => .nr
def TermObs.text : TermObs → String
  | .none => "tno" | .neg => "tneg" | .at k => s!"t{k}"
def parseTermObs (s : String) : TermObs :=
  if s == "tno" then .none else if s == "tneg" then .neg
  else match ((s.drop 1).toString).toNat? with
    | some k => .at k
    | none => .neg
def SecondObs.text : SecondObs → String
  | .na => "na" | .same => "same" | .diff => "diff" | .stdin => "stdin" | .nil => "nil" | .hang => "hang" | .other => "other"
def parseSecond : String → SecondObs
  | "na" => .na | "same" => .same | "diff" => .diff | "stdin" => .stdin | "nil" => .nil | "hang" => .hang | _ => .other
def PendObs.text : PendObs → String
  | .na => "na" | .ok => "ok" | .err => "err" | .hang => "hang"
def parsePend : String → PendObs
  | "na" => .na | "ok" => .ok | "err" => .err | _ => .hang

def b01 (b : Bool) : String := if b then "1" else "0"

def showObs (o : Obs) : String :=
  s!"connect={if o.connectOk then "ok" else "err"} res={o.res.text} eb={o.eb} death={o.death.text} term={o.term.text} eof={b01 o.eofSeen} gone={b01 o.gone} leak={b01 o.leak} second={o.second.text} pend={o.pend.text}"

def parseObs (t : List String) : Obs :=
  { connectOk := kvOf t "connect" == "ok"
    res := parseRes (kvOf t "res")
    eb := (kvOf t "eb").toNat?.getD 0
    death := parseDeath (kvOf t "death")
    term := parseTermObs (kvOf t "term")
    eofSeen := kvOf t "eof" == "1"
    gone := kvOf t "gone" == "1"
    leak := kvOf t "leak" == "1"
    second := parseSecond (kvOf t "second")
    pend := parsePend (kvOf t "pend") }

def Clause.text : Clause → String
  | .noReturn => "C05: Close of the command transport did not return (three TerminateDurations and the slack have passed)"
  | .late => "C05: Close of the command transport returned later than three TerminateDurations plus the slack"
  | .childLeft => "C05: the child process still exists (running, or exited and never waited for) after Close returned"
  | .goroutineLeft => "C05: goroutines of the transport are still running after Close returned and the child is gone"
  | .notWaited => "C05: Close returned as if cmd.Wait had returned, but the child process has not been waited for"
  | .resultWrong => "C05: Close's result does not say how the child ended (nil for a child that did not exit with status 0, or an exit error for one that did)"
  | .termEarly => "C05: SIGTERM reached the child before one TerminateDuration had passed since Close was called: stdin EOF was not given its grace period"
  | .killEarly => "C05: the child was SIGKILLed before two TerminateDurations had passed since Close was called"
  | .giveUpEarly => "C05: Close gave up (unresponsive subprocess) before three TerminateDurations had passed"
  | .killWithoutTerm => "C05: the child was SIGKILLed without having been sent SIGTERM first (escalation out of order)"
  | .secondHang => "C05: a second Close did not return"
  | .secondDiffers => "C05: a second Close of the connection returned a different result than the first"
  | .pendingHang => "C05: a call that was pending when Close was called never returned"
  | .termWithoutEof => "C05: the child was sent SIGTERM without its stdin having been closed first (it reports the SIGTERM but no EOF before it)"

def SrvRet.text : SrvRet → String
  | .nil => "nil" | .canceled => "canceled" | .err => "err" | .hang => "hang"
def showSrv (o : SrvObs) : String := s!"ret={o.ret.text} sessions={o.sessions} leak={b01 o.leak}"
def parseSrv (t : List String) : SrvObs :=
  { ret := match kvOf t "ret" with | "nil" => .nil | "canceled" => .canceled | "hang" => .hang | _ => .err
    sessions := (kvOf t "sessions").toNat?.getD 99
    leak := kvOf t "leak" == "1" }
def SrvClause.text : SrvClause → String
  | .noReturn => "C05: Server.Run did not return after the peer closed its stream / the context ended"
  | .sessionLeft => "C05: the session is still registered in the Server after Server.Run returned"
  | .goroutineLeft => "C05: goroutines of the session are still running after Server.Run returned"

def drvStep (_ : Unit) (ops : List String) (impl : String) : Unit × Verdict :=
  match ops with
  | ["reset"] => ((), { model := "ok" })
  | "close" :: rest =>
    if impl == "panic" then ((), { model := "no-panic", violated := some "C05: panic while closing the command transport" }) else
    let c := parseClass rest
    let o := parseObs (words impl)
    let m := modelLine c o
    let line := showObs m
    -- the string layer is checked on every record: the model's line must survive rendering and parsing
    if parseObs (words line) != m then ((), { model := line, violated := some "LIBDISC render/parse" }) else
    ((), { model := line, violated := (monitor c o).map Clause.text })
  | "srvrun" :: rest =>
    if impl == "panic" then ((), { model := "no-panic", violated := some "C05: panic in Server.Run" }) else
    let e : SrvEnd := match kvOf rest "end" with | "cancel" => .cancel | "both" => .both | _ => .eof
    let o := parseSrv (words impl)
    ((), { model := showSrv (srvModelLine e o), violated := (srvMonitor o).map SrvClause.text })
  | "connecterr" :: _ =>
    if impl == "panic" then ((), { model := "no-panic", violated := some "C05: panic in CommandTransport.Connect" }) else
    let t := words impl
    let o : ConnObs := { err := kvOf t "err" == "1", started := kvOf t "started" == "1", leak := kvOf t "leak" == "1" }
    let m := connFail
    ((), { model := s!"err={b01 m.err} started={b01 m.started} leak={b01 m.leak}",
           violated := (connMonitor o).map fun
             | .processLeft => "C05: CommandTransport.Connect failed but left a child process behind"
             | .goroutineLeft => "C05: CommandTransport.Connect failed but left goroutines of the transport behind" })
  | _ => ((), { model := "bad-op", violated := none })

end CmdTransport

def main : IO Unit := Proto.run { init := (), step := CmdTransport.drvStep }
