import McpModel.CmdTransport.Model
import McpModel.Generated.CmdTransportGen
/-!
C05, stdio side: theorems about the termination protocol of `pipeRWC.Close`, for ALL environments
(every child behaviour, every timing, every scheduling lag).
-/
namespace CmdTransport

/-! ### helper lemmas -/

theorem minO_some_left {a : Nat} {b : Option Nat} : (minO (some a) b).isSome := by
  cases b <;> simp [minO]

theorem minO_some_right {a : Option Nat} {b : Nat} : (minO a (some b)).isSome := by
  cases a <;> simp [minO]

theorem minO_cases (a b : Option Nat) (x : Nat) (h : minO a b = some x) : a = some x ∨ b = some x := by
  cases a <;> cases b <;> simp [minO] at h ⊢
  · exact h
  · exact h
  · omega

theorem minO_none (a b : Option Nat) (h : minO a b = none) : a = none ∧ b = none := by
  cases a <;> cases b <;> simp [minO] at h ⊢

/-- Delivering SIGKILL at a tick at which the child has not been reaped … -/
theorem exitTime_kill_isSome (e : Env) (ta : Option Nat) (k : Nat) : (exitTime e ta (some k)).isSome := by
  unfold exitTime killExit
  generalize minO e.self e.eof = a
  generalize termExit e ta = b
  have : (minO b (some (k + e.killDelay))).isSome := minO_some_right
  cases h : minO b (some (k + e.killDelay)) with
  | none => simp [h] at this
  | some y => exact minO_some_right

/-- The shape of the state at every program point of Close (the invariant). -/
def Inv (e : Env) (s : St) : Prop :=
  match s.pc with
  | .start | .wait1 => s.expiries = 0 ∧ s.now = 0 ∧ s.termAt = none ∧ s.killAt = none ∧ s.res = none
  | .sigTerm => s.expiries = 1 ∧ s.now = e.td ∧ s.termAt = none ∧ s.killAt = none ∧ s.res = none
  | .wait2 => s.expiries = 1 ∧ s.now = e.td ∧ s.termAt = some e.td ∧ s.killAt = none ∧ s.res = none ∧
      reapedB e none none e.td = false
  | .sigKill => s.killAt = none ∧ s.res = none ∧
      ((s.expiries = 1 ∧ s.now = e.td ∧ s.termAt = none ∧ reapedB e none none e.td = true) ∨
       (s.expiries = 2 ∧ s.now = 2 * e.td ∧ s.termAt = some e.td ∧ reapedB e none none e.td = false))
  | .wait3 => s.expiries = 2 ∧ s.now = 2 * e.td ∧ s.termAt = some e.td ∧ s.killAt = some (2 * e.td) ∧ s.res = none ∧
      reapedB e none none e.td = false ∧ reapedB e (some e.td) none (2 * e.td) = false
  | .done =>
      s.expiries ≤ 3 ∧ s.now ≤ 3 * e.td ∧ s.expiries * e.td ≤ s.now ∧
      (s.termAt = none ∨ (s.termAt = some e.td ∧ 1 ≤ s.expiries ∧ reapedB e none none e.td = false)) ∧
      (s.killAt = none ∨ (s.killAt = some (2 * e.td) ∧ s.termAt = some e.td ∧ 2 ≤ s.expiries ∧
          reapedB e (some e.td) none (2 * e.td) = false)) ∧
      (s.res = some .waited ∧ reapedB e s.termAt s.killAt s.now = true ∨
       s.res = some .stdinErr ∧ s.termAt = none ∧ s.killAt = none ∧ s.expiries = 0 ∧ e.stdinFails = true ∨
       s.res = some .procDone ∧ s.killAt = none ∧ reapedB e s.termAt s.killAt s.now = true ∧ 1 ≤ s.expiries ∨
       s.res = some .unresponsive ∧ s.killAt.isSome ∧ s.expiries = 3)

theorem inv_init (e : Env) : Inv e init := by simp [Inv, init]

theorem reapedB_mono (e : Env) (ta ka : Option Nat) (t t' : Nat) (h : reapedB e ta ka t = true) (ht : t ≤ t') :
    reapedB e ta ka t' = true := by
  unfold reapedB at *
  cases ha : arrival e ta ka with
  | none => simp [ha] at h
  | some a => simp [ha] at h ⊢; omega

theorem inv_wait (e : Env) (s : St) (a : Nat) (h : arrival e s.termAt s.killAt = some a) (hlt : a < s.now + e.td) :
    reapedB e s.termAt s.killAt (max s.now a) = true := by
  unfold reapedB; simp [h]; omega

theorem inv_step (e : Env) (s : St) (h : Inv e s) : Inv e (step e s) := by
  cases hpc : s.pc
  case start =>
    simp only [Inv, hpc] at h
    obtain ⟨h1, h2, h3, h4, h5⟩ := h
    simp only [step, hpc]
    split
    · simp [Inv, h1, h2, h3, h4, *]
    · simp [Inv, h1, h2, h3, h4, h5]
  case wait1 =>
    simp only [Inv, hpc] at h
    obtain ⟨h1, h2, h3, h4, h5⟩ := h
    simp only [step, hpc, waitStep]
    split
    · rename_i a ha
      split
      · rename_i hlt
        have := inv_wait e s a ha hlt
        simp only [Inv]
        simp [h1, h2, h3, h4] at this hlt ⊢
        refine ⟨by omega, ?_⟩
        simpa [h3, h4] using this
      · simp [Inv, h1, h2, h3, h4, h5]
    · simp [Inv, h1, h2, h3, h4, h5]
  case sigTerm =>
    simp only [Inv, hpc] at h
    obtain ⟨h1, h2, h3, h4, h5⟩ := h
    simp only [step, hpc]
    split
    · rename_i hr
      simp [h3, h4, h2] at hr
      simp [Inv, h1, h2, h3, h4, h5, hr]
    · rename_i hr
      simp [h3, h4, h2] at hr
      simp [Inv, h1, h2, h3, h4, h5, hr]
  case wait2 =>
    simp only [Inv, hpc] at h
    obtain ⟨h1, h2, h3, h4, h5, h6⟩ := h
    simp only [step, hpc, waitStep]
    split
    · rename_i a ha
      split
      · rename_i hlt
        have := inv_wait e s a ha hlt
        simp only [Inv]
        simp [h1, h2, h3, h4] at this hlt ⊢
        refine ⟨by omega, by omega, h6, ?_⟩
        simpa [h3, h4] using this
      · simp [Inv, h1, h2, h3, h4, h5, h6]; omega
    · simp [Inv, h1, h2, h3, h4, h5, h6]; omega
  case sigKill =>
    simp only [Inv, hpc] at h
    obtain ⟨h4, h5, h⟩ := h
    simp only [step, hpc]
    rcases h with ⟨h1, h2, h3, h6⟩ | ⟨h1, h2, h3, h6⟩
    · have hr : reapedB e s.termAt s.killAt s.now = true := by simpa [h3, h4, h2] using h6
      rw [if_pos hr]
      simp [Inv, h1, h2, h3, h4]
      refine ⟨by omega, ?_⟩
      simpa [h3, h4, h2] using hr
    · split
      · rename_i hr
        simp [Inv, h1, h2, h3, h4, h6]
        refine ⟨by omega, ?_⟩
        simpa [h3, h4, h2] using hr
      · rename_i hr
        simp [h3, h4, h2] at hr
        simp [Inv, h1, h2, h3, h4, h5, h6, hr]
  case wait3 =>
    simp only [Inv, hpc] at h
    obtain ⟨h1, h2, h3, h4, h5, h6, h7⟩ := h
    simp only [step, hpc, waitStep]
    split
    · rename_i a ha
      split
      · rename_i hlt
        have := inv_wait e s a ha hlt
        simp only [Inv]
        simp [h1, h2, h3, h4] at this hlt ⊢
        refine ⟨by omega, by omega, h6, h7, ?_⟩
        simpa [h3, h4] using this
      · simp [Inv, h1, h2, h3, h4, h5, h6, h7]; omega
    · simp [Inv, h1, h2, h3, h4, h5, h6, h7]; omega
  case done =>
    simp only [step, hpc]; exact h

def rank : PC → Nat
  | .start => 0 | .wait1 => 1 | .sigTerm => 2 | .wait2 => 3 | .sigKill => 4 | .wait3 => 5 | .done => 6

theorem rank_step (e : Env) (s : St) : (step e s).pc = .done ∨ rank s.pc < rank (step e s).pc := by
  cases hpc : s.pc <;> simp only [step, hpc, waitStep] <;> (repeat' split) <;> simp [rank]

theorem inv_run (e : Env) : Inv e (run e) := by
  unfold run
  exact inv_step _ _ (inv_step _ _ (inv_step _ _ (inv_step _ _ (inv_step _ _ (inv_step _ _ (inv_step _ _ (inv_init e)))))))

theorem step_done (e : Env) (s : St) (h : s.pc = .done) : step e s = s := by simp [step, h]

/-- **Close returns**, whatever the child does: after at most six atomic sections the protocol is at its
return statement. -/
theorem close_terminates (e : Env) : (run e).pc = .done := by
  unfold run
  have key : ∀ (s : St) (n : Nat), n ≤ rank s.pc ∨ s.pc = .done → (n + 1 ≤ rank (step e s).pc ∨ (step e s).pc = .done) := by
    intro s n h
    rcases h with h | h
    · rcases rank_step e s with h' | h'
      · exact Or.inr h'
      · left; omega
    · right; rw [step_done e s h]; exact h
  have h0 : 0 ≤ rank init.pc ∨ init.pc = .done := Or.inl (Nat.zero_le _)
  have h1 := key _ _ h0
  have h2 := key _ _ h1
  have h3 := key _ _ h2
  have h4 := key _ _ h3
  have h5 := key _ _ h4
  have h6 := key _ _ h5
  have h7 := key _ _ h6
  rcases h7 with h | h
  · generalize (step e (step e (step e (step e (step e (step e (step e init))))))).pc = p at h
    cases p <;> simp [rank] at h ⊢
  · exact h

/-- The invariant at the return of Close, unfolded. -/
theorem close_final (e : Env) :
    let s := run e
    s.expiries ≤ 3 ∧ s.now ≤ 3 * e.td ∧ s.expiries * e.td ≤ s.now ∧
      (s.termAt = none ∨ (s.termAt = some e.td ∧ 1 ≤ s.expiries ∧ reapedB e none none e.td = false)) ∧
      (s.killAt = none ∨ (s.killAt = some (2 * e.td) ∧ s.termAt = some e.td ∧ 2 ≤ s.expiries ∧
          reapedB e (some e.td) none (2 * e.td) = false)) ∧
      (s.res = some .waited ∧ reapedB e s.termAt s.killAt s.now = true ∨
       s.res = some .stdinErr ∧ s.termAt = none ∧ s.killAt = none ∧ s.expiries = 0 ∧ e.stdinFails = true ∨
       s.res = some .procDone ∧ s.killAt = none ∧ reapedB e s.termAt s.killAt s.now = true ∧ 1 ≤ s.expiries ∨
       s.res = some .unresponsive ∧ s.killAt.isSome ∧ s.expiries = 3) := by
  have h := inv_run e
  have hd := close_terminates e
  simp only [Inv, hd] at h
  exact h

/-- **Bounded**: Close returns after at most three timer expiries, i.e. within three TerminateDurations
of model time, for every child and every lag. -/
theorem close_bounded (e : Env) : (run e).expiries ≤ 3 ∧ (run e).now ≤ 3 * e.td :=
  ⟨(close_final e).1, (close_final e).2.1⟩

/-- Close always returns a result. -/
theorem close_returns_result (e : Env) : (run e).res.isSome := by
  rcases (close_final e).2.2.2.2.2 with h | h | h | h <;> simp [h.1]

/-- **Grace periods and escalation order**: SIGTERM is delivered, if at all, exactly one
TerminateDuration after stdin was closed; SIGKILL, if at all, exactly two, and only after a SIGTERM. -/
theorem escalation_in_order (e : Env) :
    ((run e).termAt = none ∨ (run e).termAt = some e.td) ∧
    ((run e).killAt = none ∨ ((run e).killAt = some (2 * e.td) ∧ (run e).termAt = some e.td)) := by
  obtain ⟨_, _, _, ht, hk, _⟩ := close_final e
  constructor
  · rcases ht with h | h
    · exact Or.inl h
    · exact Or.inr h.1
  · rcases hk with h | h
    · exact Or.inl h
    · exact Or.inr ⟨h.1, h.2.1⟩

/-- **No signal to a child whose exit Close has seen**: at the tick a signal is delivered, cmd.Wait has
not returned (given the signals delivered before). -/
theorem no_signal_after_reaped (e : Env) :
    (∀ t, (run e).termAt = some t → reapedB e none none t = false) ∧
    (∀ t, (run e).killAt = some t → reapedB e (run e).termAt none t = false) := by
  obtain ⟨_, _, _, ht, hk, _⟩ := close_final e
  constructor
  · intro t h
    rcases ht with h' | h'
    · rw [h'] at h; cases h
    · rw [h'.1] at h; cases h; exact h'.2.2
  · intro t h
    rcases hk with h' | h'
    · rw [h'] at h; cases h
    · rw [h'.1] at h; cases h; rw [h'.2.1]; exact h'.2.2.2

theorem reapedB_exit (e : Env) (ta ka : Option Nat) (t : Nat) (h : reapedB e ta ka t = true) :
    (exitTime e ta ka).isSome := by
  unfold reapedB arrival at h
  cases hx : exitTime e ta ka with
  | none => simp [hx] at h
  | some x => simp

/-- **Nothing left running**: unless Close failed at its first statement (stdin already closed: a second
Close), either cmd.Wait has returned when Close returns, or SIGKILL has been delivered; in both cases the
child exits. -/
theorem child_gone (e : Env) (h : (run e).res ≠ some .stdinErr) :
    ((run e).res = some .waited ∨ (run e).res = some .procDone → reapedB e (run e).termAt (run e).killAt (run e).now = true) ∧
    ((run e).res = some .unresponsive → (run e).killAt.isSome) ∧
    (exitTime e (run e).termAt (run e).killAt).isSome := by
  obtain ⟨_, _, _, _, _, hr⟩ := close_final e
  rcases hr with hr | hr | hr | hr
  · refine ⟨fun _ => hr.2, ?_, reapedB_exit _ _ _ _ hr.2⟩
    intro h'; rw [hr.1] at h'; cases h'
  · exact absurd hr.1 h
  · refine ⟨fun _ => hr.2.2.1, ?_, reapedB_exit _ _ _ _ hr.2.2.1⟩
    intro h'; rw [hr.1] at h'; cases h'
  · refine ⟨?_, fun _ => hr.2.1, ?_⟩
    · intro h'; rcases h' with h' | h' <;> (rw [hr.1] at h'; cases h')
    cases hk : (run e).killAt with
    | none => simp [hk] at hr
    | some k => exact exitTime_kill_isSome e _ k

/-- **Idempotent**: a Close whose first statement fails (stdin was closed by the first Close) returns at
once: no timer, no signal. -/
theorem second_close_inert (e : Env) (h : e.stdinFails = true) :
    (run e).res = some .stdinErr ∧ (run e).termAt = none ∧ (run e).killAt = none ∧ (run e).expiries = 0 := by
  have : step e init = { init with pc := .done, res := some .stdinErr } := by simp [step, init, h]
  have hrun : run e = { init with pc := .done, res := some .stdinErr } := by
    unfold run; rw [this]; simp [step]
  rw [hrun]; simp [init]

/-- Close reports "closing stdin" only when closing stdin failed. -/
theorem stdinErr_only_if_fails (e : Env) (h : (run e).res = some .stdinErr) : e.stdinFails = true := by
  obtain ⟨_, _, _, _, _, hr⟩ := close_final e
  rcases hr with hr | hr | hr | hr
  · rw [hr.1] at h; cases h
  · exact hr.2.2.2.2
  · rw [hr.1] at h; cases h
  · rw [hr.1] at h; cases h

theorem step_stdinClosed (e : Env) (s : St) (h : s.stdinClosed = true) : (step e s).stdinClosed = true := by
  cases hpc : s.pc <;> simp only [step, hpc, waitStep] <;> (repeat' split) <;> simp [h]

/-- **stdin first**: unless closing stdin itself failed, stdin has been closed when Close returns (and,
the first atomic section being the only one that can fail so, before any timer or signal). -/
theorem stdin_closed (e : Env) (h : (run e).res ≠ some .stdinErr) : (run e).stdinClosed = true := by
  cases hs : e.stdinFails with
  | true => exact absurd (second_close_inert e hs).1 h
  | false =>
    have h1 : (step e init).stdinClosed = true := by simp [step, init, hs]
    unfold run
    exact step_stdinClosed _ _ (step_stdinClosed _ _ (step_stdinClosed _ _ (step_stdinClosed _ _ (step_stdinClosed _ _ (step_stdinClosed _ _ h1)))))

/-- A death by SIGKILL means SIGKILL was delivered. -/
theorem death_kill (e : Env) (ta ka : Option Nat) (h : death e ta ka = some .sigKill) : ka.isSome := by
  unfold death at h
  cases hx : exitTime e ta ka with
  | none => simp [hx] at h
  | some x =>
    simp only [hx] at h
    split at h
    · split at h <;> cases h
    · split at h
      · split at h <;> cases h
      · split at h
        · split at h <;> cases h
        · rename_i h1 h2 h3
          unfold exitTime at hx
          rcases minO_cases _ _ _ hx with h' | h'
          · rcases minO_cases _ _ _ h' with h'' | h''
            · exact absurd h'' h1
            · exact absurd h'' h2
          · rcases minO_cases _ _ _ h' with h'' | h''
            · exact absurd h'' h3
            · cases ka with
              | none => simp [killExit] at h''
              | some k => simp

/-- A death by SIGTERM means SIGTERM was delivered. -/
theorem death_term (e : Env) (ta ka : Option Nat) (h : death e ta ka = some .sigTerm) : ta.isSome := by
  unfold death at h
  cases hx : exitTime e ta ka with
  | none => simp [hx] at h
  | some x =>
    simp only [hx] at h
    split at h
    · split at h <;> cases h
    · split at h
      · split at h <;> cases h
      · split at h
        · rename_i h3
          cases ta with
          | none => simp [termExit] at h3
          | some t => simp
        · cases h

/-! ### per behaviour class -/

/-- A child that exits on stdin EOF (or by itself) in time is never signalled: Close returns cmd.Wait's
result without a timer expiry. -/
theorem prompt_exit_no_signal (e : Env) (hs : e.stdinFails = false) (x : Nat)
    (hx : exitTime e none none = some x) (hlt : x + e.lag < e.td) :
    (run e).res = some .waited ∧ (run e).termAt = none ∧ (run e).killAt = none ∧ (run e).expiries = 0 := by
  have h1 : step e init = { init with pc := .wait1, stdinClosed := true, waiter := true } := by
    simp [step, init, hs]
  have h2 : step e (step e init) = { init with pc := .done, stdinClosed := true, waiter := true, now := max 0 (x + e.lag), res := some .waited } := by
    rw [h1]; simp [step, waitStep, init, arrival, hx, hlt]
  unfold run
  rw [h2]; simp [step, init]

/-- A child that ignores EOF and SIGTERM is sent SIGTERM after one TerminateDuration and SIGKILL after
two, and exits. -/
theorem deaf_child_is_killed (e : Env) (hs : e.stdinFails = false) (h1 : e.self = none) (h2 : e.eof = none)
    (h3 : e.term = none) :
    (run e).termAt = some e.td ∧ (run e).killAt = some (2 * e.td) ∧
    (exitTime e (run e).termAt (run e).killAt) = some (2 * e.td + e.killDelay) := by
  have x0 : ∀ ta, exitTime e ta none = none := by
    intro ta; cases ta <;> simp [exitTime, h1, h2, h3, minO, termExit, killExit]
  have s1 : step e init = { init with pc := .wait1, stdinClosed := true, waiter := true } := by
    simp [step, init, hs]
  have s2 : step e (step e init) = { init with pc := .sigTerm, stdinClosed := true, waiter := true, now := e.td, expiries := 1 } := by
    rw [s1]; simp [step, waitStep, init, arrival, x0]
  have s3 : step e (step e (step e init)) = { init with pc := .wait2, stdinClosed := true, waiter := true, now := e.td, expiries := 1, termAt := some e.td } := by
    rw [s2]; simp [step, init, reapedB, arrival, x0]
  have s4 : step e (step e (step e (step e init))) = { init with pc := .sigKill, stdinClosed := true, waiter := true, now := e.td + e.td, expiries := 2, termAt := some e.td } := by
    rw [s3]; simp [step, waitStep, init, arrival, x0]
  have s5 : step e (step e (step e (step e (step e init)))) = { init with pc := .wait3, stdinClosed := true, waiter := true, now := e.td + e.td, expiries := 2, termAt := some e.td, killAt := some (e.td + e.td) } := by
    rw [s4]; simp [step, init, reapedB, arrival, x0]
  have hk := (escalation_in_order e).2
  have hfin := close_final e
  -- the last two steps keep termAt/killAt
  have keep : ∀ s : St, (step e s).termAt = s.termAt ∨ s.pc = .sigTerm := by
    intro s; cases hpc : s.pc <;> simp [step, hpc, waitStep] <;> (repeat' split) <;> simp
  have keepk : ∀ s : St, (step e s).killAt = s.killAt ∨ s.pc = .sigKill := by
    intro s; cases hpc : s.pc <;> simp [step, hpc, waitStep] <;> (repeat' split) <;> simp
  have pc6 : (step e (step e (step e (step e (step e (step e init)))))).pc = .done := by
    rw [s5]; simp [step, waitStep]; (repeat' split) <;> rfl
  have t6 : (step e (step e (step e (step e (step e (step e init)))))).termAt = some e.td := by
    rcases keep (step e (step e (step e (step e (step e init))))) with h | h
    · rw [h, s5]
    · rw [s5] at h; cases h
  have k6 : (step e (step e (step e (step e (step e (step e init)))))).killAt = some (e.td + e.td) := by
    rcases keepk (step e (step e (step e (step e (step e init))))) with h | h
    · rw [h, s5]
    · rw [s5] at h; cases h
  have hrun : run e = step e (step e (step e (step e (step e (step e init))))) := by
    unfold run; rw [step_done _ _ pc6]
  rw [hrun, t6, k6]
  refine ⟨rfl, by congr 1; omega, ?_⟩
  simp [exitTime, h1, h2, h3, minO, termExit, killExit]; omega

/-! ### the tie to mcp/cmd.go: regenerated statement order and constants -/

/-- The statements of pipeRWC.Close that one label of the model stands for. -/
def pcLabels : PC → List String
  | .start => ["closeStdin", "spawnWait"]
  | .wait1 => ["wait"]
  | .sigTerm => ["sigterm"]
  | .wait2 => ["wait"]
  | .sigKill => ["kill"]
  | .wait3 => ["wait", "unresponsive"]
  | .done => []

/-- The statement order of pipeRWC.Close, REGENERATED from /repo, is the label sequence of the model's
longest run (a child that ignores everything). -/
theorem generated_shape :
    Generated.CmdTransport.closeLabels = (trace { td := 1 }).flatMap pcLabels := by decide

/-- The two error paths of the signalling statements are the model's: a failed SIGTERM skips the second
wait (`sigTerm → sigKill`), a failed Kill returns its error (`sigKill → done` with `procDone`). -/
theorem generated_error_paths (e : Env) (s : St) (hr : reapedB e s.termAt s.killAt s.now = true) :
    Generated.CmdTransport.termErrorSkipsWait = true ∧ Generated.CmdTransport.killErrorReturns = true ∧
    (s.pc = .sigTerm → (step e s).pc = .sigKill ∧ (step e s).termAt = s.termAt) ∧
    (s.pc = .sigKill → (step e s).pc = .done ∧ (step e s).res = some .procDone ∧ (step e s).killAt = s.killAt) := by
  refine ⟨by decide, by decide, ?_, ?_⟩
  · intro h; simp [step, h, hr]
  · intro h; simp [step, h, hr]

/-- The default TerminateDuration (regenerated) is positive: the theorems with `0 < e.td` apply to it. -/
theorem default_td_pos : 0 < Generated.CmdTransport.defaultTerminateNanos := by decide

/-! ### non-vacuity -/

/-- exits on EOF at once -/
example : (run { td := 4, eof := some 0 }).res = some .waited ∧ (run { td := 4, eof := some 0 }).expiries = 0 := by decide
/-- ignores EOF, dies of SIGTERM -/
example : (run { td := 4, term := some 1 }).termAt = some 4 ∧ (run { td := 4, term := some 1 }).killAt = none ∧
    death { td := 4, term := some 1 } (some 4) none = some .sigTerm := by decide
/-- ignores both: killed; and with a kernel slower than a TerminateDuration Close gives up ("unresponsive")
with SIGKILL delivered -/
example : (run { td := 4 }).res = some .waited ∧ (run { td := 4 }).killAt = some 8 := by decide
example : (run { td := 4, killDelay := 9 }).res = some .unresponsive ∧ (run { td := 4, killDelay := 9 }).killAt = some 8 := by decide
/-- the child exits in the instant the first timer fires: Signal and Kill fail, Close returns
os.ErrProcessDone without having sent anything -/
example : (run { td := 4, eof := some 4 }).res = some .procDone ∧ (run { td := 4, eof := some 4 }).termAt = none := by decide
/-- the child has exited but cmd.Wait has not returned yet (lag): SIGTERM goes to a zombie -/
example : (run { td := 4, eof := some 3, lag := 2 }).termAt = some 4 ∧ (run { td := 4, eof := some 3, lag := 2 }).res = some .waited := by decide
/-- second Close -/
example : (run { td := 4, stdinFails := true }).res = some .stdinErr := by decide
example : trace { td := 4 } = [.start, .wait1, .sigTerm, .wait2, .sigKill, .wait3] := by decide

end CmdTransport
