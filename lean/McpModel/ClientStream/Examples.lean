import McpModel.ClientStream.Monitor
/-!
Small concrete scenarios (labels are numbers) for the non-vacuity examples of `Bridge.lean` and
`Sound.lean`.
-/
namespace ClientStream

/-- labels as numbers: 0 no message, 1…99 notifications, 100 the call's response -/
def exLabels : Labels Nat :=
  { isNotif := fun l => decide (1 ≤ l ∧ l < 100), isReply := fun l => l == 100, isNone := fun l => l == 0 }

/-- the log "id: 1
data: AA

" (notification 1), "id: 22
data: BB

" (the response) of a call
stream, budget 2 -/
def exScn : Scn Nat :=
  { lab := exLabels, sa := false, mr := 2,
    items := [
      { raw := false, ev := { id := [49], data := [65, 65] }, label := 1,
        bytes := serializeLines (writeEvent { id := [49], data := [65, 65] }) },
      { raw := false, ev := { id := [50, 50], data := [66, 66] }, label := 100,
        bytes := serializeLines (writeEvent { id := [50, 50], data := [66, 66] }) }] }

/-- a standalone stream: a comment, then two notifications with ids; the first body ends (cleanly)
inside the first notification, so the client holds no cursor, reconnects without Last-Event-ID, and the
server attaches a fresh stream that serves only what it has not handed out: notification 1 is lost
(nothing to resume from — the monitor's last `delivered` branch), the body then stays open
(used with the behaviour `exFirstSa`, `exScriptSa` of `Bridge.lean`) -/
def exScnSa : Scn Nat :=
  { lab := exLabels, sa := true, mr := 2,
    items := [
      { raw := true, ev := {}, label := 0, bytes := [58, 32, 111, 107, 10, 10] },
      { raw := false, ev := { id := [49], data := [65, 65] }, label := 1,
        bytes := serializeLines (writeEvent { id := [49], data := [65, 65] }) },
      { raw := false, ev := { id := [50, 50], data := [66, 66] }, label := 2,
        bytes := serializeLines (writeEvent { id := [50, 50], data := [66, 66] }) }] }

/-- a standalone stream with three notifications "1", "22", "333" (ids) / 1, 2, 3 (labels) -/
def exScn3 : Scn Nat :=
  { lab := exLabels, sa := true, mr := 2,
    items := [
      { raw := false, ev := { id := [49], data := [65, 65] }, label := 1,
        bytes := serializeLines (writeEvent { id := [49], data := [65, 65] }) },
      { raw := false, ev := { id := [50, 50], data := [66, 66] }, label := 2,
        bytes := serializeLines (writeEvent { id := [50, 50], data := [66, 66] }) },
      { raw := false, ev := { id := [51, 51, 51], data := [67, 67] }, label := 3,
        bytes := serializeLines (writeEvent { id := [51, 51, 51], data := [67, 67] }) }] }

end ClientStream
