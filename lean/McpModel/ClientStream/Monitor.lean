import McpModel.ClientStream.Model
/-!
# The typed C09 monitor (E6)

The code that decides, from the IMPLEMENTATION's observations, which clause of C09 is violated.
`Driver.lean` parses the harness's records into the typed data of this file (`Scn`, `XRec`, `Rec`,
`EndObs`), calls `monStep`, and renders the `Clause` it returns (`Clause.text`, in the driver); nothing
else of the monitor lives in the string layer.  `Bridge.lean` proves that the monitor raises no
clause on any behaviour of the model (`monitor_accepts_model`), `Sound.lean` that every clause it can
raise contradicts the corresponding clause of the property, stated on observation traces.

The monitor is independent of the scanner/loop model: its ground truth is the log (the items the
faithful scripted server owns), the byte length of each item on the wire, and for every exchange
where the served body started (`from`) and how many bytes of it were served (`cut`).  An item was
*completely received* iff all its bytes (including the terminating blank line) were served.
The labels of the server's messages are an abstract type `L` (the driver: `String`).
Core Lean only (linked into the driver).
-/
namespace ClientStream

/-! ### the scenario -/

/-- how the labels of the log items are read (driver: `n<k>` a notification, `r` the call's
response, `-` no message) -/
structure Labels (L : Type) where
  isNotif : L → Bool
  isReply : L → Bool
  isNone : L → Bool

/-- one item of the scripted server's log -/
structure LItem (L : Type) where
  raw : Bool
  ev : Event
  label : L
  bytes : Bytes        -- on the wire (model's `writeEvent`, or the raw bytes)

/-- the `scn` record: what the scripted server owns and how the client was configured -/
structure Scn (L : Type) where
  lab : Labels L
  /-- the stream under test is the standalone GET stream (else: the response stream of a call) -/
  sa : Bool := false
  /-- the effective retry budget (`maxRetriesOf` of the transport's field) -/
  mr : Nat := 0
  items : List (LItem L) := []

/-- the model's parameters for the scenario: a payload decodes to the label of the first log item that
carries a message with that payload -/
def Scn.cfg {L} (s : Scn L) : Cfg L :=
  { decode := fun bs => (s.items.find? (fun it => !it.raw && !s.lab.isNone it.label && it.ev.data == bs)).map (·.label),
    isReply := s.lab.isReply,
    forCall := !s.sa,
    maxRetries := s.mr }

inductive AKind where
  /-- `client.Do` failed; `e`: what the error answers to `errors.Is(context.Canceled)` /
  `errors.Is(context.DeadlineExceeded)` / `Timeout()`, measured by the harness on the error value.  The
  monitor does not look at `e`: the property speaks of "transient failures", whatever their kind. -/
  | terr (e : TErr)
  /-- the caller's own context ended while the request was in flight -/
  | ctx
  | st (code : Nat)
  | ok (cut : Nat) (t : Term)
deriving DecidableEq, Repr

/-- an `x` record: one HTTP exchange on the stream, as scripted (`kind`), as answered by the faithful
server (`from_`: index of the first log item of the served body; `none` for an `ok` attempt = the
server refused the Last-Event-ID with 400), when it started and was over for the client (µs of
virtual time), and the IMPLEMENTATION's observation: the Last-Event-ID header it sent -/
structure XRec where
  k : Nat
  kind : AKind
  from_ : Option Nat
  tStart : Nat
  tEnd : Nat
  hdr : Option Bytes
deriving DecidableEq, Repr

/-- the `end` record: how the pending call (standalone stream: the probe) ended -/
inductive EndObs where
  | hang
  | decode
  | malformed
  | result (isR : Bool)
  | ok
  | synthetic
  | exceeded
  | reconnect
  | sessionMissing
  | st (code : Option Nat)
  /-- the call returned the error of the caller's own context (cancelled / deadline exceeded) -/
  | ctx
  | other
deriving DecidableEq, Repr

/-- the model's `end` observation: how the pending call (the probe) ends in the model -/
def endObsOf (sa : Bool) : Ended → EndObs
  | .replied => .result true
  | .synthetic => .synthetic
  | .failed .decode => .decode
  | .failed .malformed => .malformed
  | .failed .exceeded => .exceeded
  | .failed .connect => .reconnect
  | .failed (.rejected c) => .st (some c)
  | .failed .sessionGone => .sessionMissing
  | .failed (.status c) => .st (some c)
  | .streaming => if sa then .ok else .hang
  | .cancelled => .ctx

/-- a record of a case after its `scn` record -/
inductive Rec (L : Type) where
  | x (r : XRec)
  /-- the caller's context was cancelled while no request was in flight (at `t` µs) -/
  | cancel (t : Nat)
  | delivered (ls : List L)
  | fin (o : EndObs)
  | leak (leaked : Bool)

/-! ### ground truth -/

def bodyFrom {L} (items : List (LItem L)) (from_ : Nat) : Bytes := ((items.drop from_).map (·.bytes)).flatten

/-- ground truth: indices (starting at `i`) of the items whose bytes all lie within the first `cut` bytes -/
def completeIdx {L} : List (LItem L) → Nat → Nat → List Nat
  | [], _, _ => []
  | it :: rest, i, cut => if it.bytes.length ≤ cut then i :: completeIdx rest (i + 1) (cut - it.bytes.length) else []

/-- what the monitor keeps of an exchange -/
structure Exch where
  kind : AKind
  from_ : Option Nat      -- index of the first log item of the served body (ok only)
  complete : List Nat     -- log indices completely received in this exchange
  tEnd : Nat              -- µs: when the exchange was over for the client
deriving DecidableEq, Repr

def Exch.isOk (e : Exch) : Bool := match e.kind with | .ok _ _ => true | _ => false
def Exch.isTerr (e : Exch) : Bool := match e.kind with | .terr _ => true | _ => false
def Exch.isSt (e : Exch) : Bool := match e.kind with | .st _ => true | _ => false

/-- the exchange as the monitor books it: the completely received items from the byte lengths; an
`ok` attempt whose Last-Event-ID the scripted server did not know was answered with 400 -/
def exchOf {L} (s : Scn L) (r : XRec) : Exch :=
  { kind := (match r.kind, r.from_ with
      | .ok _ _, none => .st 400
      | a, _ => a),
    from_ := r.from_,
    complete := (match r.kind, r.from_ with
      | .ok c _, some f => completeIdx (s.items.drop f) f c
      | _, _ => []),
    tEnd := r.tEnd }

/-- the body the model's client scans in this exchange (as the faithful server serves it) -/
def scanOfX {L} (s : Scn L) (r : XRec) : Option ScanOut :=
  match r.kind, r.from_ with
  | .ok c t, some f => some (scanBytes ((bodyFrom s.items f).take c) t)
  | _, _ => none

/-- the exchange as an attempt of the model's reconnect loop -/
def attemptOfX {L} (s : Scn L) (r : XRec) : Attempt :=
  match r.kind with
  | .terr e => .terr e
  | .ctx => .ctxEnded true
  | .st c => .resp c (fun _ => ⟨[], .clean⟩)
  | .ok _ _ =>
    match scanOfX s r with
    | some so => .resp 200 (fun _ => so)
    | none => .resp 400 (fun _ => ⟨[], .clean⟩)    -- the scripted server refuses an unknown Last-Event-ID

/-- the monitor's bookkeeping: the history of exchanges and two flags about past resume requests -/
structure Mon where
  exch : List Exch := []
  /-- some reconnect went out without Last-Event-ID although a cursor existed (F18) -/
  cursorLost : Bool := false
  /-- some reconnect carried a Last-Event-ID other than the id of the last completely received event -/
  wrongCursor : Bool := false
  /-- the caller's own context has ended (a `cancel` record, or an exchange of kind `ctx`) -/
  ctxEnded : Bool := false
deriving Repr

def gotOf (ex : List Exch) : List Nat := ex.flatMap (·.complete)

def Scn.hasId {L} (s : Scn L) (i : Nat) : Bool :=
  match s.items[i]? with
  | some it => !it.raw && it.ev.id != []
  | none => false

/-- the id of the last event received completely (in arrival order), `[]` if none had an id -/
def cursorOf {L} (s : Scn L) (ex : List Exch) : Bytes :=
  match ((gotOf ex).filter s.hasId).getLast? with
  | some i => (s.items[i]?).map (·.ev.id) |>.getD []
  | none => []

def hdrOf (cur : Bytes) : Option Bytes := if cur = [] then none else some cur

/-- over the exchanges, most recent first: number of consecutive bodies that brought no complete event
with an id (transport errors in between do not count and do not reset) -/
def fruitlessGo {L} (s : Scn L) : List Exch → Nat
  | [] => 0
  | e :: rest =>
    if e.isTerr then fruitlessGo s rest
    else if e.isOk && !(e.complete.any s.hasId) then fruitlessGo s rest + 1
    else 0

def fruitlessOf {L} (s : Scn L) (ex : List Exch) : Nat := fruitlessGo s ex.reverse

/-- number of consecutive most recent transport errors -/
def trailingTerr (ex : List Exch) : Nat := (ex.reverse.takeWhile (·.isTerr)).length

/-- the retry hint of a list of completely received items: the last parsable `retry:` -/
def hintOfIdx {L} (s : Scn L) (idx : List Nat) : Int :=
  idx.foldl (fun h i =>
    match s.items[i]? with
    | some it => if it.raw || it.ev.retry == [] then h else (parseInt64 it.ev.retry).getD h
    | none => h) 0

/-- the retry hint a correct client holds after the last body: the last parsable `retry:` among
the events it received completely in that body -/
def lastHint {L} (s : Scn L) (ex : List Exch) : Int :=
  match (ex.filter (·.isOk)).getLast? with
  | none => 0
  | some e => hintOfIdx s e.complete

def labelsOf {L} (s : Scn L) (idx : List Nat) : List L :=
  idx.filterMap (fun i => (s.items[i]?).bind (fun it => if s.lab.isNotif it.label then some it.label else none))

def isSublistInOrder {L} [BEq L] : List L → List L → Bool
  | [], _ => true
  | _ :: _, [] => false
  | a :: as, b :: bs => if a == b then isSublistInOrder as bs else isSublistInOrder (a :: as) bs

/-! ### the clauses -/

inductive Clause where
  -- an `x k` record, k ≥ 1
  | f18NoHeader
  | f5UnknownId
  | notLast
  | f5IncompleteId
  | unresumableReconnect
  | afterStatus
  | fruitlessExceeded
  | connectExceeded
  | delay (delay lo hi attempt : Nat) (hint : Int)
  | afterCancel
  -- the `delivered` record
  | foreign
  | dupOrOrder
  | f5Truncated
  | missing
  | f18Lost
  | f5Lost
  -- the `end` record
  | hang
  | f5Decode
  | f5Malformed
  | probeResult
  | notServerResponse
  | f5ResponseIncomplete
  | probeOutcomeForCall
  | replyNotCompleted
  | syntheticNoCall
  | f18Synthetic
  | exceededEarly
  | reconnectEarly
  | sessionMissingNo404
  | statusNotReturned
  | unclassified
  | unexpectedError
  | ctxLive
  -- the `leak` record
  | leak
deriving DecidableEq, Repr

/-! ### the monitor -/

/-- clauses for an `x k` record (k ≥ 1): the implementation made another HTTP attempt on the stream -/
def monAttempt {L} (s : Scn L) (ex : List Exch) (hdr : Option Bytes) (tStart : Nat) : Option Clause :=
  let cur := cursorOf s ex
  let lastEnd := (ex.getLast?.map (·.tEnd)).getD 0
  let delay := (tStart - lastEnd) * 1000     -- ns
  let attempt := trailingTerr ex + 1
  let hint := if attempt = 1 then lastHint s ex else 0
  let w := delayWindow hint attempt
  if hdr ≠ hdrOf cur then
    match hdr with
    | none => some .f18NoHeader
    | some h =>
      match s.items.findIdx? (fun it => !it.raw && it.ev.id == h) with
      | none => some .f5UnknownId
      | some j => if (gotOf ex).contains j then some .notLast else some .f5IncompleteId
  else if !s.sa && cur = [] then some .unresumableReconnect
  else if ex.any (·.isSt) then some .afterStatus
  else if fruitlessOf s ex > s.mr then some .fruitlessExceeded
  else if trailingTerr ex ≥ s.mr then some .connectExceeded
  else if delay + 1000 < w.1 ∨ delay ≥ w.2 + 1000 then some (.delay delay w.1 w.2 attempt (lastHint s ex))
  else none

def monDelivered {L} [BEq L] (s : Scn L) (m : Mon) (impl : List L) : Option Clause :=
  let all := labelsOf s (List.range s.items.length)
  let must := labelsOf s (gotOf m.exch)          -- what was received completely, in arrival order
  if impl.any (fun l => !all.contains l) then some .foreign
  else if !isSublistInOrder impl all then some .dupOrOrder
  else if impl.any (fun l => !must.contains l) then some .f5Truncated
  else if must.any (fun l => !impl.contains l) then some .missing
  else if impl != all.take impl.length then
    -- a gap in the server's sequence: the scripted server skipped what the client's resume request told it to skip
    if m.cursorLost then some .f18Lost
    else if m.wrongCursor then some .f5Lost
    else none   -- no event id had ever been received: nothing to resume from (standalone stream)
  else none

def gotReply {L} (s : Scn L) (ex : List Exch) : Bool :=
  match s.items.findIdx? (fun it => s.lab.isReply it.label) with
  | some i => (gotOf ex).contains i
  | none => false

def lastIsStatus (ex : List Exch) (c : Nat) : Bool :=
  match ex.getLast? with
  | some e => (match e.kind with | .st c' => c == c' | _ => false)
  | none => false

def monEnd {L} (s : Scn L) (ex : List Exch) (ctxEnded : Bool) : EndObs → Option Clause
  | .hang => some .hang
  | .decode => some .f5Decode
  | .malformed => some .f5Malformed
  | .result isR =>
    if s.sa then some .probeResult
    else if !isR then some .notServerResponse
    else if !gotReply s ex then some .f5ResponseIncomplete
    else none
  | .ok => if s.sa then none else some .probeOutcomeForCall
  | o =>
    if gotReply s ex then some .replyNotCompleted
    else match o with
    | .synthetic =>
      if s.sa then some .syntheticNoCall
      else if cursorOf s ex != [] then some .f18Synthetic
      else none
    | .exceeded => if fruitlessOf s ex > s.mr then none else some .exceededEarly
    | .reconnect => if s.mr = 0 ∨ trailingTerr ex ≥ s.mr then none else some .reconnectEarly
    | .sessionMissing =>
      if lastIsStatus ex Generated.ClientStream.sessionGoneStatus then none else some .sessionMissingNo404
    | .st (some c) => if lastIsStatus ex c then none else some .statusNotReturned
    | .st none => some .unclassified
    | .ctx => if ctxEnded then none else some .ctxLive
    | _ => some .unexpectedError

/-- one record: the new bookkeeping and the clause raised, if any -/
def monStep {L} [BEq L] (s : Scn L) (m : Mon) : Rec L → Mon × Option Clause
  | .x r =>
    if r.k = 0 then ({ m with exch := [exchOf s r] }, none)   -- the first body of the stream
    else
      let cur := cursorOf s m.exch
      ({ exch := m.exch ++ [exchOf s r],
         cursorLost := m.cursorLost || (r.hdr == none && cur != []),
         wrongCursor := m.wrongCursor || (r.hdr != none && r.hdr != hdrOf cur),
         ctxEnded := m.ctxEnded || r.kind == .ctx },
       -- the retry loop must stop with the caller: no attempt once the caller's context has ended
       if m.ctxEnded then some .afterCancel else monAttempt s m.exch r.hdr r.tStart)
  | .cancel _ => ({ m with ctxEnded := true }, none)
  | .delivered ls => (m, monDelivered s m ls)
  | .fin o => (m, monEnd s m.exch m.ctxEnded o)
  | .leak b => (m, if b then some .leak else none)

/-- the bookkeeping after a list of records -/
def monAfter {L} [BEq L] (s : Scn L) (m : Mon) (tr : List (Rec L)) : Mon :=
  tr.foldl (fun m r => (monStep s m r).1) m

/-- the first clause raised along a list of records -/
def runMon {L} [BEq L] (s : Scn L) (m : Mon) : List (Rec L) → Option Clause
  | [] => none
  | r :: tr =>
    match (monStep s m r).2 with
    | some c => some c
    | none => runMon s (monStep s m r).1 tr

end ClientStream
