import McpModel.ClientStream.Model
/-!
Helper lemmas for E6 (C09): line splitting of byte prefixes, the scanner on complete and partial
blocks, `processItems` over concatenations.
-/
namespace ClientStream
open Generated.ClientStream

/-! ### splitLines -/

theorem splitLines_noNl (t : Bytes) (h : nl ∉ t) : splitLines t = ([], t) := by
  induction t with
  | nil => rfl
  | cons b bs ih =>
    have hb : b ≠ nl := fun e => h (e ▸ List.mem_cons_self ..)
    have hbs : nl ∉ bs := fun m => h (List.mem_cons_of_mem _ m)
    simp [splitLines, hb, ih hbs]

theorem splitLines_line (l r : Bytes) (h : nl ∉ l) :
    splitLines (l ++ nl :: r) = (l :: (splitLines r).1, (splitLines r).2) := by
  induction l with
  | nil => simp [splitLines]
  | cons b bs ih =>
    have hb : b ≠ nl := fun e => h (e ▸ List.mem_cons_self ..)
    have hbs : nl ∉ bs := fun m => h (List.mem_cons_of_mem _ m)
    simp [splitLines, hb, ih hbs]

theorem serializeLines_cons (l : Bytes) (ls : List Bytes) :
    serializeLines (l :: ls) = l ++ nl :: serializeLines ls := by
  simp [serializeLines]

theorem serializeLines_append (a b : List Bytes) :
    serializeLines (a ++ b) = serializeLines a ++ serializeLines b := by
  simp [serializeLines]

theorem splitLines_serialize (ls : List Bytes) (h : ∀ l ∈ ls, nl ∉ l) (r : Bytes) :
    splitLines (serializeLines ls ++ r) = (ls ++ (splitLines r).1, (splitLines r).2) := by
  induction ls with
  | nil => simp [serializeLines]
  | cons l ls ih =>
    have hl : nl ∉ l := h l (List.mem_cons_self ..)
    have hls : ∀ l ∈ ls, nl ∉ l := fun x hx => h x (List.mem_cons_of_mem _ hx)
    rw [serializeLines_cons, List.append_assoc, List.cons_append, splitLines_line _ _ hl, ih hls]
    simp

/-! ### the scanner on blocks -/

/-- What may follow the events that are wholly contained in a prefix: at most one further event,
flagged unterminated, only at a clean end of input; and the end of the body is never "corruption". -/
structure Tail (out : ScanOut) (t : Term) : Prop where
  unterminated : ∀ i ∈ out.items, i.terminated = false
  atMostOne : out.items.length ≤ 1
  onlyAtEOF : out.items ≠ [] → t = .eof
  finErr : t = .err → out.fin = .readErr
  finOpen : t = .open → out.fin = .stillOpen
  finEOF : t = .eof → out.fin = .clean ∨ out.fin = .malformed true

theorem dispatch_cases (c : Cur) (f : Bool) : dispatch c f = [] ∨ dispatch c f = [⟨c.ev, f⟩] := by
  unfold dispatch; split <;> simp

theorem tail_dispatch (c : Cur) : Tail ⟨dispatch c false, .clean⟩ .eof := by
  rcases dispatch_cases c false with h | h <;> rw [h] <;>
    constructor <;> simp

theorem scanFrom_end (c : Cur) (tail : Bytes) (t : Term) : Tail (scanFrom c [] tail t) t := by
  cases t with
  | err => constructor <;> simp [scanFrom]
  | «open» => constructor <;> simp [scanFrom]
  | eof =>
    simp only [scanFrom]
    split
    · exact tail_dispatch c
    · split
      · constructor <;> simp
      · exact tail_dispatch _

theorem goodLine_iff (l : Bytes) :
    goodLine l = true ↔ nl ∉ l ∧ trimEOL l ≠ [] ∧ (cutColon (trimEOL l)).isSome = true := by
  simp [goodLine, and_assoc]

theorem fieldLine_isSome (c : Cur) (l : Bytes) (h : (cutColon l).isSome = true) :
    ∃ c', fieldLine c l = some c' := by
  unfold fieldLine
  cases hc : cutColon l with
  | none => simp [hc] at h
  | some kv => exact ⟨_, rfl⟩

theorem scanFrom_good (c : Cur) (l : Bytes) (ls : List Bytes) (tail : Bytes) (t : Term)
    (hg : goodLine l = true) :
    ∃ c', fieldLine c (trimEOL l) = some c' ∧ scanFrom c (l :: ls) tail t = scanFrom c' ls tail t := by
  obtain ⟨_, hne, hc⟩ := (goodLine_iff l).1 hg
  obtain ⟨c', hc'⟩ := fieldLine_isSome c _ hc
  refine ⟨c', hc', ?_⟩
  simp [scanFrom, hne, hc']

theorem curOf_good (c : Cur) (l : Bytes) (b : Block) (c' : Cur)
    (h : fieldLine c (trimEOL l) = some c') : curOf c (l :: b) = curOf c' b := by
  simp [curOf, h]

/-- a complete block: its event is dispatched as terminated and the scanner starts afresh -/
theorem scanFrom_block (c : Cur) (b : Block) (ls : List Bytes) (tail : Bytes) (t : Term)
    (hb : ∀ l ∈ b, goodLine l = true) :
    scanFrom c (b ++ [] :: ls) tail t =
      ⟨dispatch (curOf c b) true ++ (scanFrom {} ls tail t).items, (scanFrom {} ls tail t).fin⟩ := by
  induction b generalizing c with
  | nil => simp [scanFrom, curOf, trimEOL, dropTrailing]
  | cons l b ih =>
    obtain ⟨c', hc', hs⟩ := scanFrom_good c l (b ++ [] :: ls) tail t (hb l (List.mem_cons_self ..))
    rw [List.cons_append, hs, ih c' (fun x hx => hb x (List.mem_cons_of_mem _ hx)), curOf_good c l b c' hc']

theorem take_append_of_le {α} (a b : List α) (n : Nat) (h : n ≤ a.length) : (a ++ b).take n = a.take n := by
  rw [List.take_append]; simp [Nat.sub_eq_zero_of_le h]

/-- a strict prefix of a block's bytes: no terminated event, at most one unterminated one -/
theorem scanFrom_partial (c : Cur) (b : Block) (hb : ∀ l ∈ b, goodLine l = true) (n : Nat)
    (hn : n < (serializeLines (blockLines b)).length) (t : Term) :
    Tail (scanFrom c (splitLines ((serializeLines (blockLines b)).take n)).1
            (splitLines ((serializeLines (blockLines b)).take n)).2 t) t := by
  induction b generalizing c n with
  | nil =>
    have : n = 0 := by simp [blockLines, serializeLines] at hn; omega
    subst this
    simpa [splitLines] using scanFrom_end c [] t
  | cons l b ih =>
    have hgl := hb l (List.mem_cons_self ..)
    obtain ⟨hnl, _, _⟩ := (goodLine_iff l).1 hgl
    have hser : serializeLines (blockLines (l :: b)) = l ++ nl :: serializeLines (blockLines b) := by
      simp [blockLines, serializeLines]
    rw [hser] at hn ⊢
    by_cases hle : n ≤ l.length
    · -- the cut is inside (or right after) the first line
      rw [take_append_of_le _ _ _ hle]
      have hnl' : nl ∉ l.take n := fun m => hnl (List.mem_of_mem_take m)
      rw [splitLines_noNl _ hnl']
      exact scanFrom_end c _ t
    · have hgt : l.length < n := Nat.lt_of_not_le hle
      have e : (l ++ nl :: serializeLines (blockLines b)).take n =
          l ++ nl :: (serializeLines (blockLines b)).take (n - l.length - 1) := by
        rw [List.take_append, List.take_of_length_le (Nat.le_of_lt hgt)]
        congr 1
        obtain ⟨m, hm⟩ : ∃ m, n - l.length = m + 1 := ⟨n - l.length - 1, by omega⟩
        rw [hm]; simp
      rw [e, splitLines_line _ _ hnl]
      obtain ⟨c', _, hs⟩ := scanFrom_good c l
        (splitLines ((serializeLines (blockLines b)).take (n - l.length - 1))).1
        (splitLines ((serializeLines (blockLines b)).take (n - l.length - 1))).2 t hgl
      simp only
      rw [hs]
      apply ih c' (fun x hx => hb x (List.mem_cons_of_mem _ hx))
      simp at hn; omega

/-! ### the scanner on a byte prefix of a well-formed stream -/

theorem serialize_cons (b : Block) (bs : List Block) :
    serialize (b :: bs) = serializeLines (blockLines b) ++ serialize bs := by
  simp [serialize, streamLines, serializeLines_append]

theorem blockLen_eq (b : Block) : blockLen b = (serializeLines (blockLines b)).length := by
  simp [blockLen, serialize, streamLines]

theorem blockLines_noNl (b : Block) (hb : ∀ l ∈ b, goodLine l = true) : ∀ l ∈ blockLines b, nl ∉ l := by
  intro l hl
  simp only [blockLines, List.mem_append, List.mem_singleton] at hl
  rcases hl with h | h
  · exact ((goodLine_iff l).1 (hb l h)).1
  · subst h; simp

theorem eventsOf_cons (b : Block) (bs : List Block) :
    eventsOf (b :: bs) = (if (eventOf b).isEmpty then [] else [eventOf b]) ++ eventsOf bs := by
  unfold eventsOf
  by_cases h : (eventOf b).isEmpty <;> simp [h]

theorem dispatch_eventOf (b : Block) :
    dispatch (curOf {} b) true = (if (eventOf b).isEmpty then [] else [eventOf b]).map (fun e => ⟨e, true⟩) := by
  unfold dispatch eventOf
  split <;> simp

theorem scan_prefix (blocks : List Block) (hg : ∀ b ∈ blocks, ∀ l ∈ b, goodLine l = true) (n : Nat) (t : Term) :
    ∃ rest fin,
      scanBytes ((serialize blocks).take n) t =
        ⟨(eventsOf (blocks.take (completeCount blocks n))).map (fun e => ⟨e, true⟩) ++ rest, fin⟩ ∧
      Tail ⟨rest, fin⟩ t := by
  induction blocks generalizing n with
  | nil =>
    refine ⟨(scanFrom {} [] [] t).items, (scanFrom {} [] [] t).fin, ?_, scanFrom_end {} [] t⟩
    simp [scanBytes, serialize, streamLines, serializeLines, splitLines, completeCount, eventsOf]
  | cons b bs ih =>
    have hb : ∀ l ∈ b, goodLine l = true := hg b (List.mem_cons_self ..)
    have hbs : ∀ b' ∈ bs, ∀ l ∈ b', goodLine l = true := fun b' h' => hg b' (List.mem_cons_of_mem _ h')
    rw [serialize_cons]
    by_cases hle : blockLen b ≤ n
    · -- the whole block lies inside the prefix
      obtain ⟨rest, fin, hscan, htail⟩ := ih hbs (n - blockLen b)
      refine ⟨rest, fin, ?_, htail⟩
      have e : (serializeLines (blockLines b) ++ serialize bs).take n =
          serializeLines (blockLines b) ++ (serialize bs).take (n - blockLen b) := by
        rw [List.take_append, List.take_of_length_le (by rw [← blockLen_eq]; exact hle), blockLen_eq]
      unfold scanBytes at hscan ⊢
      rw [e, splitLines_serialize _ (blockLines_noNl b hb)]
      simp only [blockLines, List.append_assoc, List.singleton_append]
      rw [scanFrom_block _ _ _ _ _ hb, hscan]
      simp [completeCount, hle, eventsOf_cons, dispatch_eventOf]
    · -- the prefix ends inside this block
      have hlt : n < (serializeLines (blockLines b)).length := by rw [← blockLen_eq]; omega
      refine ⟨_, _, ?_, scanFrom_partial {} b hb n hlt t⟩
      unfold scanBytes
      rw [take_append_of_le _ _ _ (Nat.le_of_lt hlt)]
      simp [completeCount, hle, eventsOf]

/-! ### vocabulary of the property statements -/

/-- how the scanner reports the end of a body that ended between events -/
def endOf : Term → ScanEnd
  | .eof => .clean
  | .err => .readErr
  | .open => .stillOpen

def terminatedItems (es : List Event) : List Item := es.map (fun e => ⟨e, true⟩)

/-- the events of the blocks wholly contained in the first `n` bytes of the stream -/
def completeEvents (blocks : List Block) (n : Nat) : List Event :=
  eventsOf (blocks.take (completeCount blocks n))

/-- the id of the last event that has one (`resume` if none has) -/
def lastIdOf (resume : Bytes) (es : List Event) : Bytes :=
  es.foldl (fun acc e => if e.id = [] then acc else e.id) resume

/-- The messages the session must see for a list of completely received events: each event that
carries a message (non-empty data, name "" or "message") contributes its decoded message, once, in
order; nothing after the pending call's own response (or after an undecodable event: the connection
is failed there). -/
def specMsgs {M} (cfg : Cfg M) : List Event → List M
  | [] => []
  | e :: es =>
    if e.data = [] then specMsgs cfg es
    else if e.name ≠ [] ∧ e.name ≠ messageName then specMsgs cfg es
    else match cfg.decode e.data with
      | none => []
      | some m => if cfg.forCall && cfg.isReply m then [m] else m :: specMsgs cfg es

/-- processing stops inside these events: they contain the call's response or an undecodable event -/
def stops {M} (cfg : Cfg M) : List Event → Bool
  | [] => false
  | e :: es =>
    if e.data = [] then stops cfg es
    else if e.name ≠ [] ∧ e.name ≠ messageName then stops cfg es
    else match cfg.decode e.data with
      | none => true
      | some m => if cfg.forCall && cfg.isReply m then true else stops cfg es

/-! ### processItems -/

theorem processItems_append {M} (cfg : Cfg M) (a : Acc M) (xs ys : List Item) :
    processItems cfg a (xs ++ ys) =
      match processItems cfg a xs with
      | (a', some e) => (a', some e)
      | (a', none) => processItems cfg a' ys := by
  induction xs generalizing a with
  | nil => simp [processItems]
  | cons x xs ih =>
    simp only [List.cons_append, processItems]
    repeat' split
    all_goals first | rfl | exact ih _ | simp_all

theorem processItems_unterminated {M} (cfg : Cfg M) (hd : cfg.dropUnterminated = true) (a : Acc M) (e : Event) :
    processItems cfg a [⟨e, false⟩] = (a, some .interrupted) := by
  simp [processItems, hd]

theorem lastIdOf_cons (r : Bytes) (e : Event) (es : List Event) :
    lastIdOf r (e :: es) = lastIdOf (if e.id = [] then r else e.id) es := rfl

/-- `processItems` on completely received events -/
theorem processItems_terminated {M} (cfg : Cfg M) (a : Acc M) (es : List Event) :
    (processItems cfg a (terminatedItems es)).1.msgs = a.msgs ++ specMsgs cfg es ∧
    ((processItems cfg a (terminatedItems es)).2 = none ∨
      (processItems cfg a (terminatedItems es)).2 = some .replied ∨
      (processItems cfg a (terminatedItems es)).2 = some (.failed .decode)) ∧
    ((processItems cfg a (terminatedItems es)).2 = none ↔ stops cfg es = false) ∧
    ((processItems cfg a (terminatedItems es)).2 = none →
      (processItems cfg a (terminatedItems es)).1.lastID = lastIdOf a.lastID es) := by
  induction es generalizing a with
  | nil => simp [terminatedItems, processItems, specMsgs, stops, lastIdOf]
  | cons e es ih =>
    simp only [terminatedItems, List.map_cons, processItems, Bool.not_true, Bool.and_false,
      Bool.false_eq_true, if_false, specMsgs, stops, lastIdOf_cons]
    have ih' := fun a => ih a
    simp only [terminatedItems] at ih'
    by_cases h1 : e.data = []
    · simp only [h1, if_true]
      have := ih' (noteEvent a e)
      simpa [noteEvent] using this
    · simp only [h1, if_false]
      by_cases h2 : e.name ≠ [] ∧ e.name ≠ messageName
      · rw [if_pos h2, if_pos h2, if_pos h2]
        have := ih' (noteEvent a e)
        simpa [noteEvent] using this
      · rw [if_neg h2, if_neg h2, if_neg h2]
        cases hdec : cfg.decode e.data with
        | none => simp [noteEvent]
        | some m =>
          by_cases h3 : (cfg.forCall && cfg.isReply m) = true
          · simp [h3, noteEvent]
          · simp only [h3]
            have := ih' { noteEvent a e with msgs := (noteEvent a e).msgs ++ [m] }
            simpa [noteEvent] using this

theorem bodyEnd_tail {M} (cfg : Cfg M) (hd : cfg.dropUnterminated = true) (rest : List Item) (fin : ScanEnd) (t : Term)
    (ht : Tail ⟨rest, fin⟩ t) (a : Acc M) :
    (processItems cfg a rest).1 = a ∧
    bodyEnd cfg (processItems cfg a rest).2 fin = bodyEnd cfg none (endOf t) := by
  have h1 := ht.atMostOne
  match rest, ht with
  | [], ht =>
    refine ⟨by simp [processItems], ?_⟩
    simp only [processItems]
    cases t with
    | err => have h := ht.finErr rfl; simp at h; simp [h, endOf]
    | «open» => have h := ht.finOpen rfl; simp at h; simp [h, endOf]
    | eof =>
      rcases ht.finEOF rfl with h | h <;> simp at h <;> simp [h, endOf, bodyEnd, hd]
  | [i], ht =>
    have hi : i.terminated = false := ht.unterminated i (by simp)
    have ht' : t = .eof := ht.onlyAtEOF (by simp)
    obtain ⟨e, f⟩ := i
    simp only at hi
    subst hi ht'
    rw [processItems_unterminated cfg hd]
    simp [bodyEnd, endOf]
  | _ :: _ :: _, _ => simp at h1

theorem processBody_prefix {M} (cfg : Cfg M) (hd : cfg.dropUnterminated = true) (resume : Bytes)
    (blocks : List Block) (hg : ∀ b ∈ blocks, ∀ l ∈ b, goodLine l = true) (n : Nat) (t : Term) :
    processBody cfg resume (scanBytes ((serialize blocks).take n) t) =
      processBody cfg resume ⟨terminatedItems (completeEvents blocks n), endOf t⟩ := by
  obtain ⟨rest, fin, hscan, htail⟩ := scan_prefix blocks hg n t
  rw [hscan]
  unfold processBody
  simp only [terminatedItems, completeEvents]
  rw [processItems_append]
  generalize processItems cfg { lastID := resume } ((eventsOf (blocks.take (completeCount blocks n))).map fun e => ⟨e, true⟩) = r
  obtain ⟨a', early⟩ := r
  cases early with
  | some e => simp [bodyEnd]
  | none =>
    obtain ⟨h1, h2⟩ := bodyEnd_tail cfg hd rest fin t htail a'
    simp only
    rw [h1, h2]

/-! ### complete events: append lemmas -/

theorem specMsgs_append {M} (cfg : Cfg M) (es1 es2 : List Event) (h : stops cfg es1 = false) :
    specMsgs cfg (es1 ++ es2) = specMsgs cfg es1 ++ specMsgs cfg es2 := by
  induction es1 with
  | nil => simp [specMsgs]
  | cons e es ih =>
    simp only [List.cons_append, specMsgs, stops] at h ⊢
    by_cases h1 : e.data = []
    · simp only [h1, if_true] at h ⊢; exact ih h
    · rw [if_neg h1] at h ⊢; rw [if_neg h1]
      by_cases h2 : e.name ≠ [] ∧ e.name ≠ messageName
      · rw [if_pos h2] at h ⊢; rw [if_pos h2]; exact ih h
      · rw [if_neg h2] at h ⊢; rw [if_neg h2]
        cases hdec : cfg.decode e.data with
        | none => simp [hdec] at h
        | some m =>
          simp only [hdec] at h ⊢
          by_cases h3 : (cfg.forCall && cfg.isReply m) = true
          · simp [h3] at h
          · simp only [h3] at h ⊢; simp [ih h]

theorem stops_append {M} (cfg : Cfg M) (es1 es2 : List Event) (h : stops cfg es1 = false) :
    stops cfg (es1 ++ es2) = stops cfg es2 := by
  induction es1 with
  | nil => simp
  | cons e es ih =>
    simp only [List.cons_append, stops] at h ⊢
    by_cases h1 : e.data = []
    · simp only [h1, if_true] at h ⊢; exact ih h
    · rw [if_neg h1] at h ⊢
      by_cases h2 : e.name ≠ [] ∧ e.name ≠ messageName
      · rw [if_pos h2] at h ⊢; exact ih h
      · rw [if_neg h2] at h ⊢
        cases hdec : cfg.decode e.data with
        | none => simp [hdec] at h
        | some m =>
          simp only [hdec] at h ⊢
          by_cases h3 : (cfg.forCall && cfg.isReply m) = true
          · simp [h3] at h
          · simp only [h3] at h ⊢; exact ih h

theorem eventsOf_append (a b : List Block) : eventsOf (a ++ b) = eventsOf a ++ eventsOf b := by
  simp [eventsOf]

theorem completeCount_le (bs : List Block) (n : Nat) : completeCount bs n ≤ bs.length := by
  induction bs generalizing n with
  | nil => simp [completeCount]
  | cons b bs ih =>
    simp only [completeCount]
    split
    · have := ih (n - blockLen b); simp; omega
    · simp

theorem lastIdOf_append (r : Bytes) (a b : List Event) : lastIdOf r (a ++ b) = lastIdOf (lastIdOf r a) b := by
  simp [lastIdOf, List.foldl_append]

theorem lastIdOf_eq_nil (r : Bytes) (es : List Event) (h : lastIdOf r es = []) : r = [] := by
  induction es generalizing r with
  | nil => simpa [lastIdOf] using h
  | cons e es ih =>
    rw [lastIdOf_cons] at h
    have := ih _ h
    by_cases he : e.id = []
    · simpa [he] using this
    · simp [he] at this

/-- with at least one event, all of them carrying an id, the result does not depend on the start -/
theorem lastIdOf_allIds (r r' : Bytes) (es : List Event) (hne : es ≠ []) (h : ∀ e ∈ es, e.id ≠ []) :
    lastIdOf r es = lastIdOf r' es := by
  induction es generalizing r r' with
  | nil => exact absurd rfl hne
  | cons e es ih =>
    have he : e.id ≠ [] := h e (List.mem_cons_self ..)
    simp [lastIdOf_cons, he]

/-- the call's response is among the messages when the loop is left with `replied` -/
theorem processItems_replied {M} (cfg : Cfg M) (a : Acc M) (es : List Event)
    (h : (processItems cfg a (terminatedItems es)).2 = some .replied) :
    ∃ m ∈ specMsgs cfg es, cfg.isReply m = true := by
  induction es generalizing a with
  | nil => simp [terminatedItems, processItems] at h
  | cons e es ih =>
    simp only [terminatedItems, List.map_cons, processItems, Bool.not_true, Bool.and_false,
      Bool.false_eq_true, if_false, specMsgs] at h ⊢
    have ih' := fun a => ih a
    simp only [terminatedItems] at ih'
    by_cases h1 : e.data = []
    · simp only [h1, if_true] at h ⊢; exact ih' _ h
    · rw [if_neg h1] at h ⊢
      by_cases h2 : e.name ≠ [] ∧ e.name ≠ messageName
      · rw [if_pos h2] at h ⊢; exact ih' _ h
      · rw [if_neg h2] at h ⊢
        cases hdec : cfg.decode e.data with
        | none => simp [hdec] at h
        | some m =>
          simp only [hdec] at h ⊢
          by_cases h3 : (cfg.forCall && cfg.isReply m) = true
          · refine ⟨m, by simp [h3], ?_⟩
            simp at h3; exact h3.2
          · simp only [h3] at h ⊢
            obtain ⟨m', hm', hr⟩ := ih' _ h
            exact ⟨m', by simp [hm'], hr⟩

/-- `processStream` on a body that consists of complete events only -/
theorem processBody_complete {M} (cfg : Cfg M) (resume : Bytes) (es : List Event) (t : Term) :
    (processBody cfg resume ⟨terminatedItems es, endOf t⟩).msgs = specMsgs cfg es ∧
    (stops cfg es = false →
      (processBody cfg resume ⟨terminatedItems es, endOf t⟩).lastID = lastIdOf resume es ∧
      (processBody cfg resume ⟨terminatedItems es, endOf t⟩).fin = (if t = .open then .streaming else .interrupted)) ∧
    (stops cfg es = true →
      ((processBody cfg resume ⟨terminatedItems es, endOf t⟩).fin = .replied ∧ ∃ m ∈ specMsgs cfg es, cfg.isReply m = true) ∨
      (processBody cfg resume ⟨terminatedItems es, endOf t⟩).fin = .failed .decode) := by
  obtain ⟨hm, hcases, hnone, hid⟩ := processItems_terminated cfg { lastID := resume } es
  have hrep := processItems_replied cfg { lastID := resume } es
  unfold processBody
  simp only
  generalize processItems cfg { lastID := resume } (terminatedItems es) = r at hm hcases hnone hid hrep
  obtain ⟨a, early⟩ := r
  simp only at hm hcases hnone hid hrep
  have hmsgs : ∀ e, (mkBody cfg a e).msgs = a.msgs := by intro e; cases e <;> rfl
  refine ⟨by rw [hmsgs, hm]; simp, ?_, ?_⟩
  · intro hs
    have he : early = none := hnone.2 hs
    subst he
    cases t <;> simp [bodyEnd, endOf, mkBody, hid rfl]
  · intro hs
    have hne : early ≠ none := fun h => by rw [hnone.1 h] at hs; cases hs
    rcases hcases with h | h | h
    · exact absurd h hne
    · subst h; left; exact ⟨by simp [bodyEnd, mkBody], hrep rfl⟩
    · subst h; right; simp [bodyEnd, mkBody]

end ClientStream
