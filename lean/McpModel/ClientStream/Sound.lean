import McpModel.ClientStream.MonLemmas
import McpModel.ClientStream.Examples
/-!
# Clause soundness of the C09 monitor (E6)

For every clause the monitor can report (`Clause`) the corresponding clause of the property is stated
as a predicate `P_…` on observation traces — the records of a case after its `scn` record, i.e. what
the scripted server owns and served (ground truth: `hist`, the exchanges with the items completely
received in each, from the byte lengths) and what the IMPLEMENTATION did (the Last-Event-ID of every
attempt, the delivered messages, how the call ended).  The predicates quantify over positions of the
trace and do not mention the monitor's state or the model.  `sound_<clause>`: whenever the monitor
reports the clause at the step that extends `tr` by `r`, the predicate fails on `tr ++ [r]`.

The monitor's state is history: `monAfter_exch` (its exchange list is `hist`), `lost_of_flag` /
`wrong_of_flag` (its two flags were raised by a past reconnect that dropped / falsified the cursor),
`ctx_of_flag` / `flag_of_ctx` (its `ctxEnded` flag says exactly that the caller's context has ended:
a `cancel` record or an exchange of kind `ctx` lies in the past).
-/
set_option linter.unusedSectionVars false
namespace ClientStream
open Generated.ClientStream

variable {L : Type} [BEq L] [LawfulBEq L]

abbrev Trace (L : Type) := List (Rec L)

/-! ### ground truth along a trace -/

/-- the exchanges so far (the record of exchange 0 starts the stream) -/
def stepExch (s : Scn L) (ex : List Exch) : Rec L → List Exch
  | .x r => if r.k = 0 then [exchOf s r] else ex ++ [exchOf s r]
  | _ => ex

def hist (s : Scn L) (tr : Trace L) : List Exch := tr.foldl (stepExch s) []

/-- the exchanges before record `i` -/
def histAt (s : Scn L) (tr : Trace L) (i : Nat) : List Exch := hist s (tr.take i)

/-- the resume cursor a correct client holds before record `i`: the id of the last event received
completely that has one (`[]`: none) -/
def cursorAtRec (s : Scn L) (tr : Trace L) (i : Nat) : Bytes := cursorOf s (histAt s tr i)

/-- some reconnect before the end of `tr` went out without Last-Event-ID although a cursor existed -/
def Lost (s : Scn L) (tr : Trace L) : Prop :=
  ∃ (i : Nat) (r : XRec), tr[i]? = some (Rec.x r) ∧ r.k ≠ 0 ∧ r.hdr = none ∧ cursorAtRec s tr i ≠ []

/-- some reconnect carried a Last-Event-ID that is not the cursor -/
def Wrong (s : Scn L) (tr : Trace L) : Prop :=
  ∃ (i : Nat) (r : XRec), tr[i]? = some (Rec.x r) ∧ r.k ≠ 0 ∧ r.hdr ≠ none ∧ r.hdr ≠ hdrOf (cursorAtRec s tr i)

/-- the server's messages, in the order of the log -/
def allMsgs (s : Scn L) : List L := labelsOf s (List.range s.items.length)

/-- the delivered list skips one of the server's messages -/
def Gap (s : Scn L) (ls : List L) : Prop := ls ≠ (allMsgs s).take ls.length

/-! ### the monitor's state is history -/

theorem monAfter_snoc (s : Scn L) (m : Mon) (tr : Trace L) (r : Rec L) :
    monAfter s m (tr ++ [r]) = (monStep s (monAfter s m tr) r).1 := by
  simp [monAfter, List.foldl_append]

theorem monStep_exch (s : Scn L) (m : Mon) (r : Rec L) : (monStep s m r).1.exch = stepExch s m.exch r := by
  cases r with
  | x r => simp only [monStep, stepExch]; split <;> rfl
  | cancel t => rfl
  | delivered ls => rfl
  | fin o => rfl
  | leak b => rfl

theorem monAfter_exch_from (s : Scn L) (m : Mon) (tr : Trace L) :
    (monAfter s m tr).exch = tr.foldl (stepExch s) m.exch := by
  induction tr generalizing m with
  | nil => rfl
  | cons r rest ih =>
    simp only [monAfter, List.foldl_cons] at ih ⊢
    rw [ih, monStep_exch]

/-- the monitor's exchange list is the ground-truth history -/
theorem monAfter_exch (s : Scn L) (tr : Trace L) : (monAfter s {} tr).exch = hist s tr :=
  monAfter_exch_from s {} tr

theorem take_snoc_len {α} (tr : List α) (r : α) : (tr ++ [r]).take tr.length = tr := by simp

theorem get_snoc_len {α} (tr : List α) (r : α) : (tr ++ [r])[tr.length]? = some r := by simp

theorem histAt_snoc_lt (s : Scn L) (tr : Trace L) (r : Rec L) (i : Nat) (h : i ≤ tr.length) :
    histAt s (tr ++ [r]) i = histAt s tr i := by
  unfold histAt
  rw [List.take_append_of_le_length h]

theorem histAt_snoc_len (s : Scn L) (tr : Trace L) (r : Rec L) : histAt s (tr ++ [r]) tr.length = hist s tr := by
  unfold histAt; rw [take_snoc_len]

theorem Lost.snoc {s : Scn L} {tr : Trace L} (h : Lost s tr) (r : Rec L) : Lost s (tr ++ [r]) := by
  obtain ⟨i, x, hi, hk, hh, hc⟩ := h
  have hlt : i < tr.length := by
    rcases Nat.lt_or_ge i tr.length with h | h
    · exact h
    · rw [List.getElem?_eq_none h] at hi; cases hi
  refine ⟨i, x, by rw [List.getElem?_append_left hlt]; exact hi, hk, hh, ?_⟩
  unfold cursorAtRec at hc ⊢
  rw [histAt_snoc_lt s tr r i (Nat.le_of_lt hlt)]; exact hc

theorem Wrong.snoc {s : Scn L} {tr : Trace L} (h : Wrong s tr) (r : Rec L) : Wrong s (tr ++ [r]) := by
  obtain ⟨i, x, hi, hk, hh, hc⟩ := h
  have hlt : i < tr.length := by
    rcases Nat.lt_or_ge i tr.length with h | h
    · exact h
    · rw [List.getElem?_eq_none h] at hi; cases hi
  refine ⟨i, x, by rw [List.getElem?_append_left hlt]; exact hi, hk, hh, ?_⟩
  unfold cursorAtRec at hc ⊢
  rw [histAt_snoc_lt s tr r i (Nat.le_of_lt hlt)]; exact hc

/-- a snoc induction principle -/
theorem snoc_induction {α} {P : List α → Prop} (h0 : P []) (hs : ∀ l a, P l → P (l ++ [a])) : ∀ l, P l := by
  intro l
  have : ∀ n (l : List α), l.length = n → P l := by
    intro n
    induction n with
    | zero => intro l hl; rw [List.length_eq_zero_iff.1 hl]; exact h0
    | succ n ih =>
      intro l hl
      have hne : l ≠ [] := by intro h; rw [h] at hl; cases hl
      rw [← List.dropLast_concat_getLast hne]
      exact hs _ _ (ih _ (by simp [hl]))
  exact this _ l rfl

/-- **history invariant of the `cursorLost` flag** -/
theorem lost_of_flag (s : Scn L) (tr : Trace L) (h : (monAfter s {} tr).cursorLost = true) : Lost s tr := by
  revert h
  refine snoc_induction (P := fun tr => (monAfter s {} tr).cursorLost = true → Lost s tr) ?_ ?_ tr
  · intro h; simp [monAfter] at h
  · intro tr r ih h
    rw [monAfter_snoc] at h
    cases r with
    | x x =>
      simp only [monStep] at h
      split at h
      · exact (ih h).snoc _
      · rename_i hk
        simp only [Bool.or_eq_true, Bool.and_eq_true, beq_iff_eq, bne_iff_ne, ne_eq] at h
        rcases h with h | ⟨h1, h2⟩
        · exact (ih h).snoc _
        · refine ⟨tr.length, x, get_snoc_len _ _, hk, h1, ?_⟩
          unfold cursorAtRec
          rw [histAt_snoc_len, ← monAfter_exch]; exact h2
    | cancel t => exact (ih h).snoc _
    | delivered ls => exact (ih h).snoc _
    | fin o => exact (ih h).snoc _
    | leak b => exact (ih h).snoc _

/-- **history invariant of the `wrongCursor` flag** -/
theorem wrong_of_flag (s : Scn L) (tr : Trace L) (h : (monAfter s {} tr).wrongCursor = true) : Wrong s tr := by
  revert h
  refine snoc_induction (P := fun tr => (monAfter s {} tr).wrongCursor = true → Wrong s tr) ?_ ?_ tr
  · intro h; simp [monAfter] at h
  · intro tr r ih h
    rw [monAfter_snoc] at h
    cases r with
    | x x =>
      simp only [monStep] at h
      split at h
      · exact (ih h).snoc _
      · rename_i hk
        simp only [Bool.or_eq_true, Bool.and_eq_true, bne_iff_ne, ne_eq] at h
        rcases h with h | ⟨h1, h2⟩
        · exact (ih h).snoc _
        · refine ⟨tr.length, x, get_snoc_len _ _, hk, h1, ?_⟩
          unfold cursorAtRec
          rw [histAt_snoc_len, ← monAfter_exch]; exact h2
    | cancel t => exact (ih h).snoc _
    | delivered ls => exact (ih h).snoc _
    | fin o => exact (ih h).snoc _
    | leak b => exact (ih h).snoc _

/-- the caller's own context has ended somewhere in `tr`: it was cancelled while no request was in
flight (a `cancel` record), or it ended while a reconnect attempt was in flight (an exchange of kind `ctx`) -/
def CtxEnded (tr : Trace L) : Prop :=
  ∃ i : Nat, (∃ t : Nat, tr[i]? = some (Rec.cancel t)) ∨ (∃ r : XRec, tr[i]? = some (Rec.x r) ∧ r.k ≠ 0 ∧ r.kind = .ctx)

omit [BEq L] [LawfulBEq L] in
theorem CtxEnded.snoc {tr : Trace L} (h : CtxEnded tr) (r : Rec L) : CtxEnded (tr ++ [r]) := by
  obtain ⟨i, h⟩ := h
  have hlt : i < tr.length := by
    rcases Nat.lt_or_ge i tr.length with h' | h'
    · exact h'
    · rw [List.getElem?_eq_none h'] at h
      rcases h with ⟨t, h⟩ | ⟨r, h, _⟩ <;> cases h
  refine ⟨i, ?_⟩
  rw [List.getElem?_append_left hlt]
  exact h

omit [BEq L] [LawfulBEq L] in
theorem CtxEnded.of_snoc {tr : Trace L} {r : Rec L} (h : CtxEnded (tr ++ [r])) :
    CtxEnded tr ∨ (∃ t, r = .cancel t) ∨ (∃ x : XRec, r = .x x ∧ x.k ≠ 0 ∧ x.kind = .ctx) := by
  obtain ⟨i, h⟩ := h
  rcases Nat.lt_or_ge i tr.length with hlt | hge
  · left
    rw [List.getElem?_append_left hlt] at h
    exact ⟨i, h⟩
  · right
    rcases Nat.eq_or_lt_of_le hge with heq | hgt
    · subst heq
      rw [get_snoc_len] at h
      rcases h with ⟨t, h⟩ | ⟨x, h, hk, hc⟩
      · cases h; exact .inl ⟨t, rfl⟩
      · cases h; exact .inr ⟨x, rfl, hk, hc⟩
    · have : (tr ++ [r])[i]? = none := List.getElem?_eq_none (by simp; omega)
      rw [this] at h
      rcases h with ⟨t, h⟩ | ⟨x, h, _⟩ <;> cases h

/-- **history invariant of the `ctxEnded` flag**: the flag is up exactly when the caller's context has ended -/
theorem ctx_flag_iff (s : Scn L) (tr : Trace L) : (monAfter s {} tr).ctxEnded = true ↔ CtxEnded tr := by
  refine snoc_induction (P := fun tr => (monAfter s {} tr).ctxEnded = true ↔ CtxEnded tr) ?_ ?_ tr
  · constructor
    · intro h; simp [monAfter] at h
    · rintro ⟨i, h⟩; simp at h
  · intro tr r ih
    rw [monAfter_snoc]
    constructor
    · intro h
      cases r with
      | x x =>
        simp only [monStep] at h
        split at h
        · exact (ih.1 h).snoc _
        · rename_i hk
          simp only [Bool.or_eq_true, beq_iff_eq] at h
          rcases h with h | h
          · exact (ih.1 h).snoc _
          · exact ⟨tr.length, .inr ⟨x, get_snoc_len _ _, hk, h⟩⟩
      | cancel t => exact ⟨tr.length, .inl ⟨t, get_snoc_len _ _⟩⟩
      | delivered ls => exact (ih.1 h).snoc _
      | fin o => exact (ih.1 h).snoc _
      | leak b => exact (ih.1 h).snoc _
    · intro h
      rcases h.of_snoc with h | ⟨t, rfl⟩ | ⟨x, rfl, hk, hc⟩
      · have := ih.2 h
        cases r with
        | x x => simp only [monStep]; split <;> simp [this]
        | cancel t => rfl
        | delivered ls => exact this
        | fin o => exact this
        | leak b => exact this
      · rfl
      · simp [monStep, hk, hc]

theorem ctx_of_flag (s : Scn L) (tr : Trace L) (h : (monAfter s {} tr).ctxEnded = true) : CtxEnded tr :=
  (ctx_flag_iff s tr).1 h

theorem flag_of_noctx (s : Scn L) (tr : Trace L) (h : (monAfter s {} tr).ctxEnded = false) : ¬ CtxEnded tr := by
  intro hc
  rw [(ctx_flag_iff s tr).2 hc] at h
  cases h

/-! ## the clauses of the property, on traces -/

/-! ### reconnect attempts: "resumes with the id of the last event it received completely" -/

/-- **The resume request.** Every reconnect carries exactly the id of the last completely received
event that has one, and no Last-Event-ID when there is none. -/
def P_lastId (s : Scn L) (tr : Trace L) : Prop :=
  ∀ (i : Nat) (r : XRec), tr[i]? = some (Rec.x r) → r.k ≠ 0 → r.hdr = hdrOf (cursorAtRec s tr i)

/-- (F18) once an event with an id has been received completely, every reconnect carries a Last-Event-ID -/
def P_f18NoHeader (s : Scn L) (tr : Trace L) : Prop :=
  ∀ (i : Nat) (r : XRec), tr[i]? = some (Rec.x r) → r.k ≠ 0 → cursorAtRec s tr i ≠ [] → r.hdr ≠ none

/-- (F5) every Last-Event-ID sent is the id of an event of the stream -/
def P_f5UnknownId (s : Scn L) (tr : Trace L) : Prop :=
  ∀ (i : Nat) (r : XRec) (h : Bytes), tr[i]? = some (Rec.x r) → r.k ≠ 0 → r.hdr = some h → ∃ it ∈ s.items, it.raw = false ∧ it.ev.id = h

/-- (F5) the event the server finds under a Last-Event-ID sent was received completely before -/
def P_f5IncompleteId (s : Scn L) (tr : Trace L) : Prop :=
  ∀ (i : Nat) (r : XRec) (h : Bytes), tr[i]? = some (Rec.x r) → r.k ≠ 0 → r.hdr = some h →
    ∃ j, s.items.findIdx? (fun it => !it.raw && it.ev.id == h) = some j ∧ j ∈ gotOf (histAt s tr i)

/-- a call stream is never reconnected while no event id has been received completely (it cannot be
resumed: the call is failed instead) -/
def P_unresumableReconnect (s : Scn L) (tr : Trace L) : Prop :=
  ∀ (i : Nat) (r : XRec), tr[i]? = some (Rec.x r) → r.k ≠ 0 → s.sa = false → cursorAtRec s tr i ≠ []

/-- after a response whose status fails the connection (session gone, 4xx, 5xx) nothing is attempted -/
def P_afterStatus (s : Scn L) (tr : Trace L) : Prop :=
  ∀ (i : Nat) (r : XRec), tr[i]? = some (Rec.x r) → r.k ≠ 0 → (histAt s tr i).any (·.isSt) = false

/-- at most `maxRetries` bodies in a row without a completely received event id are followed by
another reconnect -/
def P_fruitlessExceeded (s : Scn L) (tr : Trace L) : Prop :=
  ∀ (i : Nat) (r : XRec), tr[i]? = some (Rec.x r) → r.k ≠ 0 → fruitlessOf s (histAt s tr i) ≤ s.mr

/-- at most `maxRetries` attempts in a row fail in the transport -/
def P_connectExceeded (s : Scn L) (tr : Trace L) : Prop :=
  ∀ (i : Nat) (r : XRec), tr[i]? = some (Rec.x r) → r.k ≠ 0 → trailingTerr (histAt s tr i) < s.mr

/-- the time between the end of an exchange and the next attempt is the retry hint of the last
completely received event that carries one (first attempt), else the back-off with its jitter
(1 µs of tolerance for the rounding of the recorded times) -/
def P_delay (s : Scn L) (tr : Trace L) : Prop :=
  ∀ (i : Nat) (r : XRec), tr[i]? = some (Rec.x r) → r.k ≠ 0 →
    let ex := histAt s tr i
    let attempt := trailingTerr ex + 1
    let w := delayWindow (if attempt = 1 then lastHint s ex else 0) attempt
    let d := (r.tStart - (ex.getLast?.map (·.tEnd)).getD 0) * 1000
    w.1 ≤ d + 1000 ∧ d < w.2 + 1000

/-- the retry loop stops with the caller: once the caller's context has ended no further attempt is made -/
def P_afterCancel (_s : Scn L) (tr : Trace L) : Prop :=
  ∀ (i : Nat) (r : XRec), tr[i]? = some (Rec.x r) → r.k ≠ 0 → ¬ CtxEnded (tr.take i)

/-! ### delivery: "every server message exactly once and in order, never a truncated event" -/

/-- everything delivered is one of the server's messages -/
def P_foreign (s : Scn L) (tr : Trace L) : Prop :=
  ∀ (i : Nat) (ls : List L), tr[i]? = some (Rec.delivered ls) → ∀ l ∈ ls, l ∈ allMsgs s

/-- the delivered messages are a subsequence of the server's sequence: none twice, none out of order -/
def P_dupOrOrder (s : Scn L) (tr : Trace L) : Prop :=
  ∀ (i : Nat) (ls : List L), tr[i]? = some (Rec.delivered ls) → ls.Sublist (allMsgs s)

/-- (F5) a message is delivered only if its event was received completely -/
def P_f5Truncated (s : Scn L) (tr : Trace L) : Prop :=
  ∀ (i : Nat) (ls : List L), tr[i]? = some (Rec.delivered ls) → ∀ l ∈ ls, l ∈ labelsOf s (gotOf (histAt s tr i))

/-- every message whose event was received completely is delivered -/
def P_missing (s : Scn L) (tr : Trace L) : Prop :=
  ∀ (i : Nat) (ls : List L), tr[i]? = some (Rec.delivered ls) → ∀ l ∈ labelsOf s (gotOf (histAt s tr i)), l ∈ ls

/-- (F18) no server message is skipped after a reconnect that dropped an existing cursor -/
def P_f18Lost (s : Scn L) (tr : Trace L) : Prop :=
  ∀ (i : Nat) (ls : List L), tr[i]? = some (Rec.delivered ls) → Gap s ls → ¬ Lost s (tr.take i)

/-- (F5) no server message is skipped after a reconnect that sent a Last-Event-ID other than the cursor -/
def P_f5Lost (s : Scn L) (tr : Trace L) : Prop :=
  ∀ (i : Nat) (ls : List L), tr[i]? = some (Rec.delivered ls) → Gap s ls → ¬ Wrong s (tr.take i)

/-! ### the end of the pending call: "the server's real response, or an error instead of hanging" -/

/-- a property of the `end` observation and the history before it -/
def EndP (s : Scn L) (tr : Trace L) (p : EndObs → List Exch → Prop) : Prop :=
  ∀ (i : Nat) (o : EndObs), tr[i]? = some (Rec.fin o) → p o (histAt s tr i)

def P_hang (s : Scn L) (tr : Trace L) : Prop := EndP s tr fun o _ => o ≠ .hang
/-- (F5) the connection is never failed with a decoding error (the server's messages decode; only a
truncated event does not) -/
def P_f5Decode (s : Scn L) (tr : Trace L) : Prop := EndP s tr fun o _ => o ≠ .decode
/-- (F5) … nor with "malformed line" (the server's lines are well formed; only a cut line is not) -/
def P_f5Malformed (s : Scn L) (tr : Trace L) : Prop := EndP s tr fun o _ => o ≠ .malformed
/-- the probe of a standalone-stream scenario is a ping: it has no tool result -/
def P_probeResult (s : Scn L) (tr : Trace L) : Prop := EndP s tr fun o _ => s.sa = true → ∀ b, o ≠ .result b
/-- a call that completes with a result completes with the server's real response -/
def P_notServerResponse (s : Scn L) (tr : Trace L) : Prop := EndP s tr fun o _ => ∀ b, o = .result b → b = true
/-- (F5) … and only once the response event was received completely -/
def P_f5ResponseIncomplete (s : Scn L) (tr : Trace L) : Prop :=
  EndP s tr fun o ex => s.sa = false → o = .result true → gotReply s ex = true
/-- a call scenario does not end with the probe's outcome -/
def P_probeOutcomeForCall (s : Scn L) (tr : Trace L) : Prop := EndP s tr fun o _ => s.sa = false → o ≠ .ok
/-- once the response event was received completely the call completes with it (or the standalone probe succeeds) -/
def P_replyNotCompleted (s : Scn L) (tr : Trace L) : Prop :=
  EndP s tr fun o ex => gotReply s ex = true →
    (∃ b, o = .result b) ∨ o = .ok ∨ o = .hang ∨ o = .decode ∨ o = .malformed
/-- the synthetic "request terminated without response" error exists only for a pending call -/
def P_syntheticNoCall (s : Scn L) (tr : Trace L) : Prop := EndP s tr fun o _ => o = .synthetic → s.sa = false
/-- (F18) a call is failed as unresumable only if no event id was received completely -/
def P_f18Synthetic (s : Scn L) (tr : Trace L) : Prop := EndP s tr fun o ex => o = .synthetic → cursorOf s ex = []
/-- "exceeded retries without progress" only after more than `maxRetries` fruitless bodies in a row -/
def P_exceededEarly (s : Scn L) (tr : Trace L) : Prop := EndP s tr fun o ex => o = .exceeded → fruitlessOf s ex > s.mr
/-- "failed to reconnect" only after `maxRetries` transport errors in a row (or with no retries allowed) -/
def P_reconnectEarly (s : Scn L) (tr : Trace L) : Prop :=
  EndP s tr fun o ex => o = .reconnect → s.mr = 0 ∨ trailingTerr ex ≥ s.mr
/-- the session-missing error only after a 404 -/
def P_sessionMissingNo404 (s : Scn L) (tr : Trace L) : Prop :=
  EndP s tr fun o ex => o = .sessionMissing → lastIsStatus ex sessionGoneStatus = true
/-- a status error only for the status the last exchange returned -/
def P_statusNotReturned (s : Scn L) (tr : Trace L) : Prop :=
  EndP s tr fun o ex => ∀ c, o = .st (some c) → lastIsStatus ex c = true
/-- the error is one of the clean errors the client reports (harness classification) -/
def P_unclassified (s : Scn L) (tr : Trace L) : Prop := EndP s tr fun o _ => o ≠ .st none
def P_unexpectedError (s : Scn L) (tr : Trace L) : Prop := EndP s tr fun o _ => o ≠ .other

/-- the call returns the error of the caller's context only if that context has ended -/
def P_ctxLive (_s : Scn L) (tr : Trace L) : Prop :=
  ∀ (i : Nat), tr[i]? = some (Rec.fin .ctx) → CtxEnded (tr.take i)

/-- after Close no goroutine of the client stays blocked for ever -/
def P_leak (_s : Scn L) (tr : Trace L) : Prop := ∀ (i : Nat) (b : Bool), tr[i]? = some (Rec.leak b) → b = false

/-! ### the one property clause behind the four Last-Event-ID clauses -/

omit [BEq L] [LawfulBEq L] in
theorem P_lastId_f18 (s : Scn L) (tr : Trace L) (h : P_lastId s tr) : P_f18NoHeader s tr := by
  intro i r hi hk hc hn
  have := h i r hi hk
  rw [hn] at this
  simp [hdrOf, hc] at this

/-! ## what it takes for a clause to be reported -/

theorem ite_some_none {α} {p : Prop} [Decidable p] {a c : α} (h : (if p then some a else none) = some c) :
    p ∧ a = c := by
  split at h
  · cases h; exact ⟨‹p›, rfl⟩
  · cases h

/-- the condition under which `monAttempt` can report a clause, read off the checks -/
def AttemptFires (s : Scn L) (ex : List Exch) (hdr : Option Bytes) (tS : Nat) : Clause → Prop
  | .f18NoHeader => hdr = none ∧ cursorOf s ex ≠ []
  | .f5UnknownId => ∃ h, hdr = some h ∧ s.items.findIdx? (fun it => !it.raw && it.ev.id == h) = none
  | .notLast => hdr ≠ hdrOf (cursorOf s ex)
  | .f5IncompleteId => ∃ h j, hdr = some h ∧ s.items.findIdx? (fun it => !it.raw && it.ev.id == h) = some j ∧ j ∉ gotOf ex
  | .unresumableReconnect => s.sa = false ∧ cursorOf s ex = []
  | .afterStatus => ex.any (·.isSt) = true
  | .fruitlessExceeded => fruitlessOf s ex > s.mr
  | .connectExceeded => trailingTerr ex ≥ s.mr
  | .delay d lo hi _ _ =>
    d = (tS - (ex.getLast?.map (·.tEnd)).getD 0) * 1000 ∧
    (lo, hi) = delayWindow (if trailingTerr ex + 1 = 1 then lastHint s ex else 0) (trailingTerr ex + 1) ∧
    (d + 1000 < lo ∨ d ≥ hi + 1000)
  | _ => False

omit [BEq L] [LawfulBEq L] in
theorem attempt_fires (s : Scn L) (ex : List Exch) (hdr : Option Bytes) (tS : Nat) (c : Clause)
    (h : monAttempt s ex hdr tS = some c) : AttemptFires s ex hdr tS c := by
  unfold monAttempt at h
  simp only at h
  split at h
  · rename_i hne
    split at h
    · cases h
      refine ⟨rfl, ?_⟩
      intro hc; apply hne; simp [hdrOf, hc]
    · rename_i hh
      split at h
      · cases h; rename_i hf; exact ⟨hh, rfl, hf⟩
      · rename_i j hf
        split at h
        · cases h; exact hne
        · cases h; rename_i hnc; exact ⟨hh, j, rfl, hf, by simpa using hnc⟩
  · split at h
    · cases h; rename_i hc
      simp only [Bool.and_eq_true, Bool.not_eq_true', decide_eq_true_eq] at hc
      exact hc
    · split at h
      · cases h; rename_i hc; exact hc
      · split at h
        · cases h; rename_i hc; exact hc
        · split at h
          · cases h; rename_i hc; exact hc
          · obtain ⟨hc, rfl⟩ := ite_some_none h
            exact ⟨rfl, rfl, hc⟩

/-- the condition under which `monDelivered` can report a clause -/
def DeliveredFires (s : Scn L) (m : Mon) (ls : List L) : Clause → Prop
  | .foreign => ∃ l ∈ ls, l ∉ allMsgs s
  | .dupOrOrder => ¬ ls.Sublist (allMsgs s)
  | .f5Truncated => ∃ l ∈ ls, l ∉ labelsOf s (gotOf m.exch)
  | .missing => ∃ l ∈ labelsOf s (gotOf m.exch), l ∉ ls
  | .f18Lost => Gap s ls ∧ m.cursorLost = true
  | .f5Lost => Gap s ls ∧ m.wrongCursor = true
  | _ => False

theorem delivered_fires (s : Scn L) (m : Mon) (ls : List L) (c : Clause)
    (h : monDelivered s m ls = some c) : DeliveredFires s m ls c := by
  unfold monDelivered at h
  simp only at h
  split at h
  · cases h; rename_i hc
    simp only [List.any_eq_true, Bool.not_eq_true', List.contains_eq_mem, decide_eq_false_iff_not] at hc
    exact hc
  · split at h
    · cases h; rename_i hc
      intro hsub
      have := (isSublistInOrder_iff _ _).2 hsub
      simp [allMsgs] at this
      simp [this] at hc
    · split at h
      · cases h; rename_i hc
        simp only [List.any_eq_true, Bool.not_eq_true', List.contains_eq_mem, decide_eq_false_iff_not] at hc
        exact hc
      · split at h
        · cases h; rename_i hc
          simp only [List.any_eq_true, Bool.not_eq_true', List.contains_eq_mem, decide_eq_false_iff_not] at hc
          exact hc
        · split at h
          · rename_i hg
            have hgap : Gap s ls := by simpa [Gap, allMsgs] using hg
            split at h
            · cases h; rename_i hl; exact ⟨hgap, hl⟩
            · split at h
              · cases h; rename_i hw; exact ⟨hgap, hw⟩
              · cases h
          · cases h

/-- the condition under which `monEnd` can report a clause -/
def EndFires (s : Scn L) (ex : List Exch) (ce : Bool) (o : EndObs) : Clause → Prop
  | .hang => o = .hang
  | .f5Decode => o = .decode
  | .f5Malformed => o = .malformed
  | .probeResult => s.sa = true ∧ ∃ b, o = .result b
  | .notServerResponse => o = .result false
  | .f5ResponseIncomplete => s.sa = false ∧ o = .result true ∧ gotReply s ex = false
  | .probeOutcomeForCall => s.sa = false ∧ o = .ok
  | .replyNotCompleted => gotReply s ex = true ∧ (∀ b, o ≠ .result b) ∧ o ≠ .ok ∧ o ≠ .hang ∧ o ≠ .decode ∧ o ≠ .malformed
  | .syntheticNoCall => s.sa = true ∧ o = .synthetic
  | .f18Synthetic => o = .synthetic ∧ cursorOf s ex ≠ []
  | .exceededEarly => o = .exceeded ∧ ¬ fruitlessOf s ex > s.mr
  | .reconnectEarly => o = .reconnect ∧ ¬ (s.mr = 0 ∨ trailingTerr ex ≥ s.mr)
  | .sessionMissingNo404 => o = .sessionMissing ∧ lastIsStatus ex sessionGoneStatus = false
  | .statusNotReturned => ∃ c, o = .st (some c) ∧ lastIsStatus ex c = false
  | .unclassified => o = .st none
  | .unexpectedError => o = .other
  | .ctxLive => o = .ctx ∧ ce = false
  | _ => False

omit [BEq L] [LawfulBEq L] in
theorem end_fires (s : Scn L) (ex : List Exch) (ce : Bool) (o : EndObs) (c : Clause)
    (h : monEnd s ex ce o = some c) : EndFires s ex ce o c := by
  cases o with
  | hang => simp [monEnd] at h; subst h; rfl
  | decode => simp [monEnd] at h; subst h; rfl
  | malformed => simp [monEnd] at h; subst h; rfl
  | result b =>
    simp only [monEnd] at h
    split at h
    · cases h; rename_i hs; exact ⟨hs, b, rfl⟩
    · rename_i hs
      split at h
      · cases h; rename_i hb; simp at hb; subst hb; rfl
      · rename_i hb
        split at h
        · cases h; rename_i hg
          simp at hb hg
          exact ⟨by simpa using hs, by rw [hb], hg⟩
        · cases h
  | ok =>
    simp only [monEnd] at h
    split at h
    · cases h
    · cases h; rename_i hs; exact ⟨by simpa using hs, rfl⟩
  | synthetic =>
    simp only [monEnd] at h
    split at h
    · cases h; rename_i hg; exact ⟨hg, by simp⟩
    · split at h
      · cases h; rename_i hs; exact ⟨hs, rfl⟩
      · split at h
        · cases h; rename_i hc; exact ⟨rfl, by simpa using hc⟩
        · cases h
  | exceeded =>
    simp only [monEnd] at h
    split at h
    · cases h; rename_i hg; exact ⟨hg, by simp⟩
    · split at h
      · cases h
      · cases h; rename_i hc; exact ⟨rfl, hc⟩
  | reconnect =>
    simp only [monEnd] at h
    split at h
    · cases h; rename_i hg; exact ⟨hg, by simp⟩
    · split at h
      · cases h
      · cases h; rename_i hc; exact ⟨rfl, hc⟩
  | sessionMissing =>
    simp only [monEnd] at h
    split at h
    · cases h; rename_i hg; exact ⟨hg, by simp⟩
    · split at h
      · cases h
      · cases h; rename_i hc; exact ⟨rfl, by simpa using hc⟩
  | st oc =>
    simp only [monEnd] at h
    split at h
    · cases h; rename_i hg; exact ⟨hg, by simp⟩
    · cases oc with
      | none => simp at h; subst h; rfl
      | some c' =>
        simp only at h
        split at h
        · cases h
        · cases h; rename_i hc; exact ⟨c', rfl, by simpa using hc⟩
  | ctx =>
    simp only [monEnd] at h
    split at h
    · cases h; rename_i hg; exact ⟨hg, by simp⟩
    · split at h
      · cases h
      · cases h; rename_i hc; exact ⟨rfl, by simpa using hc⟩
  | other =>
    simp only [monEnd] at h
    split at h
    · cases h; rename_i hg; exact ⟨hg, by simp⟩
    · cases h; rfl

/-! ## soundness, clause by clause -/

section sound
variable (s : Scn L) (tr : Trace L)

/-- the monitor reports `c` for an `x` record that extends `tr`: it is a reconnect, and `c`'s firing
condition holds on the ground-truth history -/
theorem fires_x_any (r : XRec) (c : Clause) (h : (monStep s (monAfter s {} tr) (.x r)).2 = some c) :
    r.k ≠ 0 ∧ ((monAfter s {} tr).ctxEnded = true ∧ c = .afterCancel ∨
      (monAfter s {} tr).ctxEnded = false ∧ AttemptFires s (hist s tr) r.hdr r.tStart c) := by
  simp only [monStep] at h
  split at h
  · cases h
  · rename_i hk
    refine ⟨hk, ?_⟩
    split at h
    · rename_i hc; cases h; exact .inl ⟨hc, rfl⟩
    · rename_i hc
      exact .inr ⟨by simpa using hc, by rw [← monAfter_exch]; exact attempt_fires s _ _ _ c h⟩

theorem fires_x (r : XRec) (c : Clause) (h : (monStep s (monAfter s {} tr) (.x r)).2 = some c) (hne : c ≠ .afterCancel) :
    r.k ≠ 0 ∧ AttemptFires s (hist s tr) r.hdr r.tStart c := by
  obtain ⟨hk, h⟩ := fires_x_any s tr r c h
  rcases h with ⟨_, hc⟩ | ⟨_, hf⟩
  · exact absurd hc hne
  · exact ⟨hk, hf⟩

theorem fires_delivered (ls : List L) (c : Clause) (h : (monStep s (monAfter s {} tr) (.delivered ls)).2 = some c) :
    DeliveredFires s (monAfter s {} tr) ls c := delivered_fires s _ ls c h

theorem fires_fin (o : EndObs) (c : Clause) (h : (monStep s (monAfter s {} tr) (.fin o)).2 = some c) :
    EndFires s (hist s tr) (monAfter s {} tr).ctxEnded o c := by
  rw [← monAfter_exch]; exact end_fires s _ _ o c h

/-- position `tr.length` of `tr ++ [r]` -/
theorem at_len (r : Rec L) : (tr ++ [r])[tr.length]? = some r ∧ histAt s (tr ++ [r]) tr.length = hist s tr :=
  ⟨get_snoc_len _ _, histAt_snoc_len s tr r⟩

theorem sound_f18NoHeader (r : XRec) (h : (monStep s (monAfter s {} tr) (.x r)).2 = some .f18NoHeader) :
    ¬ P_f18NoHeader s (tr ++ [.x r]) ∧ ¬ P_lastId s (tr ++ [.x r]) := by
  obtain ⟨hk, hn, hc⟩ := fires_x s tr r _ h nofun
  obtain ⟨hi, hh⟩ := at_len s tr (.x r)
  have h1 : ¬ P_f18NoHeader s (tr ++ [.x r]) := fun hP =>
    hP tr.length r hi hk (by unfold cursorAtRec; rw [hh]; exact hc) hn
  exact ⟨h1, fun hP => h1 (P_lastId_f18 s _ hP)⟩

theorem sound_f5UnknownId (r : XRec) (h : (monStep s (monAfter s {} tr) (.x r)).2 = some .f5UnknownId) :
    ¬ P_f5UnknownId s (tr ++ [.x r]) := by
  obtain ⟨hk, hd, hhd, hf⟩ := fires_x s tr r _ h nofun
  obtain ⟨hi, _⟩ := at_len s tr (.x r)
  intro hP
  obtain ⟨it, hit, hraw, hid⟩ := hP tr.length r hd hi hk hhd
  rw [List.findIdx?_eq_none_iff] at hf
  have := hf it hit
  simp [hraw, hid] at this

theorem sound_notLast (r : XRec) (h : (monStep s (monAfter s {} tr) (.x r)).2 = some .notLast) :
    ¬ P_lastId s (tr ++ [.x r]) := by
  obtain ⟨hk, hne⟩ := fires_x s tr r _ h nofun
  obtain ⟨hi, hh⟩ := at_len s tr (.x r)
  intro hP
  apply hne
  have := hP tr.length r hi hk
  unfold cursorAtRec at this
  rw [hh] at this
  exact this

theorem sound_f5IncompleteId (r : XRec) (h : (monStep s (monAfter s {} tr) (.x r)).2 = some .f5IncompleteId) :
    ¬ P_f5IncompleteId s (tr ++ [.x r]) := by
  obtain ⟨hk, hd, j, hhd, hf, hnj⟩ := fires_x s tr r _ h nofun
  obtain ⟨hi, hh⟩ := at_len s tr (.x r)
  intro hP
  obtain ⟨j', hf', hj'⟩ := hP tr.length r hd hi hk hhd
  rw [hf] at hf'
  cases hf'
  rw [hh] at hj'
  exact hnj hj'

theorem sound_unresumableReconnect (r : XRec)
    (h : (monStep s (monAfter s {} tr) (.x r)).2 = some .unresumableReconnect) :
    ¬ P_unresumableReconnect s (tr ++ [.x r]) := by
  obtain ⟨hk, hsa, hc⟩ := fires_x s tr r _ h nofun
  obtain ⟨hi, hh⟩ := at_len s tr (.x r)
  intro hP
  apply hP tr.length r hi hk hsa
  unfold cursorAtRec; rw [hh]; exact hc

theorem sound_afterStatus (r : XRec) (h : (monStep s (monAfter s {} tr) (.x r)).2 = some .afterStatus) :
    ¬ P_afterStatus s (tr ++ [.x r]) := by
  obtain ⟨hk, hc⟩ := fires_x s tr r _ h nofun
  obtain ⟨hi, hh⟩ := at_len s tr (.x r)
  intro hP
  have := hP tr.length r hi hk
  rw [hh, hc] at this
  cases this

theorem sound_fruitlessExceeded (r : XRec) (h : (monStep s (monAfter s {} tr) (.x r)).2 = some .fruitlessExceeded) :
    ¬ P_fruitlessExceeded s (tr ++ [.x r]) := by
  obtain ⟨hk, hc⟩ := fires_x s tr r _ h nofun
  obtain ⟨hi, hh⟩ := at_len s tr (.x r)
  intro hP
  have := hP tr.length r hi hk
  rw [hh] at this
  exact Nat.lt_irrefl _ (Nat.lt_of_lt_of_le hc this)

theorem sound_connectExceeded (r : XRec) (h : (monStep s (monAfter s {} tr) (.x r)).2 = some .connectExceeded) :
    ¬ P_connectExceeded s (tr ++ [.x r]) := by
  obtain ⟨hk, hc⟩ := fires_x s tr r _ h nofun
  obtain ⟨hi, hh⟩ := at_len s tr (.x r)
  intro hP
  have := hP tr.length r hi hk
  rw [hh] at this
  exact Nat.lt_irrefl _ (Nat.lt_of_lt_of_le this hc)

theorem sound_delay (r : XRec) (d lo hi attempt : Nat) (hint : Int)
    (h : (monStep s (monAfter s {} tr) (.x r)).2 = some (.delay d lo hi attempt hint)) :
    ¬ P_delay s (tr ++ [.x r]) := by
  obtain ⟨hk, hd, hw, hc⟩ := fires_x s tr r _ h nofun
  obtain ⟨hi', hh⟩ := at_len s tr (.x r)
  intro hP
  have := hP tr.length r hi' hk
  simp only [hh] at this
  rw [← hw, ← hd] at this
  simp only at this
  omega

theorem sound_afterCancel (r : XRec) (h : (monStep s (monAfter s {} tr) (.x r)).2 = some .afterCancel) :
    ¬ P_afterCancel s (tr ++ [.x r]) := by
  obtain ⟨hk, h⟩ := fires_x_any s tr r _ h
  rcases h with ⟨hc, _⟩ | ⟨_, hf⟩
  · intro hP
    have := hP tr.length r (get_snoc_len _ _) hk
    rw [take_snoc_len] at this
    exact this (ctx_of_flag s tr hc)
  · exact hf.elim

theorem sound_foreign (ls : List L) (h : (monStep s (monAfter s {} tr) (.delivered ls)).2 = some .foreign) :
    ¬ P_foreign s (tr ++ [.delivered ls]) := by
  obtain ⟨l, hl, hn⟩ := fires_delivered s tr ls _ h
  intro hP
  exact hn (hP tr.length ls (get_snoc_len _ _) l hl)

theorem sound_dupOrOrder (ls : List L) (h : (monStep s (monAfter s {} tr) (.delivered ls)).2 = some .dupOrOrder) :
    ¬ P_dupOrOrder s (tr ++ [.delivered ls]) := by
  have hn := fires_delivered s tr ls _ h
  intro hP
  exact hn (hP tr.length ls (get_snoc_len _ _))

theorem sound_f5Truncated (ls : List L) (h : (monStep s (monAfter s {} tr) (.delivered ls)).2 = some .f5Truncated) :
    ¬ P_f5Truncated s (tr ++ [.delivered ls]) := by
  obtain ⟨l, hl, hn⟩ := fires_delivered s tr ls _ h
  intro hP
  apply hn
  have := hP tr.length ls (get_snoc_len _ _) l hl
  rw [histAt_snoc_len, ← monAfter_exch] at this
  exact this

theorem sound_missing (ls : List L) (h : (monStep s (monAfter s {} tr) (.delivered ls)).2 = some .missing) :
    ¬ P_missing s (tr ++ [.delivered ls]) := by
  obtain ⟨l, hl, hn⟩ := fires_delivered s tr ls _ h
  intro hP
  apply hn
  apply hP tr.length ls (get_snoc_len _ _) l
  rw [histAt_snoc_len, ← monAfter_exch]
  exact hl

theorem sound_f18Lost (ls : List L) (h : (monStep s (monAfter s {} tr) (.delivered ls)).2 = some .f18Lost) :
    ¬ P_f18Lost s (tr ++ [.delivered ls]) := by
  obtain ⟨hg, hl⟩ := fires_delivered s tr ls _ h
  intro hP
  have := hP tr.length ls (get_snoc_len _ _) hg
  rw [take_snoc_len] at this
  exact this (lost_of_flag s tr hl)

theorem sound_f5Lost (ls : List L) (h : (monStep s (monAfter s {} tr) (.delivered ls)).2 = some .f5Lost) :
    ¬ P_f5Lost s (tr ++ [.delivered ls]) := by
  obtain ⟨hg, hl⟩ := fires_delivered s tr ls _ h
  intro hP
  have := hP tr.length ls (get_snoc_len _ _) hg
  rw [take_snoc_len] at this
  exact this (wrong_of_flag s tr hl)

/-- what an `EndP` property says about the record that extends `tr` -/
theorem endP_at (o : EndObs) (p : EndObs → List Exch → Prop) (hP : EndP s (tr ++ [.fin o]) p) : p o (hist s tr) := by
  have := hP tr.length o (get_snoc_len _ _)
  rwa [histAt_snoc_len] at this

theorem sound_hang (o : EndObs) (h : (monStep s (monAfter s {} tr) (.fin o)).2 = some .hang) :
    ¬ P_hang s (tr ++ [.fin o]) := fun hP => endP_at s tr o _ hP (fires_fin s tr o _ h)

theorem sound_f5Decode (o : EndObs) (h : (monStep s (monAfter s {} tr) (.fin o)).2 = some .f5Decode) :
    ¬ P_f5Decode s (tr ++ [.fin o]) := fun hP => endP_at s tr o _ hP (fires_fin s tr o _ h)

theorem sound_f5Malformed (o : EndObs) (h : (monStep s (monAfter s {} tr) (.fin o)).2 = some .f5Malformed) :
    ¬ P_f5Malformed s (tr ++ [.fin o]) := fun hP => endP_at s tr o _ hP (fires_fin s tr o _ h)

theorem sound_probeResult (o : EndObs) (h : (monStep s (monAfter s {} tr) (.fin o)).2 = some .probeResult) :
    ¬ P_probeResult s (tr ++ [.fin o]) := by
  obtain ⟨hsa, b, hb⟩ := fires_fin s tr o _ h
  exact fun hP => endP_at s tr o _ hP hsa b hb

theorem sound_notServerResponse (o : EndObs) (h : (monStep s (monAfter s {} tr) (.fin o)).2 = some .notServerResponse) :
    ¬ P_notServerResponse s (tr ++ [.fin o]) := by
  have hb := fires_fin s tr o _ h
  intro hP
  have := endP_at s tr o _ hP false hb
  cases this

theorem sound_f5ResponseIncomplete (o : EndObs)
    (h : (monStep s (monAfter s {} tr) (.fin o)).2 = some .f5ResponseIncomplete) :
    ¬ P_f5ResponseIncomplete s (tr ++ [.fin o]) := by
  obtain ⟨hsa, ho, hg⟩ := fires_fin s tr o _ h
  intro hP
  have := endP_at s tr o _ hP hsa ho
  rw [hg] at this
  cases this

theorem sound_probeOutcomeForCall (o : EndObs)
    (h : (monStep s (monAfter s {} tr) (.fin o)).2 = some .probeOutcomeForCall) :
    ¬ P_probeOutcomeForCall s (tr ++ [.fin o]) := by
  obtain ⟨hsa, ho⟩ := fires_fin s tr o _ h
  exact fun hP => endP_at s tr o _ hP hsa ho

theorem sound_replyNotCompleted (o : EndObs)
    (h : (monStep s (monAfter s {} tr) (.fin o)).2 = some .replyNotCompleted) :
    ¬ P_replyNotCompleted s (tr ++ [.fin o]) := by
  obtain ⟨hg, h1, h2, h3, h4, h5⟩ := fires_fin s tr o _ h
  intro hP
  rcases endP_at s tr o _ hP hg with ⟨b, hb⟩ | hb | hb | hb | hb
  · exact h1 b hb
  · exact h2 hb
  · exact h3 hb
  · exact h4 hb
  · exact h5 hb

theorem sound_syntheticNoCall (o : EndObs) (h : (monStep s (monAfter s {} tr) (.fin o)).2 = some .syntheticNoCall) :
    ¬ P_syntheticNoCall s (tr ++ [.fin o]) := by
  obtain ⟨hsa, ho⟩ := fires_fin s tr o _ h
  intro hP
  have := endP_at s tr o _ hP ho
  rw [hsa] at this
  cases this

theorem sound_f18Synthetic (o : EndObs) (h : (monStep s (monAfter s {} tr) (.fin o)).2 = some .f18Synthetic) :
    ¬ P_f18Synthetic s (tr ++ [.fin o]) := by
  obtain ⟨ho, hc⟩ := fires_fin s tr o _ h
  exact fun hP => hc (endP_at s tr o _ hP ho)

theorem sound_exceededEarly (o : EndObs) (h : (monStep s (monAfter s {} tr) (.fin o)).2 = some .exceededEarly) :
    ¬ P_exceededEarly s (tr ++ [.fin o]) := by
  obtain ⟨ho, hc⟩ := fires_fin s tr o _ h
  exact fun hP => hc (endP_at s tr o _ hP ho)

theorem sound_reconnectEarly (o : EndObs) (h : (monStep s (monAfter s {} tr) (.fin o)).2 = some .reconnectEarly) :
    ¬ P_reconnectEarly s (tr ++ [.fin o]) := by
  obtain ⟨ho, hc⟩ := fires_fin s tr o _ h
  exact fun hP => hc (endP_at s tr o _ hP ho)

theorem sound_sessionMissingNo404 (o : EndObs)
    (h : (monStep s (monAfter s {} tr) (.fin o)).2 = some .sessionMissingNo404) :
    ¬ P_sessionMissingNo404 s (tr ++ [.fin o]) := by
  obtain ⟨ho, hc⟩ := fires_fin s tr o _ h
  intro hP
  have := endP_at s tr o _ hP ho
  rw [hc] at this
  cases this

theorem sound_statusNotReturned (o : EndObs)
    (h : (monStep s (monAfter s {} tr) (.fin o)).2 = some .statusNotReturned) :
    ¬ P_statusNotReturned s (tr ++ [.fin o]) := by
  obtain ⟨c, ho, hc⟩ := fires_fin s tr o _ h
  intro hP
  have := endP_at s tr o _ hP c ho
  rw [hc] at this
  cases this

theorem sound_unclassified (o : EndObs) (h : (monStep s (monAfter s {} tr) (.fin o)).2 = some .unclassified) :
    ¬ P_unclassified s (tr ++ [.fin o]) := fun hP => endP_at s tr o _ hP (fires_fin s tr o _ h)

theorem sound_unexpectedError (o : EndObs) (h : (monStep s (monAfter s {} tr) (.fin o)).2 = some .unexpectedError) :
    ¬ P_unexpectedError s (tr ++ [.fin o]) := fun hP => endP_at s tr o _ hP (fires_fin s tr o _ h)

theorem sound_ctxLive (o : EndObs) (h : (monStep s (monAfter s {} tr) (.fin o)).2 = some .ctxLive) :
    ¬ P_ctxLive s (tr ++ [.fin o]) := by
  obtain ⟨ho, hc⟩ := fires_fin s tr o _ h
  subst ho
  intro hP
  have := hP tr.length (get_snoc_len _ _)
  rw [take_snoc_len] at this
  exact flag_of_noctx s tr hc this

theorem sound_leak (b : Bool) (h : (monStep s (monAfter s {} tr) (.leak b)).2 = some .leak) :
    ¬ P_leak s (tr ++ [.leak b]) := by
  intro hP
  have := hP tr.length b (get_snoc_len _ _)
  subst this
  simp [monStep] at h

/-- every clause is reported by the record kind it belongs to, and by no other -/
theorem clause_kinds (r : Rec L) (c : Clause) (h : (monStep s (monAfter s {} tr) r).2 = some c) :
    match r with
    | .x x => x.k ≠ 0 ∧ (CtxEnded tr ∧ c = .afterCancel ∨ ¬ CtxEnded tr ∧ AttemptFires s (hist s tr) x.hdr x.tStart c)
    | .cancel _ => False
    | .delivered ls => DeliveredFires s (monAfter s {} tr) ls c
    | .fin o => EndFires s (hist s tr) (monAfter s {} tr).ctxEnded o c
    | .leak b => b = true ∧ c = .leak := by
  cases r with
  | x x =>
    obtain ⟨hk, h⟩ := fires_x_any s tr x c h
    refine ⟨hk, ?_⟩
    rcases h with ⟨hc, he⟩ | ⟨hc, hf⟩
    · exact .inl ⟨ctx_of_flag s tr hc, he⟩
    · exact .inr ⟨flag_of_noctx s tr hc, hf⟩
  | cancel t => simp [monStep] at h
  | delivered ls => exact fires_delivered s tr ls c h
  | fin o => exact fires_fin s tr o c h
  | leak b =>
    simp only [monStep] at h
    split at h
    · cases h; rename_i hb; exact ⟨hb, rfl⟩
    · cases h

end sound

/-! ## non-vacuity: every clause can be reported

One trace per clause on which the monitor reports it (the hypothesis of the `sound_…` theorem).
`exScn`: a call stream, events "1" (notification 1, 16 bytes) and "22" (the response, 17 bytes),
budget 2; `exScnSa`, `exScn3`: standalone streams. -/

/-- exchange 0: the first `c` bytes of the stream, then a read error, over at 1000 µs -/
def x0 (c : Nat) : Rec Nat := .x { k := 0, kind := .ok c .err, from_ := some 0, tStart := 0, tEnd := 1000, hdr := none }
/-- a reconnect attempt that went out at `t` µs -/
def xk (k : Nat) (kind : AKind) (f : Option Nat) (t : Nat) (hdr : Option Bytes) : Rec Nat :=
  .x { k := k, kind := kind, from_ := f, tStart := t, tEnd := t, hdr := hdr }

/-- the clause reported for `r` after `tr` -/
def fired (s : Scn Nat) (tr : Trace Nat) (r : Rec Nat) : Option Clause := (monStep s (monAfter s {} tr) r).2

example : fired exScn [x0 16] (xk 1 (.terr {}) none 1501000 none) = some .f18NoHeader := by decide
example : fired exScn [x0 16] (xk 1 (.terr {}) none 1501000 (some [50])) = some .f5UnknownId := by decide
example : fired exScn [x0 33] (xk 1 (.terr {}) none 1501000 (some [49])) = some .notLast := by decide
example : fired exScn [x0 16] (xk 1 (.terr {}) none 1501000 (some [50, 50])) = some .f5IncompleteId := by decide
example : fired exScn [x0 10] (xk 1 (.terr {}) none 1501000 none) = some .unresumableReconnect := by decide
example : fired exScn [x0 16, xk 1 (.st 503) none 1501000 (some [49])] (xk 2 (.terr {}) none 3001000 (some [49])) =
    some .afterStatus := by decide
example : fired exScn [x0 16, xk 1 (.ok 0 .eof) (some 1) 1501000 (some [49]), xk 2 (.ok 0 .eof) (some 1) 3001000 (some [49]),
    xk 3 (.ok 0 .eof) (some 1) 4501000 (some [49])] (xk 4 (.terr {}) none 6001000 (some [49])) = some .fruitlessExceeded := by decide
example : fired exScn [x0 16, xk 1 (.terr {}) none 1501000 (some [49]), xk 2 (.terr {}) none 3501000 (some [49])]
    (xk 3 (.terr {}) none 7001000 (some [49])) = some .connectExceeded := by decide
example : fired exScn [x0 16] (xk 1 (.terr {}) none 1010 (some [49])) =
    some (.delay 10000 1000000000 2000000000 1 0) := by decide
example : fired exScn [x0 16, xk 1 .ctx none 1501000 (some [49])] (xk 2 (.ok 100 .eof) (some 1) 3501000 (some [49])) =
    some .afterCancel := by decide
example : fired exScn [x0 16, .cancel 2000] (xk 1 (.terr { isDeadline := true }) none 1501000 (some [49])) =
    some .afterCancel := by decide
example : fired exScn [x0 16] (.delivered [7]) = some .foreign := by decide
example : fired exScn [x0 16] (.delivered [1, 1]) = some .dupOrOrder := by decide
example : fired exScnSa [x0 8] (.delivered [1]) = some .f5Truncated := by decide
example : fired exScn [x0 16] (.delivered []) = some .missing := by decide
example : fired exScn3 [x0 20, xk 1 (.ok 100 .open) (some 2) 1501000 none] (.delivered [1, 3]) = some .f18Lost := by decide
example : fired exScn3 [x0 16, xk 1 (.ok 100 .open) (some 2) 1501000 (some [50, 50])] (.delivered [1, 3]) =
    some .f5Lost := by decide
example : fired exScn [x0 16] (.fin .hang) = some .hang := by decide
example : fired exScn [x0 16] (.fin .decode) = some .f5Decode := by decide
example : fired exScn [x0 16] (.fin .malformed) = some .f5Malformed := by decide
example : fired exScnSa [x0 8] (.fin (.result true)) = some .probeResult := by decide
example : fired exScn [x0 16] (.fin (.result false)) = some .notServerResponse := by decide
example : fired exScn [x0 16] (.fin (.result true)) = some .f5ResponseIncomplete := by decide
example : fired exScn [x0 16] (.fin .ok) = some .probeOutcomeForCall := by decide
example : fired exScn [x0 33] (.fin .synthetic) = some .replyNotCompleted := by decide
example : fired exScnSa [x0 8] (.fin .synthetic) = some .syntheticNoCall := by decide
example : fired exScn [x0 16] (.fin .synthetic) = some .f18Synthetic := by decide
example : fired exScn [x0 16] (.fin .exceeded) = some .exceededEarly := by decide
example : fired exScn [x0 16] (.fin .reconnect) = some .reconnectEarly := by decide
example : fired exScn [x0 16] (.fin .sessionMissing) = some .sessionMissingNo404 := by decide
example : fired exScn [x0 16] (.fin (.st (some 503))) = some .statusNotReturned := by decide
example : fired exScn [x0 16] (.fin (.st none)) = some .unclassified := by decide
example : fired exScn [x0 16] (.fin .other) = some .unexpectedError := by decide
example : fired exScn [x0 16] (.fin .ctx) = some .ctxLive := by decide
example : fired exScn [x0 16, .cancel 2000] (.fin .ctx) = none := by decide
example : fired exScn [x0 16, .cancel 2000] (.fin .hang) = some .hang := by decide
example : fired exScn [x0 16] (.leak true) = some .leak := by decide

/-- … and the predicates are not trivially false: they hold on the empty trace and, e.g., `P_lastId`
on a trace with a correct resume request -/
example : P_lastId exScn [x0 16, xk 1 (.terr {}) none 1501000 (some [49])] := by
  intro i r hi hk
  match i, hi with
  | 0, hi => simp [x0] at hi; subst hi; exact absurd rfl hk
  | 1, hi => simp [xk] at hi; subst hi; decide
  | n + 2, hi => simp at hi

end ClientStream
